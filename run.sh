#!/bin/bash
# usage: run.sh <Cnn> <quick|thorough> [--replay <path>]
# Rebuilds the checker if its sources are newer than the binary, then decides
# the property on /repo's current working tree. Exit 0 = held; 1 = VIOLATION.
set -u
cd "$(dirname "$0")"
VERIF="$(pwd)"
REPO="${VERIF_REPO:-/repo}"
unset GOWORK
export GOFLAGS=-mod=mod GOPROXY=off GOSUMDB=off GOTOOLCHAIN=local
BIN="$VERIF/bin/verifcheck"
need=0
if [ ! -x "$BIN" ]; then need=1; else
  if [ -n "$(find "$VERIF/checker" -name '*.go' -newer "$BIN" -print -quit)" ]; then need=1; fi
fi
if [ "$need" = 1 ]; then
  mkdir -p "$VERIF/bin"
  (cd "$VERIF/checker" && go build -o "$BIN.$$" . && mv "$BIN.$$" "$BIN") || { echo "VIOLATION property=$1 replay=/dev/null (checker build failed)"; exit 1; }
fi
prop="$1"; tier="${2:-${VERIF_TIER:-quick}}"; shift; shift || true
exec "$BIN" -repo "$REPO" -verif "$VERIF" -property "$prop" -tier "$tier" "$@"
