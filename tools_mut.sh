#!/bin/bash
# Development tool: apply a one-off edit (python expression on file text) in a
# scratch worktree, build, run a check against it, and drop the worktree.
# usage: tools_mut.sh <Cnn> <file> <old> <new> [tier]
set -u
export GOFLAGS=-mod=mod GOPROXY=off GOSUMDB=off GOTOOLCHAIN=local; unset GOWORK
prop="$1"; file="$2"; old="$3"; new="$4"; tier="${5:-quick}"
wt="/tmp/wt-mut-$$"; ev="/tmp/ev-mut-$$"; mkdir -p "$ev"
git -C /repo worktree add -q --detach "$wt" HEAD || exit 2
trap 'git -C /repo worktree remove --force "$wt" >/dev/null 2>&1; rm -rf "$ev"' EXIT
python3 - "$wt/$file" "$old" "$new" <<'PY' || exit 2
import sys
p,old,new=sys.argv[1:4]
s=open(p).read()
if old not in s: sys.exit("old text not found")
open(p,'w').write(s.replace(old,new,1))
PY
(cd "$wt" && go build ./... ) || { echo "MUTANT DOES NOT BUILD"; exit 2; }
cd /verif; VERIF_EVIDENCE_DIR="$ev" ${VC:-./bin/verifcheck} -repo "$wt" -verif /verif -property "$prop" -tier "$tier" 2>&1 | grep -E "VIOLATED|UNDECIDED|^OK|VIOLATION" | cut -c1-420 | head -8
