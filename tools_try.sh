#!/bin/bash
# Development tool: run one check against a scratch worktree with a patch applied.
# usage: tools_try.sh <patch.diff> <Cnn> [tier]
set -u
export GOFLAGS=-mod=mod GOPROXY=off GOSUMDB=off GOTOOLCHAIN=local; unset GOWORK
patch="$(readlink -f "$1")"; prop="$2"; tier="${3:-quick}"
wt="/tmp/wt-try-$$"; ev="/tmp/ev-try-$$"; mkdir -p "$ev"
git -C /repo worktree add -q --detach "$wt" HEAD || exit 2
trap 'git -C /repo worktree remove --force "$wt" >/dev/null 2>&1; rm -rf "$ev"' EXIT
git -C "$wt" apply "$patch" || { echo "patch does not apply"; exit 2; }
cd /verif; VERIF_EVIDENCE_DIR="$ev" ${VC:-./bin/verifcheck} -repo "$wt" -verif /verif -property "$prop" -tier "$tier" 2>&1 | grep -E "VIOLATED|UNDECIDED|^OK|VIOLATION" | cut -c1-420 | head -8
