#!/bin/bash
# Development tool: verify and file both deliveries of one seed agent, then drop its worktree.
# usage: tools_seedfile.sh <Cnn> [tags]
id="$1"; tags="${2:-}"
cd /verif
for k in 1 2; do
  [ -d /tmp/seed-out/$id/$k ] && ./tools_seedverify.sh /tmp/seed-out/$id/$k $id-$k $tags 2>&1 | tail -2
done
git -C /repo worktree remove --force /tmp/wt-$id 2>/dev/null
