#!/bin/bash
# Development tool: run the claimed checks that look at the packages a seeded
# change touches (quick tier; the seed's own property also thorough when quick
# is silent) against a scratch worktree of /repo HEAD with the change applied;
# write seeded/<name>/meta.json.
# usage: tools_seedone.sh <name>
set -u
export GOFLAGS=-mod=mod GOPROXY=off GOSUMDB=off GOTOOLCHAIN=local
unset GOWORK
cd /verif
VC="${VC:-./bin/verifcheck}"
n="$1"; d="seeded/$n"; prop="${n%%-*}"
[ -f "$d/patch.diff" ] || { echo "$n: no patch"; exit 2; }
wt="/tmp/wt-seed-$n-$$"; ev="/tmp/ev-seed-$n-$$"; mkdir -p "$ev"
git -C /repo worktree add -q --detach "$wt" HEAD || exit 2
trap 'git -C /repo worktree remove --force "$wt" >/dev/null 2>&1; rm -rf "$ev"' EXIT
if ! git -C "$wt" apply "/verif/$d/patch.diff" 2>/dev/null; then echo "$n: patch does not apply"; exit 1; fi
dirs=$(grep '^+++ b/' "$d/patch.diff" | sed 's|^+++ b/||' | xargs -n1 dirname | sort -u)
# properties whose quick patterns cover a touched directory (plus the seed's own)
sel="$prop"
while read -r id pats; do
  for pat in $pats; do
    p="${pat#./}"
    for dir in $dirs; do
      case "$p" in
        *...) base="${p%/...}"; case "$dir/" in "$base"/*) sel="$sel $id";; esac;;
        *) [ "$p" = "$dir" ] && sel="$sel $id";;
      esac
    done
  done
done < <("$VC" -list-quick)
# MATRIX_OWN_ONLY=1: run only the seed's own property (results for other properties are kept from the previous meta.json)
[ "${MATRIX_OWN_ONLY:-0}" = 1 ] && sel="$prop"
sel=$(echo $sel | tr ' ' '\n' | sort -u | tr '\n' ' ')
claimed=$("$VC" -list | tr '\n' ' ')
caught=""; report=""
for p in $sel; do
  echo " $claimed " | grep -q " $p " || continue
  out=$(VERIF_EVIDENCE_DIR="$ev" "$VC" -repo "$wt" -verif /verif -property "$p" -tier quick 2>&1); rc=$?
  tier=quick
  if [ $rc -eq 0 ] && [ "$p" = "$prop" ]; then
    out=$(VERIF_EVIDENCE_DIR="$ev" "$VC" -repo "$wt" -verif /verif -property "$p" -tier thorough 2>&1); rc=$?; tier=thorough
  fi
  if [ $rc -ne 0 ]; then caught="$caught $p($tier)"; report="$report$(echo "$out" | grep -E "VIOLATED|UNDECIDED" | head -2 | cut -c1-300 | sed "s/^/[$p] /")
"; fi
done
own="not-claimed"
if echo " $claimed " | grep -q " $prop "; then own="missed"; echo "$caught" | grep -q "$prop(" && own="caught"; fi
echo "$n: own=$own by:${caught:- none} (ran: $sel)"
python3 - "$d" "$prop" "$own" "$caught" "$report" "$sel" <<'PY'
import json,sys,os
d,prop,own,caught,report,sel=sys.argv[1:7]
a=json.load(open(os.path.join(d,'meta.agent.json')))
m={"property":prop,"breaks":a.get("summary",""),"needs_to_manifest":a.get("needs_to_manifest",""),
   "files_changed":a.get("files_changed",[]),
   "confirmed_by":"tools_seedverify.sh in a scratch worktree of /repo HEAD: patch applies, go build ./... ok, full suite passes with the patch, demonstration fails with the patch and passes without it (demo placed at %s)"%open(os.path.join(d,'demo_dest.txt')).read().strip(),
   "checks_run":sel.split(),"own_property_check":own,"caught_by":caught.split(),"check_report":report.strip().split("\n") if report.strip() else []}
if os.environ.get('MATRIX_OWN_ONLY')=='1' and os.path.exists(os.path.join(d,'meta.json')):
    try:
        o=json.load(open(os.path.join(d,'meta.json')))
        keep=[c for c in o.get('caught_by',[]) if not c.startswith(prop+'(')]
        m['caught_by']=m['caught_by']+[c for c in keep if c not in m['caught_by']]
        m['checks_run']=sorted(set(m['checks_run'])|set(o.get('checks_run',[])))
        m['check_report']=m['check_report']+[l for l in o.get('check_report',[]) if not l.startswith('['+prop+']')]
    except Exception: pass
with open(os.path.join(d,'meta.json'),'w') as f:
    json.dump(m,f,indent=1); f.write("\n")
PY
