package main

import (
	"go/ast"
	"go/token"
	"go/types"
	"strings"
)

var jsonTextDecoderPkgs = []string{"encoding/protojson", "encoding/prototext", "internal/encoding/json", "internal/encoding/text"}

func recursionExtrasJSONText() []edgeGuard {
	return []edgeGuard{
		guardConsumeGroupPayload,
		guardDominatedByCall("dominated by the findTypeURL pre-scan, which walks the whole remaining object through skipJSONValue and thereby enforces the recursion limit on everything nested in it (R-STACK-DEPTH)", "encoding/protojson.findTypeURL"),
		guardTailSelfCallOnCond("tail call taken only when the token just validated is a comma; a comma after a comma is rejected by the `case comma` arm, so the depth is at most 2", func(info *types.Info, core ast.Expr) bool {
			be, ok := core.(*ast.BinaryExpr)
			if !ok || be.Op != token.EQL {
				return false
			}
			o := objOf(info, be.Y)
			return o != nil && qualObj(o) == "internal/encoding/json.comma" && strings.HasSuffix(exprStr(be.X), "lastToken.kind")
		}),
	}
}

func init() {
	register(&Property{
		ID:         "C26",
		Level:      "other",
		Technique:  "call-graph SCC recursion-guard, CFG dominance of duplicate/oneof tests, error-drop discipline (static)",
		Explain:    "Decides structural necessary conditions of C26 on every instance in the JSON/text decoders: (1) every input-driven recursion cycle is cut by a call site dominated by a depth decrement-and-check (or a reviewed bounding idiom); (2) explicit-stack skipping compares its counter to the limit after each push; (3) the singular-field write in both unmarshalMessage functions is dominated by the duplicate-field and oneof rejections and the seen sets are updated; (4) no decoder-method error is dropped; (5) set.Ints splits at 64 consistently; (6) the JSON tokenizer's sequencing switch accepts exactly the JSON follow relation in every state (so structurally malformed documents are rejected, not skipped). The text number scanner is shown by the same abstract interpretation (length interval and look-ahead sets, mode flags tracked exactly, helper skips treated as arbitrary) never to index or re-slice beyond the established length (R-SCAN-TEXT-NUMBER-BOUNDS). Also: E7 in bounds-only mode on protojson.parseDuration and json.parseNumber (every index/slice is covered by an established length bound, so the decoders return instead of panicking); the text decoder's Any duplicate tests are flags set on every occurrence.",
		NotCovered: "panic freedom in general (index arithmetic), and the behaviour on any concrete input: only the listed structural clauses are decided.",
		Quick:      all("./encoding/protojson", "./encoding/prototext"),
		Thorough:   all("./..."),
		Run: func(c *Ctx) {
			c.ruleAnyDupFlag("R-ANY-DUP-FLAG")
			c.ruleRecursionGuard(recScope{
				Rule:  "R-RECURSION-GUARD",
				Pkgs:  jsonTextDecoderPkgs,
				Extra: recursionExtrasJSONText(),
				Floor: 8,
			})
			c.ruleStackDepth("R-STACK-DEPTH", "encoding/protojson.decoder.skipJSONValue", "open")
			c.ruleSeenFields("R-SEEN-FIELDS", "encoding/protojson.decoder.unmarshalMessage", "encoding/protojson.decoder.unmarshalSingular", "internal/encoding/json.(*Decoder).Read")
			c.ruleSeenFields("R-SEEN-FIELDS", "encoding/prototext.decoder.unmarshalMessage", "encoding/prototext.decoder.unmarshalSingular", "internal/encoding/text.(*Decoder).Read")
			c.ruleErrDrop("R-ERR-DROP", []string{"encoding/protojson", "encoding/prototext"},
				func(key string, f *types.Func) bool {
					return strings.HasPrefix(key, "encoding/protojson.decoder.") || strings.HasPrefix(key, "encoding/prototext.decoder.") ||
						key == "encoding/protojson.findTypeURL" ||
						key == "internal/encoding/json.(*Decoder).Read" || key == "internal/encoding/text.(*Decoder).Read"
				},
				map[string]string{
					"internal/encoding/json.(*Decoder).Read": "token was already obtained by Peek/validated by a pre-scan; a failing Read does not advance, so the next Read reports the same error",
					"internal/encoding/text.(*Decoder).Read": "token was already obtained by Peek; a failing Read does not advance, so the next Read reports the same error",
				}, 40)
			c.ruleScanner("R-SCAN-TEXT-NUMBER-BOUNDS", scannerSpec{key: "internal/encoding/text.parseNumber", what: "text-format number", boundsOnly: true})
			c.ruleScanner("R-SCAN-TEXT-NUMBER-BOUNDS", scannerSpec{key: "internal/encoding/text.parseIdent", what: "text-format identifier", boundsOnly: true})
			c.ruleScanner("R-SCAN-JSON-BOUNDS", scannerSpec{key: "encoding/protojson.parseDuration", what: "Duration JSON string", boundsOnly: true})
			c.ruleScanner("R-SCAN-JSON-BOUNDS", scannerSpec{key: "internal/encoding/json.parseNumber", what: "JSON number", boundsOnly: true})
			c.ruleSetInts()
			c.ruleJSONFollow("R-JSON-FOLLOW")
		},
	})
}

// ruleSetInts: internal/set.Ints splits at 64 consistently in Has/Set/Clear.
func (c *Ctx) ruleSetInts() {
	const rule = "R-SETINTS"
	R := c.R
	R.Rule(rule, "set.Ints: Has, Set and Clear all branch on `n < 64` for the low word and use the same `1<<n` mask / map key otherwise", 3)
	for _, m := range []string{"Has", "Set", "Clear"} {
		fi := c.need(rule, "internal/set.(*Ints)."+m)
		if fi == nil {
			continue
		}
		info := fi.Info()
		okSplit := false
		walk(fi.Decl.Body, func(n ast.Node) bool {
			if is, ok := n.(*ast.IfStmt); ok {
				if be, ok := unparen(is.Cond).(*ast.BinaryExpr); ok && be.Op == token.LSS {
					if v, ok := constInt(info, be.Y); ok && v == 64 {
						okSplit = true
					}
				}
			}
			return true
		})
		R.Check(okSplit, rule, fi.Key, c.P.Pos(fi.Decl), "branches on n < 64", "does not branch on `n < 64`: low/high storage split differs from its siblings")
	}
}
