package main

import (
	"go/ast"
	"go/types"
)

// R-LIST-GET: for every list type T in the package with fields List and a
// method Get(i int), Get returns &p.List[i] / p.List[i] (the i-th element),
// and Len returns len(p.List).
func (c *Ctx) ruleListGet(rule, pkg string) {
	R, P := c.R, c.P
	R.Rule(rule, "every descriptor list type's Get(i) returns the i-th element of its List and Len() returns len(List)", 10)
	for _, fi := range P.FuncsIn(pkg) {
		if fi.Decl.Recv == nil || fi.Decl.Body == nil {
			continue
		}
		sig := fi.Obj.Type().(*types.Signature)
		rt := sig.Recv().Type()
		if pt, ok := rt.(*types.Pointer); ok {
			rt = pt.Elem()
		}
		st, ok := rt.Underlying().(*types.Struct)
		if !ok {
			continue
		}
		hasList := false
		for i := 0; i < st.NumFields(); i++ {
			if st.Field(i).Name() == "List" {
				if _, isSlice := st.Field(i).Type().Underlying().(*types.Slice); isSlice {
					hasList = true
				}
			}
		}
		if !hasList {
			continue
		}
		info := fi.Info()
		switch fi.Decl.Name.Name {
		case "Get":
			if sig.Params().Len() != 1 || len(fi.Decl.Body.List) != 1 {
				R.Unk(rule, fi.Key, P.Pos(fi.Decl), "Get is not a single return statement: idiom not recognised")
				continue
			}
			ret, ok := fi.Decl.Body.List[0].(*ast.ReturnStmt)
			good := false
			if ok && len(ret.Results) == 1 {
				e := unparen(ret.Results[0])
				if u, isU := e.(*ast.UnaryExpr); isU {
					e = unparen(u.X)
				}
				if ix, isIx := e.(*ast.IndexExpr); isIx {
					_, f, isF := fieldSel(info, ix.X)
					id, isID := unparen(ix.Index).(*ast.Ident)
					if isF && f == "List" && isID && objOf(info, id) == types.Object(sig.Params().At(0)) {
						good = true
					}
				}
			}
			R.Check(good, rule, fi.Key, P.Pos(fi.Decl), "returns List[i]", "Get(i) does not return the i-th element of List: Get(i).Index() != i")
		case "Len":
			good := false
			if len(fi.Decl.Body.List) == 1 {
				if ret, ok := fi.Decl.Body.List[0].(*ast.ReturnStmt); ok && len(ret.Results) == 1 {
					if call, ok := unparen(ret.Results[0]).(*ast.CallExpr); ok && calleeKey(info, call) == "builtin.len" && len(call.Args) == 1 {
						if _, f, isF := fieldSel(info, call.Args[0]); isF && f == "List" {
							good = true
						}
					}
				}
			}
			R.Check(good, rule, fi.Key, P.Pos(fi.Decl), "returns len(List)", "Len() does not return len(List)")
		}
	}
}
