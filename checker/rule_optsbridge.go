package main

import (
	"go/ast"
	"go/token"
	"go/types"
	"strings"
)

// R-OPTS-BRIDGE: options survive every conversion between the public option
// structs (proto.MarshalOptions / proto.UnmarshalOptions), the protoiface flag
// words and the internal option structs (impl.marshalOptions /
// impl.unmarshalOptions). The instances are derived from the declarations by
// name: for a bool field F of the public struct and a flag constant
// <Prefix>F in runtime/protoiface
//
//	(a) the public->flags function sets `|= <Prefix>F` under the true edge of o.F;
//	(b) impl.<opts>.F() tests flags against exactly <Prefix>F;
//	(c) impl.<opts>.Options() copies `F: o.F()` into the public struct.
func (c *Ctx) ruleOptsBridge(rule, side string) {
	R, P := c.R, c.P
	R.Rule(rule, "for every bool option F with a protoiface flag constant: the public→flags function sets the flag under o.F, the internal accessor F() tests exactly that flag, and internal→public Options() copies F: o.F()", 4)
	type spec struct {
		pubType, prefix, toFlagsFn, implType string
	}
	sp := spec{"MarshalOptions", "Marshal", "proto.MarshalOptions.flags", "marshalOptions"}
	if side == "unmarshal" {
		sp = spec{"UnmarshalOptions", "Unmarshal", "proto.UnmarshalOptions.unmarshal", "unmarshalOptions"}
	}
	pp, ip, fp := P.Pkg("proto"), P.Pkg("internal/impl"), P.Pkg("runtime/protoiface")
	if pp == nil || ip == nil || fp == nil {
		R.Unk(rule, side, "", "proto / internal/impl / runtime/protoiface not loaded")
		return
	}
	pub, _ := pp.Types.Scope().Lookup(sp.pubType).(*types.TypeName)
	if pub == nil {
		R.Unk(rule, side, "", sp.pubType+" not found")
		return
	}
	st, _ := pub.Type().Underlying().(*types.Struct)
	var opts []string
	for i := 0; i < st.NumFields(); i++ {
		f := st.Field(i)
		if b, ok := f.Type().Underlying().(*types.Basic); !ok || b.Kind() != types.Bool {
			continue
		}
		if _, ok := fp.Types.Scope().Lookup(sp.prefix + f.Name()).(*types.Const); ok {
			opts = append(opts, f.Name())
		}
	}
	if len(opts) == 0 {
		R.Unk(rule, side, "", "no (bool field, flag constant) pairs found for "+sp.pubType)
		return
	}
	flagOf := func(info *types.Info, e ast.Expr) string {
		o := objOf(info, e)
		if o == nil || o.Pkg() == nil || shortPkg(o.Pkg().Path()) != "runtime/protoiface" {
			return ""
		}
		return o.Name()
	}
	for _, F := range opts {
		flag := sp.prefix + F
		// (a)
		if fi := c.need(rule, sp.toFlagsFn); fi != nil {
			info := fi.Info()
			g := fi.CFG()
			var site ast.Node
			walk(fi.Decl.Body, func(n ast.Node) bool {
				if as, ok := n.(*ast.AssignStmt); ok && as.Tok == token.OR_ASSIGN && len(as.Rhs) == 1 && flagOf(info, as.Rhs[0]) == flag {
					site = as
				}
				return true
			})
			if site == nil {
				R.Bad(rule, sp.toFlagsFn+" sets "+flag, P.Pos(fi.Decl), "the option "+F+" is never translated into the "+flag+" flag: the fast path ignores it")
			} else {
				dom := g.DominatedByCond(site, func(core ast.Expr, val bool) bool {
					_, f, ok := fieldSel(info, core)
					return ok && f == F && val
				})
				R.Check(dom, rule, sp.toFlagsFn+" sets "+flag, P.Pos(site), "set under o."+F, flag+" is not set exactly under o."+F)
			}
		}
		// (b)
		acc := "internal/impl." + sp.implType + "." + F
		if fi := P.Func(acc); fi != nil {
			info := fi.Info()
			ok, other := false, ""
			walk(fi.Decl.Body, func(n ast.Node) bool {
				if be, isBE := n.(*ast.BinaryExpr); isBE && be.Op == token.AND {
					for _, e := range []ast.Expr{be.X, be.Y} {
						if fl := flagOf(info, e); fl != "" {
							if fl == flag {
								ok = true
							} else {
								other = fl
							}
						}
					}
				}
				return true
			})
			R.Check(ok && other == "", rule, acc+" tests "+flag, P.Pos(fi.Decl), "tests flags & "+flag, "accessor "+F+"() does not test exactly the "+flag+" bit (tests "+other+")")
			// (c)
			if ofi := c.need(rule, "internal/impl."+sp.implType+".Options"); ofi != nil {
				oinfo := ofi.Info()
				copied := false
				walk(ofi.Decl.Body, func(n ast.Node) bool {
					kv, isKV := n.(*ast.KeyValueExpr)
					if !isKV {
						return true
					}
					if id, isID := kv.Key.(*ast.Ident); isID && id.Name == F {
						if call, isCall := unparen(kv.Value).(*ast.CallExpr); isCall && calleeKey(oinfo, call) == acc {
							copied = true
						}
					}
					return true
				})
				R.Check(copied, rule, "internal/impl."+sp.implType+".Options copies "+F, P.Pos(ofi.Decl), F+": o."+F+"()",
					"Options() does not copy "+F+" into proto."+sp.pubType+": submessages (de)coded through the public API (message-typed extensions, messages without fast-path info) silently lose the option")
			}
		} else if !strings.HasPrefix(F, "UseCachedSize") {
			R.Unk(rule, acc, "", "internal accessor for option "+F+" not found")
		}
	}
}
