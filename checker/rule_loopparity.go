package main

import (
	"go/ast"
	"go/token"
	"go/types"
	"sort"
	"strings"
)

// R-MSG-LOOP-PARITY: the per-message loops of the size pass and of the marshal
// pass take the same decision for every field in every field state. The loop
// body is read as a decision procedure over boolean atoms (coder present,
// presence-tracked, present, lazy, pointer, slot undecoded, element nil, lazy
// pass-through allowed); it is evaluated for every assignment of the atoms and
// the outcome (skip / raw lazy bytes / encode, with or without decoding the
// lazy field first) is compared between the two functions, under a stated
// invariant table.

type loopOutcome struct {
	kind    string // "skip", "raw", "encode", "?"
	decoded bool   // lazyUnmarshal ran before the encode
}

type loopEval struct {
	info  *types.Info
	atoms map[string]bool // atom → value (current assignment)
	seen  map[string]bool // atoms encountered
	fail  string
}

func (le *loopEval) canonAtom(e ast.Expr) string {
	s := canonTyped(le.info, e)
	s = strings.ReplaceAll(s, ".funcs.size", ".funcs.X")
	s = strings.ReplaceAll(s, ".funcs.marshal", ".funcs.X")
	return s
}

func (le *loopEval) cond(e ast.Expr) bool {
	e = unparen(e)
	switch x := e.(type) {
	case *ast.UnaryExpr:
		if x.Op == token.NOT {
			return !le.cond(x.X)
		}
	case *ast.BinaryExpr:
		switch x.Op {
		case token.LAND:
			return le.cond(x.X) && le.cond(x.Y)
		case token.LOR:
			return le.cond(x.X) || le.cond(x.Y)
		case token.NEQ:
			// a != b  ≡ !(a == b)
			return !le.atom(canonTypedEq(le, x))
		case token.EQL:
			return le.atom(canonTypedEq(le, x))
		}
	}
	return le.atom(le.canonAtom(e))
}

func canonTypedEq(le *loopEval, x *ast.BinaryExpr) string {
	return le.canonAtom(x.X) + "==" + le.canonAtom(x.Y)
}

func (le *loopEval) atom(a string) bool {
	le.seen[a] = true
	return le.atoms[a]
}

// exec runs statements; returns outcome when the iteration ends (continue or encode).
func (le *loopEval) exec(stmts []ast.Stmt, st *loopOutcome) bool {
	for _, s := range stmts {
		switch x := s.(type) {
		case *ast.IfStmt:
			if x.Init != nil {
				if le.exec([]ast.Stmt{x.Init}, st) {
					return true
				}
			}
			if le.cond(x.Cond) {
				if le.exec(x.Body.List, st) {
					return true
				}
			} else if x.Else != nil {
				switch el := x.Else.(type) {
				case *ast.BlockStmt:
					if le.exec(el.List, st) {
						return true
					}
				case *ast.IfStmt:
					if le.exec([]ast.Stmt{el}, st) {
						return true
					}
				}
			}
		case *ast.BranchStmt:
			if x.Tok == token.CONTINUE {
				if st.kind == "" {
					st.kind = "skip"
				}
				return true
			}
			le.fail = "unsupported branch statement"
			return true
		case *ast.ReturnStmt:
			// error propagation after an encode: not a decision
			if st.kind == "encode" {
				return true
			}
			le.fail = "return before a decision"
			return true
		case *ast.AssignStmt, *ast.ExprStmt:
			var calls []*ast.CallExpr
			walk(x, func(n ast.Node) bool {
				if c, ok := n.(*ast.CallExpr); ok {
					calls = append(calls, c)
				}
				return true
			})
			for _, call := range calls {
				k := calleeKey(le.info, call)
				switch {
				case k == "internal/impl.(*MessageInfo).lazyUnmarshal":
					st.decoded = true
				case strings.HasSuffix(k, ").SizeField") || strings.HasSuffix(k, ").AppendField"):
					st.kind = "raw"
				default:
					if se, ok := call.Fun.(*ast.SelectorExpr); ok && (se.Sel.Name == "size" || se.Sel.Name == "marshal") {
						if _, f, isF := fieldSel(le.info, se); isF && (f == "size" || f == "marshal") {
							st.kind = "encode"
						}
					}
				}
			}
		case *ast.DeclStmt:
		default:
			le.fail = "unsupported statement " + firstLine(exprOrStmt(s))
			return true
		}
	}
	return false
}

func (c *Ctx) ruleMsgLoopParity(rule string, sizeKey, marshalKey string) {
	R, P := c.R, c.P
	R.Rule(rule, "the per-field loops of the size pass and of the marshal pass, read as decision procedures over the field-state atoms, agree on every assignment of the atoms (skip / raw lazy bytes / encode, and whether a lazy field is decoded first), under the listed invariants; both passes also handle extensions and unknown bytes", 3)
	fs, fm := c.need(rule, sizeKey), c.need(rule, marshalKey)
	if fs == nil || fm == nil {
		return
	}
	loopOf := func(fi *FuncInfo) *ast.RangeStmt {
		var out *ast.RangeStmt
		walk(fi.Decl.Body, func(n ast.Node) bool {
			if rs, ok := n.(*ast.RangeStmt); ok && out == nil && strings.HasSuffix(exprStr(rs.X), "orderedCoderFields") {
				out = rs
			}
			return true
		})
		return out
	}
	ls, lm := loopOf(fs), loopOf(fm)
	if ls == nil || lm == nil {
		R.Unk(rule, sizeKey+" ~ "+marshalKey, P.Pos(fs.Decl), "per-field loop over orderedCoderFields not found")
		return
	}
	// discover atoms with a first all-false evaluation on both sides
	discover := func(fi *FuncInfo, loop *ast.RangeStmt, assign map[string]bool) (loopOutcome, map[string]bool, string) {
		le := &loopEval{info: fi.Info(), atoms: assign, seen: map[string]bool{}}
		var out loopOutcome
		if !le.exec(loop.Body.List, &out) && out.kind == "" {
			out.kind = "?"
		}
		return out, le.seen, le.fail
	}
	all := map[string]bool{}
	// iterate to a fixpoint over assignments to collect every atom
	var atoms []string
	for round := 0; round < 6; round++ {
		before := len(all)
		n := len(atoms)
		for mask := 0; mask < 1<<uint(n); mask++ {
			as := map[string]bool{}
			for i, a := range atoms {
				as[a] = mask>>uint(i)&1 == 1
			}
			for _, side := range []struct {
				fi   *FuncInfo
				loop *ast.RangeStmt
			}{{fs, ls}, {fm, lm}} {
				_, seen, fail := discover(side.fi, side.loop, as)
				if fail != "" {
					R.Unk(rule, sizeKey+" ~ "+marshalKey, P.Pos(side.loop), "loop body outside the recognised subset: "+fail)
					return
				}
				for a := range seen {
					all[a] = true
				}
			}
		}
		atoms = atoms[:0]
		for a := range all {
			atoms = append(atoms, a)
		}
		sort.Strings(atoms)
		if len(all) == before {
			break
		}
		if len(atoms) > 12 {
			R.Unk(rule, sizeKey+" ~ "+marshalKey, P.Pos(ls), "too many field-state atoms ("+itoa(len(atoms))+")")
			return
		}
	}
	// invariants (assumptions), as predicates over an assignment
	find := func(sub ...string) string {
		for _, a := range atoms {
			ok := true
			for _, s := range sub {
				if !strings.Contains(a, s) {
					ok = false
				}
			}
			if ok {
				return a
			}
		}
		return ""
	}
	aPresent := find("Present(")
	aLazy := find(".isLazy")
	aPtr := find(".isPointer")
	aElemNil := find(".Elem().IsNil()")
	aTracked := find("presenceIndex")
	invariants := []struct {
		name string
		ok   func(as map[string]bool) bool
	}{
		{"a presence-tracked, present, non-lazy pointer field is not nil (setters, builders and decoders set the presence bit only together with a non-nil pointer; clearing resets the bit)", func(as map[string]bool) bool {
			tracked := !as[aTracked] // atom is `presenceIndex == noPresence`
			if aTracked != "" && strings.Contains(aTracked, "==") && tracked && as[aPresent] && !as[aLazy] && as[aPtr] && as[aElemNil] {
				return false
			}
			return true
		}},
	}
	invariants = append(invariants, struct {
		name string
		ok   func(as map[string]bool) bool
	}{"a lazy field is a pointer field (filedesc.UsePresenceForField reports canBeLazy only for message/group kinds, for which makeOpaqueCoderMethods sets isPointer)", func(as map[string]bool) bool {
		return !(as[aLazy] && !as[aPtr])
	}})
	n := len(atoms)
	checked, skippedByInv := 0, 0
	bad := ""
	for mask := 0; mask < 1<<uint(n) && bad == ""; mask++ {
		as := map[string]bool{}
		for i, a := range atoms {
			as[a] = mask>>uint(i)&1 == 1
		}
		violatesInv := false
		for _, inv := range invariants {
			if !inv.ok(as) {
				violatesInv = true
			}
		}
		if violatesInv {
			skippedByInv++
			continue
		}
		os, _, _ := discover(fs, ls, as)
		om, _, _ := discover(fm, lm, as)
		checked++
		if os != om {
			var on []string
			for _, a := range atoms {
				if as[a] {
					on = append(on, a)
				}
			}
			bad = "with {" + strings.Join(on, "; ") + "} true and the other atoms false, the size pass decides `" + os.kind + map[bool]string{true: " after decoding", false: ""}[os.decoded] + "` but the marshal pass `" + om.kind + map[bool]string{true: " after decoding", false: ""}[om.decoded] + "`"
		}
	}
	construct := sizeKey + " ~ " + short(marshalKey) + " per-field decisions"
	if bad != "" {
		R.Bad(rule, construct, P.Pos(ls), bad+": Size and Marshal disagree for a field in that state")
	} else {
		R.OK(rule, construct, P.Pos(ls), itoa(checked)+" field states over atoms {"+strings.Join(atoms, "; ")+"} agree ("+itoa(skippedByInv)+" states excluded by invariants)")
	}
	for _, inv := range invariants {
		R.Assumptions = append(R.Assumptions, rule+": "+inv.name)
	}
	// extensions and unknown bytes handled by both
	for _, pair := range [][3]string{{"internal/impl.(*MessageInfo).sizeExtensions", "internal/impl.(*MessageInfo).appendExtensions", "extensions"}, {"internal/impl.(*MessageInfo).getUnknownBytes", "internal/impl.(*MessageInfo).getUnknownBytes", "unknown bytes"}} {
		cs := containsCall(fs.Info(), fs.Decl.Body, pair[0])
		cm := containsCall(fm.Info(), fm.Decl.Body, pair[1])
		R.Check(cs != nil && cm != nil, rule, sizeKey+" ~ "+short(marshalKey)+" "+pair[2], P.Pos(fs.Decl), "handled by both passes", pair[2]+" are handled by only one of the two passes")
		if cs != nil && cm != nil {
			gs, gm := enclosingGuards(fs.Decl.Body, cs), enclosingGuards(fm.Decl.Body, cm)
			R.Check(gs == gm, rule, sizeKey+" ~ "+short(marshalKey)+" "+pair[2]+" guard", P.Pos(cs), "both under {"+gs+"}", pair[2]+" are counted by the size pass under {"+gs+"} but written by the marshal pass under {"+gm+"}: for a message on which the conditions differ Size and the marshaled length disagree")
		}
	}
	var _ types.Type
}

// enclosingGuards: the conditions of the if statements enclosing n (in their
// body or init), outermost first, with `!` for else branches.
func enclosingGuards(root ast.Node, n ast.Node) string {
	pm := parentMap(root)
	var gs []string
	var cur ast.Node = n
	for p := pm[cur]; p != nil; cur, p = p, pm[p] {
		if is, ok := p.(*ast.IfStmt); ok {
			switch {
			case cur == ast.Node(is.Body) || cur == is.Init:
				gs = append([]string{exprStr(is.Cond)}, gs...)
			case cur == is.Else:
				gs = append([]string{"!(" + exprStr(is.Cond) + ")"}, gs...)
			}
		}
	}
	return strings.Join(gs, " ; ")
}
