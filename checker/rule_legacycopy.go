package main

import (
	"go/ast"
	"go/types"
	"regexp"
	"sort"
	"strings"
)

// R-LEGACY-EXT-COPY. A golang/protobuf-era ExtensionDesc carries its field
// attributes in a struct tag. initFromLegacy parses the tag with
// tag.Unmarshal into a scratch field descriptor fd and copies fd's attributes
// into the derived extension descriptor. Every L1 attribute that the tag
// parser can set must be copied from fd (or have a reviewed other source):
// an attribute that is parsed but taken from elsewhere (e.g. the surrogate
// parent file's features instead of fd's, which carry `packed`) makes the
// legacy extension differ from the v2-generated one of the same schema.

var legacyExtCopyExceptions = map[string]string{
	"Number":     "taken from ExtensionDesc.Field, the authoritative number of a legacy extension (the tag repeats it)",
	"StringName": "extensions have no JSON name of their own; their JSON/text name is the bracketed full name",
}

var l1AttrRE = regexp.MustCompile(`\.L1\.([A-Za-z0-9_]+)`)

func (c *Ctx) ruleLegacyExtCopy(rule string) {
	R, P := c.R, c.P
	R.Rule(rule, "every L1 attribute of the scratch field that tag.Unmarshal can set (assignment to f.L1.X or a call on it) is assigned by ExtensionInfo.initFromLegacy to the derived extension descriptor from the same attribute of the parsed field (`xd.L?.X = fd.L1.X`), unless the attribute has a reviewed other source (table)", 4)
	fu := c.need(rule, "internal/encoding/tag.Unmarshal")
	fl := c.need(rule, "internal/impl.(*ExtensionInfo).initFromLegacy")
	if fu == nil || fl == nil {
		return
	}
	// attributes set by the parser
	attrs := map[string]bool{}
	uinfo := fu.Info()
	_ = uinfo
	walk(fu.Decl.Body, func(n ast.Node) bool {
		switch x := n.(type) {
		case *ast.AssignStmt:
			for _, l := range x.Lhs {
				if m := l1AttrRE.FindStringSubmatch(exprStr(l)); m != nil {
					attrs[m[1]] = true
				}
			}
		case *ast.CallExpr:
			if se, ok := x.Fun.(*ast.SelectorExpr); ok {
				if m := l1AttrRE.FindStringSubmatch(exprStr(se.X)); m != nil {
					attrs[m[1]] = true
				}
			}
		}
		return true
	})
	if len(attrs) == 0 {
		R.Unk(rule, fu.Key, P.Pos(fu.Decl), "no L1 attribute assignment found in the tag parser")
		return
	}
	// the parsed field variable in initFromLegacy
	linfo := fl.Info()
	var fd types.Object
	for o, ds := range localDefs(fl.Decl.Body, linfo) {
		for _, d := range ds {
			if containsCall(linfo, d.rhs, "internal/encoding/tag.Unmarshal") != nil {
				fd = o
			}
		}
	}
	if fd == nil {
		R.Unk(rule, fl.Key, P.Pos(fl.Decl), "the variable holding tag.Unmarshal's result was not found")
		return
	}
	copied := map[string]string{}    // attr -> position
	elsewhere := map[string]string{} // attr -> rhs text
	walk(fl.Decl.Body, func(n ast.Node) bool {
		as, ok := n.(*ast.AssignStmt)
		if !ok || len(as.Lhs) != len(as.Rhs) {
			return true
		}
		for i, l := range as.Lhs {
			ls := exprStr(l)
			m := regexp.MustCompile(`^\w+\.L[12]\.([A-Za-z0-9_]+)$`).FindStringSubmatch(ls)
			if m == nil {
				continue
			}
			r := unparen(as.Rhs[i])
			if sel, ok := r.(*ast.SelectorExpr); ok && sel.Sel.Name == m[1] {
				if in, ok := unparen(sel.X).(*ast.SelectorExpr); ok && in.Sel.Name == "L1" {
					if id, ok := unparen(in.X).(*ast.Ident); ok && linfo.Uses[id] == fd {
						copied[m[1]] = P.Pos(as)
						continue
					}
				}
			}
			elsewhere[m[1]] = exprStr(r)
		}
		return true
	})
	var names []string
	for a := range attrs {
		names = append(names, a)
	}
	sort.Strings(names)
	for _, a := range names {
		construct := "tag attribute L1." + a
		if pos, ok := copied[a]; ok {
			R.OK(rule, construct, pos, "copied from the parsed field")
			continue
		}
		if why, ok := legacyExtCopyExceptions[a]; ok {
			R.Exempt(rule, construct, P.Pos(fl.Decl), why)
			continue
		}
		if rhs, ok := elsewhere[a]; ok {
			R.Bad(rule, construct, P.Pos(fl.Decl), "tag.Unmarshal can set L1."+a+" from the struct tag, but initFromLegacy takes the extension's "+a+" from `"+rhs+"` instead of the parsed field: what the tag says about it (e.g. `packed`, `proto3`) is lost")
		} else {
			R.Bad(rule, construct, P.Pos(fl.Decl), "tag.Unmarshal can set L1."+a+" from the struct tag, but initFromLegacy never copies it into the derived extension descriptor")
		}
	}
	_ = strings.TrimSpace
}
