package main

import (
	"go/ast"
	"go/token"
	"go/types"
	"strings"
)

// R-MAPKEY-ORDER: the two deterministic map-key comparators (fast path:
// the sort.Slice comparator of impl.appendMapDeterministic; reflection path:
// order.GenericKeyOrder) order keys by the key kind's own value: booleans
// false < true, signed integers by Int(), unsigned by Uint(), strings by
// String(), compared directly with `<`. A comparator that goes through a
// conversion (e.g. uint64 of a signed key) orders differently from its sibling.
func (c *Ctx) ruleMapKeyOrder(rule string) {
	R, P := c.R, c.P
	R.Rule(rule, "in both deterministic map-key comparators every key-kind case returns the direct `<` comparison of the two keys' values obtained with the accessor of that kind (Int for signed, Uint for unsigned, String, Float) or `!a.Bool() && b.Bool()` for booleans", 8)
	classOf := func(label string) string {
		l := strings.ToLower(label)
		switch {
		case l == "bool":
			return "Bool"
		case strings.HasPrefix(l, "int"):
			return "Int"
		case strings.HasPrefix(l, "uint"):
			return "Uint"
		case l == "string":
			return "String"
		case strings.HasPrefix(l, "float"):
			return "Float"
		}
		return ""
	}
	checkLit := func(name string, info *types.Info, fl *ast.FuncLit) {
		threeWay := false
		if fl.Type.Results != nil && len(fl.Type.Results.List) == 1 && exprStr(fl.Type.Results.List[0].Type) == "int" {
			threeWay = true
		}
		var sw ast.Stmt
		for _, st := range fl.Body.List {
			switch st.(type) {
			case *ast.SwitchStmt, *ast.TypeSwitchStmt:
				sw = st
			}
		}
		if sw == nil {
			R.Unk(rule, name, P.Pos(fl), "comparator has no switch on the key kind")
			return
		}
		var clauses []ast.Stmt
		switch s := sw.(type) {
		case *ast.SwitchStmt:
			clauses = s.Body.List
		case *ast.TypeSwitchStmt:
			clauses = s.Body.List
		}
		for _, cs := range clauses {
			cc := cs.(*ast.CaseClause)
			if cc.List == nil {
				continue
			}
			class := ""
			var labels []string
			for _, e := range cc.List {
				l := exprStr(e)
				if i := strings.LastIndex(l, "."); i >= 0 {
					l = l[i+1:]
				}
				labels = append(labels, l)
				if k := classOf(l); class == "" {
					class = k
				} else if k != class {
					class = "mixed"
				}
			}
			construct := name + " case " + strings.Join(labels, ",")
			if threeWay && class != "" && class != "mixed" {
				// three-way comparator (negative / zero / positive)
				sub, cmpCall, explicit := false, "", false
				for _, st := range cc.Body {
					walk(st, func(x ast.Node) bool {
						switch e := x.(type) {
						case *ast.BinaryExpr:
							if e.Op == token.SUB {
								sub = true
							}
							if e.Op == token.LSS || e.Op == token.GTR || e.Op == token.EQL {
								explicit = true
							}
						case *ast.CallExpr:
							if k := calleeKey(info, e); k == "cmp.Compare" || k == "strings.Compare" || k == "bytes.Compare" {
								cmpCall = k
							}
						}
						return true
					})
				}
				switch {
				case sub:
					R.Bad(rule, construct, P.Pos(cc), "the three-way result is computed by subtracting the keys: for keys 2^63 or more apart (or after truncation to int) the sign is wrong, the relation is cyclic rather than a total order, and the sorted order then depends on the map's random iteration order — deterministic marshaling is no longer deterministic")
				case cmpCall != "" || explicit:
					R.OK(rule, construct, P.Pos(cc), "three-way comparison by "+map[bool]string{true: cmpCall, false: "explicit comparisons"}[cmpCall != ""])
				default:
					R.Unk(rule, construct, P.Pos(cc), "three-way comparison in an unrecognised form")
				}
				continue
			}
			if class == "" || class == "mixed" || len(cc.Body) != 1 {
				R.Unk(rule, construct, P.Pos(cc), "unrecognised key-kind case")
				continue
			}
			rs, ok := cc.Body[0].(*ast.ReturnStmt)
			if !ok || len(rs.Results) != 1 {
				R.Unk(rule, construct, P.Pos(cc), "case does not return a comparison")
				continue
			}
			acc := func(e ast.Expr) (string, bool) {
				call, ok := unparen(e).(*ast.CallExpr)
				if !ok || len(call.Args) != 0 {
					return "", false
				}
				se, ok := call.Fun.(*ast.SelectorExpr)
				if !ok {
					return "", false
				}
				return se.Sel.Name, true
			}
			good := false
			be, isBE := unparen(rs.Results[0]).(*ast.BinaryExpr)
			switch {
			case !isBE:
			case class == "Bool":
				if be.Op == token.LAND {
					if ue, ok := unparen(be.X).(*ast.UnaryExpr); ok && ue.Op == token.NOT {
						a, okA := acc(ue.X)
						b, okB := acc(be.Y)
						good = okA && okB && a == "Bool" && b == "Bool"
					}
				}
			default:
				if be.Op == token.LSS {
					a, okA := acc(be.X)
					b, okB := acc(be.Y)
					good = okA && okB && a == class && b == class
				}
			}
			R.Check(good, rule, construct, P.Pos(rs), "direct comparison by "+class+"()", "keys of this kind are not ordered by the direct comparison of their "+class+"() values: the deterministic order differs from the sibling comparator (for example negative keys after positive ones)")
		}
	}
	// fast path
	if fi := c.need(rule, "internal/impl.appendMapDeterministic"); fi != nil {
		info := fi.Info()
		found := false
		walk(fi.Decl.Body, func(n ast.Node) bool {
			if call, ok := n.(*ast.CallExpr); ok && (calleeKey(info, call) == "sort.Slice" || calleeKey(info, call) == "slices.SortFunc" || calleeKey(info, call) == "slices.SortStableFunc") && len(call.Args) == 2 {
				if fl, ok := call.Args[1].(*ast.FuncLit); ok {
					found = true
					checkLit(fi.Key+" comparator", info, fl)
				}
			}
			return true
		})
		if !found {
			R.Unk(rule, fi.Key, P.Pos(fi.Decl), "sort.Slice / slices.SortFunc comparator not found")
		}
	}
	// reflection path
	if pk := P.Pkg("internal/order"); pk != nil {
		found := false
		for _, f := range pk.Syntax {
			for _, d := range f.Decls {
				gd, ok := d.(*ast.GenDecl)
				if !ok || gd.Tok != token.VAR {
					continue
				}
				for _, sp := range gd.Specs {
					vs := sp.(*ast.ValueSpec)
					for i, nm := range vs.Names {
						if nm.Name == "GenericKeyOrder" && i < len(vs.Values) {
							if fl, ok := vs.Values[i].(*ast.FuncLit); ok {
								found = true
								checkLit("internal/order.GenericKeyOrder", pk.TypesInfo, fl)
							}
						}
					}
				}
			}
		}
		if !found {
			R.Unk(rule, "internal/order.GenericKeyOrder", "", "comparator literal not found")
		}
	} else {
		R.Unk(rule, "internal/order", "", "package not loaded")
	}
}

// R-MAP-ENTRY-ONCE: while decoding one map entry the message value is created
// once, before the loop over the entry's fields, so that a value field split
// over several occurrences merges (as the fast path does) instead of the last
// occurrence replacing the earlier ones.
func (c *Ctx) ruleMapEntryOnce(rule string) {
	R, P := c.R, c.P
	R.Rule(rule, "in the reflection decoder's unmarshalMap the message-typed entry value is allocated with Map.NewValue outside the loop that consumes the entry's bytes (or after it, for a missing value), never per occurrence of the value field", 1)
	fi := c.need(rule, "proto.UnmarshalOptions.unmarshalMap")
	if fi == nil {
		return
	}
	info := fi.Info()
	var loop *ast.ForStmt
	walk(fi.Decl.Body, func(n ast.Node) bool {
		if fs, ok := n.(*ast.ForStmt); ok && loop == nil && fs.Cond != nil && strings.HasPrefix(exprStr(fs.Cond), "len(") {
			loop = fs
		}
		return true
	})
	if loop == nil {
		R.Unk(rule, fi.Key, P.Pos(fi.Decl), "entry loop not found")
		return
	}
	inside, outside := 0, 0
	walkAll(fi.Decl.Body, func(n ast.Node) bool {
		if call, ok := n.(*ast.CallExpr); ok && calleeKey(info, call) == "reflect/protoreflect.Map.NewValue" {
			if containsNode(loop, call) {
				inside++
			} else {
				outside++
			}
		}
		return true
	})
	R.Check(inside == 0 && outside > 0, rule, fi.Key, P.Pos(loop), "value allocated once per entry", "the entry's message value is (re)allocated inside the loop over the entry's fields: a value split over several occurrences is replaced instead of merged, unlike the fast path")
}
