package main

import (
	"go/ast"
	"go/types"
	"sort"
)

// R-ERR-DROP: the error result of a listed set of functions is never dropped
// (call used as an expression statement, or error result assigned to blank).
// accept: reviewed callee keys whose dropped error is harmless, with reason.
func (c *Ctx) ruleErrDrop(rule string, pkgs []string, isTarget func(key string, f *types.Func) bool, accept map[string]string, floor int) {
	R, P := c.R, c.P
	R.Rule(rule, "no call to an error-returning decoder function in scope drops its error (expression statement, `_ =`, or `x, _ :=`); accepted drops are an explicit table by callee with a reason", floor)
	for _, pkg := range pkgs {
		for _, fi := range P.FuncsIn(pkg) {
			if fi.Decl.Body == nil {
				continue
			}
			info := fi.Info()
			n := 0
			var visit func(node ast.Node, inFn string)
			check := func(call *ast.CallExpr, dropped bool, where string) {
				f := calleeFunc(info, call)
				if f == nil {
					return
				}
				key := funcKey(f)
				if !isTarget(key, f) {
					return
				}
				sig := f.Type().(*types.Signature)
				if sig.Results().Len() == 0 {
					return
				}
				last := sig.Results().At(sig.Results().Len() - 1).Type()
				if last.String() != "error" {
					return
				}
				n++
				name := fi.Key + " -> " + key + " #" + itoa(n)
				if !dropped {
					R.OK(rule, name, P.Pos(call), "error result is bound")
					return
				}
				if why, ok := accept[key]; ok {
					R.Exempt(rule, name, P.Pos(call), why)
					return
				}
				// per-site acceptance: caller + callee + the argument written
				if len(call.Args) == 1 {
					if why, ok := accept[fi.Key+" -> "+key+" ("+exprStr(unparen(call.Args[0]))+")"]; ok {
						R.Exempt(rule, name, P.Pos(call), why)
						return
					}
				}
				R.Bad(rule, name, P.Pos(call), "error result of "+key+" is dropped ("+where+"): a failure (malformed input, exceeded limit) in the callee is silently ignored")
			}
			_ = visit
			walkAll(fi.Decl.Body, func(node ast.Node) bool {
				switch s := node.(type) {
				case *ast.ExprStmt:
					if call, ok := unparen(s.X).(*ast.CallExpr); ok {
						check(call, true, "expression statement")
					}
				case *ast.AssignStmt:
					if len(s.Rhs) == 1 {
						if call, ok := unparen(s.Rhs[0]).(*ast.CallExpr); ok {
							lastL := s.Lhs[len(s.Lhs)-1]
							id, isId := lastL.(*ast.Ident)
							check(call, isId && id.Name == "_", "assigned to _")
						}
					}
				case *ast.ReturnStmt, *ast.IfStmt, *ast.ValueSpec:
					// calls nested here are bound or returned; count them as bound
				case *ast.CallExpr:
					// calls used as arguments/operands: bound. counted when not parent-handled
				}
				return true
			})
		}
	}
}

func sortedKeys[M ~map[string]V, V any](m M) []string {
	var ks []string
	for k := range m {
		ks = append(ks, k)
	}
	sort.Strings(ks)
	return ks
}
