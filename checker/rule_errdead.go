package main

import (
	"go/ast"
	"go/token"
	"go/types"
)

// R-ERR-DEAD-STORE: an error value assigned from a call must be read (tested,
// returned, passed on) before it is overwritten or, for a non-result local,
// before the function exits. A dead error store means a failure reported by
// the callee (invalid UTF-8, malformed input, size mismatch, exceeded limit)
// is silently lost.
func (c *Ctx) ruleErrDeadStore(rule string, pkgs []string, exempt map[string]string, floor int) {
	R, P := c.R, c.P
	R.Rule(rule, "every assignment of a call's error result to a variable is followed on every path by a read of that variable before it is reassigned (or, for locals that are not results/captured, before exit); decided by forward CFG search per definition", floor)
	errType := types.Universe.Lookup("error").Type()
	for _, pkg := range pkgs {
		for _, fi := range P.FuncsIn(pkg) {
			if fi.Decl.Body == nil {
				continue
			}
			info := fi.Info()
			for _, br := range bodiesOf(fi) {
				var g *FCFG
				// objects declared in this body (not captured) and not named results
				results := map[types.Object]bool{}
				if br.Type.Results != nil {
					for _, f := range br.Type.Results.List {
						for _, nm := range f.Names {
							results[info.Defs[nm]] = true
						}
					}
				}
				cnt := 0
				walk(br.Body, func(node ast.Node) bool {
					as, ok := node.(*ast.AssignStmt)
					if !ok || len(as.Rhs) != 1 {
						return true
					}
					call, ok := unparen(as.Rhs[0]).(*ast.CallExpr)
					if !ok {
						return true
					}
					tv, ok := info.Types[call]
					if !ok {
						return true
					}
					// which LHS receives an error?
					var errIdx []int
					switch t := tv.Type.(type) {
					case *types.Tuple:
						for i := 0; i < t.Len(); i++ {
							if types.Identical(t.At(i).Type(), errType) {
								errIdx = append(errIdx, i)
							}
						}
					default:
						if types.Identical(tv.Type, errType) {
							errIdx = []int{0}
						}
					}
					for _, i := range errIdx {
						if i >= len(as.Lhs) {
							continue
						}
						id, ok := as.Lhs[i].(*ast.Ident)
						if !ok || id.Name == "_" {
							continue
						}
						obj := objOf(info, id)
						if obj == nil {
							continue
						}
						cnt++
						callee := calleeKey(info, call)
						if callee == "" {
							callee = exprStr(call.Fun)
						}
						name := br.Name + " " + id.Name + " = " + callee + " #" + itoa(cnt)
						if why, ok := exempt[br.Name+" "+callee]; ok {
							R.Exempt(rule, name, P.Pos(as), why)
							continue
						}
						captured := !(br.Body.Pos() <= obj.Pos() && obj.Pos() < br.Body.End()) && !results[obj] && !isParamOf(info, br, obj)
						if g == nil {
							g = newCFG(br.Body, info)
						}
						dp, ok := g.posOf(as)
						if !ok {
							R.Unk(rule, name, P.Pos(as), "definition not found in CFG")
							continue
						}
						var overwriteAt ast.Node
						// (1) overwritten before any read on some path (a loop re-executing the
						// defining statement itself is not counted: single-iteration idiom)
						found, wit := g.Forward(cfgPos{dp.B, dp.I + 1}, Search{
							Target: func(n ast.Node) bool {
								if n != ast.Node(as) && pureOverwrite(info, n, obj) {
									overwriteAt = n
									return true
								}
								return false
							},
							Barrier: func(n ast.Node) bool {
								return n == ast.Node(as) || readsObj(info, n, obj) || freshDef(info, n, obj)
							},
						})
						// (2) never read on any path at all
						if !found && !captured && !results[obj] {
							anyRead, _ := g.Forward(cfgPos{dp.B, dp.I + 1}, Search{
								Target:  func(n ast.Node) bool { return readsObj(info, n, obj) },
								Barrier: func(n ast.Node) bool { return pureOverwrite(info, n, obj) || freshDef(info, n, obj) },
							})
							if !anyRead {
								found = true
							}
						}
						if found {
							what := "the function can exit"
							if overwriteAt != nil {
								what = "it is overwritten at " + P.Pos(overwriteAt)
							} else if wit != nil {
								what = "the function can exit (" + P.Pos(wit) + ")"
							}
							R.Bad(rule, name, P.Pos(as), "the error returned by "+callee+" is stored in `"+id.Name+"` but "+what+" before it is ever read: a failure in the callee is silently lost")
						} else {
							R.OK(rule, name, P.Pos(as), "read before overwrite/exit on every path")
						}
					}
					return true
				})
			}
		}
	}
}

func isParamOf(info *types.Info, br bodyRef, obj types.Object) bool {
	if br.Type.Params == nil {
		return false
	}
	for _, f := range br.Type.Params.List {
		for _, nm := range f.Names {
			if info.Defs[nm] == obj {
				return true
			}
		}
	}
	return false
}

// readsObj: node reads obj (any use other than as a pure assignment target).
// Uses inside nested function literals count as reads (captured).
func readsObj(info *types.Info, n ast.Node, obj types.Object) bool {
	read := false
	var visit func(x ast.Node)
	visit = func(x ast.Node) {
		if x == nil || read {
			return
		}
		switch s := x.(type) {
		case *ast.AssignStmt:
			for _, r := range s.Rhs {
				visit(r)
			}
			for _, l := range s.Lhs {
				if id, ok := l.(*ast.Ident); ok && (info.Uses[id] == obj || info.Defs[id] == obj) {
					if s.Tok != token.ASSIGN && s.Tok != token.DEFINE {
						read = true // op-assign reads
					}
					continue
				}
				visit(l)
			}
			return
		case *ast.Ident:
			if info.Uses[s] == obj {
				read = true
			}
			return
		}
		ast.Inspect(x, func(y ast.Node) bool {
			if y == nil || read {
				return false
			}
			if y == x {
				return true
			}
			visit(y)
			return false
		})
	}
	visit(n)
	return read
}

// pureOverwrite: node assigns obj without reading it.
func pureOverwrite(info *types.Info, n ast.Node, obj types.Object) bool {
	as, ok := n.(*ast.AssignStmt)
	if !ok || (as.Tok != token.ASSIGN && as.Tok != token.DEFINE) {
		return false
	}
	hit := false
	for _, l := range as.Lhs {
		// a fresh definition (Defs) is a new variable instance, not an overwrite
		if id, ok := l.(*ast.Ident); ok && info.Uses[id] == obj {
			hit = true
		}
	}
	return hit && !readsObj(info, n, obj)
}

// freshDef: node declares a new instance of obj (var spec or := definition).
func freshDef(info *types.Info, n ast.Node, obj types.Object) bool {
	switch s := n.(type) {
	case *ast.ValueSpec:
		for _, nm := range s.Names {
			if info.Defs[nm] == obj {
				return true
			}
		}
	case *ast.AssignStmt:
		if s.Tok == token.DEFINE {
			for _, l := range s.Lhs {
				if id, ok := l.(*ast.Ident); ok && info.Defs[id] == obj {
					return true
				}
			}
		}
	}
	return false
}
