package main

import (
	"go/ast"
	"go/token"
	"go/types"
)

// R-EQUAL-VALIDITY: proto.Equal documents that an invalid message (typed nil
// pointer) is never equal to a valid one, whichever argument it is. The
// validity tests at the head of Equal are read as a decision procedure over
// the two atoms mx.IsValid() and my.IsValid() (three-valued: everything else
// is unknown) and evaluated for the two mixed valuations: Equal has to return
// false before it reaches the field comparison, which treats an invalid
// message like an empty one.
func (c *Ctx) ruleEqualValidity(rule string) {
	R, P := c.R, c.P
	R.Rule(rule, "proto.Equal, evaluated over the atoms mx.IsValid()/my.IsValid() for (valid, invalid) and (invalid, valid), returns false in a statement that tests validity, before the fast-path or reflective comparison is reached", 2)
	fi := c.need(rule, "proto.Equal")
	if fi == nil {
		return
	}
	info := fi.Info()
	var params []types.Object
	for _, f := range fi.Decl.Type.Params.List {
		for _, n := range f.Names {
			params = append(params, info.Defs[n])
		}
	}
	if len(params) != 2 {
		R.Unk(rule, fi.Key, P.Pos(fi.Decl), "expected two parameters")
		return
	}
	// locals bound to <param>.ProtoReflect()
	side := map[types.Object]int{params[0]: 0, params[1]: 1}
	refl := map[types.Object]int{}
	for _, st := range fi.Decl.Body.List {
		as, ok := st.(*ast.AssignStmt)
		if !ok || len(as.Lhs) != 1 || len(as.Rhs) != 1 {
			continue
		}
		call, ok := unparen(as.Rhs[0]).(*ast.CallExpr)
		if !ok {
			continue
		}
		se, ok := call.Fun.(*ast.SelectorExpr)
		if !ok || se.Sel.Name != "ProtoReflect" {
			continue
		}
		if id, ok := unparen(se.X).(*ast.Ident); ok {
			if s, ok := side[info.Uses[id]]; ok {
				if l, ok := as.Lhs[0].(*ast.Ident); ok {
					if o := info.Defs[l]; o != nil {
						refl[o] = s
					}
				}
			}
		}
	}
	const (
		F = iota
		T
		U
	)
	var eval func(e ast.Expr, val [2]int) int
	eval = func(e ast.Expr, val [2]int) int {
		switch x := unparen(e).(type) {
		case *ast.Ident:
			if x.Name == "true" {
				return T
			}
			if x.Name == "false" {
				return F
			}
		case *ast.CallExpr:
			if se, ok := x.Fun.(*ast.SelectorExpr); ok && se.Sel.Name == "IsValid" && len(x.Args) == 0 {
				if id, ok := unparen(se.X).(*ast.Ident); ok {
					if s, ok := refl[info.Uses[id]]; ok {
						return val[s]
					}
				}
			}
		case *ast.UnaryExpr:
			if x.Op == token.NOT {
				switch eval(x.X, val) {
				case T:
					return F
				case F:
					return T
				}
			}
		case *ast.BinaryExpr:
			a, b := eval(x.X, val), eval(x.Y, val)
			switch x.Op {
			case token.LAND:
				if a == F || b == F {
					return F
				}
				if a == T && b == T {
					return T
				}
			case token.LOR:
				if a == T || b == T {
					return T
				}
				if a == F && b == F {
					return F
				}
			case token.EQL, token.NEQ:
				if a != U && b != U {
					if (a == b) == (x.Op == token.EQL) {
						return T
					}
					return F
				}
			}
		}
		return U
	}
	mentionsValid := func(n ast.Node) bool {
		found := false
		walk(n, func(m ast.Node) bool {
			if se, ok := m.(*ast.SelectorExpr); ok && se.Sel.Name == "IsValid" {
				found = true
			}
			return true
		})
		return found
	}
	for _, tc := range []struct {
		name string
		val  [2]int
	}{{"valid x, invalid y", [2]int{T, F}}, {"invalid x, valid y", [2]int{F, T}}} {
		verdict, pos := "", P.Pos(fi.Decl)
		seenRefl := false
		var run func(list []ast.Stmt) bool // true: a verdict was reached
		run = func(list []ast.Stmt) bool {
			for _, st := range list {
				switch x := st.(type) {
				case *ast.AssignStmt:
					if len(x.Lhs) == 1 {
						if l, ok := x.Lhs[0].(*ast.Ident); ok {
							if _, ok := refl[info.Defs[l]]; ok {
								seenRefl = true
								continue
							}
						}
					}
					if seenRefl && len(refl) == 2 {
						verdict, pos = "reaches `"+exprStr(x.Rhs[0])+"`", P.Pos(x)
						return true
					}
				case *ast.IfStmt:
					if !mentionsValid(x.Cond) {
						if seenRefl && len(refl) == 2 && x.Init == nil {
							verdict, pos = "reaches the test `"+exprStr(x.Cond)+"`", P.Pos(x)
							return true
						}
						continue // head of the function: nil interfaces, identical pointers
					}
					switch eval(x.Cond, tc.val) {
					case T:
						if run(x.Body.List) {
							return true
						}
					case F:
						switch e := x.Else.(type) {
						case *ast.BlockStmt:
							if run(e.List) {
								return true
							}
						case *ast.IfStmt:
							if run([]ast.Stmt{e}) {
								return true
							}
						}
					default:
						verdict, pos = "the test `"+exprStr(x.Cond)+"` is not decided by validity", P.Pos(x)
						return true
					}
				case *ast.ReturnStmt:
					pos = P.Pos(x)
					if len(x.Results) != 1 {
						verdict = "returns"
						return true
					}
					if !mentionsValid(x.Results[0]) && exprStr(x.Results[0]) != "false" && exprStr(x.Results[0]) != "true" {
						verdict = "reaches `" + exprStr(x.Results[0]) + "`"
						return true
					}
					switch eval(x.Results[0], tc.val) {
					case F:
						verdict = "false"
					case T:
						verdict = "returns true"
					default:
						verdict = "returns `" + exprStr(x.Results[0]) + "`, which is not decided by validity"
					}
					return true
				}
			}
			return false
		}
		run(fi.Decl.Body.List)
		R.Check(verdict == "false", rule, fi.Key+" "+tc.name, pos, "returns false on the validity test", "for "+tc.name+" Equal "+verdict+" instead of returning false: the comparison that follows treats a typed nil message like an empty one, so Equal((*T)(nil), &T{}) (in this argument order) can be true")
	}
}
