package main

import (
	"go/ast"
	"go/token"
	"go/types"
	"sort"
	"strings"
)

// R-MAP-ENTRY-PARITY. A map entry on the wire is
//
//	tag(field) varint(len) [ key record ] [ value record ]
//
// sizeMap accounts for it per entry, appendMap/appendMapDeterministic write
// the field tag and appendMapItem writes the rest. The three functions are
// executed symbolically for both cases of `f.mi == nil` (value coder from the
// coder table / value is a message with a MessageInfo). Integer expressions
// become multisets of size atoms
//
//	C(keyFuncs,key)   size the key coder reports, including the key tag
//	C(valFuncs,val)   likewise for the value coder
//	T(val) T(field)   the tag of the value record / of the map field
//	P                 sizePointer of the message value
//	SB(m)             length prefix of m followed by m  ( = LEN(m) + m )
//
// and the append side becomes the sequence of what is emitted. Required, in
// each case: the entry's length prefix is the varint of exactly the multiset
// of what follows it; sizeMap's entry is T(field) + SB(that same multiset).
type msyms map[string]int

func (m msyms) add(o msyms, k int) msyms {
	r := msyms{}
	for s, v := range m {
		r[s] = v
	}
	for s, v := range o {
		r[s] += k * v
		if r[s] == 0 {
			delete(r, s)
		}
	}
	return r
}

func (m msyms) String() string {
	var ks []string
	for s, v := range m {
		for i := 0; i < v; i++ {
			ks = append(ks, s)
		}
		if v < 0 {
			ks = append(ks, "-"+s)
		}
	}
	sort.Strings(ks)
	return strings.Join(ks, " + ")
}

type mapSym struct {
	info  *types.Info
	env   map[types.Object]msyms
	miNil bool // value of the atom f.mi == nil
	emit  []string
	fail  string
}

func tagRole(s string) string {
	switch {
	case strings.Contains(s, "mapKeyTagSize") || strings.HasSuffix(s, "keyWiretag"):
		return "key"
	case strings.Contains(s, "mapValTagSize") || strings.HasSuffix(s, "valWiretag"):
		return "val"
	case strings.HasSuffix(s, ".tagsize") || strings.HasSuffix(s, ".wiretag"):
		return "field"
	}
	return ""
}

func (ms *mapSym) eval(e ast.Expr) msyms {
	e = unparen(e)
	if v, ok := constInt(ms.info, e); ok {
		if r := tagRole(exprStr(e)); r != "" {
			return msyms{"T(" + r + ")": 1}
		}
		if v == 0 {
			return msyms{}
		}
		return msyms{"const" + itoa64(v): 1}
	}
	switch x := e.(type) {
	case *ast.Ident:
		if m, ok := ms.env[ms.info.Uses[x]]; ok {
			return m
		}
		return msyms{x.Name: 1}
	case *ast.SelectorExpr:
		if r := tagRole(exprStr(x)); r != "" {
			return msyms{"T(" + r + ")": 1}
		}
	case *ast.BinaryExpr:
		if x.Op == token.ADD {
			return ms.eval(x.X).add(ms.eval(x.Y), 1)
		}
	case *ast.CallExpr:
		if tv, ok := ms.info.Types[x.Fun]; ok && tv.IsType() && len(x.Args) == 1 {
			return ms.eval(x.Args[0])
		}
		if calleeKey(ms.info, x) == "builtin.len" {
			return msyms{exprStr(x): 1} // buffer positions of the run-time self check
		}
		if calleeKey(ms.info, x) == "encoding/protowire.SizeBytes" && len(x.Args) == 1 {
			return msyms{"SB(" + ms.eval(x.Args[0]).String() + ")": 1}
		}
		if strings.HasSuffix(calleeKey(ms.info, x), ".sizePointer") {
			return msyms{"P": 1}
		}
		if se, ok := x.Fun.(*ast.SelectorExpr); ok && se.Sel.Name == "size" && len(x.Args) == 3 {
			fn := exprStr(se.X)
			role := tagRole(exprStr(x.Args[1]))
			switch {
			case strings.HasSuffix(fn, "keyFuncs") && role == "key":
				return msyms{"C(keyFuncs,key)": 1}
			case strings.HasSuffix(fn, "valFuncs") && role == "val":
				return msyms{"C(valFuncs,val)": 1}
			default:
				return msyms{"C?(" + fn + "," + exprStr(x.Args[1]) + ")": 1}
			}
		}
	}
	ms.fail = "unrecognised integer expression " + exprStr(e)
	return msyms{"?": 1}
}

func (ms *mapSym) cond(e ast.Expr) (bool, bool) {
	e = unparen(e)
	be, ok := e.(*ast.BinaryExpr)
	if !ok || !isNilIdent(ms.info, be.Y) || !strings.HasSuffix(exprStr(be.X), ".mi") {
		return false, false
	}
	switch be.Op {
	case token.EQL:
		return ms.miNil, true
	case token.NEQ:
		return !ms.miNil, true
	}
	return false, false
}

// exec interprets statements; returns true when a return statement was reached.
func (ms *mapSym) exec(stmts []ast.Stmt) bool {
	for _, st := range stmts {
		switch s := st.(type) {
		case *ast.DeclStmt:
			if gd, ok := s.Decl.(*ast.GenDecl); ok {
				for _, sp := range gd.Specs {
					if vs, ok := sp.(*ast.ValueSpec); ok {
						for i, nm := range vs.Names {
							if isIntType(ms.info.TypeOf(nm)) {
								if i < len(vs.Values) {
									ms.env[ms.info.Defs[nm]] = ms.eval(vs.Values[i])
								} else {
									ms.env[ms.info.Defs[nm]] = msyms{}
								}
							}
						}
					}
				}
			}
		case *ast.AssignStmt:
			// emissions: b = protowire.AppendVarint(b, X); b, err = coder.marshal(...); b, err = mi.marshalAppendPointer(...)
			if len(s.Rhs) == 1 {
				if call, ok := unparen(s.Rhs[0]).(*ast.CallExpr); ok {
					k := calleeKey(ms.info, call)
					switch {
					case k == "encoding/protowire.AppendVarint" && len(call.Args) == 2:
						m := ms.eval(call.Args[1])
						if len(m) == 1 {
							for a := range m {
								if strings.HasPrefix(a, "T(") {
									ms.emit = append(ms.emit, a)
									goto next
								}
							}
						}
						ms.emit = append(ms.emit, "LEN("+m.String()+")")
						goto next
					case strings.HasSuffix(k, ".marshalAppendPointer"):
						ms.emit = append(ms.emit, "P")
						goto next
					case k == "internal/impl.appendMapItem":
						ms.emit = append(ms.emit, "ITEM")
						goto next
					}
					if se, ok := call.Fun.(*ast.SelectorExpr); ok && se.Sel.Name == "marshal" && len(call.Args) == 4 {
						fn := exprStr(se.X)
						role := tagRole(exprStr(call.Args[2]))
						switch {
						case strings.HasSuffix(fn, "keyFuncs") && role == "key":
							ms.emit = append(ms.emit, "C(keyFuncs,key)")
						case strings.HasSuffix(fn, "valFuncs") && role == "val":
							ms.emit = append(ms.emit, "C(valFuncs,val)")
						default:
							ms.emit = append(ms.emit, "C?("+fn+","+exprStr(call.Args[2])+")")
						}
						goto next
					}
				}
			}
			if len(s.Lhs) == 1 && len(s.Rhs) == 1 {
				if id, ok := s.Lhs[0].(*ast.Ident); ok && id.Name != "_" && ms.info.TypeOf(id) != nil && isIntType(ms.info.TypeOf(id)) {
					o := ms.info.Defs[id]
					if o == nil {
						o = ms.info.Uses[id]
					}
					switch s.Tok {
					case token.DEFINE, token.ASSIGN:
						ms.env[o] = ms.eval(s.Rhs[0])
					case token.ADD_ASSIGN:
						ms.env[o] = ms.env[o].add(ms.eval(s.Rhs[0]), 1)
					}
				}
			}
		case *ast.IfStmt:
			if s.Init != nil {
				// `if measuredSize := len(b) - before; size != measuredSize && err == nil { return mismatch }`: a run-time self check, not part of the encoding
				continue
			}
			v, ok := ms.cond(s.Cond)
			if !ok {
				// error propagation `if err != nil { return … }`
				continue
			}
			if v {
				if ms.exec(s.Body.List) {
					return true
				}
			} else if s.Else != nil {
				switch e := s.Else.(type) {
				case *ast.BlockStmt:
					if ms.exec(e.List) {
						return true
					}
				case *ast.IfStmt:
					if ms.exec([]ast.Stmt{e}) {
						return true
					}
				}
			}
		case *ast.ReturnStmt:
			return true
		}
	next:
	}
	return false
}

// foldLen replaces LEN(m) followed (anywhere later) by the atoms of m with SB(m).
func foldEmissions(em []string) msyms {
	out := msyms{}
	for _, e := range em {
		out[e]++
	}
	for a := range out {
		if strings.HasPrefix(a, "LEN(") {
			inner := strings.TrimSuffix(strings.TrimPrefix(a, "LEN("), ")")
			if out[inner] > 0 {
				out[inner]--
				out[a]--
				out["SB("+inner+")"]++
				if out[inner] == 0 {
					delete(out, inner)
				}
				if out[a] == 0 {
					delete(out, a)
				}
			}
		}
	}
	return out
}

func (c *Ctx) ruleMapEntryParity(rule string) {
	R, P := c.R, c.P
	R.Rule(rule, "map entries, for both cases of f.mi == nil: the length prefix appendMapItem writes is the varint of exactly what it writes after it (key record, value record — coder output, or value tag + length prefix + message); sizeMap accounts per entry for the field tag plus the length-prefixed same multiset; appendMap and appendMapDeterministic write the field tag before each item", 6)
	fs := c.need(rule, "internal/impl.sizeMap")
	fa := c.need(rule, "internal/impl.appendMapItem")
	if fs == nil || fa == nil {
		return
	}
	for _, miNil := range []bool{true, false} {
		cs := map[bool]string{true: "f.mi == nil", false: "f.mi != nil"}[miNil]
		// append side
		ma := &mapSym{info: fa.Info(), env: map[types.Object]msyms{}, miNil: miNil}
		ma.exec(fa.Decl.Body.List)
		construct := "appendMapItem [" + cs + "]"
		if ma.fail != "" || len(ma.emit) == 0 {
			R.Unk(rule, construct, P.Pos(fa.Decl), "outside the recognised statements: "+ma.fail)
			continue
		}
		first := ma.emit[0]
		rest := foldEmissions(ma.emit[1:])
		okPrefix := first == "LEN("+rest.String()+")"
		R.Check(okPrefix, rule, construct+" prefix", P.Pos(fa.Decl), "prefix "+first+" followed by {"+rest.String()+"}", "the entry's length prefix is "+first+" but what is written after it is {"+rest.String()+"}: the entry is framed with the wrong length")
		// size side
		var loop *ast.ForStmt
		walk(fs.Decl.Body, func(n ast.Node) bool {
			if f, ok := n.(*ast.ForStmt); ok && loop == nil {
				loop = f
			}
			return true
		})
		if loop == nil {
			R.Unk(rule, "sizeMap ["+cs+"]", P.Pos(fs.Decl), "entry loop not found")
			continue
		}
		mz := &mapSym{info: fs.Info(), env: map[types.Object]msyms{}, miNil: miNil}
		// n := 0 before the loop
		walk(fs.Decl.Body, func(n ast.Node) bool {
			if as, ok := n.(*ast.AssignStmt); ok && as.Tok == token.DEFINE && len(as.Lhs) == 1 && len(as.Rhs) == 1 {
				if v, ok := constInt(fs.Info(), as.Rhs[0]); ok && v == 0 {
					mz.env[fs.Info().Defs[as.Lhs[0].(*ast.Ident)]] = msyms{}
				}
			}
			return true
		})
		mz.exec(loop.Body.List)
		var total msyms
		for o, m := range mz.env {
			if o != nil && o.Name() == "n" {
				total = m
			}
		}
		want := msyms{"T(field)": 1, "SB(" + rest.String() + ")": 1}
		construct = "sizeMap [" + cs + "]"
		switch {
		case mz.fail != "":
			R.Unk(rule, construct, P.Pos(loop), "outside the recognised statements: "+mz.fail)
		case total.String() != want.String():
			R.Bad(rule, construct, P.Pos(loop), "sizeMap accounts per entry for {"+total.String()+"} but the append side writes {"+want.String()+"}")
		default:
			R.OK(rule, construct, P.Pos(loop), "{"+total.String()+"}")
		}
	}
	// the field tag precedes every item
	for _, k := range []string{"internal/impl.appendMap", "internal/impl.appendMapDeterministic"} {
		fi := c.need(rule, k)
		if fi == nil {
			continue
		}
		n := 0
		walk(fi.Decl.Body, func(x ast.Node) bool {
			var body *ast.BlockStmt
			switch l := x.(type) {
			case *ast.ForStmt:
				body = l.Body
			case *ast.RangeStmt:
				body = l.Body
			}
			if body == nil {
				return true
			}
			ms := &mapSym{info: fi.Info(), env: map[types.Object]msyms{}}
			ms.exec(body.List)
			if len(ms.emit) == 0 {
				return true
			}
			n++
			R.Check(strings.Join(ms.emit, " ") == "T(field) ITEM", rule, fi.Key+" loop#"+itoa(n), P.Pos(x), "T(field) then the item", "the loop writes {"+strings.Join(ms.emit, " ")+"} per entry instead of the field tag followed by the item")
			return false
		})
		if n == 0 {
			if k == "internal/impl.appendMap" || k == "internal/impl.appendMapDeterministic" {
				R.Unk(rule, fi.Key, P.Pos(fi.Decl), "entry loop not found")
			}
		}
	}
}
