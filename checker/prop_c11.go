package main

import (
	"go/ast"
	"go/token"
	"go/types"
	"strings"
)

func init() {
	register(&Property{
		ID:         "C11",
		Level:      "other",
		Technique:  "coder-selection rule (zero-skipping coders exactly for implicit presence) with size/append guard agreement, constant conformance of every presence-bit call in generated opaque code against the struct's declaration order, sibling agreement of the runtime and generator presence-index counting rules (static)",
		Explain:    "Decides structural necessary conditions of presence discipline: (1) zero-skipping (NoZero) coders are installed exactly for fields without explicit presence that are not oneof members, and every such coder's size and append functions skip under the same zero test (including the -0.0 test for floats); (2) in every generated opaque message, each presence call Present/SetPresent/ClearPresent/SetPresentNonAtomic(&x.XXX_presence[k], n, size) has k == n/32, n equal to the position of the accessed hidden field in the struct's declaration order (a oneof counted once), n < size, size equal to the number of presence slots and the presence array of length ceil(size/32); (3) the runtime's presenceIndex and the generator's opaqueFieldPresenceIndex count a field under the same condition (not a oneof member, or the last member of its oneof); (4) both descriptor builders derive HasPresence's input (IsFieldPresence, IsLegacyRequired) from the same FeatureSet values (EXPLICIT or LEGACY_REQUIRED; LEGACY_REQUIRED). Also decided: the fast-path merge loop merges a field iff it is populated in the source by the presence discipline (presence bit for tracked fields — a nil slot with the bit set is an undecoded lazy field — non-nil pointer otherwise) and decodes undecoded lazy operands first (R-MERGE-LOOP, all 160 consistent field states); AnyPresent scans exactly ceil(size/32) bitmap words (R-PRESENCE-WORDS, sizes 0..4096).",
		NotCovered: "HasPresence resolution on concrete schemas (runtime descriptor data), presence round trips through JSON/text, the open-struct API where presence is pointer-ness.",
		Quick:      all("./internal/impl", "./internal/filedesc", "./reflect/protodesc", "./cmd/protoc-gen-go/internal_gengo", "./internal/testprotos/lazy/...", "./internal/testprotos/testeditions/testeditions_opaque", "./internal/testprotos/mixed"),
		Thorough:   allAndLegacy("./internal/impl", "./internal/filedesc", "./reflect/protodesc", "./cmd/protoc-gen-go/internal_gengo", "./internal/testprotos/lazy/...", "./internal/testprotos/testeditions/testeditions_opaque", "./internal/testprotos/mixed"),
		Run: func(c *Ctx) {
			c.ruleMergeLoop("R-MERGE-LOOP")
			c.rulePresenceWords("R-PRESENCE-WORDS")
			c.ruleCoderSelect("R-CODER-SELECT", 60)
			c.ruleSizeAppend("R-SIZE-APPEND", []string{"internal/impl"}, sizeAppendNotAnalysed, 130)
			c.rulePresenceConst("R-PRESENCE-CONST", 50)
			c.rulePresenceIndexSiblings("R-PRESENCE-INDEX-SIBLINGS")
			c.ruleFeatureFields("R-FEATURE-FIELDS")
		},
	})
}

func (c *Ctx) rulePresenceConst(rule string, floor int) {
	R, P := c.R, c.P
	R.Rule(rule, "every generated presence call protoimpl.X.{Present,SetPresent,ClearPresent,SetPresentNonAtomic}(&x.XXX_presence[k], n[, size]) satisfies k == n/32, n < size, size == number of presence slots of the struct (hidden fields in declaration order, a oneof counted once), len(XXX_presence) == ceil(size/32), and n is the slot of the hidden field accessed in the same innermost block", floor)
	for _, pk := range P.Pkgs {
		for _, f := range pk.Syntax {
			fn := P.Fset.Position(f.Pos()).Filename
			if !strings.HasSuffix(fn, ".pb.go") {
				continue
			}
			info := pk.TypesInfo
			// slots per struct type
			type structInfo struct {
				slot    map[types.Object]int
				nslots  int
				arrLen  int64
				hasPres bool
			}
			structs := map[*types.Named]*structInfo{}
			for _, d := range f.Decls {
				gd, ok := d.(*ast.GenDecl)
				if !ok || gd.Tok != token.TYPE {
					continue
				}
				for _, sp := range gd.Specs {
					ts := sp.(*ast.TypeSpec)
					st, ok := ts.Type.(*ast.StructType)
					if !ok {
						continue
					}
					named, _ := info.Defs[ts.Name].Type().(*types.Named)
					if named == nil {
						continue
					}
					si := &structInfo{slot: map[types.Object]int{}}
					for _, fld := range st.Fields.List {
						for _, nm := range fld.Names {
							if strings.HasPrefix(nm.Name, "xxx_hidden_") {
								si.slot[info.Defs[nm]] = si.nslots
								si.nslots++
							}
							if nm.Name == "XXX_presence" {
								si.hasPres = true
								if at, ok := info.TypeOf(fld.Type).(*types.Array); ok {
									si.arrLen = at.Len()
								}
							}
						}
					}
					if si.hasPres {
						structs[named] = si
					}
				}
			}
			if len(structs) == 0 {
				continue
			}
			for _, d := range f.Decls {
				fd, ok := d.(*ast.FuncDecl)
				if !ok || fd.Body == nil {
					continue
				}
				obj, _ := info.Defs[fd.Name].(*types.Func)
				k := 0
				var blocks []*ast.BlockStmt
				ast.Inspect(fd.Body, func(x ast.Node) bool {
					if b, ok := x.(*ast.BlockStmt); ok {
						blocks = append(blocks, b)
					}
					return true
				})
				ast.Inspect(fd.Body, func(x ast.Node) bool {
					call, ok := x.(*ast.CallExpr)
					if !ok {
						return true
					}
					se, ok := call.Fun.(*ast.SelectorExpr)
					if !ok {
						return true
					}
					switch se.Sel.Name {
					case "Present", "SetPresent", "ClearPresent", "SetPresentNonAtomic":
					default:
						return true
					}
					if !strings.HasSuffix(calleeKey(info, call), "internal/impl.Export."+se.Sel.Name) || len(call.Args) < 2 {
						return true
					}
					// &(x.XXX_presence[k])
					ue, ok := unparen(call.Args[0]).(*ast.UnaryExpr)
					if !ok {
						return true
					}
					ie, ok := unparen(ue.X).(*ast.IndexExpr)
					if !ok {
						return true
					}
					ps, ok := unparen(ie.X).(*ast.SelectorExpr)
					if !ok || ps.Sel.Name != "XXX_presence" {
						return true
					}
					pt := info.TypeOf(ps.X)
					if p, ok := pt.(*types.Pointer); ok {
						pt = p.Elem()
					}
					named, _ := pt.(*types.Named)
					si := structs[named]
					if si == nil {
						return true
					}
					k++
					construct := funcKey(obj) + " presence call #" + itoa(k)
					kk, okK := constInt(info, ie.Index)
					nn, okN := constInt(info, call.Args[1])
					var bad []string
					if !okK || !okN {
						bad = append(bad, "non-constant presence operands")
					} else {
						if kk != nn/32 {
							bad = append(bad, "word index "+itoa(int(kk))+" != "+itoa(int(nn))+"/32")
						}
						if int(nn) >= si.nslots {
							bad = append(bad, "bit "+itoa(int(nn))+" outside the "+itoa(si.nslots)+" presence slots of the struct")
						}
						if len(call.Args) >= 3 {
							if sz, ok := constInt(info, call.Args[2]); !ok || int(sz) != si.nslots {
								bad = append(bad, "size operand is not the number of presence slots "+itoa(si.nslots))
							}
						}
						if si.arrLen != int64((si.nslots+31)/32) {
							bad = append(bad, "XXX_presence has "+itoa(int(si.arrLen))+" words for "+itoa(si.nslots)+" slots")
						}
						// innermost block referencing exactly one hidden field of this struct
						var best *ast.BlockStmt
						for _, b := range blocks {
							if !containsNode(b, call) {
								continue
							}
							if best == nil || (b.Pos() >= best.Pos() && b.End() <= best.End()) {
								best = b
							}
						}
						for best != nil {
							fields := map[types.Object]bool{}
							ast.Inspect(best, func(y ast.Node) bool {
								if s2, ok := y.(*ast.SelectorExpr); ok {
									if o := info.Uses[s2.Sel]; o != nil {
										if _, isSlot := si.slot[o]; isSlot {
											fields[o] = true
										}
									}
								}
								return true
							})
							if len(fields) == 1 {
								for o := range fields {
									if si.slot[o] != int(nn) {
										bad = append(bad, "bit "+itoa(int(nn))+" is used next to "+o.Name()+", whose slot is "+itoa(si.slot[o]))
									}
								}
								break
							}
							if len(fields) > 1 {
								break
							}
							// widen to the enclosing block
							var outer *ast.BlockStmt
							for _, b := range blocks {
								if b != best && containsNode(b, best) && (outer == nil || (b.Pos() >= outer.Pos() && b.End() <= outer.End())) {
									outer = b
								}
							}
							best = outer
						}
					}
					if len(bad) > 0 {
						R.Bad(rule, construct, P.Pos(call), strings.Join(bad, "; "))
					} else {
						R.OK(rule, construct, P.Pos(call), "bit "+itoa(int(nn))+" of "+itoa(si.nslots))
					}
					return true
				})
			}
		}
	}
}

func (c *Ctx) rulePresenceIndexSiblings(rule string) {
	R, P := c.R, c.P
	R.Rule(rule, "impl.presenceIndex (runtime) and internal_gengo.opaqueFieldPresenceIndex (generator) advance the presence slot counter under the same condition: the field is not a oneof member, or it is the last member of its oneof", 1)
	norm := func(fi *FuncInfo) (string, ast.Node) {
		info := fi.Info()
		var out string
		var at ast.Node
		walk(fi.Decl.Body, func(n ast.Node) bool {
			is, ok := n.(*ast.IfStmt)
			if !ok || len(is.Body.List) != 1 {
				return true
			}
			if _, ok := is.Body.List[0].(*ast.IncDecStmt); !ok {
				return true
			}
			var atoms []string
			var rec func(e ast.Expr)
			rec = func(e ast.Expr) {
				e = unparen(e)
				if be, ok := e.(*ast.BinaryExpr); ok && be.Op == token.LOR {
					rec(be.X)
					rec(be.Y)
					return
				}
				switch x := e.(type) {
				case *ast.BinaryExpr:
					if (x.Op == token.EQL || x.Op == token.NEQ) && isNilIdent(info, x.Y) {
						s := exprStr(unparen(x.X))
						if strings.HasSuffix(s, ".ContainingOneof()") || strings.HasSuffix(s, ".Oneof") {
							atoms = append(atoms, "oneof"+x.Op.String()+"nil")
							return
						}
					}
				case *ast.CallExpr:
					atoms = append(atoms, "call:"+short(calleeKey(info, x)))
					return
				}
				atoms = append(atoms, "other:"+exprStr(e))
			}
			rec(is.Cond)
			out = strings.Join(dedupe(atoms), " || ")
			at = is
			return true
		})
		return out, at
	}
	fr := c.need(rule, "internal/impl.presenceIndex")
	if P.Pkg("cmd/protoc-gen-go/internal_gengo") == nil {
		R.Unk(rule, "generator", "", "generator package not loaded")
		return
	}
	fg := c.need(rule, "cmd/protoc-gen-go/internal_gengo.opaqueFieldPresenceIndex")
	if fr == nil || fg == nil {
		return
	}
	a, ap := norm(fr)
	b, _ := norm(fg)
	if a == "" || b == "" {
		R.Unk(rule, "presence index counting", P.Pos(fr.Decl), "counting condition not found in one of the two functions")
		return
	}
	R.Check(a == b, rule, "presence index counting", P.Pos(ap), "both count a field iff {"+a+"}", "the runtime counts a presence slot under {"+a+"} but the generator under {"+b+"}: generated presence constants point at other fields' bits")
}
