package main

import (
	"go/ast"
	"go/types"
	"sort"
	"strings"
)

// R-CODER-ROW: the functions wired into one coder literal
// (pointerCoderFuncs / valueCoderFuncs {size, marshal, unmarshal, merge})
// describe one wire form: same wire family on the encode and decode side,
// mutually inverse value transforms, the same Go accessor, and matching UTF-8
// checks.

type coderFacts struct {
	calls     map[string]bool // callee keys of interest
	wireTypes map[string]bool // protowire.XType constants mentioned
	accessors map[string]bool // methods invoked on pointer-typed parameters
	hasLoopVL bool
}

func (c *Ctx) coderFacts(fi *FuncInfo) coderFacts {
	info := fi.Info()
	cf := coderFacts{calls: map[string]bool{}, wireTypes: map[string]bool{}, accessors: map[string]bool{}}
	ptrParams := map[types.Object]bool{}
	for _, f := range fi.Decl.Type.Params.List {
		for _, nm := range f.Names {
			if namedTypeName(info.TypeOf(f.Type)) == "internal/impl.pointer" {
				ptrParams[info.Defs[nm]] = true
			}
		}
	}
	walkAll(fi.Decl.Body, func(n ast.Node) bool {
		switch x := n.(type) {
		case *ast.CallExpr:
			k := calleeKey(info, x)
			if strings.HasPrefix(k, "encoding/protowire.") || strings.HasPrefix(k, "math.Float") || strings.HasPrefix(k, "unicode/utf8.Valid") {
				cf.calls[k] = true
			}
			if se, ok := x.Fun.(*ast.SelectorExpr); ok {
				if id, ok := unparen(se.X).(*ast.Ident); ok && ptrParams[objOf(info, id)] && strings.HasPrefix(k, "internal/impl.pointer.") {
					name := strings.TrimPrefix(k, "internal/impl.pointer.")
					if !strings.HasPrefix(name, "grow") && name != "IsNil" && name != "Elem" {
						cf.accessors[name] = true
					}
				}
			}
		case *ast.SelectorExpr:
			if o := info.Uses[x.Sel]; o != nil {
				if cst, ok := o.(*types.Const); ok && cst.Pkg() != nil && strings.HasSuffix(cst.Pkg().Path(), "encoding/protowire") && strings.HasSuffix(cst.Name(), "Type") {
					cf.wireTypes[cst.Name()] = true
				}
			}
		}
		return true
	})
	// delegation: a thin wrapper that forwards the wire type to one module
	// function is described by that function
	if len(cf.wireTypes) == 0 {
		walkAll(fi.Decl.Body, func(n ast.Node) bool {
			call, ok := n.(*ast.CallExpr)
			if !ok {
				return true
			}
			passes := false
			for _, a := range call.Args {
				if namedTypeName(info.TypeOf(a)) == "encoding/protowire.Type" {
					passes = true
				}
			}
			if cf2 := c.P.Func(calleeKey(info, call)); passes && cf2 != nil && cf2 != fi && cf2.Decl.Body != nil {
				sub := c.coderFacts(cf2)
				for k := range sub.calls {
					cf.calls[k] = true
				}
				for k := range sub.wireTypes {
					cf.wireTypes[k] = true
				}
				cf.calls["delegate:"+cf2.Obj.Name()] = true
			}
			return true
		})
	}
	// nested message decoding through the MessageInfo
	walkAll(fi.Decl.Body, func(n ast.Node) bool {
		if call, ok := n.(*ast.CallExpr); ok {
			if k := calleeKey(info, call); k == "internal/impl.(*MessageInfo).unmarshalPointer" {
				cf.calls["unmarshalPointer"] = true
			}
		}
		return true
	})
	return cf
}

func setStr(m map[string]bool) string {
	var s []string
	for k := range m {
		s = append(s, k)
	}
	sort.Strings(s)
	return strings.Join(s, ",")
}

func (c *Ctx) ruleCoderRow(rule string, floor int) {
	R, P := c.R, c.P
	R.Rule(rule, "for every coder literal {size, marshal, unmarshal, merge}: the unmarshal function checks the wire type and uses the Consume primitive of the family the marshal function emits (varint / fixed32 / fixed64 / length-delimited), slice coders of packable kinds accept both the packed and the unpacked form, value transforms are mutually inverse (ZigZag, Bool, float bit casts), all four functions use the same Go accessor on the message pointer, and UTF-8 validation is present on both sides or on neither", floor)
	const pp = "encoding/protowire."
	pk := P.Pkg("internal/impl")
	if pk == nil {
		R.Unk(rule, "internal/impl", "", "package not loaded")
		return
	}
	info := pk.TypesInfo
	funcOf := func(e ast.Expr) *FuncInfo {
		if o, ok := objOf(info, e).(*types.Func); ok {
			return P.Func(funcKey(o))
		}
		return nil
	}
	n := 0
	for _, f := range pk.Syntax {
		ast.Inspect(f, func(x ast.Node) bool {
			cl, ok := x.(*ast.CompositeLit)
			if !ok {
				return true
			}
			tn := namedTypeName(info.TypeOf(cl))
			if tn != "internal/impl.pointerCoderFuncs" && tn != "internal/impl.valueCoderFuncs" {
				return true
			}
			slots := map[string]ast.Expr{}
			for _, el := range cl.Elts {
				if kv, ok := el.(*ast.KeyValueExpr); ok {
					if id, ok := kv.Key.(*ast.Ident); ok {
						slots[id.Name] = kv.Value
					}
				}
			}
			fm, fu := funcOf(slots["marshal"]), funcOf(slots["unmarshal"])
			if fm == nil || fu == nil {
				return true // literals built from closures (message coders): covered by R-SIZE-APPEND and the recursion rules
			}
			n++
			construct := "coder{" + fm.Obj.Name() + "," + fu.Obj.Name() + "}"
			pos := P.Pos(cl)
			am, au := c.coderFacts(fm), c.coderFacts(fu)
			var bad []string
			need := func(cond bool, msg string) {
				if !cond {
					bad = append(bad, msg)
				}
			}
			// wire family
			elemType := ""
			isMsg := false
			walkAll(fm.Decl.Body, func(y ast.Node) bool {
				if call, ok := y.(*ast.CallExpr); ok {
					switch nm := short(calleeKey(fm.Info(), call)); {
					case strings.HasPrefix(nm, "marshalAppendPointer"), nm == "MarshalAppend", strings.HasPrefix(nm, "appendMessage"), strings.HasPrefix(nm, "appendGroup"), nm == "marshalAppendPointer":
						isMsg = true
					}
					if se, ok := call.Fun.(*ast.SelectorExpr); ok && (se.Sel.Name == "marshalAppendPointer" || se.Sel.Name == "MarshalAppend") {
						isMsg = true
					}
				}
				return true
			})
			isGroup := false
			if isMsg {
				walkAll(fm.Decl.Body, func(y ast.Node) bool {
					if be, ok := y.(*ast.BinaryExpr); ok && isWireTagExpr(be) {
						isGroup = true
					}
					return true
				})
				// delegating coders (appendGroupValue → appendGroup) are groups by the callee
				if strings.Contains(fm.Obj.Name(), "Group") {
					isGroup = true
				}
			}
			switch {
			case isMsg && isGroup:
				elemType = "StartGroupType"
				need(au.calls[pp+"ConsumeGroup"] || au.calls["unmarshalPointer"], "marshal emits a group but unmarshal neither uses ConsumeGroup nor decodes up to the end-group tag through unmarshalPointer")
			case isMsg:
				elemType = "BytesType"
				need(au.calls[pp+"ConsumeBytes"], "marshal emits a length-delimited message but unmarshal does not use ConsumeBytes")
			case am.calls[pp+"AppendFixed32"]:
				elemType = "Fixed32Type"
				need(au.calls[pp+"ConsumeFixed32"], "marshal emits fixed32 but unmarshal does not use ConsumeFixed32")
			case am.calls[pp+"AppendFixed64"]:
				elemType = "Fixed64Type"
				need(au.calls[pp+"ConsumeFixed64"], "marshal emits fixed64 but unmarshal does not use ConsumeFixed64")
			case am.calls[pp+"AppendBytes"] || am.calls[pp+"AppendString"]:
				elemType = "BytesType"
				need(au.calls[pp+"ConsumeBytes"] || au.calls[pp+"ConsumeString"], "marshal emits a length-delimited value but unmarshal does not use ConsumeBytes/ConsumeString")
			default:
				elemType = "VarintType"
				need(au.calls[pp+"ConsumeVarint"], "marshal emits a varint but unmarshal does not use ConsumeVarint")
			}
			need(au.wireTypes[elemType], "unmarshal does not test the wire type "+elemType+" that marshal's tag carries")
			for _, other := range []string{"VarintType", "Fixed32Type", "Fixed64Type", "BytesType", "StartGroupType"} {
				if other != elemType && au.wireTypes[other] && !(other == "BytesType" && elemType != "BytesType") {
					bad = append(bad, "unmarshal tests wire type "+other+" which marshal never emits")
				}
			}
			// packed acceptance for slice coders of packable kinds
			isSlice := false
			for a := range au.accessors {
				if strings.HasSuffix(a, "Slice") {
					isSlice = true
				}
			}
			if tn == "internal/impl.valueCoderFuncs" && strings.Contains(fm.Obj.Name(), "Slice") {
				isSlice = true
			}
			if isSlice && elemType != "BytesType" && !isMsg {
				need(au.wireTypes["BytesType"] && au.calls[pp+"ConsumeBytes"], "slice coder of a packable kind does not accept the packed (length-delimited) form")
			}
			// transforms
			for _, pr := range [][2]string{{pp + "EncodeZigZag", pp + "DecodeZigZag"}, {pp + "EncodeBool", pp + "DecodeBool"}, {"math.Float32bits", "math.Float32frombits"}, {"math.Float64bits", "math.Float64frombits"}} {
				if am.calls[pr[0]] != au.calls[pr[1]] {
					bad = append(bad, "value transform mismatch: marshal uses "+short(pr[0])+"="+boolStr(am.calls[pr[0]])+" but unmarshal uses "+short(pr[1])+"="+boolStr(au.calls[pr[1]]))
				}
			}
			// UTF-8
			mu := am.calls["unicode/utf8.ValidString"] || am.calls["unicode/utf8.Valid"]
			uu := au.calls["unicode/utf8.ValidString"] || au.calls["unicode/utf8.Valid"]
			need(mu == uu, "UTF-8 validation on one side only (marshal="+boolStr(mu)+", unmarshal="+boolStr(uu)+")")
			// accessors
			if tn == "internal/impl.pointerCoderFuncs" && !isMsg {
				acc := setStr(am.accessors)
				for _, slot := range []string{"size", "unmarshal", "merge"} {
					if fx := funcOf(slots[slot]); fx != nil {
						got := c.coderFacts(fx).accessors
						if slot == "size" && len(got) == 0 {
							continue // fixed-width size functions do not read the value
						}
						if setStr(got) != acc {
							bad = append(bad, slot+" accesses the field as {"+setStr(got)+"} but marshal as {"+acc+"}")
						}
					}
				}
			}
			if len(bad) > 0 {
				sort.Strings(bad)
				R.Bad(rule, construct, pos, strings.Join(bad, "; "))
			} else {
				R.OK(rule, construct, pos, elemType+" family, accessors {"+setStr(am.accessors)+"}")
			}
			return true
		})
	}
}

func short(k string) string {
	if i := strings.LastIndex(k, "."); i >= 0 {
		return k[i+1:]
	}
	return k
}

func boolStr(b bool) string {
	if b {
		return "yes"
	}
	return "no"
}
