package main

import (
	"go/ast"
	"go/token"
	"go/types"
	"sort"
	"strings"
)

// R-LAZY-FIELD-PARITY: protolazy's SizeField and AppendField answer for a
// still-lazy field from the index (FindFieldInProto → start, end, found,
// multipleEntries). Both are read as decision procedures over the atoms their
// conditions mention and evaluated for every assignment; in every case the
// byte spans SizeField adds up must be the spans AppendField copies.
type spanEval struct {
	info  *types.Info
	atoms map[string]bool
	seen  map[string]bool
	fail  string
}

func (se *spanEval) cond(e ast.Expr) bool {
	e = unparen(e)
	switch x := e.(type) {
	case *ast.UnaryExpr:
		if x.Op == token.NOT {
			return !se.cond(x.X)
		}
	case *ast.BinaryExpr:
		switch x.Op {
		case token.LAND:
			return se.cond(x.X) && se.cond(x.Y)
		case token.LOR:
			return se.cond(x.X) || se.cond(x.Y)
		case token.NEQ:
			a := exprStr(x.X) + "==" + exprStr(x.Y)
			se.seen[a] = true
			return !se.atoms[a]
		case token.EQL:
			a := exprStr(x.X) + "==" + exprStr(x.Y)
			se.seen[a] = true
			return se.atoms[a]
		}
	}
	a := exprStr(e)
	se.seen[a] = true
	return se.atoms[a]
}

// spansIn: byte spans accounted for in an expression/statement:
// int(a - b) → SPAN(b,a); X[lo:hi] → SPAN(lo,hi).
func spansIn(info *types.Info, n ast.Node) []string {
	var out []string
	walk(n, func(x ast.Node) bool {
		switch e := x.(type) {
		case *ast.SliceExpr:
			if e.Low != nil && e.High != nil {
				out = append(out, "SPAN("+exprStr(e.Low)+","+exprStr(e.High)+")")
				return false
			}
		case *ast.BinaryExpr:
			if e.Op == token.SUB {
				out = append(out, "SPAN("+exprStr(e.Y)+","+exprStr(e.X)+")")
				return false
			}
		}
		return true
	})
	return out
}

// exec returns (spans, returned)
func (se *spanEval) exec(stmts []ast.Stmt) ([]string, bool) {
	var out []string
	for _, s := range stmts {
		switch x := s.(type) {
		case *ast.IfStmt:
			if x.Init != nil {
				se.fail = "if with init statement"
				return out, true
			}
			if se.cond(x.Cond) {
				sp, ret := se.exec(x.Body.List)
				out = append(out, sp...)
				if ret {
					return out, true
				}
			} else if x.Else != nil {
				var list []ast.Stmt
				switch e := x.Else.(type) {
				case *ast.BlockStmt:
					list = e.List
				case *ast.IfStmt:
					list = []ast.Stmt{e}
				}
				sp, ret := se.exec(list)
				out = append(out, sp...)
				if ret {
					return out, true
				}
			}
		case *ast.RangeStmt:
			sp, _ := se.exec(x.Body.List)
			sort.Strings(sp)
			out = append(out, "EACH("+exprStr(x.X)+"){"+strings.Join(sp, "+")+"}")
		case *ast.ReturnStmt:
			for _, r := range x.Results {
				out = append(out, spansIn(se.info, r)...)
			}
			return out, true
		case *ast.AssignStmt:
			for _, r := range x.Rhs {
				if call, ok := unparen(r).(*ast.CallExpr); ok && strings.HasSuffix(calleeKey(se.info, call), "FindFieldInProto") {
					continue
				}
				out = append(out, spansIn(se.info, r)...)
			}
		case *ast.ExprStmt, *ast.DeclStmt:
		default:
			se.fail = "unrecognised statement"
			return out, true
		}
	}
	return out, false
}

func (c *Ctx) ruleLazyFieldParity(rule string) {
	R, P := c.R, c.P
	R.Rule(rule, "protolazy SizeField and AppendField, evaluated for every assignment of the atoms in their conditions (index has several entries for the field; field found), account for the same byte spans: every entry's [Start,End) when there are several, [start,end) when found, nothing otherwise", 4)
	const pre = "internal/protolazy.(*XXX_lazyUnmarshalInfo)."
	fs, fa := c.need(rule, pre+"SizeField"), c.need(rule, pre+"AppendField")
	if fs == nil || fa == nil {
		return
	}
	// discover atoms
	atomSet := map[string]bool{}
	for _, fi := range []*FuncInfo{fs, fa} {
		se := &spanEval{info: fi.Info(), atoms: map[string]bool{}, seen: atomSet}
		walk(fi.Decl.Body, func(n ast.Node) bool {
			if is, ok := n.(*ast.IfStmt); ok {
				se.cond(is.Cond)
			}
			return true
		})
	}
	var atoms []string
	for a := range atomSet {
		atoms = append(atoms, a)
	}
	sort.Strings(atoms)
	if len(atoms) == 0 || len(atoms) > 6 {
		R.Unk(rule, pre+"SizeField ~ AppendField", P.Pos(fs.Decl), "unexpected number of condition atoms: "+itoa(len(atoms)))
		return
	}
	for m := 0; m < 1<<len(atoms); m++ {
		asg := map[string]bool{}
		var desc []string
		for i, a := range atoms {
			asg[a] = m&(1<<i) != 0
			if asg[a] {
				desc = append(desc, a)
			} else {
				desc = append(desc, "!("+a+")")
			}
		}
		run := func(fi *FuncInfo) (string, string) {
			se := &spanEval{info: fi.Info(), atoms: asg, seen: map[string]bool{}}
			sp, _ := se.exec(fi.Decl.Body.List)
			sort.Strings(sp)
			return strings.Join(sp, " + "), se.fail
		}
		ss, f1 := run(fs)
		sa, f2 := run(fa)
		construct := "SizeField ~ AppendField [" + strings.Join(desc, ", ") + "]"
		switch {
		case f1 != "" || f2 != "":
			R.Unk(rule, construct, P.Pos(fs.Decl), "outside the recognised statements: "+f1+f2)
		case ss != sa:
			R.Bad(rule, construct, P.Pos(fs.Decl), "SizeField accounts for {"+ss+"} but AppendField copies {"+sa+"}: Size differs from the marshaled length for a lazy field in this state")
		default:
			R.OK(rule, construct, P.Pos(fs.Decl), "{"+ss+"}")
		}
	}
}
