package main

import (
	"go/ast"
	"go/types"
	"strings"
)

// R-VALUE-MERGE-CLASS: the coders of extension fields and map values work on
// protoreflect.Value (valueCoderFuncs). Their merge slot must have the effect
// class of the value the marshal slot encodes: a message (or each message of a
// list) is merged/cloned, bytes are copied, only immutable scalars and strings
// may be shared with the source. Both sides are classified from the code: the
// marshal function (with its direct helpers) by the Value accessors it uses,
// the merge function by what it stores.
func (c *Ctx) ruleValueMergeClass(rule string, floor int) {
	R, P := c.R, c.P
	R.Rule(rule, "for every valueCoderFuncs literal the merge function's effect (share the source value / copy bytes / merge the message / append shared, copied or cloned elements) is the one required by what the marshal function encodes (scalar or string / bytes / message / list of these)", floor)
	pk := P.Pkg("internal/impl")
	if pk == nil {
		R.Unk(rule, "internal/impl", "", "package not loaded")
		return
	}
	info := pk.TypesInfo
	// accessors used by a function and the module functions it calls directly (depth 2)
	var accessors func(fi *FuncInfo, depth int, out map[string]bool)
	accessors = func(fi *FuncInfo, depth int, out map[string]bool) {
		if fi == nil || fi.Decl.Body == nil || depth > 2 {
			return
		}
		finfo := fi.Info()
		walk(fi.Decl.Body, func(n ast.Node) bool {
			call, ok := n.(*ast.CallExpr)
			if !ok {
				return true
			}
			k := calleeKey(finfo, call)
			switch k {
			case "reflect/protoreflect.Value.List", "reflect/protoreflect.Value.Message", "reflect/protoreflect.Value.Bytes":
				out[k[strings.LastIndex(k, ".")+1:]] = true
			}
			if strings.HasPrefix(k, "internal/impl.") {
				accessors(P.Func(k), depth+1, out)
			}
			return true
		})
	}
	mergeEffect := func(fi *FuncInfo) string {
		finfo := fi.Info()
		list := containsCall(finfo, fi.Decl.Body, "reflect/protoreflect.List.Append") != nil
		clone := containsCall(finfo, fi.Decl.Body, "proto.Clone") != nil
		merge := false
		walk(fi.Decl.Body, func(n ast.Node) bool {
			if call, ok := n.(*ast.CallExpr); ok {
				if se, ok := call.Fun.(*ast.SelectorExpr); ok && se.Sel.Name == "Merge" && namedTypeName(finfo.TypeOf(se.X)) == "internal/impl.mergeOptions" {
					merge = true
				}
			}
			return true
		})
		copyBytes := false
		walk(fi.Decl.Body, func(n ast.Node) bool {
			if call, ok := n.(*ast.CallExpr); ok && calleeKey(finfo, call) == "builtin.append" && len(call.Args) == 2 && call.Ellipsis.IsValid() {
				if strings.HasPrefix(exprStr(call.Args[0]), "emptyBuf[") {
					copyBytes = true
				}
			}
			return true
		})
		switch {
		case list && clone:
			return "list-clone-msg"
		case list && copyBytes:
			return "list-copy-bytes"
		case list:
			return "list-share"
		case merge:
			return "merge-msg"
		case copyBytes:
			return "copy-bytes"
		}
		// identity: a single `return src`
		if len(fi.Decl.Body.List) == 1 {
			if rs, ok := fi.Decl.Body.List[0].(*ast.ReturnStmt); ok && len(rs.Results) == 1 {
				if id, ok := unparen(rs.Results[0]).(*ast.Ident); ok && id.Name == "src" {
					return "share"
				}
			}
		}
		return "?"
	}
	for _, f := range pk.Syntax {
		ast.Inspect(f, func(x ast.Node) bool {
			vs, ok := x.(*ast.ValueSpec)
			if !ok || len(vs.Names) != 1 || len(vs.Values) != 1 {
				return true
			}
			cl, ok := vs.Values[0].(*ast.CompositeLit)
			if !ok || namedTypeName(info.TypeOf(cl)) != "internal/impl.valueCoderFuncs" {
				return true
			}
			slots := map[string]ast.Expr{}
			for _, el := range cl.Elts {
				if kv, ok := el.(*ast.KeyValueExpr); ok {
					if id, ok := kv.Key.(*ast.Ident); ok {
						slots[id.Name] = kv.Value
					}
				}
			}
			construct := "coder{" + vs.Names[0].Name + "}.merge"
			mo, ok1 := objOf(info, slots["marshal"]).(*types.Func)
			go_, ok2 := objOf(info, slots["merge"]).(*types.Func)
			if !ok1 || !ok2 {
				R.Unk(rule, construct, P.Pos(cl), "marshal or merge slot is not a named function")
				return true
			}
			fm, fg := P.Func(funcKey(mo)), P.Func(funcKey(go_))
			if fm == nil || fg == nil {
				R.Unk(rule, construct, P.Pos(cl), "slot functions not found")
				return true
			}
			acc := map[string]bool{}
			accessors(fm, 0, acc)
			want := "share"
			switch {
			case acc["List"] && acc["Message"]:
				want = "list-clone-msg"
			case acc["List"] && acc["Bytes"]:
				want = "list-copy-bytes"
			case acc["List"]:
				want = "list-share"
			case acc["Message"]:
				want = "merge-msg"
			case acc["Bytes"]:
				want = "copy-bytes"
			}
			got := mergeEffect(fg)
			R.Check(got == want, rule, construct, P.Pos(cl), go_.Name()+": "+got, "the marshal function ("+mo.Name()+") encodes a value of class `"+want+"` but the merge function "+go_.Name()+" has effect `"+got+"`: after Merge/Clone the destination shares mutable data (messages or byte slices) with the source, or drops/duplicates content")
			return true
		})
	}
}

// R-MERGE-DESC: the reflection merge decides how to copy a value (recurse into
// a message, clone bytes, share a scalar) from descriptor predicates. In each
// of mergeMessage/mergeList/mergeMap all predicates of the deciding switch
// must test one and the same descriptor, and for map values that descriptor
// must be the map *value* descriptor (the map field itself is of message
// kind): otherwise bytes values are stored without cloneBytes.
func (c *Ctx) ruleMergeDesc(rule string) {
	R, P := c.R, c.P
	R.Rule(rule, "in proto's reflection merge every copy-deciding switch tests a single descriptor; in mergeMap that descriptor is the map value descriptor (a local or argument obtained by MapValue()); the bytes case stores o.cloneBytes(v)", 5)
	for _, name := range []string{"mergeMessage", "mergeList", "mergeMap"} {
		fi := c.need(rule, "proto.mergeOptions."+name)
		if fi == nil {
			continue
		}
		info := fi.Info()
		defs := localDefs(fi.Decl.Body, info)
		descs := map[types.Object]string{}
		bytesCase := 0
		bytesCloned := 0
		walkAll(fi.Decl.Body, func(n ast.Node) bool {
			cc, ok := n.(*ast.CaseClause)
			if !ok {
				return true
			}
			isBytes := false
			for _, l := range cc.List {
				walk(l, func(x ast.Node) bool {
					call, ok := x.(*ast.CallExpr)
					if !ok {
						return true
					}
					k := calleeKey(info, call)
					if strings.HasPrefix(k, "reflect/protoreflect.FieldDescriptor.") {
						if se, ok := call.Fun.(*ast.SelectorExpr); ok {
							if o := objOf(info, se.X); o != nil {
								descs[o] = o.Name()
							}
						}
						if strings.HasSuffix(k, ".Kind") && strings.Contains(exprStr(l), "BytesKind") {
							isBytes = true
						}
					}
					return true
				})
			}
			if isBytes {
				bytesCase++
				for _, st := range cc.Body {
					if containsCall(info, st, "proto.mergeOptions.cloneBytes") != nil {
						bytesCloned++
						break
					}
				}
			}
			return true
		})
		var names []string
		var the types.Object
		for o, nm := range descs {
			names = append(names, nm)
			the = o
		}
		R.Check(len(descs) == 1, rule, fi.Key+" single descriptor", P.Pos(fi.Decl), "all predicates on "+strings.Join(names, ","), "the copy-deciding predicates test different descriptors ("+strings.Join(names, ", ")+"): the kind tested is not the kind of the value being copied, so the wrong copy discipline is chosen (bytes shared instead of cloned, or messages not recursed into)")
		R.Check(bytesCase > 0 && bytesCase == bytesCloned, rule, fi.Key+" bytes cloned", P.Pos(fi.Decl), "bytes case stores cloneBytes(v)", "the BytesKind case is missing or stores the source bytes without o.cloneBytes")
		if name == "mergeMap" && len(descs) == 1 {
			good := false
			if _, isParam := the.(*types.Var); isParam && len(defs[the]) == 0 {
				// parameter: every call site passes X.MapValue()
				all, n := true, 0
				for _, caller := range P.FuncsIn("proto") {
					if caller.Decl.Body == nil {
						continue
					}
					cinfo := caller.Info()
					walkAll(caller.Decl.Body, func(x ast.Node) bool {
						call, ok := x.(*ast.CallExpr)
						if !ok || calleeKey(cinfo, call) != fi.Key {
							return true
						}
						n++
						last := call.Args[len(call.Args)-1]
						if lc, ok := unparen(last).(*ast.CallExpr); !ok || calleeKey(cinfo, lc) != "reflect/protoreflect.FieldDescriptor.MapValue" {
							all = false
						}
						return true
					})
				}
				good = all && n > 0
			} else {
				for _, d := range defs[the] {
					if lc, ok := unparen(d.rhs).(*ast.CallExpr); ok && calleeKey(info, lc) == "reflect/protoreflect.FieldDescriptor.MapValue" {
						good = true
					}
				}
			}
			R.Check(good, rule, fi.Key+" value descriptor", P.Pos(fi.Decl), "the tested descriptor is the map value descriptor", "the descriptor tested in mergeMap is not obtained by MapValue(): the map field itself is always of message kind")
		}
	}
}
