package main

import (
	"go/ast"
	"go/types"
	"sort"
	"strings"
)

func init() {
	register(&Property{
		ID:         "C29",
		Level:      "other",
		Technique:  "sibling agreement of the open and opaque coder constructors (coder-info literal rows, wire tag computation, field ordering comparators, method wiring) with a reviewed exception table; the codec rules of C03/C04/C11 evaluated on the opaque coders (static)",
		Explain:    "Decides structural necessary conditions of `all API flavors of one schema are interchangeable` on the wire: (1) makeCoderMethods (open/hybrid structs) and makeOpaqueCoderMethods (opaque structs) build each field's coder info from the same expressions for field number, wire tag, tag size, Go type, coder functions, child message info, required flag and validation info, sort the fields by the same comparators (by number, then oneofs last through LegacyFieldOrder) and install the same fast-path methods and support flags — differences are limited to a reviewed table (field offset, pointer-ness, presence index, lazy flag); (2) the opaque message/group coders satisfy the same size/append and coder-row agreement rules as the open ones; (3) presence-bit constants in generated opaque code match the runtime's slot numbering (C11 rules); (4) in every reflection accessor table (open and opaque) the `clear` of a field whose `mutable` returns stored state resets that storage, so Clear followed by Mutable behaves the same in every flavor; (5) the generated flavors' deterministic map-key comparator and the reflection comparator used by dynamicpb order keys identically. The fast-path merge loop is evaluated for every field state (R-MERGE-LOOP): a populated source field is merged, lazy operands are decoded first on both sides.",
		NotCovered: "value-level interchangeability (bytes, JSON, text) of concrete messages across flavors; dynamicpb; the reflection API differences between flavors.",
		Quick:      all("./internal/impl", "./internal/order", "./cmd/protoc-gen-go/internal_gengo", "./internal/testprotos/lazy/...", "./internal/testprotos/mixed"),
		Thorough:   allAndLegacy("./internal/impl", "./internal/order", "./cmd/protoc-gen-go/internal_gengo", "./internal/testprotos/lazy/...", "./internal/testprotos/mixed"),
		Run: func(c *Ctx) {
			c.ruleMergeLoop("R-MERGE-LOOP")
			c.ruleCoderCtorParity("R-CODER-CTOR-PARITY")
			c.ruleSizeAppend("R-SIZE-APPEND", []string{"internal/impl"}, sizeAppendNotAnalysed, 130)
			c.ruleCoderRow("R-CODER-ROW", 100)
			c.rulePresenceConst("R-PRESENCE-CONST", 50)
			c.rulePresenceIndexSiblings("R-PRESENCE-INDEX-SIBLINGS")
			c.ruleClearResets("R-CLEAR-RESETS", 8)
			c.ruleMapKeyOrder("R-MAPKEY-ORDER")
		},
	})
}

func (c *Ctx) ruleCoderCtorParity(rule string) {
	R, P := c.R, c.P
	R.Rule(rule, "makeCoderMethods and makeOpaqueCoderMethods agree, expression for expression, on every coderFieldInfo row except the reviewed API-specific ones, on the wire tag computation, on the comparators that order fields for marshaling, and on the methods and support flags they install", 12)
	fa, fb := c.need(rule, "internal/impl.(*MessageInfo).makeCoderMethods"), c.need(rule, "internal/impl.(*MessageInfo).makeOpaqueCoderMethods")
	if fa == nil || fb == nil {
		return
	}
	norm := func(s string) string {
		s = strings.ReplaceAll(s, "piface.", "protoiface.")
		return strings.Join(strings.Fields(s), " ")
	}
	exceptions := map[string]string{
		"offset":        "where the field lives in the struct differs by API (open: exported field; opaque: hidden field)",
		"isPointer":     "opaque scalars are values with presence bits, open proto2 scalars are pointers: nil-ness is consulted only where presenceIndex is noPresence",
		"presenceIndex": "both initialise it to noPresence; the opaque constructor then assigns the slot from presenceIndex() (R-PRESENCE-INDEX-SIBLINGS)",
	}
	rows := func(fi *FuncInfo) map[string]string {
		out := map[string]string{}
		walkAll(fi.Decl.Body, func(n ast.Node) bool {
			cl, ok := n.(*ast.CompositeLit)
			if !ok || namedTypeName(fi.Info().TypeOf(cl)) != "internal/impl.coderFieldInfo" {
				return true
			}
			for _, el := range cl.Elts {
				if kv, ok := el.(*ast.KeyValueExpr); ok {
					if id, ok := kv.Key.(*ast.Ident); ok {
						out[id.Name] = norm(canonTyped(fi.Info(), kv.Value))
					}
				}
			}
			return true
		})
		return out
	}
	ra, rb := rows(fa), rows(fb)
	keys := map[string]bool{}
	for k := range ra {
		keys[k] = true
	}
	for k := range rb {
		keys[k] = true
	}
	for _, k := range sortedSet(keys) {
		construct := "coderFieldInfo." + k
		if why, ok := exceptions[k]; ok {
			R.Exempt(rule, construct, P.Pos(fa.Decl), why)
			continue
		}
		R.Check(ra[k] == rb[k], rule, construct, P.Pos(fb.Decl), ra[k], "open constructor sets `"+ra[k]+"` but opaque constructor sets `"+rb[k]+"`: the two API flavors would encode this aspect of a field differently")
	}
	// wire tag definition
	wt := func(fi *FuncInfo) string {
		info := fi.Info()
		// all assignments to the variable stored in the literal's `wiretag` row, with their guarding if-conditions
		var wobj types.Object
		walkAll(fi.Decl.Body, func(n ast.Node) bool {
			if cl, ok := n.(*ast.CompositeLit); ok && namedTypeName(info.TypeOf(cl)) == "internal/impl.coderFieldInfo" {
				for _, el := range cl.Elts {
					if kv, ok := el.(*ast.KeyValueExpr); ok && kv.Key.(*ast.Ident).Name == "wiretag" {
						wobj = objOf(info, kv.Value)
					}
				}
			}
			return true
		})
		var parts []string
		walkAll(fi.Decl.Body, func(n ast.Node) bool {
			is, ok := n.(*ast.IfStmt)
			if !ok {
				return true
			}
			for _, blk := range []ast.Stmt{is.Body, is.Else} {
				b, ok := blk.(*ast.BlockStmt)
				if !ok {
					continue
				}
				for _, st := range b.List {
					if as, ok := st.(*ast.AssignStmt); ok && len(as.Lhs) == 1 && len(as.Rhs) == 1 && wobj != nil && objOf(info, as.Lhs[0]) == wobj {
						tag := "else"
						if blk == ast.Stmt(is.Body) {
							tag = "if " + norm(canonTyped(info, is.Cond))
						}
						parts = append(parts, tag+": "+norm(canonTyped(info, as.Rhs[0])))
					}
				}
			}
			return true
		})
		return strings.Join(parts, " | ")
	}
	R.Check(wt(fa) == wt(fb) && wt(fa) != "", rule, "wiretag definition", P.Pos(fb.Decl), wt(fa), "wire tag computed as `"+wt(fa)+"` vs `"+wt(fb)+"`")
	// ordering comparators
	cmps := func(fi *FuncInfo) string {
		info := fi.Info()
		var out []string
		walkAll(fi.Decl.Body, func(n ast.Node) bool {
			if call, ok := n.(*ast.CallExpr); ok && calleeKey(info, call) == "sort.Slice" && len(call.Args) == 2 {
				if fl, ok := call.Args[1].(*ast.FuncLit); ok {
					var parts []string
					for _, st := range fl.Body.List {
						switch v := st.(type) {
						case *ast.ReturnStmt:
							parts = append(parts, "return "+norm(canonTyped(info, v.Results[0])))
						case *ast.AssignStmt:
							parts = append(parts, "let "+norm(canonTyped(info, v.Rhs[0])))
						default:
							parts = append(parts, norm(exprOrStmt(st)))
						}
					}
					out = append(out, norm(canonTyped(info, call.Args[0]))+": "+strings.Join(parts, "; "))
				}
			}
			return true
		})
		return strings.Join(out, " | ")
	}
	R.Check(cmps(fa) == cmps(fb) && cmps(fa) != "", rule, "field ordering comparators", P.Pos(fb.Decl), "same comparators in the same order", "fields are ordered for marshaling by different comparators: open {"+cmps(fa)+"} vs opaque {"+cmps(fb)+"}")
	// method wiring
	wiring := func(fi *FuncInfo) string {
		info := fi.Info()
		set := map[string]bool{}
		walkAll(fi.Decl.Body, func(n ast.Node) bool {
			as, ok := n.(*ast.AssignStmt)
			if !ok || len(as.Lhs) != 1 || len(as.Rhs) != 1 {
				return true
			}
			l := exprStr(as.Lhs[0])
			if strings.HasPrefix(l, "mi.methods.") || l == "mi.needsInitCheck" || l == "mi.isMessageSet" {
				set[norm(l+" "+as.Tok.String()+" "+canonTyped(info, as.Rhs[0]))] = true
			}
			_ = info
			return true
		})
		s := sortedSet(set)
		sort.Strings(s)
		return strings.Join(s, "; ")
	}
	R.Check(wiring(fa) == wiring(fb) && wiring(fa) != "", rule, "method wiring", P.Pos(fb.Decl), "same methods and support flags", "the two constructors install different fast-path methods or flags: open {"+wiring(fa)+"} vs opaque {"+wiring(fb)+"}")
	var _ types.Type
}

// canonTyped prints an expression with every local variable and parameter
// replaced by its type, and package qualifiers by the package path's last
// element: two sibling functions can be compared without depending on the
// names they give to their locals or imports.
func canonTyped(info *types.Info, e ast.Expr) string {
	e = unparen(e)
	switch x := e.(type) {
	case *ast.Ident:
		if o := info.Uses[x]; o != nil {
			switch v := o.(type) {
			case *types.Var:
				if !v.IsField() && (v.Pkg() == nil || v.Parent() != v.Pkg().Scope()) {
					t := v.Type().String()
					if i := strings.LastIndex(t, "/"); i >= 0 {
						t = t[i+1:]
					}
					if strings.HasSuffix(t, "opaqueStructInfo") || strings.HasSuffix(t, "structInfo") {
						t = "structInfo"
					}
					return "<" + t + ">"
				}
			case *types.PkgName:
				p := v.Imported().Path()
				return p[strings.LastIndex(p, "/")+1:]
			}
		}
		return x.Name
	case *ast.SelectorExpr:
		// si.structInfo (the opaque wrapper's embedded struct info) is the open constructor's si
		if x.Sel.Name == "structInfo" {
			return "<structInfo>"
		}
		return canonTyped(info, x.X) + "." + x.Sel.Name
	case *ast.StarExpr:
		return "*" + canonTyped(info, x.X)
	case *ast.CallExpr:
		var as []string
		for _, a := range x.Args {
			as = append(as, canonTyped(info, a))
		}
		return canonTyped(info, x.Fun) + "(" + strings.Join(as, ", ") + ")"
	case *ast.BinaryExpr:
		return "(" + canonTyped(info, x.X) + " " + x.Op.String() + " " + canonTyped(info, x.Y) + ")"
	case *ast.UnaryExpr:
		return x.Op.String() + canonTyped(info, x.X)
	case *ast.IndexExpr:
		return canonTyped(info, x.X) + "[" + canonTyped(info, x.Index) + "]"
	case *ast.BasicLit:
		return x.Value
	}
	return exprStr(e)
}

// R-CLEAR-RESETS: the reflective `clear` of a field whose `mutable` hands out
// the existing stored value (messages, lists, maps) must reset that storage,
// not only a presence bit: otherwise Clear followed by Mutable resurrects the
// old contents (and differs between API flavors).
func (c *Ctx) ruleClearResets(rule string, floor int) {
	R, P := c.R, c.P
	R.Rule(rule, "in every fieldInfo literal of internal/impl whose `mutable` accessor returns stored state (it does not just panic), the `clear` accessor writes the field's storage (reflect Set of the zero value, a nil/zero pointer store, or clearing the element in place) in addition to any presence bookkeeping", floor)
	for _, fi := range P.FuncsIn("internal/impl") {
		if fi.Decl.Body == nil {
			continue
		}
		info := fi.Info()
		k := 0
		walkAll(fi.Decl.Body, func(n ast.Node) bool {
			cl, ok := n.(*ast.CompositeLit)
			if !ok || namedTypeName(info.TypeOf(cl)) != "internal/impl.fieldInfo" {
				return true
			}
			var clear, mutable *ast.FuncLit
			for _, el := range cl.Elts {
				if kv, ok := el.(*ast.KeyValueExpr); ok {
					if id, ok := kv.Key.(*ast.Ident); ok {
						if fl, ok := kv.Value.(*ast.FuncLit); ok {
							switch id.Name {
							case "clear":
								clear = fl
							case "mutable":
								mutable = fl
							}
						}
					}
				}
			}
			if clear == nil || mutable == nil {
				return true
			}
			onlyPanics := len(mutable.Body.List) == 1
			if onlyPanics {
				es, ok := mutable.Body.List[0].(*ast.ExprStmt)
				onlyPanics = ok
				if ok {
					call, ok := es.X.(*ast.CallExpr)
					id, _ := call.Fun.(*ast.Ident)
					onlyPanics = ok && id != nil && id.Name == "panic"
				}
			}
			if onlyPanics {
				return true
			}
			k++
			resets := false
			walk(clear.Body, func(x ast.Node) bool {
				switch v := x.(type) {
				case *ast.CallExpr:
					ck := calleeKey(info, v)
					if ck == "reflect.Value.Set" || strings.HasPrefix(ck, "internal/impl.pointer.AtomicSetNilPointer") || strings.HasPrefix(ck, "internal/impl.pointer.SetPointer") || strings.HasPrefix(ck, "internal/impl.pointer.AtomicSetPointer") {
						resets = true
					}
				case *ast.AssignStmt:
					for _, l := range v.Lhs {
						if _, ok := unparen(l).(*ast.StarExpr); ok {
							resets = true
						}
					}
				}
				return true
			})
			R.Check(resets, rule, fi.Key+" fieldInfo #"+itoa(k)+" clear", P.Pos(clear), "clear resets the stored value", "`clear` does not write the field's storage although `mutable` returns stored state: Clear followed by Mutable resurrects the old contents")
			return true
		})
	}
}
