package main

import (
	"go/ast"
	"go/token"
	"go/types"
	"sort"
	"strings"
)

// Lazy extension buffers.
//
// An ExtensionField that was decoded lazily keeps its wire bytes: every
// occurrence of the extension on the wire appends one record (tag, value) to
// the buffer (appendLazyBytes), so the buffer is a concatenation of records.
// Sizing and marshaling may pass the buffer through instead of expanding the
// extension. Two rules decide the structural conditions of that shortcut:
//
// R-LAZYBUF-RECORDS: every consumer of the buffer uses it whole (nil test,
// len, append of the whole buffer) or, if it removes the leading tag, first
// establishes that the remainder is exactly one length-prefixed payload
// (protowire.ConsumeBytes consumes all of it). Without that test a buffer of
// two records is re-framed as one payload plus garbage (D12).
//
// R-EXT-LAZY-PARITY: the size function and the append function of one pair
// take the pass-through branch under the same guards, and on each of the two
// paths (pass-through, expand) they account for the same multiset of wire
// operations.

const lazyBufKey = "internal/impl.(*ExtensionField).lazyBuffer"

type lazySite struct {
	fi       *FuncInfo
	call     *ast.CallExpr
	src      string       // callee key
	obj      types.Object // variable holding the result (nil if used directly)
	ifStmt   *ast.IfStmt  // if <obj> := src(); <obj> != nil { body }
	guards   []string     // enclosing conditions, outermost first
	outerIf  ast.Stmt     // outermost enclosing if inside the region
	region   *ast.BlockStmt
	problems []string
	returns  string // "", "records", "payload": the function returns a value derived from the result
}

// parentMap of a function body.
func parentMap(root ast.Node) map[ast.Node]ast.Node {
	pm := map[ast.Node]ast.Node{}
	var stack []ast.Node
	ast.Inspect(root, func(n ast.Node) bool {
		if n == nil {
			stack = stack[:len(stack)-1]
			return false
		}
		if len(stack) > 0 {
			pm[n] = stack[len(stack)-1]
		}
		stack = append(stack, n)
		return true
	})
	return pm
}

// consumedAllTest: core is `n == len(v)` (val true) or `n != len(v)` (val false).
func consumedAllTest(info *types.Info, core ast.Expr, val bool, n, v types.Object) bool {
	be, ok := unparen(core).(*ast.BinaryExpr)
	if !ok {
		return false
	}
	if !((be.Op == token.EQL && val) || (be.Op == token.NEQ && !val)) {
		return false
	}
	isN := func(e ast.Expr) bool {
		id, ok := unparen(e).(*ast.Ident)
		return ok && info.Uses[id] == n
	}
	isLenV := func(e ast.Expr) bool {
		call, ok := unparen(e).(*ast.CallExpr)
		if !ok || calleeKey(info, call) != "builtin.len" || len(call.Args) != 1 {
			return false
		}
		id, ok := unparen(call.Args[0]).(*ast.Ident)
		return ok && info.Uses[id] == v
	}
	return (isN(be.X) && isLenV(be.Y)) || (isN(be.Y) && isLenV(be.X))
}

// analyseLazySites finds the call sites of lazy-buffer sources in fi and
// classifies every use of their results.
func (c *Ctx) analyseLazySites(fi *FuncInfo, sources map[string]string) []*lazySite {
	info := fi.Info()
	var sites []*lazySite
	var pm map[ast.Node]ast.Node
	var g *FCFG
	walk(fi.Decl.Body, func(n ast.Node) bool {
		call, ok := n.(*ast.CallExpr)
		if !ok {
			return true
		}
		k := calleeKey(info, call)
		kind, isSrc := sources[k]
		if !isSrc {
			return true
		}
		if pm == nil {
			pm = parentMap(fi.Decl.Body)
			g = fi.CFG()
		}
		s := &lazySite{fi: fi, call: call, src: k}
		sites = append(sites, s)
		// result variable
		if as, ok := pm[call].(*ast.AssignStmt); ok && len(as.Lhs) == 1 && len(as.Rhs) == 1 {
			if id, ok := as.Lhs[0].(*ast.Ident); ok {
				s.obj = info.Defs[id]
				if s.obj == nil {
					s.obj = info.Uses[id]
				}
			}
			if is, ok := pm[as].(*ast.IfStmt); ok && is.Init == as {
				if be, ok := unparen(is.Cond).(*ast.BinaryExpr); ok && be.Op == token.NEQ {
					x, y := be.X, be.Y
					if isNilIdent(info, x) {
						x, y = y, x
					}
					if id, ok := unparen(x).(*ast.Ident); ok && isNilIdent(info, y) && info.Uses[id] == s.obj {
						s.ifStmt = is
					}
				}
			}
		}
		if s.obj == nil {
			s.problems = append(s.problems, "the result is not bound to a variable: its uses cannot be enumerated")
			return true
		}
		// enclosing guards and region
		var cur ast.Node = call
		for p := pm[cur]; p != nil; cur, p = p, pm[p] {
			switch x := p.(type) {
			case *ast.IfStmt:
				if x == s.ifStmt {
					s.outerIf = x
					continue
				}
				if cur == ast.Node(x.Body) {
					s.guards = append([]string{exprStr(x.Cond)}, s.guards...)
					s.outerIf = x
				} else if cur == x.Else {
					s.guards = append([]string{"!(" + exprStr(x.Cond) + ")"}, s.guards...)
					s.outerIf = x
				}
			case *ast.ForStmt:
				if s.region == nil {
					s.region = x.Body
				}
			case *ast.RangeStmt:
				if s.region == nil {
					s.region = x.Body
				}
			}
			if s.region != nil {
				break
			}
		}
		if s.region == nil {
			s.region = fi.Decl.Body
		}
		// uses
		tracked := map[types.Object]string{s.obj: kind} // "records" | "payload" | "tail"
		tailN := map[types.Object]types.Object{}        // tail var -> ConsumeBytes count var
		for round := 0; round < 2; round++ {
			walk(fi.Decl.Body, func(n ast.Node) bool {
				id, ok := n.(*ast.Ident)
				if !ok {
					return true
				}
				o := info.Uses[id]
				kd, ok := tracked[o]
				if !ok {
					return true
				}
				p := pm[id]
				for {
					if pe, ok := p.(*ast.ParenExpr); ok {
						p = pm[pe]
						continue
					}
					break
				}
				use := P_pos(c, id)
				switch x := p.(type) {
				case *ast.BinaryExpr:
					if (x.Op == token.EQL || x.Op == token.NEQ) && (isNilIdent(info, x.X) || isNilIdent(info, x.Y)) {
						return true
					}
				case *ast.CallExpr:
					ck := calleeKey(info, x)
					if ck == "builtin.len" {
						return true
					}
					if ck == "builtin.append" && x.Ellipsis.IsValid() && len(x.Args) == 2 && unparen(x.Args[1]) == ast.Expr(id) {
						if kd == "tail" && !g.DominatedByCond(x, func(core ast.Expr, val bool) bool { return consumedAllTest(info, core, val, tailN[o], o) }) {
							if round == 1 {
								s.problems = append(s.problems, use+": the buffer without its leading tag is appended although it was not established to be a single length-prefixed payload")
							}
						}
						return true
					}
					if ck == "encoding/protowire.ConsumeBytes" && kd == "tail" {
						return true
					}
				case *ast.SliceExpr:
					if x.X == ast.Expr(id) || unparen(x.X) == ast.Expr(id) {
						if kd != "records" {
							if round == 1 {
								s.problems = append(s.problems, use+": a payload value is sliced again")
							}
							return true
						}
						// v := lb[k:]
						as, ok := pm[x].(*ast.AssignStmt)
						var v types.Object
						if ok && len(as.Lhs) == 1 && len(as.Rhs) == 1 && x.High == nil && x.Low != nil {
							if vid, ok := as.Lhs[0].(*ast.Ident); ok {
								v = info.Defs[vid]
							}
						}
						if v == nil {
							if round == 1 {
								s.problems = append(s.problems, use+": the buffer is sliced ("+exprStr(x)+") and used without a single-record test: a buffer of several records is re-framed as one payload followed by the remaining records")
							}
							return true
						}
						if _, seen := tracked[v]; !seen {
							tracked[v] = "tail"
							// find `_, n := protowire.ConsumeBytes(v)`
							walk(fi.Decl.Body, func(m ast.Node) bool {
								cb, ok := m.(*ast.CallExpr)
								if !ok || calleeKey(info, cb) != "encoding/protowire.ConsumeBytes" || len(cb.Args) != 1 {
									return true
								}
								if aid, ok := unparen(cb.Args[0]).(*ast.Ident); !ok || info.Uses[aid] != v {
									return true
								}
								if as2, ok := pm[cb].(*ast.AssignStmt); ok && len(as2.Lhs) == 2 {
									if nid, ok := as2.Lhs[1].(*ast.Ident); ok {
										if no := info.Defs[nid]; no != nil {
											tailN[v] = no
										} else if no := info.Uses[nid]; no != nil {
											tailN[v] = no
										}
									}
								}
								return true
							})
						}
						return true
					}
				case *ast.ReturnStmt:
					switch kd {
					case "tail":
						if g.DominatedByCond(x, func(core ast.Expr, val bool) bool { return consumedAllTest(info, core, val, tailN[o], o) }) {
							s.returns = "payload"
						} else if round == 1 {
							s.problems = append(s.problems, use+": the buffer without its leading tag is returned although it was not established to be a single length-prefixed payload")
						}
					default:
						s.returns = kd
					}
					return true
				}
				if round == 1 {
					s.problems = append(s.problems, use+": use of the lazy buffer outside the recognised forms (nil test, len, append of the whole value, single-record test)")
				}
				return true
			})
		}
		return true
	})
	return sites
}

func P_pos(c *Ctx, n ast.Node) string { return c.P.Pos(n) }

// lazyBufferSources: lazyBuffer and the functions of internal/impl that return
// a value derived from it.
func (c *Ctx) lazyBufferSources() (map[string]string, map[string][]*lazySite) {
	sources := map[string]string{lazyBufKey: "records"}
	sitesOf := map[string][]*lazySite{}
	for round := 0; round < 3; round++ {
		changed := false
		for _, fi := range c.P.FuncsIn("internal/impl") {
			if fi.Decl.Body == nil || fi.Key == lazyBufKey {
				continue
			}
			ss := c.analyseLazySites(fi, sources)
			if len(ss) == 0 {
				continue
			}
			sitesOf[fi.Key] = ss
			for _, s := range ss {
				if s.returns != "" {
					if _, ok := sources[fi.Key]; !ok {
						sources[fi.Key] = s.returns
						changed = true
					}
				}
			}
		}
		if !changed {
			break
		}
	}
	return sources, sitesOf
}

func (c *Ctx) ruleLazyBufRecords(rule string, floor int) {
	R, P := c.R, c.P
	R.Rule(rule, "a lazy extension buffer is a concatenation of records (one per occurrence on the wire): every consumer uses it whole (nil test, len, append of the whole buffer) or, when it drops the leading tag, first establishes with protowire.ConsumeBytes that the remainder is exactly one length-prefixed payload", floor)
	if c.need(rule, lazyBufKey) == nil {
		return
	}
	_, sitesOf := c.lazyBufferSources()
	var keys []string
	for k := range sitesOf {
		keys = append(keys, k)
	}
	sort.Strings(keys)
	for _, k := range keys {
		for i, s := range sitesOf[k] {
			construct := k + " lazy-buffer#" + itoa(i+1)
			if len(s.problems) > 0 {
				R.Bad(rule, construct, P.Pos(s.call), strings.Join(s.problems, "; "))
				continue
			}
			how := "used whole"
			if s.returns == "payload" {
				how = "tag dropped only after the single-record test; returned as one payload"
			}
			R.OK(rule, construct, P.Pos(s.call), shortKey(s.src)+" result: "+how)
		}
	}
}

func shortKey(k string) string {
	if i := strings.LastIndex(k, "."); i >= 0 {
		return k[i+1:]
	}
	return k
}

// ---------------------------------------------------------------- parity

// frameOps: multiset of wire operations written or accounted for by the nodes,
// skipping the subtrees in skip. lazy is the variable holding a lazy buffer
// (rendered as $lazy so that the two siblings compare equal).
func (c *Ctx) frameOps(fi *FuncInfo, nodes []ast.Node, skip map[ast.Node]bool, lazy types.Object, depth int) []string {
	info := fi.Info()
	var ops []string
	var defs map[types.Object][]defSite
	reachingConsume := func(id *ast.Ident) string {
		// the latest definition of id before its use, if it is the count of a ConsumeBytes call
		if defs == nil {
			defs = localDefs(fi.Decl.Body, info)
		}
		o := info.Uses[id]
		var best *defSite
		for i := range defs[o] {
			d := &defs[o][i]
			if d.rhs.Pos() < id.Pos() && (best == nil || d.rhs.Pos() > best.rhs.Pos()) {
				best = d
			}
		}
		if best == nil || best.idx != 1 {
			return ""
		}
		call, ok := unparen(best.rhs).(*ast.CallExpr)
		if !ok || calleeKey(info, call) != "encoding/protowire.ConsumeBytes" || len(call.Args) != 1 {
			return ""
		}
		return "RAW(consumed:" + exprStr(call.Args[0]) + ")"
	}
	nameOf := func(e ast.Expr) string {
		if id, ok := unparen(e).(*ast.Ident); ok && lazy != nil && info.Uses[id] == lazy {
			return "$lazy"
		}
		return exprStr(unparen(e))
	}
	tagOf := func(e ast.Expr) string {
		e = unparen(e)
		if call, ok := e.(*ast.CallExpr); ok {
			switch calleeKey(info, call) {
			case "encoding/protowire.SizeTag":
				n, _ := labelName(info, call.Args[0])
				return "tag:" + n
			case "encoding/protowire.EncodeTag":
				n, _ := labelName(info, call.Args[0])
				return "tag:" + n
			}
		}
		if sel, ok := e.(*ast.SelectorExpr); ok && (sel.Sel.Name == "tagsize" || sel.Sel.Name == "wiretag") {
			return "tag:" + exprStr(sel.X)
		}
		return "tag?" + exprStr(e)
	}
	var visit func(e ast.Node, mult int)
	visit = func(e ast.Node, mult int) {
		add := func(s string) {
			for i := 0; i < mult; i++ {
				ops = append(ops, s)
			}
		}
		addend := func(x ast.Expr) {
			if id, ok := unparen(x).(*ast.Ident); ok {
				if _, isConst := info.Uses[id].(*types.Const); isConst {
					return
				}
				if r := reachingConsume(id); r != "" {
					add(r)
				} else {
					add("?" + id.Name)
				}
			}
		}
		walk(e, func(n ast.Node) bool {
			if skip[n] {
				return false
			}
			switch x := n.(type) {
			case *ast.AssignStmt:
				if x.Tok == token.ADD_ASSIGN && len(x.Rhs) == 1 {
					addend(x.Rhs[0])
				}
			case *ast.BinaryExpr:
				if x.Op == token.MUL {
					if k, ok := constInt(info, x.X); ok && k > 0 && k < 8 {
						visit(x.Y, mult*int(k))
						return false
					}
				}
				if x.Op == token.ADD {
					addend(x.X)
					addend(x.Y)
				}
				if x.Op == token.SUB {
					add("?minus(" + exprStr(x.Y) + ")")
				}
			case *ast.CallExpr:
				key := calleeKey(info, x)
				switch key {
				case "encoding/protowire.SizeTag":
					nm, _ := labelName(info, x.Args[0])
					add("tag:" + nm)
					return false
				case "encoding/protowire.AppendTag":
					nm, _ := labelName(info, x.Args[1])
					add("tag:" + nm)
					return false
				case "encoding/protowire.SizeVarint":
					add("V(" + exprStr(unparen(x.Args[0])) + ")")
					return false
				case "encoding/protowire.AppendVarint":
					if inner, ok := unparen(x.Args[1]).(*ast.CallExpr); ok && calleeKey(info, inner) == "encoding/protowire.EncodeTag" {
						add(tagOf(inner))
						return false
					}
					add("V(" + exprStr(unparen(x.Args[1])) + ")")
					return false
				case "encoding/protowire.SizeBytes":
					if inner, ok := unparen(x.Args[0]).(*ast.CallExpr); ok && calleeKey(info, inner) == "builtin.len" {
						add("BYTES(" + nameOf(inner.Args[0]) + ")")
					} else {
						add("BYTES(len=" + exprStr(x.Args[0]) + ")")
					}
					return false
				case "encoding/protowire.AppendBytes", "encoding/protowire.AppendString":
					add("BYTES(" + nameOf(x.Args[1]) + ")")
					return false
				case "builtin.len":
					if lazy != nil {
						if id, ok := unparen(x.Args[0]).(*ast.Ident); ok && info.Uses[id] == lazy {
							add("RAW($lazy)")
						}
					}
					return false
				case "builtin.append":
					if x.Ellipsis.IsValid() && len(x.Args) == 2 {
						if se, ok := unparen(x.Args[1]).(*ast.SliceExpr); ok && se.Low == nil && se.High != nil {
							if hid, ok := unparen(se.High).(*ast.Ident); ok {
								if r := reachingConsume(hid); r == "RAW(consumed:"+exprStr(se.X)+")" {
									add(r)
									return false
								}
							}
							add("RAW(" + exprStr(se) + ")")
							return false
						}
						if se, ok := unparen(x.Args[1]).(*ast.SliceExpr); ok && se.Low != nil && se.High == nil && se.Max == nil {
							// len(x[k:]) == len(x) - k
							add("RAW(" + nameOf(se.X) + ")")
							add("?minus(" + exprStr(se.Low) + ")")
							return false
						}
						add("RAW(" + nameOf(x.Args[1]) + ")")
						return false
					}
				}
				if strings.HasPrefix(key, "encoding/protowire.Size") || strings.HasPrefix(key, "encoding/protowire.Append") {
					add("?" + shortKey(key) + "(" + exprStr(x.Args[len(x.Args)-1]) + ")")
					return false
				}
				// coder calls through the extension's function table
				if sel, ok := x.Fun.(*ast.SelectorExpr); ok && (sel.Sel.Name == "size" || sel.Sel.Name == "marshal") {
					if inner, ok := unparen(sel.X).(*ast.SelectorExpr); ok && inner.Sel.Name == "funcs" {
						if sel.Sel.Name == "size" && len(x.Args) >= 2 {
							add("CODER(" + exprStr(x.Args[0]) + "; " + tagOf(x.Args[1]) + ")")
						} else if len(x.Args) >= 3 {
							add("CODER(" + exprStr(x.Args[1]) + "; " + tagOf(x.Args[2]) + ")")
						}
						return false
					}
				}
				if cf := c.P.Func(key); cf != nil && cf != fi && depth < 3 && strings.HasPrefix(key, "internal/encoding/messageset.") && (strings.HasPrefix(cf.Obj.Name(), "Size") || strings.HasPrefix(cf.Obj.Name(), "Append")) {
					sub := c.frameOps(cf, []ast.Node{cf.Decl.Body}, nil, nil, depth+1)
					for i := 0; i < mult; i++ {
						ops = append(ops, sub...)
					}
					return false
				}
			}
			return true
		})
	}
	for _, n := range nodes {
		visit(n, 1)
	}
	sort.Strings(ops)
	return ops
}

type lazyPair struct{ size, app string }

// extLazyPairs: the size/append siblings that pass lazy extension buffers through.
var extLazyPairs = []lazyPair{
	{"internal/impl.(*MessageInfo).sizeExtensions", "internal/impl.(*MessageInfo).appendExtensions"},
	{"internal/impl.sizeMessageSet", "internal/impl.marshalMessageSetField"},
}

type lazyPaths struct {
	guards      string
	lazy, coder string
	problem     string
}

func (c *Ctx) lazyPathsOf(s *lazySite) lazyPaths {
	var out lazyPaths
	out.guards = strings.Join(s.guards, " && ")
	if s.ifStmt == nil {
		out.problem = "the pass-through branch is not of the form `if v := <lazy buffer>; v != nil { … }`"
		return out
	}
	body := s.ifStmt.Body
	if len(body.List) == 0 {
		out.problem = "empty pass-through branch"
		return out
	}
	switch last := body.List[len(body.List)-1].(type) {
	case *ast.ReturnStmt:
	case *ast.BranchStmt:
		if last.Tok != token.CONTINUE {
			out.problem = "the pass-through branch does not end the item (continue/return)"
			return out
		}
	default:
		out.problem = "the pass-through branch falls through to the expanding coder: the item would be written twice"
		return out
	}
	var before, rest []ast.Node
	for _, st := range s.region.List {
		if st.End() <= s.outerIf.Pos() {
			before = append(before, st)
		}
		rest = append(rest, st)
	}
	lz := append(c.frameOps(s.fi, before, nil, s.obj, 0), c.frameOps(s.fi, []ast.Node{body}, nil, s.obj, 0)...)
	sort.Strings(lz)
	out.lazy = strings.Join(lz, " + ")
	out.coder = strings.Join(c.frameOps(s.fi, rest, map[ast.Node]bool{body: true}, s.obj, 0), " + ")
	return out
}

func (c *Ctx) ruleExtLazyParity(rule string, pairs []lazyPair, floor int) {
	R, P := c.R, c.P
	R.Rule(rule, "size/append siblings that pass a still-lazy extension's bytes through take that branch under the same guards, and on both paths (pass-through, expand) account for the same multiset of wire operations; every function that consumes a lazy buffer belongs to such a pair", floor)
	if c.need(rule, lazyBufKey) == nil {
		return
	}
	sources, sitesOf := c.lazyBufferSources()
	paired := map[string]bool{}
	for _, pr := range pairs {
		paired[pr.size], paired[pr.app] = true, true
		fs, fa := c.need(rule, pr.size), c.need(rule, pr.app)
		if fs == nil || fa == nil {
			continue
		}
		ss, sa := sitesOf[pr.size], sitesOf[pr.app]
		construct := pr.size + " ~ " + shortKey(pr.app)
		if len(ss) != 1 || len(sa) == 0 {
			R.Bad(rule, construct, P.Pos(fs.Decl), "pass-through sites: "+itoa(len(ss))+" in the size function, "+itoa(len(sa))+" in the append function: one of the two expands every lazy extension while the other passes bytes through, so Size and the marshaled length differ for non-canonical payloads")
			continue
		}
		ps := c.lazyPathsOf(ss[0])
		if ps.problem != "" {
			R.Unk(rule, construct, P.Pos(ss[0].call), ps.problem)
			continue
		}
		for i, a := range sa {
			con := construct + " site#" + itoa(i+1)
			pa := c.lazyPathsOf(a)
			switch {
			case pa.problem != "":
				R.Unk(rule, con, P.Pos(a.call), pa.problem)
			case ps.guards != pa.guards:
				R.Bad(rule, con, P.Pos(a.call), "pass-through is taken under different conditions: size {"+ps.guards+"} vs append {"+pa.guards+"}: where they differ Size is computed from the retained bytes and the output from the re-encoded value (or vice versa)")
			case ps.lazy != pa.lazy:
				R.Bad(rule, con, P.Pos(a.call), "pass-through path: size accounts for {"+ps.lazy+"} but append emits {"+pa.lazy+"}")
			case ps.coder != pa.coder:
				R.Bad(rule, con, P.Pos(a.call), "expanding path: size accounts for {"+ps.coder+"} but append emits {"+pa.coder+"}")
			default:
				R.OK(rule, con, P.Pos(a.call), "guards {"+ps.guards+"}; pass-through {"+ps.lazy+"}; expand {"+ps.coder+"}")
			}
		}
	}
	var keys []string
	for k := range sitesOf {
		keys = append(keys, k)
	}
	sort.Strings(keys)
	for _, k := range keys {
		if paired[k] {
			continue
		}
		if _, isSrc := sources[k]; isSrc {
			R.Exempt(rule, k+" wrapper", P.Pos(sitesOf[k][0].call), "returns the buffer (or its single payload) to its caller; the callers are checked")
			continue
		}
		R.Unk(rule, k+" unpaired consumer", P.Pos(sitesOf[k][0].call), "a function outside the size/append pair table consumes a lazy extension buffer: its sibling cannot be identified")
	}
}
