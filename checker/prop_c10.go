package main

import (
	"go/ast"
	"go/token"
	"go/types"
	"strings"
)

func init() {
	register(&Property{
		ID:         "C10",
		Level:      "other",
		Technique:  "CFG must-pass/dominance rules on initialization checks, constant-bound rule on the required mask, sibling-slot rule on oneof coders (static)",
		Explain:    "Decides structural necessary conditions of exact required-field checking: (1) the three fast decode loops can report `initialized` only through the popcount(requiredMask) == numRequiredFields test and set requiredMask bits only after a successful field decode; the required-field counter saturates strictly above 64 so that >64 required fields can never look complete; (2) every success exit of the central Marshal/Unmarshal functions (binary, JSON, text) is preceded by the AllowPartial test, the fast-path initialized flag, or a CheckInitialized call; (3) checkInitializedPointer skips a field only through an enumerated set of legitimate skip edges (absent, nil, no isInit, lazy-and-checked); (4) a lazy field that the validator reported uninitialized under CheckRequired is never left unexpanded (the init check trusts unexpanded lazy fields); (5) every oneof member whose element coder has isInit gets a non-nil isInit slot, because the decode loops consult the decoded member's slot. The validator's required-field presence test accepts each validation type exactly on the wire type it was assigned for (R-VALIDATE-WIRETYPE), so a record that Unmarshal keeps as unknown never marks a required field present. In the reflection-based algorithms every condition or switch that tests MessageKind also covers GroupKind (R-MSG-GROUP-PAIR), so required fields inside group-encoded submessages are checked like those inside messages. The fast path's initialized flag is trusted only when the destination was reset by the call (R-INIT-FLAG-SCOPE): with Merge the whole resulting message is checked.",
		NotCovered: "exact iff on arbitrary message trees; the needsInitCheck memoisation across cyclic message graphs (observed defect N2, see DESIGN.md §5) is outside these rules.",
		Quick:      all("./proto", "./internal/impl", "./encoding/protojson", "./encoding/prototext"),
		Thorough:   allAndLegacy("./proto", "./internal/impl", "./encoding/protojson", "./encoding/prototext"),
		Run: func(c *Ctx) {
			c.ruleInitFlagScope("R-INIT-FLAG-SCOPE")
			c.ruleMsgGroupPair("R-MSG-GROUP-PAIR", []string{"proto", "encoding/protojson", "encoding/prototext", "types/dynamicpb"}, 5)
			c.ruleValidateWireType("R-VALIDATE-WIRETYPE")
			c.ruleRequiredMask("R-REQUIRED-MASK")
			c.ruleCheckInitOnSuccess("R-CHECKINIT")
			c.ruleCheckInitSkips("R-CHECKINIT-SKIP")
			c.ruleLazyInitTrust("R-LAZY-INIT-TRUST")
			c.ruleLazyFlags("R-LAZY-FLAGS")
			c.ruleMemoCycle("R-MEMO-CYCLE")
			c.ruleOneofIsInit("R-ONEOF-ISINIT")
		},
	})
}

// ---------------------------------------------------------------- R-REQUIRED-MASK

func (c *Ctx) ruleRequiredMask(rule string) {
	R, P := c.R, c.P
	R.Rule(rule, "decode loops: `initialized` result is set only under the popcount(requiredMask) test; requiredMask |= requiredBit is dominated by err == nil of the field decode; numRequiredFields saturates at a bound > 64 and requiredBit = 1 << (n-1)", 8)
	for _, key := range []string{"internal/impl.(*MessageInfo).unmarshalPointerEager", "internal/impl.(*MessageInfo).unmarshalPointerLazy"} {
		fi := c.need(rule, key)
		if fi == nil {
			continue
		}
		info := fi.Info()
		g := fi.CFG()
		// (a) out.initialized = true dominated by `initialized` true edge; `initialized = false` under popcount mismatch exists after loop
		var setOut ast.Node
		var popcnt *ast.IfStmt
		walk(fi.Decl.Body, func(n ast.Node) bool {
			switch s := n.(type) {
			case *ast.AssignStmt:
				if len(s.Lhs) == 1 && len(s.Rhs) == 1 {
					if se, ok := unparen(s.Lhs[0]).(*ast.SelectorExpr); ok && se.Sel.Name == "initialized" {
						if v, ok := constBool(info, s.Rhs[0]); ok && v {
							setOut = s
						}
					}
				}
			case *ast.IfStmt:
				if containsCall(info, s.Cond, "math/bits.OnesCount64") != nil {
					popcnt = s
				}
			}
			return true
		})
		if setOut == nil || popcnt == nil {
			R.Unk(rule, key, P.Pos(fi.Decl), "`out.initialized = true` / popcount test not found: idiom not recognised")
			continue
		}
		// popcount test: OnesCount64(requiredMask) != int(mi.numRequiredFields) sets initialized = false
		okPop := false
		if be := findBinary(popcnt.Cond, token.NEQ); be != nil {
			for _, st := range popcnt.Body.List {
				if as, ok := st.(*ast.AssignStmt); ok && len(as.Rhs) == 1 {
					if v, ok := constBool(info, as.Rhs[0]); ok && !v {
						okPop = true
					}
				}
			}
		}
		R.Check(okPop, rule, key+" popcount", P.Pos(popcnt), "popcount(requiredMask) != numRequiredFields ⇒ initialized = false", "the popcount test no longer clears `initialized` on mismatch")
		// every path to `out.initialized = true` passes the popcount if-statement
		dom := g.DominatedByNode(setOut, func(n ast.Node) bool { return n == ast.Node(popcnt.Cond) })
		R.Check(dom, rule, key+" result", P.Pos(setOut), "out.initialized = true only after the popcount test", "`out.initialized = true` is reachable without passing the popcount(requiredMask) test: a message missing required fields is reported initialized and the slow check is skipped")
		// (b) requiredMask |= … only after successful decode
		n := 0
		walk(fi.Decl.Body, func(x ast.Node) bool {
			as, ok := x.(*ast.AssignStmt)
			if !ok || as.Tok != token.OR_ASSIGN || len(as.Lhs) != 1 {
				return true
			}
			if id, ok := as.Lhs[0].(*ast.Ident); !ok || !strings.Contains(id.Name, "requiredMask") {
				return true
			}
			n++
			okErr := g.DominatedByCond(as, func(core ast.Expr, val bool) bool {
				be, ok := core.(*ast.BinaryExpr)
				if !ok || !isNilIdent(info, be.Y) {
					return false
				}
				if tv, ok := info.Types[be.X]; !ok || tv.Type.String() != "error" {
					return false
				}
				return (be.Op == token.NEQ && !val) || (be.Op == token.EQL && val)
			}) || dominatedBySwitchCaseConst(info, fi.Decl.Body, as, "ValidationValid")
			R.Check(okErr, rule, key+" mask#"+itoa(n), P.Pos(as), "set only after err == nil / ValidationValid", "a required bit is set on a path where the field decode may have failed or was not validated")
			return true
		})
	}
	// (c) saturation bound and bit assignment
	if fi := c.need(rule, "internal/impl.newFieldValidationInfo"); fi != nil {
		info := fi.Info()
		okBound, okBit := false, false
		var bound int64
		walk(fi.Decl.Body, func(n ast.Node) bool {
			switch s := n.(type) {
			case *ast.IfStmt:
				if be, ok := unparen(s.Cond).(*ast.BinaryExpr); ok && be.Op == token.LSS {
					if _, f, ok := fieldSel(info, be.X); ok && f == "numRequiredFields" {
						if v, ok := constInt(info, be.Y); ok {
							bound = v
							okBound = v > 64 && v <= 255
						}
					}
				}
			case *ast.AssignStmt:
				if len(s.Lhs) == 1 && len(s.Rhs) == 1 {
					if _, f, ok := fieldSel(info, s.Lhs[0]); ok && f == "requiredBit" {
						if be, ok := unparen(s.Rhs[0]).(*ast.BinaryExpr); ok && be.Op == token.SHL {
							if v, ok := constInt(info, be.X); ok && v == 1 {
								if sub, ok := unparen(be.Y).(*ast.BinaryExpr); ok && sub.Op == token.SUB {
									if one, ok := constInt(info, sub.Y); ok && one == 1 {
										if _, f2, ok := fieldSel(info, sub.X); ok && f2 == "numRequiredFields" {
											okBit = true
										}
									}
								}
							}
						}
					}
				}
			}
			return true
		})
		R.Check(okBound, rule, fi.Key+" saturation", P.Pos(fi.Decl), "numRequiredFields saturates at "+itoa(int(bound))+" (> 64, fits uint8)",
			"numRequiredFields saturates at "+itoa(int(bound))+": it must exceed 64 (the mask width) so that a message with more than 64 required fields can never satisfy popcount(mask) == count, and fit the uint8 counter")
		R.Check(okBit, rule, fi.Key+" bit", P.Pos(fi.Decl), "requiredBit = 1 << (numRequiredFields-1)", "requiredBit is not the distinct bit 1 << (numRequiredFields-1)")
	}
}

func findBinary(e ast.Expr, op token.Token) *ast.BinaryExpr {
	var out *ast.BinaryExpr
	walk(e, func(n ast.Node) bool {
		if be, ok := n.(*ast.BinaryExpr); ok && be.Op == op && out == nil {
			out = be
		}
		return true
	})
	return out
}

// dominatedBySwitchCaseConst: node lies inside `case <constName>:` of a switch.
func dominatedBySwitchCaseConst(info *types.Info, root ast.Node, target ast.Node, constName string) bool {
	res := false
	var stack []ast.Node
	ast.Inspect(root, func(n ast.Node) bool {
		if n == nil {
			stack = stack[:len(stack)-1]
			return false
		}
		if n == target {
			for _, s := range stack {
				if cc, ok := s.(*ast.CaseClause); ok {
					for _, e := range cc.List {
						if o := objOf(info, e); o != nil && o.Name() == constName {
							res = true
						}
					}
				}
			}
			return false
		}
		stack = append(stack, n)
		return true
	})
	return res
}

// ---------------------------------------------------------------- R-CHECKINIT

// Every success exit (last result nil / err known nil) of the central
// marshal/unmarshal functions is preceded by: AllowPartial being true, the
// fast-path initialized flag, a CheckInitialized call, or `m == nil`.
func (c *Ctx) ruleCheckInitOnSuccess(rule string) {
	R, P := c.R, c.P
	R.Rule(rule, "every return of the central (Un)Marshal functions that can report success is either `return …, checkInitialized(m)` or is dominated by the AllowPartial-true edge, the UnmarshalInitialized flag edge, the untyped-nil test, or follows a CheckInitialized call whose error was returned", 8)
	type spec struct {
		key      string
		checkFns []string
	}
	checkFns := []string{"proto.checkInitialized", "proto.CheckInitialized"}
	for _, sp := range []spec{
		{"proto.MarshalOptions.marshal", checkFns},
		{"proto.UnmarshalOptions.unmarshal", checkFns},
		{"encoding/protojson.MarshalOptions.marshal", checkFns},
		{"encoding/protojson.UnmarshalOptions.unmarshal", checkFns},
		{"encoding/prototext.MarshalOptions.marshal", checkFns},
		{"encoding/prototext.UnmarshalOptions.unmarshal", checkFns},
	} {
		fi := c.need(rule, sp.key)
		if fi == nil {
			continue
		}
		info := fi.Info()
		g := fi.CFG()
		n := 0
		walk(fi.Decl.Body, func(x ast.Node) bool {
			rs, ok := x.(*ast.ReturnStmt)
			if !ok || len(rs.Results) == 0 {
				return true
			}
			last := unparen(rs.Results[len(rs.Results)-1])
			// returns that directly return a check call
			if call, ok := last.(*ast.CallExpr); ok {
				if k := calleeKey(info, call); k == sp.checkFns[0] || k == sp.checkFns[1] {
					n++
					R.OK(rule, sp.key+" return#"+itoa(n), P.Pos(rs), "returns the CheckInitialized verdict")
					return true
				}
			}
			// error-typed non-nil-constant returns: is it possibly nil? `return out, err` where err may be nil; `return x, nil`.
			possiblySuccess := false
			if isNilIdent(info, last) {
				possiblySuccess = true
			} else if id, ok := last.(*ast.Ident); ok {
				// only local variables can be nil; package-level sentinels are errors
				if v, isVar := objOf(info, id).(*types.Var); isVar && v.Parent() != nil && v.Parent() != v.Pkg().Scope() && v.Type().String() == "error" {
					// `return …, err` dominated by err != nil is a failure return
					if !g.DominatedByCond(rs, func(core ast.Expr, val bool) bool {
						be, ok := core.(*ast.BinaryExpr)
						if !ok || !isNilIdent(info, be.Y) {
							return false
						}
						xid, ok := unparen(be.X).(*ast.Ident)
						if !ok || objOf(info, xid) != objOf(info, id) {
							return false
						}
						return (be.Op == token.NEQ && val) || (be.Op == token.EQL && !val)
					}) {
						possiblySuccess = true
					}
				}
			}
			if !possiblySuccess {
				return true
			}
			n++
			name := sp.key + " return#" + itoa(n)
			ok2 := g.DominatedByCond(rs, func(core ast.Expr, val bool) bool {
				// AllowPartial true (field or local copy named allowPartial)
				if _, f, ok := fieldSel(info, core); ok && f == "AllowPartial" && val {
					return true
				}
				if id, ok := core.(*ast.Ident); ok && strings.EqualFold(id.Name, "allowPartial") && val {
					return true
				}
				// untyped nil message
				if be, ok := core.(*ast.BinaryExpr); ok && be.Op == token.EQL && isNilIdent(info, be.Y) && val {
					if tv, ok := info.Types[be.X]; ok {
						if nm := namedTypeName(tv.Type); nm == "reflect/protoreflect.ProtoMessage" || nm == "proto.Message" || nm == "reflect/protoreflect.Message" {
							return true
						}
					}
				}
				// fast-path flag: out.Flags & UnmarshalInitialized != 0
				if be, ok := core.(*ast.BinaryExpr); ok && be.Op == token.NEQ && val {
					if and, ok := unparen(be.X).(*ast.BinaryExpr); ok && and.Op == token.AND {
						if qualObj(objOf(info, and.Y)) == "runtime/protoiface.UnmarshalInitialized" {
							return true
						}
					}
				}
				return false
			})
			if !ok2 {
				// a CheckInitialized call whose error was tested dominates
				ok2 = g.DominatedByNode(rs, func(nn ast.Node) bool { return containsCall(info, nn, sp.checkFns...) != nil })
			}
			R.Check(ok2, rule, name, P.Pos(rs), "success exit is behind AllowPartial / initialized flag / nil message / CheckInitialized",
				"this return can report success without AllowPartial being set, without the fast-path initialized flag and without any CheckInitialized call: a message with unset required fields is accepted")
			return true
		})
		if n == 0 {
			R.Unk(rule, sp.key, P.Pos(fi.Decl), "no return statements classified")
		}
	}
}

// ---------------------------------------------------------------- R-CHECKINIT-SKIP

// In checkInitializedPointer's field loop every `continue` (skip of a field
// without calling isInit and without reporting) is justified by one of the
// enumerated skip edges.
func (c *Ctx) ruleCheckInitSkips(rule string) {
	R, P := c.R, c.P
	R.Rule(rule, "in checkInitializedPointer every `continue` of the field loop is dominated (within the loop body) by a legitimate skip fact: field absent (presence bit clear / nil pointer), no isInit function, submessage type needs no init check, lazy field already checked on unmarshal, or the isInit call itself", 4)
	fi := c.need(rule, "internal/impl.(*MessageInfo).checkInitializedPointer")
	if fi == nil {
		return
	}
	info := fi.Info()
	// the loop over orderedCoderFields at function top level (last range statement)
	var loop *ast.RangeStmt
	for _, st := range fi.Decl.Body.List {
		if rs, ok := st.(*ast.RangeStmt); ok {
			loop = rs
		}
	}
	if loop == nil {
		R.Unk(rule, fi.Key, P.Pos(fi.Decl), "field loop not found")
		return
	}
	g := newCFG(loop.Body, info)
	legit := func(core ast.Expr, val bool) bool {
		s := exprStr(core)
		switch x := core.(type) {
		case *ast.BinaryExpr:
			// f.funcs.isInit == nil (true) / != nil (false)
			if isNilIdent(info, x.Y) && strings.HasSuffix(exprStr(x.X), "funcs.isInit") {
				return (x.Op == token.EQL && val) || (x.Op == token.NEQ && !val)
			}
		case *ast.CallExpr:
			// presence.Present(idx) false; ptr.IsNil() true; AllowedPartial() false
			if se, ok := unparen(x.Fun).(*ast.SelectorExpr); ok {
				switch se.Sel.Name {
				case "Present":
					return !val
				case "IsNil":
					return val
				case "AllowedPartial":
					return !val
				}
			}
		case *ast.SelectorExpr:
			if x.Sel.Name == "needsInitCheck" {
				return !val
			}
		}
		_ = s
		return false
	}
	n := 0
	walk(loop.Body, func(x ast.Node) bool {
		bs, ok := x.(*ast.BranchStmt)
		if !ok || bs.Tok != token.CONTINUE {
			return true
		}
		n++
		name := fi.Key + " continue#" + itoa(n)
		ok2 := g.DominatedByCondOrNode(bs, legit, func(nn ast.Node) bool {
			found := false
			walk(nn, func(y ast.Node) bool {
				if call, ok := y.(*ast.CallExpr); ok && strings.HasSuffix(exprStr(call.Fun), "funcs.isInit") {
					found = true
				}
				return true
			})
			return found
		})
		R.Check(ok2, rule, name, P.Pos(bs), "skip justified (absent / nil / no isInit / needs no check / lazy-checked / after isInit)",
			"this `continue` skips a field that may be present and have an isInit function (e.g. a populated required message field): its contents are never checked for unset required fields")
		return true
	})
	if n < 3 {
		R.Unk(rule, fi.Key, P.Pos(loop), "fewer than 3 skip sites found: idiom changed")
	}
}

// ---------------------------------------------------------------- R-LAZY-INIT-TRUST

// checkInitializedPointer trusts unexpanded lazy fields when the message was
// unmarshaled with required-field checking. Therefore unmarshalPointerLazy
// must not keep a field lazy when the validator reported it uninitialized and
// UnmarshalCheckRequired is set.
func (c *Ctx) ruleLazyInitTrust(rule string) {
	R, P := c.R, c.P
	R.Rule(rule, "unmarshalPointerLazy: every path from the skipField call into the keep-lazy arm (case ValidationValid) either takes the false edge of a condition whose truth implies `!o.initialized` and `flags&UnmarshalCheckRequired != 0`, or is cut by a reassignment of the switch tag to another validation status", 1)
	fi := c.need(rule, "internal/impl.(*MessageInfo).unmarshalPointerLazy")
	if fi == nil {
		return
	}
	info := fi.Info()
	g := fi.CFG()
	// skipField call (assignment) and its result vars
	var skipAs *ast.AssignStmt
	walk(fi.Decl.Body, func(n ast.Node) bool {
		if as, ok := n.(*ast.AssignStmt); ok && len(as.Rhs) == 1 && len(as.Lhs) == 2 {
			if _, ok := isCall(info, unparen(as.Rhs[0]), "internal/impl.(*MessageInfo).skipField"); ok {
				skipAs = as
			}
		}
		return true
	})
	if skipAs == nil {
		R.Unk(rule, fi.Key, P.Pos(fi.Decl), "skipField call not found")
		return
	}
	outObj := objOf(info, skipAs.Lhs[0])
	validObj := objOf(info, skipAs.Lhs[1])
	// the keep-lazy arm: case ValidationValid of `switch valid`
	var arm *ast.CaseClause
	walk(fi.Decl.Body, func(n ast.Node) bool {
		sw, ok := n.(*ast.SwitchStmt)
		if !ok || sw.Tag == nil || objOf(info, sw.Tag) != validObj {
			return true
		}
		for _, cc := range sw.Body.List {
			for _, e := range cc.(*ast.CaseClause).List {
				if o := objOf(info, e); o != nil && o.Name() == "ValidationValid" {
					arm = cc.(*ast.CaseClause)
				}
			}
		}
		return true
	})
	if arm == nil || len(arm.Body) == 0 {
		R.Unk(rule, fi.Key, P.Pos(skipAs), "`case ValidationValid` arm of the switch on skipField's verdict not found")
		return
	}
	first := arm.Body[0]
	sp, _ := g.posOf(skipAs)
	tp, ok := g.posOf(first)
	if !ok {
		R.Unk(rule, fi.Key, P.Pos(first), "keep-lazy arm not in CFG")
		return
	}
	impliesBoth := func(cond ast.Expr) bool {
		var atoms []atomVal
		impliedAtoms(cond, true, &atoms)
		uninit, chk := false, false
		for _, a := range atoms {
			// o.initialized false
			if se, ok := a.E.(*ast.SelectorExpr); ok && se.Sel.Name == "initialized" && objOf(info, se.X) == outObj && !a.Val {
				uninit = true
			}
			// flags & UnmarshalCheckRequired != 0
			if be, ok := a.E.(*ast.BinaryExpr); ok && a.Val && be.Op == token.NEQ {
				if and, ok := unparen(be.X).(*ast.BinaryExpr); ok && and.Op == token.AND {
					if qualObj(objOf(info, and.Y)) == "runtime/protoiface.UnmarshalCheckRequired" || qualObj(objOf(info, and.X)) == "runtime/protoiface.UnmarshalCheckRequired" {
						chk = true
					}
				}
			}
			// !AllowedPartial()
			if call, ok := a.E.(*ast.CallExpr); ok && !a.Val {
				if se, ok := unparen(call.Fun).(*ast.SelectorExpr); ok && se.Sel.Name == "AllowedPartial" {
					chk = true
				}
			}
		}
		return uninit && chk
	}
	reach, _ := g.Forward(cfgPos{sp.B, sp.I + 1}, Search{
		TargetPos: &tp,
		Barrier: func(n ast.Node) bool {
			// valid = <other status>
			if as, ok := n.(*ast.AssignStmt); ok && len(as.Lhs) == 1 && len(as.Rhs) == 1 {
				if objOf(info, as.Lhs[0]) == validObj {
					if o := objOf(info, as.Rhs[0]); o != nil && o.Name() != "ValidationValid" {
						return true
					}
				}
			}
			return false
		},
		EdgeBarrier: func(b *cfgBlock, succ int) bool {
			cond := blockCond(b)
			return cond != nil && succ == 1 && impliesBoth(cond)
		},
	})
	R.Check(!reach, rule, fi.Key+" keep-lazy arm", P.Pos(first),
		"a field reported uninitialized under CheckRequired cannot reach the keep-lazy arm",
		"a lazy field that the validator reported as missing required fields is kept unexpanded even when the caller asked for required-field checking; checkInitializedPointer skips unexpanded lazy fields of such messages (\"it was checked on unmarshal\"), so Unmarshal and CheckInitialized both accept the partial message")
}

// ---------------------------------------------------------------- R-ONEOF-ISINIT

// The decode loops test `f.funcs.isInit != nil && !o.initialized` on the
// coderFieldInfo of the DECODED field. initOneofFieldCoders installs the
// dispatching isInit only on the first member; every other member whose
// element coder has an isInit must still get a non-nil slot, or an
// uninitialized message decoded into it is reported initialized.
func (c *Ctx) ruleOneofIsInit(rule string) {
	R, P := c.R, c.P
	R.Rule(rule, "initOneofFieldCoders: inside the per-member loop, under `cf.funcs.isInit != nil`, the member's own slot mi.coderFields[num].funcs.isInit is assigned (non-nil), because unmarshalPointerEager/Lazy consult the decoded member's slot", 1)
	fi := c.need(rule, "internal/impl.(*MessageInfo).initOneofFieldCoders")
	if fi == nil {
		return
	}
	info := fi.Info()
	// consulted in decode loops?
	consulted := false
	for _, k := range []string{"internal/impl.(*MessageInfo).unmarshalPointerEager", "internal/impl.(*MessageInfo).unmarshalPointerLazy"} {
		if d := c.P.Func(k); d != nil {
			walk(d.Decl.Body, func(n ast.Node) bool {
				if be, ok := n.(*ast.BinaryExpr); ok && be.Op == token.NEQ && isNilIdent(d.Info(), be.Y) && strings.HasSuffix(exprStr(be.X), "f.funcs.isInit") {
					consulted = true
				}
				return true
			})
		}
	}
	if !consulted {
		R.OK(rule, fi.Key, P.Pos(fi.Decl), "decode loops do not consult the per-field isInit slot; nothing to require")
		return
	}
	var loop *ast.ForStmt
	for _, st := range fi.Decl.Body.List {
		if fs, ok := st.(*ast.ForStmt); ok && loop == nil {
			loop = fs
		}
	}
	if loop == nil {
		R.Unk(rule, fi.Key, P.Pos(fi.Decl), "member loop not found")
		return
	}
	g := newCFG(loop.Body, info)
	found := false
	walk(loop.Body, func(n ast.Node) bool {
		as, ok := n.(*ast.AssignStmt)
		if !ok || len(as.Lhs) != 1 {
			return true
		}
		l := exprStr(as.Lhs[0])
		if !strings.HasSuffix(l, ".funcs.isInit") || !strings.Contains(l, "coderFields[") {
			return true
		}
		if isNilIdent(info, as.Rhs[0]) {
			return true
		}
		if g.DominatedByCond(as, func(core ast.Expr, val bool) bool {
			be, ok := core.(*ast.BinaryExpr)
			return ok && be.Op == token.NEQ && val && isNilIdent(info, be.Y) && strings.HasSuffix(exprStr(be.X), "funcs.isInit")
		}) {
			found = true
		}
		return true
	})
	R.Check(found, rule, fi.Key+" member slot", P.Pos(loop),
		"each member with an isInit element coder gets a non-nil isInit slot",
		"only the first oneof member gets an isInit function, but the decode loops consult the decoded member's own slot (`f.funcs.isInit != nil && !o.initialized`): a submessage with unset required fields decoded into any other member is reported initialized and Unmarshal skips the required-field check")
}

// ---------------------------------------------------------------- R-LAZY-FLAGS

// The init check trusts an unexpanded lazy field according to the flags
// recorded in its message's lazy info. Those flags must therefore describe the
// decode that produced the buffer: every SetBuffer on a lazy info is dominated
// by a SetUnmarshalFlags on the same function's options.
func (c *Ctx) ruleLazyFlags(rule string) {
	R, P := c.R, c.P
	R.Rule(rule, "every call that publishes a lazy buffer (XXX_lazyUnmarshalInfo.SetBuffer) is dominated, in the same function, by a SetUnmarshalFlags call taking the current decode options' flags: the trust decision of checkInitialized (UnmarshalCheckRequired recorded) always describes the decode that produced the buffer", 1)
	for _, pkg := range []string{"internal/impl", "proto"} {
		for _, fi := range P.FuncsIn(pkg) {
			if fi.Decl.Body == nil {
				continue
			}
			info := fi.Info()
			calls := allCalls(info, fi.Decl.Body, "internal/protolazy.(*XXX_lazyUnmarshalInfo).SetBuffer")
			if len(calls) == 0 {
				continue
			}
			g := fi.CFG()
			for i, call := range calls {
				ok := g.DominatedByNode(call, func(n ast.Node) bool {
					fc := containsCall(info, n, "internal/protolazy.(*XXX_lazyUnmarshalInfo).SetUnmarshalFlags")
					if fc == nil || len(fc.Args) != 1 {
						return false
					}
					_, f, isSel := fieldSel(info, fc.Args[0])
					return isSel && f == "flags"
				})
				R.Check(ok, rule, fi.Key+" SetBuffer #"+itoa(i+1), P.Pos(call), "dominated by SetUnmarshalFlags(opts.flags)",
					"a lazy buffer is published on a path that did not record the current decode's flags: stale flags from an earlier decode (e.g. UnmarshalCheckRequired) would make checkInitialized trust a buffer that was decoded with AllowPartial")
			}
		}
	}
}

// ---------------------------------------------------------------- R-MEMO-CYCLE

// A predicate over the (possibly cyclic) message graph that is memoised in a
// shared map must only cache definitive answers. While a traversal is in
// progress a negative answer for an inner message may depend on nodes that
// are still being visited; caching it (or exposing an in-progress placeholder
// that other lookups read as "false") makes a message look free of required
// fields for ever.
func (c *Ctx) ruleMemoCycle(rule string) {
	R, P := c.R, c.P
	R.Rule(rule, "for every package-level sync.Map of internal/impl that memoises a boolean predicate: every Store writes a bool (no in-progress placeholder is ever visible in the shared map), and a function that takes part in the recursion over the message graph stores nothing but the constant true (negative answers are cached only by the non-recursive root, after the traversal has completed)", 2)
	pk := P.Pkg("internal/impl")
	if pk == nil {
		return
	}
	// memo maps: package-level sync.Map vars with at least one bool-typed Store
	type storeSite struct {
		fi   *FuncInfo
		call *ast.CallExpr
	}
	stores := map[types.Object][]storeSite{}
	for _, fi := range P.FuncsIn("internal/impl") {
		if fi.Decl.Body == nil {
			continue
		}
		info := fi.Info()
		walkAll(fi.Decl.Body, func(n ast.Node) bool {
			call, ok := n.(*ast.CallExpr)
			if !ok || calleeKey(info, call) != "sync.(*Map).Store" || len(call.Args) != 2 {
				return true
			}
			se := call.Fun.(*ast.SelectorExpr)
			if v, ok := objOf(info, se.X).(*types.Var); ok && v.Parent() == v.Pkg().Scope() {
				stores[v] = append(stores[v], storeSite{fi, call})
			}
			return true
		})
	}
	// recursion: static call cycles inside the package
	callees := map[string][]string{}
	for _, fi := range P.FuncsIn("internal/impl") {
		if fi.Decl.Body == nil {
			continue
		}
		info := fi.Info()
		walkAll(fi.Decl.Body, func(n ast.Node) bool {
			if call, ok := n.(*ast.CallExpr); ok {
				if k := calleeKey(info, call); strings.HasPrefix(k, "internal/impl.") {
					callees[fi.Key] = append(callees[fi.Key], k)
				}
			}
			return true
		})
	}
	recursive := func(key string) bool {
		seen := map[string]bool{}
		var visit func(k string) bool
		visit = func(k string) bool {
			for _, n := range callees[k] {
				if n == key {
					return true
				}
				if !seen[n] {
					seen[n] = true
					if visit(n) {
						return true
					}
				}
			}
			return false
		}
		return visit(key)
	}
	for v, sites := range stores {
		isPredicate := false
		for _, s := range sites {
			if b, ok := s.fi.Info().TypeOf(s.call.Args[1]).Underlying().(*types.Basic); ok && b.Info()&types.IsBoolean != 0 {
				isPredicate = true
			}
		}
		if !isPredicate {
			continue
		}
		for i, s := range sites {
			info := s.fi.Info()
			construct := "internal/impl." + v.Name() + " store #" + itoa(i+1) + " in " + s.fi.Obj.Name()
			val := s.call.Args[1]
			b, isBool := info.TypeOf(val).Underlying().(*types.Basic)
			if !isBool || b.Info()&types.IsBoolean == 0 {
				R.Bad(rule, construct, P.Pos(s.call), "a placeholder that is not a boolean is stored in the shared memo: lookups made while the traversal is in progress read it as `no init check needed`, and inner messages of a cycle are then cached as such")
				continue
			}
			if recursive(s.fi.Key) {
				if cv, ok := constBool(info, val); !ok || !cv {
					R.Bad(rule, construct, P.Pos(s.call), "a function that takes part in the recursion over the message graph caches a possibly negative answer: for a message first reached through a cycle that answer was computed from a partial traversal")
					continue
				}
			}
			R.OK(rule, construct, P.Pos(s.call), "definitive answer")
		}
	}
}

// R-INIT-FLAG-SCOPE: the fast path's UnmarshalInitialized flag says that the
// *parsed input* had all required fields. It vouches for the whole destination
// message only if the destination was reset by this call; with
// UnmarshalOptions.Merge the destination may already hold a partial
// submessage, so the flag must not be trusted and checkInitialized must run.
func (c *Ctx) ruleInitFlagScope(rule string) {
	R, P := c.R, c.P
	R.Rule(rule, "in proto.UnmarshalOptions.unmarshal every test of the UnmarshalInitialized flag that lets the function return success is conjoined with the negation of the caller's Merge option (captured before the option is overwritten)", 1)
	fi := c.need(rule, "proto.UnmarshalOptions.unmarshal")
	if fi == nil {
		return
	}
	info := fi.Info()
	defs := localDefs(fi.Decl.Body, info)
	isMergeCapture := func(e ast.Expr) bool {
		e = unparen(e)
		if _, f, ok := fieldSel(info, e); ok && f == "Merge" {
			return true
		}
		if id, ok := e.(*ast.Ident); ok {
			for _, d := range defs[info.Uses[id]] {
				if _, f, ok := fieldSel(info, unparen(d.rhs)); ok && f == "Merge" {
					return true
				}
			}
		}
		return false
	}
	pm := parentMap(fi.Decl.Body)
	n := 0
	walk(fi.Decl.Body, func(x ast.Node) bool {
		be, ok := x.(*ast.BinaryExpr)
		if !ok || be.Op != token.NEQ {
			return true
		}
		and, ok := unparen(be.X).(*ast.BinaryExpr)
		if !ok || and.Op != token.AND || qualObj(objOf(info, and.Y)) != "runtime/protoiface.UnmarshalInitialized" {
			return true
		}
		n++
		// climb through parentheses and && to collect the conjuncts
		good := false
		var cur ast.Node = be
		for p := pm[cur]; p != nil; cur, p = p, pm[p] {
			switch q := p.(type) {
			case *ast.ParenExpr:
				continue
			case *ast.BinaryExpr:
				if q.Op == token.LAND {
					for _, side := range []ast.Expr{q.X, q.Y} {
						if un, ok := unparen(side).(*ast.UnaryExpr); ok && un.Op == token.NOT && isMergeCapture(un.X) {
							good = true
						}
					}
					continue
				}
			}
			break
		}
		R.Check(good, rule, fi.Key+" flag test#"+itoa(n), P.Pos(be), "flag trusted only when the message was reset (!Merge)", "the UnmarshalInitialized flag, which describes the parsed input only, is trusted although the caller asked to merge into an existing message: a destination that already holds a submessage with unset required fields is reported as complete (Unmarshal returns nil, CheckInitialized of the result fails)")
		return true
	})
	if n == 0 {
		R.Unk(rule, fi.Key, P.Pos(fi.Decl), "no test of the UnmarshalInitialized flag found")
	}
}

// R-NESTED-MERGE: a non-merging Unmarshal resets the destination once, at the
// top; everything decoded below merges (a second occurrence of a singular
// submessage field is merged into the first). The reflection decoder recurses
// through UnmarshalOptions.unmarshal, so the function must force Merge for the
// recursion after honouring the caller's choice: `o.Merge = true` dominates
// both decode calls.
func (c *Ctx) ruleNestedMerge(rule string) {
	R, P := c.R, c.P
	R.Rule(rule, "in proto.UnmarshalOptions.unmarshal the assignment `o.Merge = true` dominates the fast-path call methods.Unmarshal and the reflection decode unmarshalMessageSlow (nested messages are always merged; only the top-level destination is reset)", 1)
	fi := c.need(rule, "proto.UnmarshalOptions.unmarshal")
	if fi == nil {
		return
	}
	info := fi.Info()
	g := fi.CFG()
	n := 0
	walk(fi.Decl.Body, func(x ast.Node) bool {
		call, ok := x.(*ast.CallExpr)
		if !ok {
			return true
		}
		k := calleeKey(info, call)
		isSlow := k == "proto.UnmarshalOptions.unmarshalMessageSlow"
		isFast := false
		if se, ok := call.Fun.(*ast.SelectorExpr); ok && se.Sel.Name == "Unmarshal" && strings.HasSuffix(exprStr(se.X), "methods") {
			isFast = true
		}
		if !isSlow && !isFast {
			return true
		}
		n++
		dom := g.DominatedByNode(call, func(nd ast.Node) bool {
			as, ok := nd.(*ast.AssignStmt)
			if !ok || len(as.Lhs) != 1 || len(as.Rhs) != 1 {
				return false
			}
			if _, f, ok := fieldSel(info, as.Lhs[0]); !ok || f != "Merge" {
				return false
			}
			v, isC := constBool(info, as.Rhs[0])
			return isC && v
		})
		R.Check(dom, rule, fi.Key+" decode#"+itoa(n), P.Pos(call), "runs with Merge forced to true", "the decode runs with the caller's Merge option: with Merge false the recursive unmarshal of a nested message resets it, so a second occurrence of a singular submessage field replaces the first instead of being merged into it (reflection path only: it then differs from the fast path)")
		return true
	})
	if n == 0 {
		R.Unk(rule, fi.Key, P.Pos(fi.Decl), "decode calls not found")
	}
}
