package main

import (
	"go/ast"
	"go/token"
	"strings"
)

// R-NAME-GRAMMAR: the text writer puts names between brackets verbatim
// (`[` + name + `]`). Names taken from descriptors are identifiers by
// construction; a name taken from message *content* (the type URL of an
// expanded Any) is an arbitrary string and must first be shown to be read back
// by the text reader as the same name — the guard must be a function that runs
// the reader on the bracketed name and compares Token.TypeName() with it —
// otherwise Marshal emits text that Unmarshal rejects or reads differently
// (D13: `http://host/pkg.M`, `my host/pkg.M`).
func (c *Ctx) ruleNameGrammar(rule string, floor int) {
	R, P := c.R, c.P
	R.Rule(rule, "every bracketed name the text encoder writes from message content (a protoreflect.Value string) is dominated by a validator that parses `[name]` with the text reader and requires the resulting type name to equal the string; bracketed names from descriptors need no guard", floor)
	// validators: functions of the package that call the reader and compare TypeName
	validators := map[string]bool{}
	for _, fi := range P.FuncsIn("encoding/prototext") {
		if fi.Decl.Body == nil {
			continue
		}
		info := fi.Info()
		read := containsCall(info, fi.Decl.Body, "internal/encoding/text.(*Decoder).Read") != nil
		cmp := false
		walk(fi.Decl.Body, func(n ast.Node) bool {
			if be, ok := n.(*ast.BinaryExpr); ok && be.Op == token.EQL {
				for _, side := range []ast.Expr{be.X, be.Y} {
					if call, ok := unparen(side).(*ast.CallExpr); ok && calleeKey(info, call) == "internal/encoding/text.Token.TypeName" {
						cmp = true
					}
				}
			}
			return true
		})
		if read && cmp && fi.Decl.Type.Results != nil && len(fi.Decl.Type.Results.List) == 1 && exprStr(fi.Decl.Type.Results.List[0].Type) == "bool" {
			validators[fi.Key] = true
		}
	}
	for _, fi := range P.FuncsIn("encoding/prototext") {
		if fi.Decl.Body == nil {
			continue
		}
		info := fi.Info()
		defs := localDefs(fi.Decl.Body, info)
		var g *FCFG
		i := 0
		walk(fi.Decl.Body, func(n ast.Node) bool {
			call, ok := n.(*ast.CallExpr)
			if !ok || calleeKey(info, call) != "internal/encoding/text.(*Encoder).WriteName" || len(call.Args) != 1 {
				return true
			}
			// bracketed?
			bracket := false
			var contentVars []*ast.Ident
			walk(call.Args[0], func(x ast.Node) bool {
				if lit, ok := x.(*ast.BasicLit); ok && lit.Kind == token.STRING && strings.Contains(lit.Value, "[") {
					bracket = true
				}
				if id, ok := x.(*ast.Ident); ok {
					for _, d := range defs[info.Uses[id]] {
						if dc, ok := unparen(d.rhs).(*ast.CallExpr); ok && calleeKey(info, dc) == "reflect/protoreflect.Value.String" {
							contentVars = append(contentVars, id)
						}
					}
				}
				if ic, ok := x.(*ast.CallExpr); ok && calleeKey(info, ic) == "reflect/protoreflect.Value.String" {
					contentVars = append(contentVars, nil)
				}
				return true
			})
			if !bracket {
				return true
			}
			i++
			construct := fi.Key + " bracketed name#" + itoa(i)
			if len(contentVars) == 0 {
				R.OK(rule, construct, P.Pos(call), "name from a descriptor ("+exprStr(call.Args[0])+")")
				return true
			}
			if contentVars[0] == nil {
				R.Unk(rule, construct, P.Pos(call), "content string used without a variable: cannot relate it to a validator call")
				return true
			}
			if g == nil {
				g = fi.CFG()
			}
			v := info.Uses[contentVars[0]]
			good := g.DominatedByCond(call, func(core ast.Expr, val bool) bool {
				vc, ok := unparen(core).(*ast.CallExpr)
				if !ok || !val || !validators[calleeKey(info, vc)] || len(vc.Args) != 1 {
					return false
				}
				id, ok := unparen(vc.Args[0]).(*ast.Ident)
				return ok && info.Uses[id] == v
			})
			R.Check(good, rule, construct, P.Pos(call), "content string validated against the reader before it is written", "a string taken from message content ("+contentVars[0].Name+") is written between brackets without checking that the text reader parses it back to the same name: characters outside the reader's type-URL grammar (`:`, `@`, `?`, spaces, …) make the output unparsable or change the URL")
			return true
		})
	}
}

// R-NAME-ACCESSOR-PAIR: the JSON (and text) reader finds a field by
// FieldDescriptors.ByJSONName / ByTextName (extensions by the bracketed full
// name, which TextName/JSONName produce). The writer must therefore name a
// field only by the accessors that are the inverses of those lookups,
// FieldDescriptor.JSONName() and TextName(); a name built from Name() or
// Message().Name() is not found again for extensions (no brackets) and for
// group-like fields.
func (c *Ctx) ruleNameAccessorPair(rule string, pkg string, fn string, floor int) {
	R, P := c.R, c.P
	R.Rule(rule, "every field name the encoder writes for a message field comes from FieldDescriptor.JSONName() or TextName() — the inverses of the reader's ByJSONName/ByTextName lookups (map keys and the @type key excepted)", floor)
	fi := c.need(rule, fn)
	if fi == nil {
		return
	}
	info := fi.Info()
	for _, br := range bodiesOf(fi) {
		defs := localDefs(br.Body, info)
		i := 0
		walk(br.Body, func(n ast.Node) bool {
			call, ok := n.(*ast.CallExpr)
			if !ok || len(call.Args) == 0 {
				return true
			}
			if k := calleeKey(info, call); !(strings.HasSuffix(k, ".WriteName") && len(call.Args) == 1) && !strings.HasSuffix(k, "encoder.marshalField") {
				return true
			}
			arg := unparen(call.Args[0])
			var sources []ast.Expr
			if id, ok := arg.(*ast.Ident); ok {
				for _, d := range defs[info.Uses[id]] {
					sources = append(sources, d.rhs)
				}
			} else {
				sources = []ast.Expr{arg}
			}
			if len(sources) == 0 {
				return true
			}
			// only names derived from a field descriptor are of interest
			fromDesc := false
			for _, s := range sources {
				walk(s, func(x ast.Node) bool {
					if sc, ok := x.(*ast.CallExpr); ok && strings.HasPrefix(calleeKey(info, sc), "reflect/protoreflect.FieldDescriptor.") {
						fromDesc = true
					}
					return true
				})
			}
			if !fromDesc {
				return true
			}
			i++
			bad := ""
			for _, s := range sources {
				sc, ok := unparen(s).(*ast.CallExpr)
				k := ""
				if ok {
					k = calleeKey(info, sc)
				}
				if k != "reflect/protoreflect.FieldDescriptor.JSONName" && k != "reflect/protoreflect.FieldDescriptor.TextName" {
					bad = exprStr(s)
				}
			}
			R.Check(bad == "", rule, br.Name+" field name#"+itoa(i), P.Pos(call), "from JSONName()/TextName()", "a field name is written from `"+bad+"`, not from JSONName()/TextName(): the reader looks names up with ByJSONName/ByTextName and the bracketed extension form, so extensions (and group-like fields) written this way are not found when the output is parsed")
			return true
		})
	}
	_ = pkg
}
