package main

import (
	"go/ast"
	"go/token"
	"go/types"
	"strings"
)

// R-AMEND-ERROR-ORDER: protorange combines the results of push, the subtree and
// pop with amendError. Read as a decision procedure over the abstract values
// {nil, Break, Terminate, other error} of prev and curr, it has to return the
// higher one in the order nil < Break < Terminate < other (and the current
// error among two other errors): Terminate must survive an earlier Break,
// or the traversal merely leaves the enclosing container instead of stopping.
func (c *Ctx) ruleAmendErrorOrder(rule string) {
	R, P := c.R, c.P
	R.Rule(rule, "protorange.amendError, evaluated for all 25 combinations of prev, curr in {nil, Break, Terminate, error a, error b}, returns the operand that ranks higher in nil < Break < Terminate < other error (curr among two other errors)", 1)
	fi := c.need(rule, "reflect/protorange.amendError")
	if fi == nil {
		return
	}
	info := fi.Info()
	var prevO, currO types.Object
	i := 0
	for _, f := range fi.Decl.Type.Params.List {
		for _, nm := range f.Names {
			if i == 0 {
				prevO = info.Defs[nm]
			} else {
				currO = info.Defs[nm]
			}
			i++
		}
	}
	// abstract values: 0 nil, 1 Break, 2 Terminate, 3 error a, 4 error b
	var env map[types.Object]int
	val := func(e ast.Expr) (int, bool) {
		id, ok := unparen(e).(*ast.Ident)
		if !ok {
			if se, ok := unparen(e).(*ast.SelectorExpr); ok {
				id = se.Sel
			} else {
				return 0, false
			}
		}
		if id.Name == "nil" {
			return 0, true
		}
		o := info.Uses[id]
		if v, ok := env[o]; ok {
			return v, true
		}
		if o != nil && o.Pkg() != nil && strings.HasSuffix(o.Pkg().Path(), "reflect/protorange") {
			switch o.Name() {
			case "Break":
				return 1, true
			case "Terminate":
				return 2, true
			}
		}
		return 0, false
	}
	undec := ""
	var eval func(e ast.Expr) bool
	eval = func(e ast.Expr) bool {
		switch x := unparen(e).(type) {
		case *ast.BinaryExpr:
			switch x.Op {
			case token.LAND:
				return eval(x.X) && eval(x.Y)
			case token.LOR:
				return eval(x.X) || eval(x.Y)
			case token.EQL, token.NEQ:
				a, ok1 := val(x.X)
				b, ok2 := val(x.Y)
				if !ok1 || !ok2 {
					undec = exprStr(x)
					return false
				}
				return (a == b) == (x.Op == token.EQL)
			}
		case *ast.UnaryExpr:
			if x.Op == token.NOT {
				return !eval(x.X)
			}
		}
		undec = exprStr(e)
		return false
	}
	var sw *ast.SwitchStmt
	for _, st := range fi.Decl.Body.List {
		if s, ok := st.(*ast.SwitchStmt); ok && s.Tag == nil {
			sw = s
		}
	}
	if sw == nil || prevO == nil || currO == nil {
		R.Unk(rule, fi.Key, P.Pos(fi.Decl), "expected a tagless switch over prev and curr")
		return
	}
	rank := func(v int) int {
		if v >= 3 {
			return 3
		}
		return v
	}
	names := []string{"nil", "Break", "Terminate", "error a", "error b"}
	var wrong []string
	for p := 0; p < 5; p++ {
		for cu := 0; cu < 5; cu++ {
			env = map[types.Object]int{prevO: p, currO: cu}
			got, decided := 0, false
			var deflt *ast.CaseClause
			for _, cl := range sw.Body.List {
				cc := cl.(*ast.CaseClause)
				if cc.List == nil {
					deflt = cc
					continue
				}
				hit := false
				for _, e := range cc.List {
					if eval(e) {
						hit = true
					}
				}
				if hit {
					if rs, ok := cc.Body[len(cc.Body)-1].(*ast.ReturnStmt); ok && len(rs.Results) == 1 {
						got, decided = val(rs.Results[0])
					}
					deflt = nil
					break
				}
			}
			if deflt != nil && len(deflt.Body) > 0 {
				if rs, ok := deflt.Body[len(deflt.Body)-1].(*ast.ReturnStmt); ok && len(rs.Results) == 1 {
					got, decided = val(rs.Results[0])
				}
			}
			if !decided {
				undec = "result for prev=" + names[p] + ", curr=" + names[cu]
				continue
			}
			want := p
			if rank(cu) == 3 || rank(cu) > rank(p) {
				want = cu
			}
			if got != want {
				wrong = append(wrong, "amendError("+names[p]+", "+names[cu]+") = "+names[got]+", want "+names[want])
			}
		}
	}
	switch {
	case undec != "":
		R.Unk(rule, fi.Key, P.Pos(sw), "cannot evaluate `"+undec+"` over {nil, Break, Terminate, other}")
	case len(wrong) > 0:
		R.Bad(rule, fi.Key, P.Pos(sw), strings.Join(wrong, "; ")+": the stronger verdict is lost (a Terminate that follows a Break on the same step only leaves the enclosing container, and the traversal goes on)")
	default:
		R.OK(rule, fi.Key, P.Pos(sw), "25 combinations agree with nil < Break < Terminate < other")
	}
}

// R-ANY-EXPAND-EXACT: rangeAnyMessage declines to expand an Any (returns false)
// for exactly three reasons: the message is not google.protobuf.Any, its type
// URL does not resolve, or its value does not unmarshal. Any other early exit
// leaves a resolvable Any body unvisited.
func (c *Ctx) ruleAnyExpandExact(rule string) {
	R, P := c.R, c.P
	R.Rule(rule, "every `return false, …` of protorange.rangeAnyMessage is guarded by exactly one of: the full name differs from google.protobuf.Any, the resolver's error is non-nil, Unmarshal's error is non-nil", 3)
	fi := c.need(rule, "reflect/protorange.Options.rangeAnyMessage")
	if fi == nil {
		return
	}
	info := fi.Info()
	defs := localDefs(fi.Decl.Body, info)
	classify := func(g string, cond ast.Expr) string {
		be, ok := unparen(cond).(*ast.BinaryExpr)
		if !ok || be.Op != token.NEQ {
			return ""
		}
		if strings.Contains(exprStr(be.X), "FullName()") || strings.Contains(exprStr(be.Y), "FullName()") {
			for _, side := range []ast.Expr{be.X, be.Y} {
				if s := constantString(info.Types[side].Value); s == "google.protobuf.Any" {
					return "not an Any"
				}
			}
			return ""
		}
		if !isNilIdent(info, be.Y) {
			return ""
		}
		id, ok := unparen(be.X).(*ast.Ident)
		if !ok {
			return ""
		}
		for _, d := range defs[info.Uses[id]] {
			if call := containsCall(info, d.rhs, "reflect/protoregistry.MessageTypeResolver.FindMessageByURL"); call != nil {
				return "type URL does not resolve"
			}
			if call := containsCall(info, d.rhs, "proto.UnmarshalOptions.Unmarshal"); call != nil {
				return "value does not unmarshal"
			}
			if strings.Contains(exprStr(d.rhs), "FindMessageByURL(") {
				return "type URL does not resolve"
			}
		}
		return ""
	}
	n := 0
	pm := parentMap(fi.Decl.Body)
	walk(fi.Decl.Body, func(x ast.Node) bool {
		rs, ok := x.(*ast.ReturnStmt)
		if !ok || len(rs.Results) != 2 || exprStr(rs.Results[0]) != "false" {
			return true
		}
		n++
		var conds []ast.Expr
		var cur ast.Node = rs
		for p := pm[cur]; p != nil; cur, p = p, pm[p] {
			if is, ok := p.(*ast.IfStmt); ok && cur == ast.Node(is.Body) {
				conds = append(conds, is.Cond)
			}
		}
		reason := ""
		if len(conds) == 1 {
			reason = classify(exprStr(conds[0]), conds[0])
		}
		g := enclosingGuards(fi.Decl.Body, rs)
		R.Check(reason != "", rule, fi.Key+" not expanded under `"+g+"`", P.Pos(rs), reason, "an Any is left unexpanded under `"+g+"`, which is none of: not an Any, unresolvable type URL, undecodable value: a resolvable Any body (for instance the empty value of a message with all fields unset) is not visited")
		return true
	})
	if n < 3 {
		R.Unk(rule, fi.Key, P.Pos(fi.Decl), "expected the three `return false` exits")
	}
}

// R-BREAK-SCOPE: Break "breaks traversal of children in the current value" and
// "has no effect when traversing values that are not composite types". The
// value current at a push is the element (field value, list element, map
// value) just pushed, so a Break returned for it must be cleared once that
// element has been popped, before the iteration decides whether to go on to
// the next sibling. Clearing it only after the loop makes Break end the
// iteration over the siblings as well.
func (c *Ctx) ruleBreakScope(rule string) {
	R, P := c.R, c.P
	R.Rule(rule, "in each element iteration of protorange (the field callback of rangeMessage, the loop of rangeList, the entry callback of rangeMap) a Break is reset (`if err == Break { err = nil }`) inside the element body after the pop, before the continuation test", 3)
	for _, key := range []string{"reflect/protorange.Options.rangeMessage", "reflect/protorange.Options.rangeList", "reflect/protorange.Options.rangeMap"} {
		fi := c.need(rule, key)
		if fi == nil {
			continue
		}
		var body *ast.BlockStmt
		what := ""
		walkAll(fi.Decl.Body, func(n ast.Node) bool {
			if body != nil {
				return true
			}
			switch x := n.(type) {
			case *ast.ForStmt:
				body, what = x.Body, "element loop"
			case *ast.CallExpr:
				if se, ok := x.Fun.(*ast.SelectorExpr); ok && (se.Sel.Name == "RangeFields" || se.Sel.Name == "RangeEntries") {
					for _, a := range x.Args {
						if fl, ok := a.(*ast.FuncLit); ok {
							body, what = fl.Body, strings.TrimPrefix(se.Sel.Name, "Range")+" callback"
						}
					}
				}
			}
			return true
		})
		if body == nil {
			R.Unk(rule, key, P.Pos(fi.Decl), "element iteration not found")
			continue
		}
		reset := false
		for _, st := range body.List {
			is, ok := st.(*ast.IfStmt)
			if !ok {
				continue
			}
			cs := exprStr(is.Cond)
			if (cs == "err == Break" || cs == "Break == err") && len(is.Body.List) == 1 {
				if as, ok := is.Body.List[0].(*ast.AssignStmt); ok && len(as.Rhs) == 1 && exprStr(as.Rhs[0]) == "nil" {
					reset = true
				}
			}
		}
		R.Check(reset, rule, key+" "+what, P.Pos(body), "Break cleared per element", "a Break returned by push or pop for one element is still set when the iteration decides whether to continue (it is cleared only after the loop): the remaining siblings — list elements, map entries, or the fields and unknown fields of the message — are skipped although Break is documented to skip only the children of the current value and to have no effect on scalars")
	}
}
