package main

import (
	"go/ast"
	"go/token"
	"go/types"
	"strings"
)

// R-QUOTED-NUMBER: protojson's numeric helpers (unmarshalInt, unmarshalUint,
// unmarshalFloat and their get* siblings) must give quoted numbers exactly the
// grammar of bare numbers: a value is produced only from json.Token.Int / Uint
// / Float (or is one of the named float constants NaN/Infinity/-Infinity);
// in the String case the token converted is the one returned by Read() of a
// fresh json decoder over the string's content, under the established facts
// that the next Read() is EOF and that the content has no surrounding
// whitespace; strconv is not used. strconv.ParseFloat accepts "+1.5", ".5",
// "0x1p-2", "inf" …, none of which is a JSON number.
func (c *Ctx) ruleQuotedNumber(rule string) {
	R, P := c.R, c.P
	R.Rule(rule, "protojson numeric helpers: every produced value comes from json.Token.Int/Uint/Float (through the get* helper) or is a NaN/Infinity constant; for a String token the converted token is read by a fresh JSON decoder from the string's content with the following token established to be EOF and surrounding whitespace rejected; no strconv parsing", 9)
	helpers := []string{"unmarshalInt", "unmarshalUint", "unmarshalFloat"}
	getters := map[string]string{"getInt": "internal/encoding/json.Token.Int", "getUint": "internal/encoding/json.Token.Uint", "getFloat": "internal/encoding/json.Token.Float"}
	isZeroValue := func(e ast.Expr) bool {
		cl, ok := unparen(e).(*ast.CompositeLit)
		return ok && len(cl.Elts) == 0
	}
	for g, acc := range getters {
		fi := c.need(rule, "encoding/protojson."+g)
		if fi == nil {
			continue
		}
		info := fi.Info()
		okAcc := containsCall(info, fi.Decl.Body, acc) != nil
		noConv := true
		walk(fi.Decl.Body, func(n ast.Node) bool {
			if call, ok := n.(*ast.CallExpr); ok {
				if k := calleeKey(info, call); strings.HasPrefix(k, "strconv.") {
					noConv = false
				}
			}
			return true
		})
		R.Check(okAcc && noConv, rule, fi.Key+" source", P.Pos(fi.Decl), "value from "+shortKey(acc), "the helper does not take its value from "+acc+" (or parses with strconv): the number grammar and range rules of the JSON tokenizer are bypassed")
	}
	for _, h := range helpers {
		fi := c.need(rule, "encoding/protojson."+h)
		if fi == nil {
			continue
		}
		info := fi.Info()
		g := fi.CFG()
		// no strconv
		sc := false
		walk(fi.Decl.Body, func(n ast.Node) bool {
			if call, ok := n.(*ast.CallExpr); ok && strings.HasPrefix(calleeKey(info, call), "strconv.") {
				sc = true
			}
			return true
		})
		R.Check(!sc, rule, fi.Key+" no strconv", P.Pos(fi.Decl), "no strconv parsing", "the helper parses the string content with strconv, whose grammar is wider than a JSON number (\"+1.5\", \".5\", \"0x1p-2\", \"inf\", underscores …): quoted values that are not JSON numbers are accepted")
		defs := localDefs(fi.Decl.Body, info)
		k := 0
		walk(fi.Decl.Body, func(n ast.Node) bool {
			rs, ok := n.(*ast.ReturnStmt)
			if !ok || len(rs.Results) == 0 {
				return true
			}
			if len(rs.Results) == 2 && isZeroValue(rs.Results[0]) {
				return true // failure return
			}
			k++
			construct := fi.Key + " value return#" + itoa(k)
			// return getX(tok, bitSize)
			if len(rs.Results) == 1 {
				if call, ok := unparen(rs.Results[0]).(*ast.CallExpr); ok {
					if f := calleeFunc(info, call); f != nil && getters[f.Name()] != "" && len(call.Args) >= 1 {
						tokID, _ := unparen(call.Args[0]).(*ast.Ident)
						if tokID == nil {
							R.Unk(rule, construct, P.Pos(rs), "token argument is not a variable")
							return true
						}
						o := info.Uses[tokID]
						if _, isParam := o.(*types.Var); isParam && len(defs[o]) == 0 {
							R.OK(rule, construct, P.Pos(rs), "the caller's token through "+f.Name())
							return true
						}
						// defined by dec.Read() with dec := json.NewDecoder(...)
						fromRead := false
						var decObj types.Object
						for _, d := range defs[o] {
							if dc, ok := unparen(d.rhs).(*ast.CallExpr); ok && calleeKey(info, dc) == "internal/encoding/json.(*Decoder).Read" && d.idx == 0 {
								fromRead = true
								decObj = objOf(info, dc.Fun.(*ast.SelectorExpr).X)
							}
						}
						fresh := false
						for _, d := range defs[decObj] {
							if dc, ok := unparen(d.rhs).(*ast.CallExpr); ok && calleeKey(info, dc) == "internal/encoding/json.NewDecoder" {
								fresh = true
							}
						}
						eof := g.DominatedByCond(rs, func(core ast.Expr, val bool) bool {
							be, ok := unparen(core).(*ast.BinaryExpr)
							if !ok || !((be.Op == token.NEQ && !val) || (be.Op == token.EQL && val)) {
								return false
							}
							nm, isC := labelName(info, be.Y)
							kc, isCall := unparen(be.X).(*ast.CallExpr)
							return isC && nm == "EOF" && isCall && calleeKey(info, kc) == "internal/encoding/json.Token.Kind"
						})
						ws := g.DominatedByCond(rs, func(core ast.Expr, val bool) bool {
							be, ok := unparen(core).(*ast.BinaryExpr)
							if !ok || !((be.Op == token.NEQ && !val) || (be.Op == token.EQL && val)) {
								return false
							}
							return strings.Contains(exprStr(be), "len(") && (strings.Contains(exprStr(be), "TrimSpace") || func() bool {
								// len(s) != len(tok.ParsedString()) with s := strings.TrimSpace(…)
								for _, side := range []ast.Expr{be.X, be.Y} {
									if lc, ok := unparen(side).(*ast.CallExpr); ok && len(lc.Args) == 1 {
										if id, ok := unparen(lc.Args[0]).(*ast.Ident); ok {
											for _, d := range defs[info.Uses[id]] {
												if containsCall(info, d.rhs, "strings.TrimSpace") != nil {
													return true
												}
											}
										}
									}
								}
								return false
							}())
						})
						switch {
						case !fromRead || !fresh:
							R.Bad(rule, construct, P.Pos(rs), "the converted token is not the result of Read() on a fresh JSON decoder over the string content")
						case !eof:
							R.Bad(rule, construct, P.Pos(rs), "the string content is converted without establishing that the next token is EOF: trailing content after the number would be accepted")
						case !ws:
							R.Bad(rule, construct, P.Pos(rs), "the string content is converted without rejecting surrounding whitespace (the JSON reader skips it)")
						default:
							R.OK(rule, construct, P.Pos(rs), "re-tokenised content, EOF and whitespace established")
						}
						return true
					}
				}
			}
			// named float constants
			if len(rs.Results) == 2 {
				if v, ok := constBool(info, rs.Results[1]); ok && v {
					if containsCall(info, rs.Results[0], "math.NaN") != nil || containsCall(info, rs.Results[0], "math.Inf") != nil {
						R.OK(rule, construct, P.Pos(rs), "named float constant")
						return true
					}
				}
			}
			R.Bad(rule, construct, P.Pos(rs), "a value is produced other than through getInt/getUint/getFloat on a JSON token or a NaN/Infinity constant: "+exprStr(rs.Results[0]))
			return true
		})
	}
}
