package main

import (
	"go/ast"
	"go/token"
	"go/types"
	"strings"
)

// R-EQUAL-FIELD-PRESENCE: two messages are equal only if the same fields are
// populated. Comparing values through Get alone is not enough, because Get of
// an unpopulated field returns the default: {a: 0 (set)} and {b: 0 (set)} have
// the same number of populated fields and pairwise "equal" values.
func (c *Ctx) ruleEqualFieldPresence(rule string) {
	R, P := c.R, c.P
	R.Rule(rule, "both equalMessage implementations compare presence: the reflective one requires my.Has(fd) for every field mx.Range visits, compares the value with equalValue, and compares the two population counts; the fast path returns false when has()/which() differ between the two messages", 5)
	if fi := c.need(rule, "reflect/protoreflect.equalMessage"); fi != nil {
		info := fi.Info()
		var params []types.Object
		for _, f := range fi.Decl.Type.Params.List {
			for _, n := range f.Names {
				params = append(params, info.Defs[n])
			}
		}
		rangeLit := func(side int) *ast.FuncLit {
			var out *ast.FuncLit
			walkAll(fi.Decl.Body, func(n ast.Node) bool {
				call, ok := n.(*ast.CallExpr)
				if !ok || len(call.Args) != 1 {
					return true
				}
				se, ok := call.Fun.(*ast.SelectorExpr)
				if !ok || se.Sel.Name != "Range" {
					return true
				}
				if id, ok := unparen(se.X).(*ast.Ident); ok && len(params) == 2 && info.Uses[id] == params[side] {
					if fl, ok := call.Args[0].(*ast.FuncLit); ok && out == nil {
						out = fl
					}
				}
				return true
			})
			return out
		}
		lx, ly := rangeLit(0), rangeLit(1)
		if lx == nil || ly == nil || len(lx.Type.Params.List) == 0 {
			R.Unk(rule, fi.Key, P.Pos(fi.Decl), "mx.Range / my.Range closures not found")
		} else {
			var fdParam, vxParam types.Object
			var ps []types.Object
			for _, f := range lx.Type.Params.List {
				for _, n := range f.Names {
					ps = append(ps, info.Defs[n])
				}
			}
			if len(ps) == 2 {
				fdParam, vxParam = ps[0], ps[1]
			}
			// the decision of the closure: every expression it returns, through one bool local
			var decisions []ast.Expr
			walk(lx.Body, func(n ast.Node) bool {
				switch x := n.(type) {
				case *ast.AssignStmt:
					if len(x.Lhs) == 1 && len(x.Rhs) == 1 {
						if t, ok := info.TypeOf(x.Lhs[0]).Underlying().(*types.Basic); ok && t.Kind() == types.Bool {
							decisions = append(decisions, x.Rhs[0])
						}
					}
				case *ast.ReturnStmt:
					if len(x.Results) == 1 {
						if _, isId := unparen(x.Results[0]).(*ast.Ident); !isId {
							decisions = append(decisions, x.Results[0])
						}
					}
				}
				return true
			})
			var conj func(e ast.Expr) []ast.Expr
			conj = func(e ast.Expr) []ast.Expr {
				if be, ok := unparen(e).(*ast.BinaryExpr); ok && be.Op == token.LAND {
					return append(conj(be.X), conj(be.Y)...)
				}
				return []ast.Expr{unparen(e)}
			}
			hasOK, valOK := len(decisions) > 0, len(decisions) > 0
			for _, d := range decisions {
				h, v := false, false
				for _, cj := range conj(d) {
					call, ok := cj.(*ast.CallExpr)
					if !ok {
						continue
					}
					if se, ok := call.Fun.(*ast.SelectorExpr); ok && se.Sel.Name == "Has" && len(call.Args) == 1 {
						rid, ok1 := unparen(se.X).(*ast.Ident)
						aid, ok2 := unparen(call.Args[0]).(*ast.Ident)
						if ok1 && ok2 && info.Uses[rid] == params[1] && info.Uses[aid] == fdParam {
							h = true
						}
					}
					if calleeKey(info, call) == "reflect/protoreflect.equalValue" && len(call.Args) == 2 {
						uses := false
						for _, a := range call.Args {
							if id, ok := unparen(a).(*ast.Ident); ok && info.Uses[id] == vxParam {
								uses = true
							}
						}
						v = uses
					}
				}
				hasOK = hasOK && h
				valOK = valOK && v
			}
			R.Check(hasOK, rule, fi.Key+" presence in y", P.Pos(lx), "my.Has(fd) is a conjunct of the per-field decision", "the per-field decision of the mx.Range closure does not require my.Has(fd): a field populated with its default value in x and absent in y compares equal whenever y has some other field populated with its default value")
			R.Check(valOK, rule, fi.Key+" value", P.Pos(lx), "equalValue(vx, …) is a conjunct of the per-field decision", "the per-field decision does not compare the value of x's field with equalValue")
			// counts
			counter := func(fl *ast.FuncLit) types.Object {
				var o types.Object
				walk(fl.Body, func(n ast.Node) bool {
					if inc, ok := n.(*ast.IncDecStmt); ok && inc.Tok == token.INC {
						if id, ok := inc.X.(*ast.Ident); ok {
							o = info.Uses[id]
						}
					}
					return true
				})
				return o
			}
			cx, cy := counter(lx), counter(ly)
			cmp := false
			for _, st := range fi.Decl.Body.List {
				is, ok := st.(*ast.IfStmt)
				if !ok {
					continue
				}
				be, ok := unparen(is.Cond).(*ast.BinaryExpr)
				if !ok || be.Op != token.NEQ || len(is.Body.List) != 1 {
					continue
				}
				a, ok1 := unparen(be.X).(*ast.Ident)
				b, ok2 := unparen(be.Y).(*ast.Ident)
				rs, ok3 := is.Body.List[0].(*ast.ReturnStmt)
				if ok1 && ok2 && ok3 && len(rs.Results) == 1 && exprStr(rs.Results[0]) == "false" && cx != nil && cy != nil {
					if (info.Uses[a] == cx && info.Uses[b] == cy) || (info.Uses[a] == cy && info.Uses[b] == cx) {
						cmp = true
					}
				}
			}
			R.Check(cmp, rule, fi.Key+" population counts", P.Pos(fi.Decl), "nx != ny returns false", "the numbers of populated fields of the two messages are not compared: fields populated only in y are ignored")
		}
	}
	if fi := c.need(rule, "internal/impl.equalMessage"); fi != nil {
		info := fi.Info()
		for _, w := range []struct{ typ, method, what string }{{"fieldInfo", "has", "has()"}, {"oneofInfo", "which", "which()"}} {
			var cc *ast.CaseClause
			walkAll(fi.Decl.Body, func(n ast.Node) bool {
				if cl, ok := n.(*ast.CaseClause); ok && len(cl.List) == 1 && strings.HasSuffix(exprStr(cl.List[0]), w.typ) && cc == nil {
					cc = cl
				}
				return true
			})
			if cc == nil {
				R.Unk(rule, fi.Key+" "+w.typ, P.Pos(fi.Decl), "case *"+w.typ+" not found")
				continue
			}
			// locals := ri.<method>(msx.pointer()) / (msy.pointer())
			got := map[types.Object]string{}
			for _, st := range cc.Body {
				as, ok := st.(*ast.AssignStmt)
				if !ok || len(as.Lhs) != 1 || len(as.Rhs) != 1 {
					continue
				}
				call, ok := unparen(as.Rhs[0]).(*ast.CallExpr)
				if !ok || len(call.Args) != 1 {
					continue
				}
				if se, ok := call.Fun.(*ast.SelectorExpr); ok && se.Sel.Name == w.method {
					if l, ok := as.Lhs[0].(*ast.Ident); ok && info.Defs[l] != nil {
						got[info.Defs[l]] = exprStr(call.Args[0])
					}
				}
			}
			ok := false
			for _, st := range cc.Body {
				is, k := st.(*ast.IfStmt)
				if !k || len(is.Body.List) != 1 {
					continue
				}
				be, k := unparen(is.Cond).(*ast.BinaryExpr)
				if !k || be.Op != token.NEQ {
					continue
				}
				a, k1 := unparen(be.X).(*ast.Ident)
				b, k2 := unparen(be.Y).(*ast.Ident)
				rs, k3 := is.Body.List[0].(*ast.ReturnStmt)
				if k1 && k2 && k3 && len(rs.Results) == 1 && exprStr(rs.Results[0]) == "false" {
					sa, sb := got[info.Uses[a]], got[info.Uses[b]]
					if sa != "" && sb != "" && sa != sb {
						ok = true
					}
				}
			}
			R.Check(ok, rule, fi.Key+" case *"+w.typ, P.Pos(cc), w.what+" of the two messages compared, mismatch returns false", "the fast path does not return false when "+w.what+" differs between the two messages: presence is not part of equality for these fields")
		}
	}
}

// R-EQUAL-UNKNOWN-NOALIAS: equalUnknown groups the raw unknown fields of each
// message by field number. The grouped values have to be storage of their own:
// a two-index sub-slice of the argument keeps the argument's spare capacity,
// so a later append to it writes into the bytes that follow in the caller's
// buffer (the rest of the message's own unknown fields), corrupting both the
// comparison and the message being compared.
func (c *Ctx) ruleEqualUnknownNoAlias(rule string) {
	R, P := c.R, c.P
	R.Rule(rule, "in both equalUnknown implementations no append extends a slice that may share the backing array of a parameter with spare capacity (a parameter, a two-index sub-slice of one, a map element or local assigned from such a sub-slice)", 2)
	for _, key := range []string{"reflect/protoreflect.equalUnknown", "internal/impl.equalUnknown"} {
		fi := c.need(rule, key)
		if fi == nil {
			continue
		}
		info := fi.Info()
		tainted := map[types.Object]bool{}
		for _, f := range fi.Decl.Type.Params.List {
			for _, n := range f.Names {
				if _, ok := info.Defs[n].Type().Underlying().(*types.Slice); ok {
					tainted[info.Defs[n]] = true
				}
			}
		}
		objOf := func(e ast.Expr) types.Object {
			switch x := unparen(e).(type) {
			case *ast.Ident:
				if o := info.Uses[x]; o != nil {
					return o
				}
				return info.Defs[x]
			case *ast.IndexExpr: // map element: the map stands for its elements
				if id, ok := unparen(x.X).(*ast.Ident); ok {
					return info.Uses[id]
				}
			}
			return nil
		}
		var aliases func(e ast.Expr) bool
		aliases = func(e ast.Expr) bool {
			switch x := unparen(e).(type) {
			case *ast.SliceExpr:
				return !x.Slice3 && aliases(x.X)
			case *ast.Ident, *ast.IndexExpr:
				return tainted[objOf(x)]
			}
			return false
		}
		// propagate to a fixed point
		for changed := true; changed; {
			changed = false
			walkAll(fi.Decl.Body, func(n ast.Node) bool {
				as, ok := n.(*ast.AssignStmt)
				if !ok {
					return true
				}
				for i, l := range as.Lhs {
					var r ast.Expr
					if len(as.Rhs) == len(as.Lhs) {
						r = as.Rhs[i]
					} else if i == 0 && len(as.Rhs) == 1 {
						r = as.Rhs[0] // v, ok := m[k]
					}
					if r == nil || !aliases(r) {
						continue
					}
					if o := objOf(l); o != nil && !tainted[o] {
						tainted[o] = true
						changed = true
					}
				}
				return true
			})
		}
		bad, badPos := "", ""
		n := 0
		walkAll(fi.Decl.Body, func(x ast.Node) bool {
			call, ok := x.(*ast.CallExpr)
			if !ok || len(call.Args) == 0 {
				return true
			}
			if id, ok := call.Fun.(*ast.Ident); !ok || id.Name != "append" || info.Uses[id] != types.Universe.Lookup("append") {
				return true
			}
			n++
			if aliases(call.Args[0]) && bad == "" {
				bad, badPos = exprStr(call.Args[0]), P.Pos(call)
			}
			return true
		})
		if bad != "" {
			R.Bad(rule, key, badPos, "append extends `"+bad+"`, which may be a sub-slice of an argument that keeps the argument's spare capacity: the appended bytes overwrite the unknown fields that follow in the message being compared")
		} else {
			R.OK(rule, key, P.Pos(fi.Decl), itoa(n)+" appends, none onto storage shared with an argument")
		}
	}
}
