package main

import (
	"go/ast"
	"go/types"
	"sort"
	"strings"
)

// R-OPTION-PROMOTION: some option fields are promoted from the *Options
// message into the descriptor itself (resolved features, map_entry,
// message_set_wire_format, packed, lazy). protodesc reads them through the
// generated getters of descriptorpb; the compact builder has to recognise the
// same fields, by their genid field-number constants, in the parser of the same
// descriptor kind. A field promoted by one construction only makes the
// accessor that depends on it disagree between the two.
var optionPromotionExceptions = map[string]string{
	"Oneof.Features read-not-parsed": "the resolved features of a oneof feed no accessor: filedesc.Oneof has no feature-dependent method and fields inherit from the message, not from the oneof, in both constructions (protodesc stores the value in OneofL1.EditionFeatures, which nothing reads)",
}

func (c *Ctx) ruleOptionPromotion(rule string, floor int) {
	R, P := c.R, c.P
	R.Rule(rule, "per descriptor kind (File, Message, Field, Extension, Oneof, Enum, ...): the option fields protodesc's construction functions read from descriptorpb.*Options (getters and field selections; validate* functions and the To*Proto writers excluded) = the genid *Options_*_field_number constants the compact builder matches in a method of that kind's filedesc type; reviewed exceptions only", floor)
	read, parsed := map[string]map[string]string{}, map[string]map[string]string{}
	add := func(m map[string]map[string]string, k, f, pos string) {
		if m[k] == nil {
			m[k] = map[string]string{}
		}
		if m[k][f] == "" {
			m[k][f] = pos
		}
	}
	optType := func(t types.Type) string {
		n := namedTypeName(t)
		if strings.HasPrefix(n, "types/descriptorpb.") && strings.HasSuffix(n, "Options") {
			return strings.TrimSuffix(strings.TrimPrefix(n, "types/descriptorpb."), "Options")
		}
		return ""
	}
	nProto := 0
	for _, fi := range P.FuncsIn("reflect/protodesc") {
		if fi.Decl.Body == nil {
			continue
		}
		name := fi.Obj.Name()
		if (strings.HasPrefix(name, "To") && strings.HasSuffix(name, "Proto")) || strings.HasPrefix(name, "validate") {
			continue
		}
		nProto++
		info := fi.Info()
		kindOf := func(t string) string {
			if t == "Field" && strings.Contains(name, "Extension") {
				return "Extension"
			}
			return t
		}
		walkAll(fi.Decl.Body, func(n ast.Node) bool {
			switch x := n.(type) {
			case *ast.CallExpr:
				if se, ok := x.Fun.(*ast.SelectorExpr); ok && strings.HasPrefix(se.Sel.Name, "Get") {
					if t := optType(info.TypeOf(se.X)); t != "" {
						add(read, kindOf(t), strings.TrimPrefix(se.Sel.Name, "Get"), P.Pos(x))
					}
				}
			case *ast.SelectorExpr:
				if t := optType(info.TypeOf(x.X)); t != "" {
					if sel := info.Selections[x]; sel != nil && sel.Kind() == types.FieldVal {
						add(read, kindOf(t), x.Sel.Name, P.Pos(x))
					}
				}
			}
			return true
		})
	}
	for _, fi := range P.FuncsIn("internal/filedesc") {
		if fi.Decl.Body == nil || fi.Decl.Recv == nil || len(fi.Decl.Recv.List) == 0 {
			continue
		}
		info := fi.Info()
		recv := namedTypeName(info.TypeOf(fi.Decl.Recv.List[0].Type))
		recv = strings.TrimPrefix(recv, "internal/filedesc.")
		walkAll(fi.Decl.Body, func(n ast.Node) bool {
			id, ok := n.(*ast.Ident)
			if !ok {
				return true
			}
			cst, ok := info.Uses[id].(*types.Const)
			if !ok || cst.Pkg() == nil || !strings.HasSuffix(cst.Pkg().Path(), "/internal/genid") || !strings.HasSuffix(cst.Name(), "_field_number") {
				return true
			}
			nm := strings.TrimSuffix(cst.Name(), "_field_number")
			i := strings.Index(nm, "Options_")
			if i <= 0 || strings.Contains(nm[i+len("Options_"):], "_") {
				return true
			}
			optKind := nm[:i]
			if optKind != recv && !(optKind == "Field" && recv == "Extension") {
				R.Unk(rule, fi.Key+" "+cst.Name(), P.Pos(id), "an option field of "+optKind+"Options is matched in a method of filedesc."+recv+"; cannot attribute it to a descriptor kind")
				return true
			}
			add(parsed, recv, nm[i+len("Options_"):], P.Pos(id))
			return true
		})
	}
	if nProto == 0 || len(read) == 0 || len(parsed) == 0 {
		R.Unk(rule, "option promotion", "", "could not extract the option fields (protodesc functions "+itoa(nProto)+", kinds read "+itoa(len(read))+", kinds parsed "+itoa(len(parsed))+")")
		return
	}
	kinds := map[string]bool{}
	for k := range read {
		kinds[k] = true
	}
	for k := range parsed {
		kinds[k] = true
	}
	for _, k := range sortedSet(kinds) {
		ok := true
		diff := func(a, b map[string]string, tag, msg string) {
			var fs []string
			for f := range a {
				if _, in := b[f]; !in {
					fs = append(fs, f)
				}
			}
			sort.Strings(fs)
			for _, f := range fs {
				key := k + "." + f + " " + tag
				if why, ex := optionPromotionExceptions[key]; ex {
					R.Exempt(rule, key, a[f], why)
					continue
				}
				ok = false
				R.Bad(rule, key, a[f], msg)
			}
		}
		diff(read[k], parsed[k], "read-not-parsed", "protodesc promotes this option field into the "+k+" descriptor but the compact builder never parses it for that kind: accessors that depend on it differ between descriptors of generated code and descriptors built from the proto")
		diff(parsed[k], read[k], "parsed-not-read", "the compact builder promotes this option field into the "+k+" descriptor but protodesc never reads it for that kind: descriptors built from the proto lack what generated ones have")
		if ok {
			var fs []string
			for f := range read[k] {
				fs = append(fs, f)
			}
			sort.Strings(fs)
			R.OK(rule, k+" options", "", "{"+strings.Join(fs, ", ")+"} promoted by both")
		}
	}
}

// R-FEATURE-INHERIT: resolved features are inherited lexically. In both
// constructions a descriptor starts from the resolved features of its parent
// descriptor (file or enclosing message) and then applies its own override.
// Seeding from anything else (the file, a sibling, a zero value) makes
// message-level overrides invisible to the members of the message.
func (c *Ctx) ruleFeatureInherit(rule string, floor int) {
	R, P := c.R, c.P
	R.Rule(rule, "every assignment to <desc>.L1.EditionFeatures of a non-file descriptor is either the inheritance step (filedesc: featuresFromParentDesc(<desc>.Parent() or the parent parameter stored in L0.Parent); protodesc: mergeEditionFeatures(parent parameter, <own proto>.GetOptions().GetFeatures())) or the override of its own value (unmarshalFeatureSet(v, <desc>.L1.EditionFeatures)); each kind has an inheritance step; both inheritance helpers return the parent's own L1.EditionFeatures", floor)
	isFeat := func(e ast.Expr) (root *ast.Ident, ok bool) {
		se, k := unparen(e).(*ast.SelectorExpr)
		if !k || se.Sel.Name != "EditionFeatures" {
			return nil, false
		}
		l1, k := unparen(se.X).(*ast.SelectorExpr)
		if !k || l1.Sel.Name != "L1" {
			return nil, false
		}
		id, k := unparen(l1.X).(*ast.Ident)
		return id, k
	}
	inherit := map[string]int{}
	for _, pkg := range []string{"internal/filedesc", "reflect/protodesc"} {
		for _, fi := range P.FuncsIn(pkg) {
			if fi.Decl.Body == nil {
				continue
			}
			info := fi.Info()
			params := map[types.Object]bool{}
			for _, f := range fi.Decl.Type.Params.List {
				for _, n := range f.Names {
					params[info.Defs[n]] = true
				}
			}
			// parameters stored as the descriptor's parent
			parentParam := map[types.Object]bool{}
			walkAll(fi.Decl.Body, func(n ast.Node) bool {
				as, ok := n.(*ast.AssignStmt)
				if !ok || len(as.Lhs) != 1 || len(as.Rhs) != 1 {
					return true
				}
				if strings.HasSuffix(exprStr(as.Lhs[0]), ".L0.Parent") {
					if id, ok := unparen(as.Rhs[0]).(*ast.Ident); ok && params[info.Uses[id]] {
						parentParam[info.Uses[id]] = true
					}
				}
				return true
			})
			var ranges []*ast.RangeStmt
			walkAll(fi.Decl.Body, func(n ast.Node) bool {
				if rs, ok := n.(*ast.RangeStmt); ok {
					ranges = append(ranges, rs)
				}
				return true
			})
			walkAll(fi.Decl.Body, func(n ast.Node) bool {
				as, ok := n.(*ast.AssignStmt)
				if !ok || len(as.Lhs) != 1 || len(as.Rhs) != 1 {
					return true
				}
				root, ok := isFeat(as.Lhs[0])
				if !ok {
					return true
				}
				kind := strings.TrimPrefix(namedTypeName(info.TypeOf(root)), "internal/filedesc.")
				if kind == "File" || strings.HasPrefix(kind, "Surrogate") || kind == "" {
					return true
				}
				key := fi.Key + " " + kind + " features := " + exprStr(as.Rhs[0])
				call, isCall := unparen(as.Rhs[0]).(*ast.CallExpr)
				if !isCall {
					R.Bad(rule, key, P.Pos(as), "the resolved features of a "+kind+" are set from `"+exprStr(as.Rhs[0])+"`, which is neither the inheritance from its parent descriptor nor an override of its own value: feature overrides of the enclosing message are not applied to it")
					return true
				}
				switch calleeKey(info, call) {
				case "internal/filedesc.unmarshalFeatureSet":
					r2, ok := isFeat(call.Args[1])
					R.Check(len(call.Args) == 2 && ok && info.Uses[r2] == info.Uses[root], rule, key, P.Pos(as), "override of its own value", "the feature override of a "+kind+" is applied on top of `"+exprStr(call.Args[1])+"` instead of its own inherited features")
				case "internal/filedesc.featuresFromParentDesc":
					a := unparen(call.Args[0])
					good := false
					if id, ok := a.(*ast.Ident); ok && parentParam[info.Uses[id]] {
						good = true
					}
					if pc, ok := a.(*ast.CallExpr); ok && len(pc.Args) == 0 {
						if se, ok := pc.Fun.(*ast.SelectorExpr); ok && se.Sel.Name == "Parent" {
							if id, ok := unparen(se.X).(*ast.Ident); ok && info.Uses[id] == info.Uses[root] {
								good = true
							}
						}
					}
					if good {
						inherit[pkg+" "+kind]++
					}
					R.Check(good, rule, key, P.Pos(as), "inherits from its parent descriptor", "the features of a "+kind+" are inherited from `"+exprStr(a)+"`, which is not its parent descriptor")
				case "reflect/protodesc.mergeEditionFeatures":
					good := false
					if id, ok := unparen(call.Args[0]).(*ast.Ident); ok && params[info.Uses[id]] {
						good = true
					}
					// the child features come from the proto of the enclosing loop
					own := false
					if r := rootIdentThroughCalls(call.Args[1]); r != nil && strings.HasSuffix(exprStr(call.Args[1]), ".GetOptions().GetFeatures()") {
						for _, rs := range ranges {
							if v, ok := rs.Value.(*ast.Ident); ok && info.Defs[v] == info.Uses[r] && rs.Body.Pos() <= as.Pos() && as.End() <= rs.Body.End() {
								own = true
							}
						}
					}
					if good && own {
						inherit[pkg+" "+kind]++
					}
					R.Check(good && own, rule, key, P.Pos(as), "parent parameter merged with the descriptor's own option features", "the features of a "+kind+" are not the merge of the parent descriptor's features (parameter) with the features of its own options message")
				default:
					R.Bad(rule, key, P.Pos(as), "the resolved features of a "+kind+" are set from `"+exprStr(as.Rhs[0])+"`, which is neither the inheritance from its parent descriptor nor an override of its own value")
				}
				return true
			})
		}
	}
	for _, k := range []string{"internal/filedesc Enum", "internal/filedesc Message", "internal/filedesc Field", "internal/filedesc Extension", "reflect/protodesc Enum", "reflect/protodesc Message", "reflect/protodesc Field", "reflect/protodesc Extension"} {
		if inherit[k] == 0 {
			R.Bad(rule, k+" inheritance step", "", "no assignment inherits the features of this kind from its parent descriptor: it keeps zero-valued features")
		}
	}
	// the helpers hand back the parent's own features
	for _, key := range []string{"internal/filedesc.featuresFromParentDesc", "reflect/protodesc.mergeEditionFeatures"} {
		fi := c.need(rule, key)
		if fi == nil {
			continue
		}
		info := fi.Info()
		var ts *ast.TypeSwitchStmt
		walkAll(fi.Decl.Body, func(n ast.Node) bool {
			if t, ok := n.(*ast.TypeSwitchStmt); ok && ts == nil {
				ts = t
			}
			return true
		})
		if ts == nil {
			R.Unk(rule, key+" parent switch", P.Pos(fi.Decl), "type switch over the parent descriptor not found")
			continue
		}
		var bound string
		if as, ok := ts.Assign.(*ast.AssignStmt); ok {
			bound = exprStr(as.Lhs[0])
		}
		handled := map[string]bool{}
		ok := true
		for _, cl := range ts.Body.List {
			cc := cl.(*ast.CaseClause)
			if cc.List == nil {
				continue
			}
			for _, te := range cc.List {
				handled[strings.TrimPrefix(namedTypeName(info.TypeOf(te)), "internal/filedesc.")] = true
			}
			got := false
			for _, st := range cc.Body {
				if as, ok := st.(*ast.AssignStmt); ok && len(as.Rhs) == 1 && exprStr(as.Rhs[0]) == bound+".L1.EditionFeatures" {
					got = true
				}
			}
			ok = ok && got
		}
		R.Check(ok && handled["File"] && handled["Message"] && bound != "", rule, key+" parent switch", P.Pos(ts), "File and Message parents hand back their own L1.EditionFeatures", "the inheritance helper does not return the parent's own resolved features for both parent kinds (file, message)")
	}
}

// R-DEFAULTS-IMMUTABLE: getFeatureSetFor hands out the process-wide cached
// default FeatureSet of an edition (the same pointer to every caller). A caller
// that writes to it (proto.Merge into it, Reset, Unmarshal into it, a field
// assignment) changes the defaults every later file of that edition resolves
// from: the first file's overrides leak into unrelated files.
func (c *Ctx) ruleDefaultsImmutable(rule string) {
	R, P := c.R, c.P
	R.Rule(rule, "outside getFeatureSetFor, no value obtained from reflect/protodesc.getFeatureSetFor is the destination of proto.Merge / proto.Reset / proto.Unmarshal(Options) or the base of a field assignment", 1)
	n := 0
	for _, fi := range P.FuncsIn("reflect/protodesc") {
		if fi.Decl.Body == nil || fi.Obj.Name() == "getFeatureSetFor" {
			continue
		}
		info := fi.Info()
		shared := map[types.Object]bool{}
		isShared := func(e ast.Expr) bool {
			switch x := unparen(e).(type) {
			case *ast.Ident:
				return shared[info.Uses[x]]
			case *ast.CallExpr:
				return calleeKey(info, x) == "reflect/protodesc.getFeatureSetFor"
			}
			return false
		}
		for changed := true; changed; {
			changed = false
			walkAll(fi.Decl.Body, func(m ast.Node) bool {
				as, ok := m.(*ast.AssignStmt)
				if !ok || len(as.Lhs) != len(as.Rhs) {
					return true
				}
				for i := range as.Lhs {
					if isShared(as.Rhs[i]) {
						if o := objOf(info, as.Lhs[i]); o != nil && !shared[o] {
							shared[o] = true
							changed = true
						}
					}
				}
				return true
			})
		}
		uses := 0
		walkAll(fi.Decl.Body, func(m ast.Node) bool {
			if call, ok := m.(*ast.CallExpr); ok && calleeKey(info, call) == "reflect/protodesc.getFeatureSetFor" {
				uses++
			}
			return true
		})
		if uses == 0 {
			continue
		}
		n++
		bad, pos := "", ""
		walkAll(fi.Decl.Body, func(m ast.Node) bool {
			switch x := m.(type) {
			case *ast.CallExpr:
				k := calleeKey(info, x)
				switch {
				case (k == "proto.Merge" || k == "proto.Reset") && len(x.Args) >= 1 && isShared(x.Args[0]):
					bad, pos = k+" writes into it", P.Pos(x)
				case (k == "proto.Unmarshal" || k == "proto.UnmarshalOptions.Unmarshal") && len(x.Args) == 2 && isShared(x.Args[1]):
					bad, pos = k+" decodes into it", P.Pos(x)
				}
			case *ast.AssignStmt:
				for _, l := range x.Lhs {
					if se, ok := unparen(l).(*ast.SelectorExpr); ok && isShared(se.X) {
						bad, pos = "field "+se.Sel.Name+" is assigned", P.Pos(x)
					}
				}
			}
			return true
		})
		if bad != "" {
			R.Bad(rule, fi.Key+" cached defaults", pos, "the FeatureSet returned by getFeatureSetFor is the cached default shared by all files of the edition, and "+bad+": the overrides of the file being built become the defaults of every file of that edition built later in the process")
		} else {
			R.OK(rule, fi.Key+" cached defaults", P.Pos(fi.Decl), "read only")
		}
	}
	if n == 0 {
		R.Unk(rule, "getFeatureSetFor users", "", "no caller of getFeatureSetFor found")
	}
}
