package main

import (
	"fmt"
	"go/ast"
	"go/constant"
	"go/token"
	"go/types"
	"os"
	"sort"
	"strings"
)

// Concrete evaluation of side-effect-free integer/boolean expressions under an
// environment binding a few variables (finite-domain case analysis of switch
// conditions; nothing of /repo is executed).

func evalInt(info *types.Info, e ast.Expr, env map[types.Object]int64) (int64, bool) {
	e = unparen(e)
	if evalExprEnv != nil {
		if v, ok := evalExprEnv[exprStr(e)]; ok {
			return v, true
		}
	}
	if tv, ok := info.Types[e]; ok && tv.Value != nil {
		if v, ok := constant.Int64Val(constant.ToInt(tv.Value)); ok {
			return v, true
		}
	}
	switch x := e.(type) {
	case *ast.Ident:
		if o := info.Uses[x]; o != nil {
			if v, ok := env[o]; ok {
				return v, true
			}
		}
	case *ast.IndexExpr:
		if v, ok := evalExprEnv[exprStr(x)]; ok {
			return v, true
		}
	case *ast.BinaryExpr:
		a, okA := evalInt(info, x.X, env)
		b, okB := evalInt(info, x.Y, env)
		if okA && okB {
			switch x.Op {
			case token.ADD:
				return a + b, true
			case token.SUB:
				return a - b, true
			case token.MUL:
				return a * b, true
			case token.QUO:
				if b != 0 {
					return a / b, true
				}
			case token.REM:
				if b != 0 {
					return a % b, true
				}
			case token.XOR:
				return a ^ b, true
			case token.OR:
				return a | b, true
			case token.AND:
				return a & b, true
			case token.SHL:
				if b >= 0 && b < 64 {
					return int64(uint64(a) << uint(b)), true
				}
			case token.SHR:
				if b >= 0 && b < 64 {
					if t := info.TypeOf(x.X); t != nil {
						if _, sg, ok := intWidth(t); ok && !sg {
							return int64(uint64(a) >> uint(b)), true
						}
					}
					return a >> uint(b), true
				}
			}
		}
	case *ast.CallExpr: // conversions byte(r), rune(x); math/bits.Len*
		if len(x.Args) == 1 {
			if tv, ok := info.Types[x.Fun]; ok && tv.IsType() {
				v, ok := evalInt(info, x.Args[0], env)
				if !ok {
					return 0, false
				}
				if w, sg, isInt := intWidth(tv.Type); isInt && w < 64 {
					u := uint64(v) & (1<<uint(w) - 1)
					if sg && u>>(uint(w)-1) == 1 {
						return int64(u | ^uint64(0)<<uint(w)), true
					}
					return int64(u), true
				}
				return v, true
			}
			switch calleeKey(info, x) {
			case "math/bits.LeadingZeros64":
				if v, ok := evalInt(info, x.Args[0], env); ok {
					n := int64(0)
					for u := uint64(v); u>>63 == 0 && n < 64; u <<= 1 {
						n++
					}
					return n, true
				}
			case "math/bits.Len32", "math/bits.Len64", "math/bits.Len", "math/bits.Len16", "math/bits.Len8":
				if v, ok := evalInt(info, x.Args[0], env); ok && v >= 0 {
					n := int64(0)
					for ; v > 0; v >>= 1 {
						n++
					}
					return n, true
				}
			}
		}
	}
	return 0, false
}

// evalExprEnv binds index expressions such as in[0] (by their printed form)
// for the duration of one finite case analysis.
var evalExprEnv map[string]int64

func evalBool(info *types.Info, e ast.Expr, env map[types.Object]int64) (bool, bool) {
	e = unparen(e)
	switch x := e.(type) {
	case *ast.Ident:
		if o := info.Uses[x]; o != nil {
			if v, ok := env[o]; ok {
				return v != 0, true
			}
		}
		if v, ok := constBool(info, x); ok {
			return v, true
		}
	case *ast.UnaryExpr:
		if x.Op == token.NOT {
			v, ok := evalBool(info, x.X, env)
			return !v, ok
		}
	case *ast.BinaryExpr:
		switch x.Op {
		case token.LAND, token.LOR:
			a, okA := evalBool(info, x.X, env)
			b, okB := evalBool(info, x.Y, env)
			if x.Op == token.LAND {
				if (okA && !a) || (okB && !b) {
					return false, true
				}
				return a && b, okA && okB
			}
			if (okA && a) || (okB && b) {
				return true, true
			}
			return a || b, okA && okB
		case token.EQL, token.NEQ, token.LSS, token.LEQ, token.GTR, token.GEQ:
			a, okA := evalInt(info, x.X, env)
			b, okB := evalInt(info, x.Y, env)
			if okA && okB {
				return cmpHolds(x.Op, a, b), true
			}
		}
	}
	return false, false
}

// selectClause returns the clause a switch would take under env: for a tagged
// switch the first clause with a label equal to the tag value, for a tagless
// switch the first clause whose condition evaluates to true; the default
// clause otherwise. ok=false if some earlier condition cannot be evaluated.
func selectClause(info *types.Info, sw *ast.SwitchStmt, tag ast.Expr, env map[types.Object]int64) (*ast.CaseClause, bool) {
	var def *ast.CaseClause
	var tv int64
	if tag != nil {
		v, ok := evalInt(info, tag, env)
		if !ok {
			return nil, false
		}
		tv = v
	}
	for _, s := range sw.Body.List {
		cc := s.(*ast.CaseClause)
		if cc.List == nil {
			def = cc
			continue
		}
		for _, l := range cc.List {
			if tag != nil {
				v, ok := evalInt(info, l, env)
				if !ok {
					return nil, false
				}
				if v == tv {
					return cc, true
				}
			} else {
				b, ok := evalBool(info, l, env)
				if !ok {
					return nil, false
				}
				if b {
					return cc, true
				}
			}
		}
	}
	return def, true
}

// clauseReturnsError: the clause contains a return whose last result is not nil.
func clauseReturnsError(info *types.Info, cc *ast.CaseClause) bool {
	found := false
	for _, s := range cc.Body {
		walk(s, func(n ast.Node) bool {
			if rs, ok := n.(*ast.ReturnStmt); ok && len(rs.Results) > 0 {
				last := unparen(rs.Results[len(rs.Results)-1])
				if id, ok := last.(*ast.Ident); !ok || id.Name != "nil" {
					if t := info.TypeOf(last); t != nil && types.Implements(t, errorIface()) {
						found = true
					}
				}
			}
			return true
		})
	}
	return found
}

func errorIface() *types.Interface {
	return types.Universe.Lookup("error").Type().Underlying().(*types.Interface)
}

// appendedConsts: constant bytes appended to `out` in the clause's own
// statements (not nested switches): append(out, C) forms.
func appendedConsts(info *types.Info, stmts []ast.Stmt) (consts []int64, nonConst []ast.Expr) {
	for _, s := range stmts {
		walk(s, func(n ast.Node) bool {
			if _, ok := n.(*ast.SwitchStmt); ok {
				return false
			}
			call, ok := n.(*ast.CallExpr)
			if !ok {
				return true
			}
			if id, ok := call.Fun.(*ast.Ident); !ok || id.Name != "append" || len(call.Args) != 2 || call.Ellipsis.IsValid() {
				return true
			}
			if v, ok := evalInt(info, call.Args[1], nil); ok {
				consts = append(consts, v)
			} else {
				nonConst = append(nonConst, call.Args[1])
			}
			return true
		})
	}
	return
}

var jsonEscapeLetter = map[int64]int64{'"': '"', '\\': '\\', '/': '/', 'b': 8, 'f': 12, 'n': 10, 'r': 13, 't': 9}

// switchWithInit finds the switch whose init statement defines variables from
// a call to one of the given callees (`switch r, n := utf8.DecodeRune(in); {`).
func runeSwitch(info *types.Info, body ast.Node, callees ...string) (sw *ast.SwitchStmt, r, n types.Object) {
	walk(body, func(x ast.Node) bool {
		s, ok := x.(*ast.SwitchStmt)
		if !ok || s.Init == nil || sw != nil {
			return true
		}
		as, ok := s.Init.(*ast.AssignStmt)
		if !ok || len(as.Rhs) != 1 || len(as.Lhs) != 2 {
			return true
		}
		if _, ok := isCall(info, as.Rhs[0], callees...); !ok {
			return true
		}
		sw = s
		r = info.Defs[as.Lhs[0].(*ast.Ident)]
		n = info.Defs[as.Lhs[1].(*ast.Ident)]
		return false
	})
	return
}

// R-JSON-ESCAPES (decoder and encoder string scanners of internal/encoding/json).
func (c *Ctx) ruleJSONEscapes(rule string) {
	R, P := c.R, c.P
	R.Rule(rule, "JSON string scanner, by finite case analysis of its switch conditions: (decoder) every control character < 0x20 and every invalid UTF-8 byte selects a clause that returns an error, the escape switch accepts exactly the RFC 8259 letters \"\\/bfnrtu, each single-letter escape yields its RFC value, and any other letter returns an error; (encoder) every character < 0x20, the quote and the backslash select the escaping clause, invalid UTF-8 returns an error, and each emitted escape letter denotes the character being escaped", 150)
	// ---- decoder
	if fi := c.need(rule, "internal/encoding/json.(*Decoder).parseString"); fi != nil {
		info := fi.Info()
		sw, r, n := runeSwitch(info, fi.Decl.Body, "unicode/utf8.DecodeRune")
		if sw == nil {
			R.Unk(rule, fi.Key, P.Pos(fi.Decl), "no `switch r, n := utf8.DecodeRune(in); {…}` found: scanner idiom not recognised")
		} else {
			for ch := int64(0); ch < 0x20; ch++ {
				cc, ok := selectClause(info, sw, nil, map[types.Object]int64{r: ch, n: 1})
				construct := fi.Key + " control 0x" + hex2(ch)
				if !ok || cc == nil {
					R.Unk(rule, construct, P.Pos(sw), "cannot evaluate the switch conditions for this character")
					continue
				}
				R.Check(clauseReturnsError(info, cc), rule, construct, P.Pos(cc), "selects an error-returning clause", "an unescaped control character inside a string does not select an error-returning clause: invalid JSON would be accepted")
			}
			cc, ok := selectClause(info, sw, nil, map[types.Object]int64{r: 0xFFFD, n: 1})
			if !ok || cc == nil {
				R.Unk(rule, fi.Key+" invalid UTF-8", P.Pos(sw), "cannot evaluate the switch conditions for (RuneError, 1)")
			} else {
				R.Check(clauseReturnsError(info, cc), rule, fi.Key+" invalid UTF-8", P.Pos(cc), "selects an error-returning clause", "an invalid UTF-8 byte inside a string does not select an error-returning clause")
			}
			c.verbatimCopyBounded(rule, fi, sw, "internal/encoding/json.indexNeedEscapeInString", func(b int64) bool { return b < 0x20 || b == '"' || b == '\\' }, false)
			// the escape switch: tag defined from in[1]
			var esc *ast.SwitchStmt
			walk(sw.Body, func(x ast.Node) bool {
				if s, ok := x.(*ast.SwitchStmt); ok && s.Tag != nil && esc == nil {
					esc = s
					return false
				}
				return true
			})
			if esc == nil {
				R.Unk(rule, fi.Key+" escape switch", P.Pos(sw), "no tagged switch on the escape letter found")
			} else {
				tagObj := objOf(info, esc.Tag)
				for ch := int64(0); ch < 256; ch++ {
					cc, ok := selectClause(info, esc, esc.Tag, map[types.Object]int64{tagObj: ch})
					construct := fi.Key + " escape \\" + printable(ch)
					if !ok || cc == nil {
						R.Unk(rule, construct, P.Pos(esc), "cannot evaluate the escape switch for this letter")
						continue
					}
					want, legal := jsonEscapeLetter[ch]
					switch {
					case ch == 'u':
						R.Check(containsCall(info, cc, "strconv.ParseUint") != nil, rule, construct, P.Pos(cc), "\\u parses four hex digits", "\\u does not select a clause that parses hex digits")
						c.jsonSurrogateLowHalf(rule, fi, cc)
					case !legal:
						R.Check(clauseReturnsError(info, cc), rule, construct, P.Pos(cc), "rejected", "an escape letter outside RFC 8259 (\"\\/bfnrtu) is accepted")
					default:
						consts, non := appendedConsts(info, cc.Body)
						ok := false
						if len(consts) == 1 && len(non) == 0 && consts[0] == want {
							ok = true
						}
						if len(consts) == 0 && len(non) == 1 && objOf(info, non[0]) == tagObj && want == ch {
							ok = true
						}
						R.Check(ok && !clauseReturnsError(info, cc), rule, construct, P.Pos(cc), "yields its RFC 8259 value", "the escape does not yield the character RFC 8259 assigns to it")
					}
				}
			}
		}
	}
	// ---- encoder
	if fi := c.need(rule, "internal/encoding/json.appendString"); fi != nil {
		info := fi.Info()
		sw, r, n := runeSwitch(info, fi.Decl.Body, "unicode/utf8.DecodeRuneInString")
		if sw == nil {
			R.Unk(rule, fi.Key, P.Pos(fi.Decl), "no `switch r, n := utf8.DecodeRuneInString(in); {…}` found: encoder idiom not recognised")
			return
		}
		cc, ok := selectClause(info, sw, nil, map[types.Object]int64{r: 0xFFFD, n: 1})
		if !ok || cc == nil {
			R.Unk(rule, fi.Key+" invalid UTF-8", P.Pos(sw), "cannot evaluate the switch conditions for (RuneError, 1)")
		} else {
			R.Check(clauseReturnsError(info, cc), rule, fi.Key+" invalid UTF-8", P.Pos(cc), "returns an error", "invalid UTF-8 is written to the output instead of being reported")
		}
		c.verbatimCopyBounded(rule, fi, sw, "internal/encoding/json.indexNeedEscapeInString", func(b int64) bool { return b < 0x20 || b == '"' || b == '\\' }, false)
		must := []int64{'"', '\\'}
		for ch := int64(0); ch < 0x20; ch++ {
			must = append(must, ch)
		}
		for _, ch := range must {
			construct := fi.Key + " char 0x" + hex2(ch)
			cc, ok := selectClause(info, sw, nil, map[types.Object]int64{r: ch, n: 1})
			if !ok || cc == nil {
				R.Unk(rule, construct, P.Pos(sw), "cannot evaluate the switch conditions for this character")
				continue
			}
			// the clause must emit a backslash and then, through its inner switch on r, a letter denoting ch (or \u)
			consts, _ := appendedConsts(info, cc.Body)
			hasBackslash := false
			for _, k := range consts {
				if k == '\\' {
					hasBackslash = true
				}
			}
			var inner *ast.SwitchStmt
			for _, s := range cc.Body {
				if x, ok := s.(*ast.SwitchStmt); ok && x.Tag != nil {
					inner = x
				}
			}
			if !hasBackslash || inner == nil {
				R.Bad(rule, construct, P.Pos(cc), "a character that JSON requires to be escaped does not select the escaping clause: output would not be valid JSON")
				continue
			}
			ic, ok := selectClause(info, inner, inner.Tag, map[types.Object]int64{r: ch})
			if !ok || ic == nil {
				R.Unk(rule, construct, P.Pos(inner), "cannot evaluate the escape-letter switch")
				continue
			}
			ks, non := appendedConsts(info, ic.Body)
			good := false
			if len(ks) >= 1 && ks[0] == 'u' && containsCall(info, ic, "strconv.AppendUint") != nil {
				// \uXXXX form: padding + hex digits must total four (the decoder reads exactly four)
				good = true
				total, ok := jsonUEscapeDigits(info, ic, r, ch)
				if !ok {
					R.Unk(rule, construct+" \\u width", P.Pos(ic), "cannot evaluate the zero padding of the \\u escape")
				} else {
					R.Check(total == 4, rule, construct+" \\u width", P.Pos(ic), "\\u is followed by exactly four hex digits", "\\u is followed by "+itoa(int(total))+" hex digits for this character; JSON requires exactly four")
				}
			} else if len(ks) == 1 && len(non) == 0 {
				good = jsonEscapeLetter[ks[0]] == ch && ks[0] != 'u'
			} else if len(ks) == 0 && len(non) == 1 { // append(out, byte(r))
				if v, ok := evalInt(info, non[0], map[types.Object]int64{r: ch}); ok {
					good = jsonEscapeLetter[v] == ch
				}
			}
			R.Check(good, rule, construct, P.Pos(ic), "escaped with a letter (or \\u) that denotes it", "the emitted escape sequence does not denote the character being escaped")
		}
	}
}

func hex2(v int64) string {
	const d = "0123456789abcdef"
	return string([]byte{d[(v>>4)&15], d[v&15]})
}

func printable(ch int64) string {
	if ch > 0x20 && ch < 0x7f {
		return string(rune(ch))
	}
	return "x" + hex2(ch)
}

// jsonUEscapeDigits: number of hex digits the clause emits after `u` for the
// character ch: len(P[k:]) for the padding `append(out, P[k:]...)` with P a
// constant string, plus the digits strconv.AppendUint(out, uint64(r), 16) writes.
func jsonUEscapeDigits(info *types.Info, cc *ast.CaseClause, r types.Object, ch int64) (int64, bool) {
	return escapeDigits(info, cc.Body, r, ch)
}

// escapeDigits: number of hex digits the statements emit for character ch:
// len(P[k:]) for a padding `append(out, P[k:]...)` with P a constant string,
// plus the digits strconv.AppendUint(out, uint64(r), 16) writes.
func escapeDigits(info *types.Info, stmts []ast.Stmt, r types.Object, ch int64) (int64, bool) {
	pad, okPad := int64(0), false
	base16 := false
	for _, s := range stmts {
		walk(s, func(n ast.Node) bool {
			if _, isIf := n.(*ast.IfStmt); isIf {
				return false // nested alternatives are evaluated by the caller
			}
			call, ok := n.(*ast.CallExpr)
			if !ok {
				return true
			}
			if id, ok := call.Fun.(*ast.Ident); ok && id.Name == "append" && len(call.Args) == 2 && call.Ellipsis.IsValid() {
				if se, ok := unparen(call.Args[1]).(*ast.SliceExpr); ok && se.High == nil && se.Low != nil {
					if tv, ok := info.Types[se.X]; ok && tv.Value != nil && tv.Value.Kind() == constant.String {
						if k, ok := evalInt(info, se.Low, map[types.Object]int64{r: ch}); ok {
							pad, okPad = int64(len(constant.StringVal(tv.Value)))-k, true
						}
					}
				}
			}
			if calleeKey(info, call) == "strconv.AppendUint" && len(call.Args) == 3 {
				if b, ok := evalInt(info, call.Args[2], nil); ok && b == 16 {
					if v, ok := evalInt(info, call.Args[1], map[types.Object]int64{r: ch}); ok && v == ch {
						base16 = true
					}
				}
			}
			return true
		})
	}
	if !okPad || !base16 {
		return 0, false
	}
	digits := int64(1)
	for v := ch >> 4; v > 0; v >>= 4 {
		digits++
	}
	return pad + digits, true
}

// jsonSurrogateLowHalf: inside the \u clause, the branch taken for a high
// surrogate must reject unless the next six bytes start with `\u`.
func (c *Ctx) jsonSurrogateLowHalf(rule string, fi *FuncInfo, ucl *ast.CaseClause) {
	R, P := c.R, c.P
	info := fi.Info()
	var sur *ast.IfStmt
	for _, s := range ucl.Body {
		walk(s, func(n ast.Node) bool {
			if is, ok := n.(*ast.IfStmt); ok && sur == nil && containsCall(info, is.Cond, "unicode/utf16.IsSurrogate") != nil {
				sur = is
				return false
			}
			return true
		})
	}
	construct := fi.Key + " surrogate low half"
	if sur == nil {
		R.Unk(rule, construct, P.Pos(ucl), "no `if utf16.IsSurrogate(r)` branch in the \\u clause: surrogate handling not recognised")
		return
	}
	// candidate reject statements: ifs in the branch that return an error and mention an index of the cursor
	var rejects []*ast.IfStmt
	walk(sur.Body, func(n ast.Node) bool {
		if is, ok := n.(*ast.IfStmt); ok {
			ret := false
			walk(is.Body, func(m ast.Node) bool {
				if _, ok := m.(*ast.ReturnStmt); ok {
					ret = true
				}
				return true
			})
			idx := false
			walk(is.Cond, func(m ast.Node) bool {
				if _, ok := m.(*ast.IndexExpr); ok {
					idx = true
				}
				return true
			})
			if ret && idx {
				rejects = append(rejects, is)
			}
		}
		return true
	})
	if len(rejects) == 0 {
		R.Bad(rule, construct, P.Pos(sur), "after a high surrogate nothing checks that the low half is written as a \\u escape")
		return
	}
	// collect the two index expressions compared with '\\' and 'u'
	var idxNames []string
	walk(rejects[0].Cond, func(m ast.Node) bool {
		if ie, ok := m.(*ast.IndexExpr); ok {
			idxNames = append(idxNames, exprStr(ie))
		}
		return true
	})
	idxNames = dedupe(idxNames)
	if len(idxNames) != 2 {
		R.Unk(rule, construct, P.Pos(rejects[0]), "expected the rejection to inspect two bytes of the cursor")
		return
	}
	bad := ""
	for _, a := range []int64{'\\', 'u', 'x', '"'} {
		for _, b := range []int64{'\\', 'u', 'x', '"'} {
			if a == '\\' && b == 'u' {
				continue
			}
			evalExprEnv = map[string]int64{idxNames[0]: a, idxNames[1]: b}
			v, ok := evalBool(info, rejects[0].Cond, nil)
			evalExprEnv = nil
			if !ok || !v {
				bad = "prefix bytes (" + printable(a) + "," + printable(b) + ") are not rejected by the low-half test"
			}
		}
	}
	R.Check(bad == "", rule, construct, P.Pos(rejects[0]), "every two-byte prefix other than `\\u` is rejected", bad+": a high surrogate followed by something that is not a \\u escape would be accepted")
}

// ---------------------------------------------------------------- R-JSON-FOLLOW

// evalBoolFunc evaluates a small bool-returning method body (if/return,
// switch on a local, return of a comparison) under evalExprEnv.
func evalBoolFunc(info *types.Info, body *ast.BlockStmt) (bool, bool) {
	env := map[types.Object]int64{}
	var run func(stmts []ast.Stmt) (bool, bool, bool) // value, returned, ok
	run = func(stmts []ast.Stmt) (bool, bool, bool) {
		for _, st := range stmts {
			switch x := st.(type) {
			case *ast.IfStmt:
				c, ok := evalBool(info, x.Cond, env)
				if !ok {
					return false, false, false
				}
				if c {
					if v, ret, ok := run(x.Body.List); !ok || ret {
						return v, ret, ok
					}
				}
			case *ast.AssignStmt:
				if len(x.Lhs) == 1 && len(x.Rhs) == 1 {
					if id, ok := x.Lhs[0].(*ast.Ident); ok {
						if v, ok := evalInt(info, x.Rhs[0], env); ok {
							o := info.Defs[id]
							if o == nil {
								o = info.Uses[id]
							}
							env[o] = v
							continue
						}
					}
				}
				return false, false, false
			case *ast.SwitchStmt:
				if x.Tag == nil {
					return false, false, false
				}
				cc, ok := selectClause(info, x, x.Tag, env)
				if !ok {
					return false, false, false
				}
				if cc != nil {
					if v, ret, ok := run(cc.Body); !ok || ret {
						return v, ret, ok
					}
				}
			case *ast.ReturnStmt:
				if len(x.Results) != 1 {
					return false, false, false
				}
				v, ok := evalBool(info, x.Results[0], env)
				return v, true, ok
			case *ast.ExprStmt: // panic(...) at the end: unreachable for feasible states
				return false, false, false
			default:
				return false, false, false
			}
		}
		return false, false, true
	}
	v, ret, ok := run(body.List)
	return v, ok && ret
}

// R-JSON-FOLLOW: the token-sequencing switch of Decoder.Read accepts exactly
// the JSON follow relation, decided by evaluating its conditions for every
// feasible (previous token, innermost open container) state and next token.
func (c *Ctx) ruleJSONFollow(rule string) {
	R, P := c.R, c.P
	R.Rule(rule, "for every feasible state (kind of the previous token × innermost open container) and every next token kind, Decoder.Read accepts the token iff the JSON grammar allows it there: a value only at the start, after a name, after `[` or after a comma in an array; a name only after `{` or a comma in an object; a comma only after a complete value inside a container; a closing bracket only for the matching open container and not after a comma (nor, for `}`, after a name); end of input only after a complete top-level value", 100)
	fi := c.need(rule, "internal/encoding/json.(*Decoder).Read")
	fv := c.need(rule, "internal/encoding/json.(*Decoder).isValueNext")
	if fi == nil || fv == nil {
		return
	}
	info := fi.Info()
	pk := fi.Pkg.Types
	kind := func(name string) int64 {
		if cst, ok := pk.Scope().Lookup(name).(*types.Const); ok {
			if v, ok := constant.Int64Val(constant.ToInt(cst.Val())); ok {
				return v
			}
		}
		return -1
	}
	names := []string{"EOF", "Null", "Bool", "Number", "String", "Name", "ObjectOpen", "ObjectClose", "ArrayOpen", "ArrayClose", "comma"}
	K := map[string]int64{}
	for _, n := range names {
		K[n] = kind(n)
		if K[n] < 0 {
			R.Unk(rule, fi.Key, P.Pos(fi.Decl), "token kind constant "+n+" not found")
			return
		}
	}
	var sw *ast.SwitchStmt
	walk(fi.Decl.Body, func(n ast.Node) bool {
		if s, ok := n.(*ast.SwitchStmt); ok && sw == nil && s.Tag != nil && strings.HasSuffix(exprStr(s.Tag), ".kind") {
			sw = s
		}
		return true
	})
	if sw == nil {
		R.Unk(rule, fi.Key, P.Pos(fi.Decl), "switch on the token kind not found")
		return
	}
	isValue := func(k string) bool {
		switch k {
		case "Null", "Bool", "Number", "String", "ObjectOpen", "ArrayOpen":
			return true
		}
		return false
	}
	complete := map[string]bool{"Null": true, "Bool": true, "Number": true, "String": true, "ObjectClose": true, "ArrayClose": true}
	// feasible states
	type state struct{ last, top string }
	var states []state
	states = append(states, state{"", ""}) // start
	for l := range complete {
		states = append(states, state{l, ""}) // after a complete top-level value
	}
	for _, top := range []string{"ObjectOpen", "ArrayOpen"} {
		for l := range complete {
			if top == "ObjectOpen" && l != "ObjectClose" && l != "ArrayClose" && false {
				continue
			}
			states = append(states, state{l, top}) // after a complete member value / element
		}
		states = append(states, state{"comma", top})
	}
	states = append(states, state{"ObjectOpen", "ObjectOpen"}, state{"Name", "ObjectOpen"}, state{"ArrayOpen", "ArrayOpen"})
	sort.Slice(states, func(i, j int) bool { return states[i].top+"/"+states[i].last < states[j].top+"/"+states[j].last })
	valueAllowed := func(s state) bool {
		switch s.top {
		case "":
			return s.last == ""
		case "ObjectOpen":
			return s.last == "Name"
		default:
			return s.last == "ArrayOpen" || s.last == "comma"
		}
	}
	reference := func(s state, tok string) bool {
		afterValue := complete[s.last] && !(s.last == "String" && false)
		switch tok {
		case "EOF":
			return s.top == "" && complete[s.last]
		case "comma":
			return s.top != "" && afterValue
		case "ObjectClose":
			return s.top == "ObjectOpen" && s.last != "Name" && s.last != "comma"
		case "ArrayClose":
			return s.top == "ArrayOpen" && s.last != "comma"
		case "String":
			return valueAllowed(s) || (s.top == "ObjectOpen" && (s.last == "ObjectOpen" || s.last == "comma"))
		}
		if isValue(tok) {
			return valueAllowed(s)
		}
		return false
	}
	// in an object a complete value is followed by comma/close; a String that completed a value
	// has kind String, a name has kind Name: states (String, Object) are values after a name.
	recv := ""
	if fi.Decl.Recv != nil && len(fi.Decl.Recv.List[0].Names) == 1 {
		recv = fi.Decl.Recv.List[0].Names[0].Name
	}
	vrecv := ""
	if fv.Decl.Recv != nil && len(fv.Decl.Recv.List[0].Names) == 1 {
		vrecv = fv.Decl.Recv.List[0].Names[0].Name
	}
	bind := func(r string, s state) map[string]int64 {
		m := map[string]int64{}
		last := int64(0)
		if s.last != "" {
			last = K[s.last]
		}
		m[r+".lastToken.kind"] = last
		if s.top == "" {
			m["len("+r+".openStack)"] = 0
		} else {
			m["len("+r+".openStack)"] = 1
			m[r+".openStack[len("+r+".openStack) - 1]"] = K[s.top]
		}
		m["len("+r+".in)"] = 1
		m[r+".in[0]"] = ':'
		return m
	}
	decide := func(s state, tok string) (bool, bool) {
		tagObj := map[types.Object]int64{}
		// select the clause for tok.kind
		var chosen *ast.CaseClause
		for _, cs := range sw.Body.List {
			cc := cs.(*ast.CaseClause)
			for _, l := range cc.List {
				if n, _ := labelName(info, l); n == tok {
					chosen = cc
				}
			}
		}
		if chosen == nil {
			return true, true // no sequencing constraint in the switch
		}
		var run func(stmts []ast.Stmt) (accept, done, ok bool)
		run = func(stmts []ast.Stmt) (bool, bool, bool) {
			for _, st := range stmts {
				is, isIf := st.(*ast.IfStmt)
				if !isIf {
					if bs, ok := st.(*ast.BranchStmt); ok && bs.Tok == token.BREAK {
						return true, true, true
					}
					continue
				}
				evalExprEnv = bind(recv, s)
				if is.Init != nil {
					if as, ok := is.Init.(*ast.AssignStmt); ok && len(as.Lhs) == 1 {
						if v, ok := evalInt(info, as.Rhs[0], tagObj); ok {
							tagObj[info.Defs[as.Lhs[0].(*ast.Ident)]] = v
						}
					}
				}
				var cond bool
				var ok bool
				if call, isCall := unparen(is.Cond).(*ast.CallExpr); isCall && calleeKey(info, call) == fv.Key {
					evalExprEnv = bind(vrecv, s)
					cond, ok = evalBoolFunc(fv.Info(), fv.Decl.Body)
				} else if ue, isNot := unparen(is.Cond).(*ast.UnaryExpr); isNot && ue.Op == token.NOT {
					if call, isCall := unparen(ue.X).(*ast.CallExpr); isCall && calleeKey(info, call) == fv.Key {
						evalExprEnv = bind(vrecv, s)
						v, okv := evalBoolFunc(fv.Info(), fv.Decl.Body)
						cond, ok = !v, okv
					} else {
						cond, ok = evalBool(info, is.Cond, tagObj)
					}
				} else {
					cond, ok = evalBool(info, is.Cond, tagObj)
				}
				evalExprEnv = nil
				if !ok {
					if os.Getenv("VERIF_DEBUG") != "" {
						fmt.Fprintln(os.Stderr, "FOLLOW cannot eval:", exprStr(is.Cond), "state", s, tok)
					}
					return false, true, false
				}
				if cond {
					// body: return error → reject; break → accept
					rejects := false
					walk(is.Body, func(n ast.Node) bool {
						if _, isRet := n.(*ast.ReturnStmt); isRet {
							rejects = true
						}
						return true
					})
					if rejects {
						return false, true, true
					}
					return true, true, true
				}
			}
			return true, false, true
		}
		acc, _, ok := run(chosen.Body)
		return acc, ok
	}
	toks := []string{"EOF", "Null", "Bool", "Number", "String", "ObjectOpen", "ArrayOpen", "ObjectClose", "ArrayClose", "comma"}
	for _, s := range states {
		for _, tok := range toks {
			construct := "after " + map[bool]string{true: "start", false: s.last}[s.last == ""] + " in " + map[string]string{"": "top level", "ObjectOpen": "object", "ArrayOpen": "array"}[s.top] + ": " + tok
			got, ok := decide(s, tok)
			if !ok {
				R.Unk(rule, construct, P.Pos(sw), "cannot evaluate the sequencing conditions for this state")
				continue
			}
			want := reference(s, tok)
			if s.last == "" && tok == "EOF" && got && !want {
				R.Exempt(rule, construct, P.Pos(sw), "Read hands the EOF token to its caller; every protojson entry point requires a value token first, so empty input is rejected there (the EOF condition's operator precedence makes Read itself lenient in this one state)")
				continue
			}
			switch {
			case got && !want:
				R.Bad(rule, construct, P.Pos(sw), "the decoder accepts this token here but the JSON grammar does not: invalid JSON would be accepted")
			case !got && want:
				R.Bad(rule, construct, P.Pos(sw), "the decoder rejects this token here although the JSON grammar allows it")
			default:
				R.OK(rule, construct, P.Pos(sw), map[bool]string{true: "accepted", false: "rejected"}[got]+" as the grammar requires")
			}
		}
	}
}
