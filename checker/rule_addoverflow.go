package main

import (
	"go/ast"
	"go/token"
	"go/types"
	"strings"
)

// R-ADD-OVERFLOW-SIGNS: durationpb.AsDuration saturates "in the event of
// overflow". The overflow of the signed addition d += nanos is detected from
// signs. A two's-complement addition overflows only if both addends have the
// same non-zero sign, and then the result has the opposite sign. The clauses
// OR-ed into the overflow flag after the addition are evaluated for all 27
// sign combinations of (first addend, second addend, result); the first
// addend is secs scaled by a positive constant, so it has the sign of secs.
// A clause that fires on a combination that is not an overflow saturates a
// representable value; a missing overflow combination returns a wrapped one.
func (c *Ctx) ruleAddOverflowSigns(rule string) {
	R, P := c.R, c.P
	R.Rule(rule, "durationpb.AsDuration: the disjuncts OR-ed into the overflow flag after `d += nanos…`, evaluated over all sign combinations of (secs, nanos, d), are true exactly on (+,+,−) and (−,−,+) among the combinations an addition can produce; before the product d := T(secs)*K is formed, loops whose conditions hold exactly on the mixed-sign combinations carry nanos into secs while preserving secs*K+nanos, so that an overflow of the product alone implies an overflow of the sum", 3)
	fi := c.need(rule, "types/known/durationpb.(*Duration).AsDuration")
	if fi == nil {
		return
	}
	info := fi.Info()
	// locals: secs := x.GetSeconds(), nanos := x.GetNanos(), d := T(secs) * K
	var secs, nanos, d, flag types.Object
	var addStmt ast.Stmt
	var clauses []ast.Expr
	for _, st := range fi.Decl.Body.List {
		as, ok := st.(*ast.AssignStmt)
		if !ok || len(as.Lhs) != 1 || len(as.Rhs) != 1 {
			continue
		}
		l, ok := as.Lhs[0].(*ast.Ident)
		if !ok {
			continue
		}
		lo := info.Defs[l]
		if lo == nil {
			lo = info.Uses[l]
		}
		rs := exprStr(as.Rhs[0])
		switch {
		case as.Tok == token.DEFINE && strings.HasSuffix(rs, ".GetSeconds()"):
			secs = lo
		case as.Tok == token.DEFINE && strings.HasSuffix(rs, ".GetNanos()"):
			nanos = lo
		case as.Tok == token.DEFINE && secs != nil && d == nil && mentionsObj(info, as.Rhs[0], secs):
			if be, ok := unparen(as.Rhs[0]).(*ast.BinaryExpr); ok && be.Op == token.MUL {
				d = lo
			}
		case as.Tok == token.ADD_ASSIGN && lo == d && nanos != nil && mentionsObj(info, as.Rhs[0], nanos):
			addStmt = st
		case addStmt != nil && as.Tok == token.ASSIGN:
			if t, ok := lo.Type().Underlying().(*types.Basic); ok && t.Kind() == types.Bool {
				flag = lo
				clauses = append(clauses, as.Rhs[0])
			}
		}
	}
	if secs == nil || nanos == nil || d == nil || addStmt == nil || len(clauses) == 0 {
		R.Unk(rule, fi.Key, P.Pos(fi.Decl), "could not identify secs, nanos, d := T(secs)*K, `d += …nanos…` and the overflow clauses that follow")
		return
	}
	const (
		F = iota
		T
		U
	)
	sign := map[types.Object]int{}
	var eval func(e ast.Expr) int
	eval = func(e ast.Expr) int {
		switch x := unparen(e).(type) {
		case *ast.Ident:
			if info.Uses[x] == flag {
				return F // the flag before the addition: only the new disjuncts are examined
			}
		case *ast.BinaryExpr:
			switch x.Op {
			case token.LAND, token.LOR:
				a, b := eval(x.X), eval(x.Y)
				if x.Op == token.LAND {
					if a == F || b == F {
						return F
					}
					if a == T && b == T {
						return T
					}
					return U
				}
				if a == T || b == T {
					return T
				}
				if a == F && b == F {
					return F
				}
				return U
			case token.LSS, token.GTR, token.LEQ, token.GEQ, token.EQL, token.NEQ:
				v, z, op := x.X, x.Y, x.Op
				if zv, ok := constInt(info, v); ok && zv == 0 {
					v, z = z, v
					op = flipCmp(op)
				}
				zv, ok := constInt(info, z)
				id, ok2 := unparen(v).(*ast.Ident)
				if !ok || zv != 0 || !ok2 {
					return U
				}
				s, ok := sign[info.Uses[id]]
				if !ok {
					return U
				}
				var r bool
				switch op {
				case token.LSS:
					r = s < 0
				case token.GTR:
					r = s > 0
				case token.LEQ:
					r = s <= 0
				case token.GEQ:
					r = s >= 0
				case token.EQL:
					r = s == 0
				case token.NEQ:
					r = s != 0
				}
				if r {
					return T
				}
				return F
			}
		case *ast.UnaryExpr:
			if x.Op == token.NOT {
				switch eval(x.X) {
				case T:
					return F
				case F:
					return T
				}
			}
		}
		return U
	}
	normalised := c.partialProductNormalised(rule, fi, info, secs, nanos, d, func(e ast.Expr, sa, sb int) int {
		sign[secs], sign[nanos] = sa, sb
		delete(sign, d)
		return eval(e)
	})
	names := map[int]string{-1: "−", 0: "0", 1: "+"}
	var wrong, missed, undec []string
	for _, sa := range []int{-1, 0, 1} {
		for _, sb := range []int{-1, 0, 1} {
			for _, sd := range []int{-1, 0, 1} {
				// combinations an addition cannot produce at all
				if sa == 0 && sb != sd || sb == 0 && sa != sd {
					continue
				}
				isOverflow := sa == sb && sa != 0 && sd == -sa
				if sa == sb && sa != 0 && sd == 0 {
					continue // x + y == 0 with equal signs needs both to be MinInt64; nanos is 32 bits wide
				}
				if sa == -sb && sa != 0 && normalised {
					continue // excluded by the carry loops: nanos does not oppose secs when the sum is formed
				}
				sign[secs], sign[nanos], sign[d] = sa, sb, sd
				v := F
				for _, cl := range clauses {
					switch eval(cl) {
					case T:
						v = T
					case U:
						if v != T {
							v = U
						}
					}
				}
				combo := "(secs " + names[sa] + ", nanos " + names[sb] + ", d " + names[sd] + ")"
				switch {
				case v == U:
					undec = append(undec, combo)
				case v == T && !isOverflow:
					wrong = append(wrong, combo)
				case v == F && isOverflow:
					missed = append(missed, combo)
				}
			}
		}
	}
	key := fi.Key + " overflow of d += nanos"
	switch {
	case len(wrong) > 0:
		R.Bad(rule, key, P.Pos(addStmt), "the overflow flag is raised for "+strings.Join(wrong, ", ")+", where the addition cannot have overflowed: AsDuration saturates to MinInt64/MaxInt64 although the exact sum is representable")
	case len(missed) > 0:
		R.Bad(rule, key, P.Pos(addStmt), "the overflow flag is not raised for "+strings.Join(missed, ", ")+", which only an overflowed addition produces: AsDuration returns the wrapped value instead of the closest one")
	case len(undec) > 0:
		R.Unk(rule, key, P.Pos(addStmt), "the overflow clauses are not decided by the signs of secs, nanos and d for "+strings.Join(undec, ", "))
	default:
		R.OK(rule, key, P.Pos(addStmt), "overflow raised exactly on (+,+,−) and (−,−,+)")
	}
}

func mentionsObj(info *types.Info, e ast.Expr, o types.Object) bool {
	found := false
	walk(e, func(n ast.Node) bool {
		if id, ok := n.(*ast.Ident); ok && info.Uses[id] == o {
			found = true
		}
		return true
	})
	return found
}

func flipCmp(op token.Token) token.Token {
	switch op {
	case token.LSS:
		return token.GTR
	case token.GTR:
		return token.LSS
	case token.LEQ:
		return token.GEQ
	case token.GEQ:
		return token.LEQ
	}
	return op
}

// partialProductNormalised: the flag `d/K != T(secs)` reports the overflow of
// the partial product secs*K. It is a verdict on the sum secs*K+nanos only if
// nanos cannot have the opposite sign of secs at that point: otherwise, for
// |secs| just beyond MaxInt64/K, the product overflows although the exact sum
// is representable (K*ceil(2^63/K) - 2^63 = 145224193 < 2^31 for K = 1e9).
func (c *Ctx) partialProductNormalised(rule string, fi *FuncInfo, info *types.Info, secs, nanos, d types.Object, evalSigns func(e ast.Expr, sa, sb int) int) (normalised bool) {
	R, P := c.R, c.P
	var K int64
	var prodStmt ast.Node
	for _, st := range fi.Decl.Body.List {
		if as, ok := st.(*ast.AssignStmt); ok && len(as.Lhs) == 1 {
			if l, ok := as.Lhs[0].(*ast.Ident); ok && info.Defs[l] == d {
				if be, ok := unparen(as.Rhs[0]).(*ast.BinaryExpr); ok && be.Op == token.MUL {
					for _, side := range []ast.Expr{be.X, be.Y} {
						if v, ok := constantInt64(info.Types[side].Value); ok {
							K = v
						}
					}
					prodStmt = as
				}
			}
		}
	}
	if K <= 0 || prodStmt == nil {
		R.Unk(rule, fi.Key+" partial product", P.Pos(fi.Decl), "constant multiplier of secs not found")
		return false
	}
	// the rule applies to the algorithm that reads overflow off the partial product
	partial := false
	for _, st := range fi.Decl.Body.List {
		if as, ok := st.(*ast.AssignStmt); ok && len(as.Rhs) == 1 {
			if be, ok := unparen(as.Rhs[0]).(*ast.BinaryExpr); ok && be.Op == token.NEQ && mentionsObj(info, be, d) && mentionsObj(info, be, secs) {
				partial = true
			}
		}
	}
	if !partial {
		R.Unk(rule, fi.Key+" partial product", P.Pos(prodStmt), "the overflow test of the product (`d/K != T(secs)`) was not found: a different algorithm, not covered by this rule")
		return false
	}
	const T = 1
	established := 0
	for _, dir := range []struct {
		name   string
		sa, sb int
	}{{"secs > 0, nanos < 0", 1, -1}, {"secs < 0, nanos > 0", -1, 1}} {
		key := fi.Key + " carry for " + dir.name
		var loop *ast.ForStmt
		for _, st := range fi.Decl.Body.List {
			fs, ok := st.(*ast.ForStmt)
			if !ok || fs.Pos() > prodStmt.Pos() || fs.Cond == nil || fs.Init != nil || fs.Post != nil {
				continue
			}
			exact := true
			for _, sa := range []int{-1, 0, 1} {
				for _, sb := range []int{-1, 0, 1} {
					want := sa == dir.sa && sb == dir.sb
					if (evalSigns(fs.Cond, sa, sb) == T) != want {
						exact = false
					}
				}
			}
			if exact {
				loop = fs
			}
		}
		if loop == nil {
			R.Bad(rule, key, P.Pos(prodStmt), "no loop before the product carries nanos of the opposite sign into secs ("+dir.name+"): the overflow of secs*"+itoa(int(K))+" alone is taken for an overflow of the sum, so for |secs| just beyond MaxInt64/"+itoa(int(K))+" AsDuration saturates although seconds*1e9+nanos is representable")
			continue
		}
		// deltas of the body
		var ds, dn int64
		okBody := true
		delta := func(lhs ast.Expr, rhs ast.Expr) {
			id, ok := unparen(lhs).(*ast.Ident)
			if !ok {
				okBody = false
				return
			}
			o := info.Uses[id]
			be, ok := unparen(rhs).(*ast.BinaryExpr)
			if !ok || (be.Op != token.ADD && be.Op != token.SUB) {
				okBody = false
				return
			}
			x, ok1 := unparen(be.X).(*ast.Ident)
			v, ok2 := constantInt64(info.Types[be.Y].Value)
			if !ok1 || !ok2 || info.Uses[x] != o {
				okBody = false
				return
			}
			if be.Op == token.SUB {
				v = -v
			}
			switch o {
			case secs:
				ds += v
			case nanos:
				dn += v
			default:
				okBody = false
			}
		}
		for _, st := range loop.Body.List {
			switch x := st.(type) {
			case *ast.AssignStmt:
				switch {
				case x.Tok == token.ASSIGN && len(x.Lhs) == len(x.Rhs):
					for i := range x.Lhs {
						delta(x.Lhs[i], x.Rhs[i])
					}
				case (x.Tok == token.ADD_ASSIGN || x.Tok == token.SUB_ASSIGN) && len(x.Lhs) == 1:
					id, ok := unparen(x.Lhs[0]).(*ast.Ident)
					v, ok2 := constantInt64(info.Types[x.Rhs[0]].Value)
					if !ok || !ok2 {
						okBody = false
						break
					}
					if x.Tok == token.SUB_ASSIGN {
						v = -v
					}
					switch info.Uses[id] {
					case secs:
						ds += v
					case nanos:
						dn += v
					default:
						okBody = false
					}
				default:
					okBody = false
				}
			case *ast.IncDecStmt:
				id, ok := unparen(x.X).(*ast.Ident)
				v := int64(1)
				if x.Tok == token.DEC {
					v = -1
				}
				if ok && info.Uses[id] == secs {
					ds += v
				} else if ok && info.Uses[id] == nanos {
					dn += v
				} else {
					okBody = false
				}
			default:
				okBody = false
			}
		}
		switch {
		case !okBody:
			R.Unk(rule, key, P.Pos(loop), "loop body is not a set of constant increments of secs and nanos")
		case ds*K+dn != 0:
			R.Bad(rule, key, P.Pos(loop), "the carry changes secs by "+itoa(int(ds))+" and nanos by "+itoa(int(dn))+": secs*"+itoa(int(K))+"+nanos is not preserved, AsDuration returns a different value")
		case ds != int64(-dir.sa):
			R.Bad(rule, key, P.Pos(loop), "the carry moves secs by "+itoa(int(ds))+" per step, away from zero or past it: the loop does not terminate with matching signs")
		default:
			established++
			R.OK(rule, key, P.Pos(loop), "secs "+itoa(int(ds))+", nanos "+itoa(int(dn))+" per step preserves secs*K+nanos; exit implies nanos does not oppose secs")
		}
	}
	return established == 2
}
