package main

const jsonNumberRx = `-?(0|[1-9][0-9]*)(\.[0-9]+)?([eE][+\-]?[0-9]+)?`

// Duration JSON form per the property statement / proto3 JSON mapping:
// optional sign, integer part without leading zeros, optional fraction of up
// to nine digits (or a bare fraction with at least one digit), suffix `s`.
const jsonDurationRx = `[+\-]?((0|[1-9][0-9]*)(\.[0-9]{0,9})?|\.[0-9]{1,9})s`

func init() {
	register(&Property{
		ID:         "C21",
		Level:      "other",
		Technique:  "scanner-to-automaton abstract interpretation + language equivalence with the RFC 8259 number grammar; finite case analysis of the string scanners' and of the token-sequencing switch's conditions (static)",
		Explain:    "Decides structural necessary conditions of `protojson speaks exactly JSON`: (1) the number scanner of the JSON tokenizer accepts exactly RFC 8259 `number` (automaton extracted from the source by abstract interpretation and compared for language inclusion both ways with the grammar), with no out-of-range index possible; (2) by finite case analysis of the string scanners' switch conditions: the decoder rejects every raw control character and invalid UTF-8 byte, accepts exactly the escape letters \"\\/bfnrtu with their RFC values, and requires a \\u escape for the low half of a surrogate pair; the encoder escapes every character JSON requires, with a letter that denotes it or a \\u followed by exactly four hex digits, and reports invalid UTF-8; (3) the token-sequencing switch of Decoder.Read, evaluated for every feasible (previous token, innermost open container) state and every next token kind, accepts exactly the JSON follow relation (values, names, commas, closing brackets, end of input). Also: the encoder accepts an indent only if it consists of JSON whitespace (strings.Trim with a cutset of space/tab/LF/CR).",
		NotCovered: "literals true/false/null and whitespace skipping in parseNext, the `:` after a name beyond its presence test, Multiline/Indent equivalence of outputs, and the hex-digit check inside \\u (delegated to strconv.ParseUint).",
		Quick:      all("./internal/encoding/json"),
		Thorough:   all("./..."),
		Run: func(c *Ctx) {
			c.ruleScanner("R-SCAN-NUMBER", scannerSpec{key: "internal/encoding/json.parseNumber", regex: jsonNumberRx, what: "JSON number (RFC 8259 §6)", usePrefix: true})
			c.ruleJSONEscapes("R-JSON-ESCAPES")
			c.ruleJSONFollow("R-JSON-FOLLOW")
			c.ruleIndentJSONWhitespace("R-INDENT-JSON-WS")
		},
	})
	register(&Property{
		ID:         "C22",
		Level:      "other",
		Technique:  "scanner-to-automaton abstract interpretation + language equivalence; SSA width-provenance dataflow; kind-context table conformance; linear-form verification of the integer digit shifting; who-may-produce rule for numeric values; finite case analysis of the base64 selection; dominance rule for parse width (static)",
		Explain:    "Decides structural necessary conditions of exact JSON scalar decoding: (1) parseNumberParts, which splits a number into sign/integer/fraction/exponent for exact integer conversion, accepts exactly the RFC 8259 number language (same automaton comparison as the tokenizer's scanner, so both agree on what a number is); (2) no float32 value is produced by parsing at width 64 and narrowing (double rounding), the bitSize is threaded and guarded; (3) in every Kind-dependent branch of the JSON encoder and decoder the bitSize constants, Value constructors/accessors and writer methods match the Kind per the proto3 JSON table (32-bit integers as numbers, 64-bit integers as strings, width 32 for float); (4) normalizeToIntString's digit shifting, as linear forms over the part lengths: non-integers rejected exactly by F > E (E ≥ 0) or F > 0 / a non-zero cut digit (E < 0), E - F zeros appended, and the digit-count rejection never exceeds the number of significant digits (it must discount the leading zeros of the fraction when the integer part is 0) with a bound ≥ 20; (5) the numeric unmarshal helpers produce values only through json.Token.Int/Uint/Float — a quoted number is re-tokenised by the JSON reader with an EOF check, never handed to strconv, so quoted and bare numbers obey the same grammar. Also: a number parsed by Token.Int/Uint for k bits is narrowed to w bits only where k <= w (constant, or dominated by bitSize == w), and unmarshalBytes, evaluated over its two atoms, selects the base64 alphabet and the padding independently (four combinations).",
		NotCovered: "the range checks inside strconv; that parseNumberParts stores an empty integer part for 0 and trims the fraction's trailing zeros (assumed by R-INTSTRING-SHIFT); acceptance of non-canonical base64 by encoding/base64; enum name lookup.",
		Quick:      all("./encoding/protojson"),
		Thorough:   all("./..."),
		Run: func(c *Ctx) {
			c.ruleScanner("R-SCAN-NUMBER-PARTS", scannerSpec{key: "internal/encoding/json.parseNumberParts", regex: jsonNumberRx, what: "JSON number (RFC 8259 §6)", usePrefix: true})
			c.ruleIntStringShift("R-INTSTRING-SHIFT")
			c.ruleQuotedNumber("R-QUOTED-NUMBER")
			c.ruleParseWidth("R-PARSE-WIDTH", "encoding/protojson", 2)
			c.ruleBase64Select("R-BASE64-SELECT")
			c.ruleMapKeyParse("R-MAPKEY-PARSE")
			c.ruleFloatExpCleanup("R-FLOAT-EXP-CLEANUP")
			c.ruleFloatBits("R-FLOATBITS", inPkgs("internal/encoding/json", "encoding/protojson"), 1)
			c.ruleKindContext("R-KIND-CONTEXT", []string{"encoding/protojson", "internal/encoding/json"}, 10)
		},
	})
	register(&Property{
		ID:         "C23",
		Level:      "other",
		Technique:  "scanner-to-automaton abstract interpretation + language equivalence with the documented Duration grammar; CFG dominance of range comparisons and of the FieldMask reversibility test; interval arithmetic on integer products; dispatch-table agreement (static)",
		Explain:    "Decides structural necessary conditions of the well-known-type JSON forms: (1) parseDuration accepts exactly the documented Duration grammar (optional sign, integer and/or fractional part with at most nine digits, suffix s; at least one digit) — automaton extracted from the source and compared both ways with the grammar, no out-of-range index; (2) Duration and Timestamp seconds/nanos are compared with both documented bounds before any JSON is written and before any parsed value is stored; (3) the encoder and decoder dispatch tables for well-known types cover the same message names and pair marshalX with unmarshalX; (4) no product of 64-bit integers in the Duration/Timestamp conversions can exceed int64 for in-range field values (interval arithmetic over the documented ranges); (5) the FieldMask writer emits a converted path only where it has established that the reader's conversion maps it back to the stored path. Also: the helpers the WKT functions call are included in the overflow analysis and an unbounded digit accumulator is a violation; NullValue is excluded before an enum is written as number or name.",
		NotCovered: "the Timestamp grammar (delegated to time.Parse, see DESIGN.md §5 N1), the Duration sign test itself and the digit formatting on values, Struct/Value/ListValue/Any conversions.",
		Quick:      all("./encoding/protojson"),
		Thorough:   all("./..."),
		Run: func(c *Ctx) {
			c.ruleScanner("R-SCAN-DURATION", scannerSpec{key: "encoding/protojson.parseDuration", regex: jsonDurationRx, what: "Duration JSON string"})
			c.ruleWKTRange("R-WKT-RANGE")
			c.ruleWKTNoOverflow("R-WKT-NO-OVERFLOW")
			c.ruleNullValueFirst("R-NULLVALUE-FIRST")
			c.ruleFieldMaskReversible("R-FIELDMASK-REVERSIBLE")
			c.ruleWKTTable("R-WKT-TABLE")
		},
	})
}
