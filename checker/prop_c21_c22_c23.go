package main

const jsonNumberRx = `-?(0|[1-9][0-9]*)(\.[0-9]+)?([eE][+\-]?[0-9]+)?`

func init() {
	register(&Property{
		ID:         "C21",
		Level:      "other",
		Technique:  "scanner-to-automaton abstract interpretation + language equivalence with the RFC 8259 number grammar (static)",
		Explain:    "Decides structural necessary conditions of `protojson speaks exactly JSON`: the number scanner of the JSON tokenizer accepts exactly RFC 8259 `number` (automaton extracted from the source by abstract interpretation and compared for language inclusion both ways with the grammar), with no out-of-range index possible.",
		NotCovered: "the string scanner and the token-sequencing table are covered only by the rules listed in DESIGN.md; Multiline/Indent equivalence of outputs is value-level.",
		Quick:      all("./internal/encoding/json"),
		Thorough:   all("./..."),
		Run: func(c *Ctx) {
			c.ruleScanner("R-SCAN-NUMBER", scannerSpec{key: "internal/encoding/json.parseNumber", regex: jsonNumberRx, what: "JSON number (RFC 8259 §6)", usePrefix: true})
		},
	})
}
