package main

const jsonNumberRx = `-?(0|[1-9][0-9]*)(\.[0-9]+)?([eE][+\-]?[0-9]+)?`

// Duration JSON form per the property statement / proto3 JSON mapping:
// optional sign, integer part without leading zeros, optional fraction of up
// to nine digits (or a bare fraction with at least one digit), suffix `s`.
const jsonDurationRx = `[+\-]?((0|[1-9][0-9]*)(\.[0-9]{0,9})?|\.[0-9]{1,9})s`

func init() {
	register(&Property{
		ID:         "C21",
		Level:      "other",
		Technique:  "scanner-to-automaton abstract interpretation + language equivalence with the RFC 8259 number grammar; finite case analysis of the string scanners' and of the token-sequencing switch's conditions (static)",
		Explain:    "Decides structural necessary conditions of `protojson speaks exactly JSON`: (1) the number scanner of the JSON tokenizer accepts exactly RFC 8259 `number` (automaton extracted from the source by abstract interpretation and compared for language inclusion both ways with the grammar), with no out-of-range index possible; (2) by finite case analysis of the string scanners' switch conditions: the decoder rejects every raw control character and invalid UTF-8 byte, accepts exactly the escape letters \"\\/bfnrtu with their RFC values, and requires a \\u escape for the low half of a surrogate pair; the encoder escapes every character JSON requires, with a letter that denotes it or a \\u followed by exactly four hex digits, and reports invalid UTF-8; (3) the token-sequencing switch of Decoder.Read, evaluated for every feasible (previous token, innermost open container) state and every next token kind, accepts exactly the JSON follow relation (values, names, commas, closing brackets, end of input).",
		NotCovered: "literals true/false/null and whitespace skipping in parseNext, the `:` after a name beyond its presence test, Multiline/Indent equivalence of outputs, and the hex-digit check inside \\u (delegated to strconv.ParseUint).",
		Quick:      all("./internal/encoding/json"),
		Thorough:   all("./..."),
		Run: func(c *Ctx) {
			c.ruleScanner("R-SCAN-NUMBER", scannerSpec{key: "internal/encoding/json.parseNumber", regex: jsonNumberRx, what: "JSON number (RFC 8259 §6)", usePrefix: true})
			c.ruleJSONEscapes("R-JSON-ESCAPES")
			c.ruleJSONFollow("R-JSON-FOLLOW")
		},
	})
	register(&Property{
		ID:         "C22",
		Level:      "other",
		Technique:  "scanner-to-automaton abstract interpretation + language equivalence; SSA width-provenance dataflow; kind-context table conformance (static)",
		Explain:    "Decides structural necessary conditions of exact JSON scalar decoding: (1) parseNumberParts, which splits a number into sign/integer/fraction/exponent for exact integer conversion, accepts exactly the RFC 8259 number language (same automaton comparison as the tokenizer's scanner, so both agree on what a number is); (2) no float32 value is produced by parsing at width 64 and narrowing (double rounding), the bitSize is threaded and guarded; (3) in every Kind-dependent branch of the JSON encoder and decoder the bitSize constants, Value constructors/accessors and writer methods match the Kind per the proto3 JSON table (32-bit integers as numbers, 64-bit integers as strings, width 32 for float).",
		NotCovered: "normalizeToIntString's digit shifting and the range checks inside strconv (value-level arithmetic over runtime lengths); base64 variant acceptance; enum name/number lookup.",
		Quick:      all("./encoding/protojson"),
		Thorough:   all("./..."),
		Run: func(c *Ctx) {
			c.ruleScanner("R-SCAN-NUMBER-PARTS", scannerSpec{key: "internal/encoding/json.parseNumberParts", regex: jsonNumberRx, what: "JSON number (RFC 8259 §6)", usePrefix: true})
			c.ruleFloatBits("R-FLOATBITS", inPkgs("internal/encoding/json", "encoding/protojson"), 1)
			c.ruleKindContext("R-KIND-CONTEXT", []string{"encoding/protojson", "internal/encoding/json"}, 10)
		},
	})
	register(&Property{
		ID:         "C23",
		Level:      "other",
		Technique:  "scanner-to-automaton abstract interpretation + language equivalence with the documented Duration grammar; CFG dominance of range comparisons; dispatch-table agreement (static)",
		Explain:    "Decides structural necessary conditions of the well-known-type JSON forms: (1) parseDuration accepts exactly the documented Duration grammar (optional sign, integer and/or fractional part with at most nine digits, suffix s; at least one digit) — automaton extracted from the source and compared both ways with the grammar, no out-of-range index; (2) Duration and Timestamp seconds/nanos are compared with both documented bounds before any JSON is written and before any parsed value is stored; (3) the encoder and decoder dispatch tables for well-known types cover the same message names and pair marshalX with unmarshalX.",
		NotCovered: "the Timestamp grammar (delegated to time.Parse, see DESIGN.md §5 N1), Duration sign consistency and int64 arithmetic on values, FieldMask camel/snake reversibility, Struct/Value/ListValue/Any conversions.",
		Quick:      all("./encoding/protojson"),
		Thorough:   all("./..."),
		Run: func(c *Ctx) {
			c.ruleScanner("R-SCAN-DURATION", scannerSpec{key: "encoding/protojson.parseDuration", regex: jsonDurationRx, what: "Duration JSON string"})
			c.ruleWKTRange("R-WKT-RANGE")
			c.ruleWKTTable("R-WKT-TABLE")
		},
	})
}
