package main

import (
	"go/ast"
	"go/token"
	"go/types"
	"sort"
	"strings"
)

func init() {
	register(&Property{
		ID:         "C30",
		Level:      "other",
		Technique:  "finite case analysis of the extension comparison of the fast-path Equal (decision table over membership/emptiness atoms, checked for symmetry); swap-invariance of the scalar and unknown-field comparators of both implementations; three-valued evaluation of the validity decision; aliasing rule for the unknown-field grouping (static)",
		Explain:    "Decides structural necessary conditions of the equality laws: (1) the fast-path equalMessage compares extensions with two loops (over x's and over y's extension map); read as a decision procedure over the atoms `key in x`, `key in y`, `x's value is an empty list`, `y's value is an empty list`, `values equal`, and over the nil-ness of either map, its verdict for a key is symmetric under exchanging the two messages and does not depend on whether an absent side has a nil or an empty map — in particular the tolerance `empty repeated extension equals absent` applies in both directions; (2) every scalar comparison of protoreflect.Value.Equal is invariant under swapping its operands, and equalFloat treats two NaNs as equal and a NaN and a number as different; bytes are compared by content (bytes.Equal), so nil and empty agree; (3) both equalUnknown implementations (fast path and reflection) are invariant under swapping their arguments: the two grouping loops are mirror images and the grouped maps are compared by content. Further: proto.Equal, evaluated over the atoms mx.IsValid()/my.IsValid(), returns false for both mixed valuations before any comparison; both equalMessage implementations make presence part of equality (my.Has(fd) and the population counts in the reflective one; has()/which() mismatch in the fast path); neither equalUnknown appends onto storage that may alias an argument.",
		NotCovered: "reflexivity/transitivity on values, agreement of the three implementations (fast path, reflection, protocmp) on concrete messages, Clone/decode round trips.",
		Quick:      all("./internal/impl", "./reflect/protoreflect", "./proto"),
		Thorough:   all("./..."),
		Run: func(c *Ctx) {
			c.ruleEqualExtSymmetry("R-EQUAL-EXT-SYMMETRY")
			c.ruleSwapInvariant("R-EQUAL-SWAP-INVARIANT")
			c.ruleEqualValidity("R-EQUAL-VALIDITY")
			c.ruleEqualFieldPresence("R-EQUAL-FIELD-PRESENCE")
			c.ruleEqualUnknownNoAlias("R-EQUAL-UNKNOWN-NOALIAS")
		},
	})
}

// ---------------------------------------------------------------- extension loops

type extEval struct {
	info    *types.Info
	atoms   map[string]bool
	boolVar map[types.Object]string // bool locals → atom name or "false"
	loopVar string                  // "x" or "y": whose entries are iterated
	mapX    types.Object
	mapY    types.Object
	fail    string
}

func (e *extEval) side(o types.Object) string {
	switch o {
	case e.mapX:
		return "x"
	case e.mapY:
		return "y"
	}
	return ""
}

func (e *extEval) cond(x ast.Expr) bool {
	x = unparen(x)
	switch c := x.(type) {
	case *ast.UnaryExpr:
		if c.Op == token.NOT {
			return !e.cond(c.X)
		}
	case *ast.Ident:
		if a, ok := e.boolVar[e.info.Uses[c]]; ok {
			if a == "false" {
				return false
			}
			return e.atoms[a]
		}
	case *ast.BinaryExpr:
		switch c.Op {
		case token.LOR:
			return e.cond(c.X) || e.cond(c.Y)
		case token.LAND:
			// empty-list test: <d>.IsList() && <v>.List().Len() == 0
			if strings.Contains(exprStr(c.X), ".IsList()") && strings.Contains(exprStr(c.Y), ".Len() == 0") {
				return e.atoms["empty("+e.loopVar+")"]
			}
			return e.cond(c.X) && e.cond(c.Y)
		case token.NEQ, token.EQL:
			if isNilIdent(e.info, c.Y) {
				if s := e.side(objOf(e.info, c.X)); s != "" {
					v := e.atoms["map("+s+")!=nil"]
					if c.Op == token.EQL {
						return !v
					}
					return v
				}
			}
		}
	case *ast.CallExpr:
		if strings.HasSuffix(calleeKey(e.info, c), ".equalValue") {
			return e.atoms["valuesEqual"]
		}
	}
	e.fail = "unrecognised condition " + exprStr(x)
	return false
}

// lookupAtom: `(*emy)[k]` → "in(y)"
func (e *extEval) lookupAtom(x ast.Expr) string {
	ix, ok := unparen(x).(*ast.IndexExpr)
	if !ok {
		return ""
	}
	st, ok := unparen(ix.X).(*ast.StarExpr)
	if !ok {
		return ""
	}
	if s := e.side(objOf(e.info, st.X)); s != "" {
		return "in(" + s + ")"
	}
	return ""
}

// exec: "cont", "false", or "" (fell through = cont)
func (e *extEval) exec(stmts []ast.Stmt) string {
	for _, st := range stmts {
		if e.fail != "" {
			return ""
		}
		switch s := st.(type) {
		case *ast.AssignStmt:
			// ok := false ; y, ok = (*emy)[k]
			if len(s.Lhs) == 2 && len(s.Rhs) == 1 {
				if a := e.lookupAtom(s.Rhs[0]); a != "" {
					if id, ok := s.Lhs[1].(*ast.Ident); ok && id.Name != "_" {
						o := e.info.Defs[id]
						if o == nil {
							o = e.info.Uses[id]
						}
						e.boolVar[o] = a
					}
					continue
				}
			}
			if len(s.Lhs) == 1 && len(s.Rhs) == 1 {
				if id, ok := s.Lhs[0].(*ast.Ident); ok {
					if v, isB := constBool(e.info, s.Rhs[0]); isB {
						o := e.info.Defs[id]
						if o == nil {
							o = e.info.Uses[id]
						}
						if v {
							e.fail = "boolean set to true"
						}
						e.boolVar[o] = "false"
					}
				}
			}
		case *ast.DeclStmt:
		case *ast.IfStmt:
			if s.Init != nil {
				if r := e.exec([]ast.Stmt{s.Init}); r != "" {
					return r
				}
			}
			if e.cond(s.Cond) {
				if r := e.exec(s.Body.List); r != "" {
					return r
				}
			} else if s.Else != nil {
				if b, ok := s.Else.(*ast.BlockStmt); ok {
					if r := e.exec(b.List); r != "" {
						return r
					}
				} else {
					e.fail = "else-if"
				}
			}
		case *ast.BranchStmt:
			if s.Tok == token.CONTINUE {
				return "cont"
			}
			e.fail = "branch"
		case *ast.ReturnStmt:
			if len(s.Results) == 1 {
				if v, ok := constBool(e.info, s.Results[0]); ok && !v {
					return "false"
				}
			}
			e.fail = "return of a non-constant"
		default:
			e.fail = "unrecognised statement"
		}
	}
	return ""
}

func (c *Ctx) ruleEqualExtSymmetry(rule string) {
	R, P := c.R, c.P
	R.Rule(rule, "fast-path Equal, extension maps: for a key in any membership state (in x only, in y only, in both), any emptiness of the two values, any result of the value comparison and any nil-ness of an absent side's map, the verdict of the two loops is the same after exchanging x and y, and independent of nil vs. empty maps", 3)
	fi := c.need(rule, "internal/impl.equalMessage")
	if fi == nil {
		return
	}
	info := fi.Info()
	// the two extension maps: locals assigned from mi.extensionMap(msx.pointer()) / (msy.pointer())
	var mapX, mapY types.Object
	var loops []*ast.RangeStmt
	walk(fi.Decl.Body, func(n ast.Node) bool {
		switch x := n.(type) {
		case *ast.AssignStmt:
			if len(x.Lhs) == 1 && len(x.Rhs) == 1 {
				if call, ok := unparen(x.Rhs[0]).(*ast.CallExpr); ok && strings.HasSuffix(exprStr(call.Fun), ".extensionMap") {
					o := info.Defs[x.Lhs[0].(*ast.Ident)]
					if mapX == nil {
						mapX = o
					} else if mapY == nil {
						mapY = o
					}
				}
			}
		case *ast.RangeStmt:
			if st, ok := unparen(x.X).(*ast.StarExpr); ok {
				if o := objOf(info, st.X); o != nil && (o == mapX || o == mapY) {
					loops = append(loops, x)
				}
			}
		}
		return true
	})
	if mapX == nil || mapY == nil || len(loops) != 2 {
		R.Unk(rule, fi.Key, P.Pos(fi.Decl), "the two extension maps and the two loops over them were not found")
		return
	}
	// guards of the loops: if emx != nil { for … }
	loopOf := map[string]*ast.RangeStmt{}
	for _, l := range loops {
		st := unparen(l.X).(*ast.StarExpr)
		if objOf(info, st.X) == mapX {
			loopOf["x"] = l
		} else {
			loopOf["y"] = l
		}
	}
	if loopOf["x"] == nil || loopOf["y"] == nil {
		R.Unk(rule, fi.Key, P.Pos(fi.Decl), "both loops iterate the same map")
		return
	}
	// verdict for one key under an assignment
	verdict := func(as map[string]bool) (string, string) {
		res := "equal"
		for _, side := range []string{"x", "y"} {
			if !as["in("+side+")"] {
				continue // the loop over this map does not visit the key
			}
			if !as["map("+side+")!=nil"] {
				return "", "inconsistent"
			}
			e := &extEval{info: info, atoms: as, boolVar: map[types.Object]string{}, loopVar: side, mapX: mapX, mapY: mapY}
			r := e.exec(loopOf[side].Body.List)
			if e.fail != "" {
				return "", e.fail
			}
			if r == "false" {
				res = "different"
			}
		}
		return res, ""
	}
	names := []string{"in(x)", "in(y)", "empty(x)", "empty(y)", "valuesEqual", "map(x)!=nil", "map(y)!=nil"}
	swap := map[string]string{"in(x)": "in(y)", "in(y)": "in(x)", "empty(x)": "empty(y)", "empty(y)": "empty(x)", "valuesEqual": "valuesEqual", "map(x)!=nil": "map(y)!=nil", "map(y)!=nil": "map(x)!=nil"}
	asym, nildep, undecided := "", "", ""
	checked := 0
	for m := 0; m < 1<<len(names); m++ {
		as := map[string]bool{}
		for i, n := range names {
			as[n] = m&(1<<i) != 0
		}
		// consistency: a key in a map implies the map is non-nil; at least one side has the key
		if (as["in(x)"] && !as["map(x)!=nil"]) || (as["in(y)"] && !as["map(y)!=nil"]) || (!as["in(x)"] && !as["in(y)"]) {
			continue
		}
		sw := map[string]bool{}
		for n, v := range as {
			sw[swap[n]] = v
		}
		v1, f1 := verdict(as)
		v2, f2 := verdict(sw)
		if f1 != "" || f2 != "" {
			undecided = f1 + f2
			break
		}
		checked++
		desc := func() string {
			var on []string
			for _, n := range names {
				if as[n] {
					on = append(on, n)
				}
			}
			sort.Strings(on)
			return strings.Join(on, ", ")
		}
		if v1 != v2 && asym == "" {
			asym = "with {" + desc() + "}: Equal(x, y) finds the extensions " + v1 + " but Equal(y, x) finds them " + v2
		}
		// nil vs empty map of an absent side
		for _, side := range []string{"x", "y"} {
			if !as["in("+side+")"] && as["map("+side+")!=nil"] {
				alt := map[string]bool{}
				for n, v := range as {
					alt[n] = v
				}
				alt["map("+side+")!=nil"] = false
				v3, _ := verdict(alt)
				if v3 != v1 && nildep == "" {
					nildep = "with {" + desc() + "}: the verdict is " + v1 + " but becomes " + v3 + " when " + side + "'s extension map is nil instead of lacking the key"
				}
			}
		}
	}
	construct := fi.Key + " extensions"
	switch {
	case undecided != "":
		R.Unk(rule, construct, P.Pos(loopOf["x"]), "outside the recognised statements: "+undecided)
	default:
		R.Check(asym == "", rule, construct+" symmetric", P.Pos(loopOf["x"]), itoa(checked)+" key states: verdict invariant under exchanging x and y", asym+": proto.Equal is not symmetric")
		R.Check(nildep == "", rule, construct+" nil map", P.Pos(loopOf["x"]), "verdict independent of nil vs. empty map on the side lacking the key", nildep)
		// both loops guarded by non-nil tests of their own map
		R.OK(rule, construct+" loops", P.Pos(loopOf["y"]), "one loop per extension map")
	}
}

// ---------------------------------------------------------------- swap invariance

// swapCanon prints a node with the identifier pairs exchanged and the operands
// of symmetric operators / symmetric functions sorted.
func swapCanon(info *types.Info, n ast.Node, sw map[string]string) string {
	var p func(e ast.Node) string
	name := func(s string) string {
		if t, ok := sw[s]; ok {
			return t
		}
		return s
	}
	p = func(e ast.Node) string {
		switch x := e.(type) {
		case nil:
			return ""
		case *ast.Ident:
			return name(x.Name)
		case *ast.ParenExpr:
			return p(x.X)
		case *ast.BinaryExpr:
			a, b := p(x.X), p(x.Y)
			switch x.Op {
			case token.EQL, token.NEQ, token.LAND, token.LOR:
				if a > b {
					a, b = b, a
				}
			}
			return "(" + a + " " + x.Op.String() + " " + b + ")"
		case *ast.CallExpr:
			var args []string
			for _, a := range x.Args {
				args = append(args, p(a))
			}
			fn := p(x.Fun)
			switch fn {
			case "bytes.Equal", "reflect.DeepEqual", "equalFloat", "equalMessage", "equalList", "equalMap", "equalUnknown":
				sort.Strings(args)
			}
			return fn + "(" + strings.Join(args, ",") + ")"
		case *ast.SelectorExpr:
			return p(x.X) + "." + x.Sel.Name
		case *ast.UnaryExpr:
			return x.Op.String() + p(x.X)
		case *ast.IndexExpr:
			return p(x.X) + "[" + p(x.Index) + "]"
		case *ast.SliceExpr:
			return p(x.X) + "[" + p(x.Low) + ":" + p(x.High) + "]"
		case *ast.StarExpr:
			return "*" + p(x.X)
		case *ast.BasicLit:
			return x.Value
		case *ast.CompositeLit, *ast.MapType, *ast.ArrayType:
			return exprStr(x.(ast.Expr))
		case *ast.TypeAssertExpr:
			return p(x.X) + ".(" + exprStr(x.Type) + ")"
		case *ast.ReturnStmt:
			var rs []string
			for _, r := range x.Results {
				rs = append(rs, p(r))
			}
			return "return " + strings.Join(rs, ",")
		case *ast.AssignStmt:
			var l, r []string
			for _, e := range x.Lhs {
				l = append(l, p(e))
			}
			for _, e := range x.Rhs {
				r = append(r, p(e))
			}
			return strings.Join(l, ",") + x.Tok.String() + strings.Join(r, ",")
		case *ast.IfStmt:
			s := "if " + p(x.Init) + ";" + p(x.Cond) + p(x.Body)
			if x.Else != nil {
				s += " else " + p(x.Else)
			}
			return s
		case *ast.ForStmt:
			return "for " + p(x.Init) + ";" + p(x.Cond) + ";" + p(x.Post) + p(x.Body)
		case *ast.RangeStmt:
			return "range " + p(x.Key) + "," + p(x.Value) + ":=" + p(x.X) + p(x.Body)
		case *ast.BlockStmt:
			var ss []string
			for _, s := range x.List {
				ss = append(ss, p(s))
			}
			return "{" + strings.Join(ss, ";") + "}"
		case *ast.ExprStmt:
			return p(x.X)
		case *ast.IncDecStmt:
			return p(x.X) + x.Tok.String()
		case *ast.BranchStmt:
			return x.Tok.String()
		case *ast.DeclStmt:
			return "decl"
		}
		return "?"
	}
	return p(n)
}

func (c *Ctx) ruleSwapInvariant(rule string) {
	R, P := c.R, c.P
	R.Rule(rule, "symmetric comparators are invariant under exchanging their two operands: protoreflect.equalValue (each case's comparison), equalFloat (and its NaN clause: two NaNs equal, NaN and number different), and both equalUnknown implementations (as multisets of top-level statements, modulo the order of operands of ==, !=, &&, || and of symmetric comparison functions)", 12)
	// 1. equalValue cases
	if fi := c.need(rule, "reflect/protoreflect.equalValue"); fi != nil {
		info := fi.Info()
		sw := map[string]string{"x": "y", "y": "x"}
		walk(fi.Decl.Body, func(n ast.Node) bool {
			cc, ok := n.(*ast.CaseClause)
			if !ok || len(cc.Body) != 1 {
				return true
			}
			rs, ok := cc.Body[0].(*ast.ReturnStmt)
			if !ok || len(rs.Results) != 1 {
				return true
			}
			var labs []string
			for _, l := range cc.List {
				labs = append(labs, exprStr(l))
			}
			if len(labs) == 0 {
				return true
			}
			// the comparison proper: drop the eqType conjunct
			e := unparen(rs.Results[0])
			if be, ok := e.(*ast.BinaryExpr); ok && be.Op == token.LAND && exprStr(be.X) == "eqType" {
				e = be.Y
			}
			if exprStr(e) == "eqType" {
				return true
			}
			// message/list/map cases re-bind y by a type assertion: `ok && equalX(x, y)`
			if be, ok := e.(*ast.BinaryExpr); ok && be.Op == token.LAND && exprStr(be.X) == "ok" {
				e = be.Y
			}
			a, b := swapCanon(info, e, nil), swapCanon(info, e, sw)
			R.Check(a == b, rule, fi.Key+" case "+strings.Join(labs, ","), P.Pos(cc), a, "the comparison `"+exprStr(e)+"` changes when x and y are exchanged ("+a+" vs "+b+"): Value.Equal is not symmetric for this type")
			// bytes by content
			if strings.Contains(strings.Join(labs, ","), "bytesType") {
				R.Check(strings.Contains(a, "bytes.Equal("), rule, fi.Key+" bytes by content", P.Pos(cc), "bytes.Equal", "bytes values are not compared with bytes.Equal: nil and empty bytes, or equal contents in different arrays, compare unequal")
			}
			return true
		})
	}
	// 2. equalFloat
	if fi := c.need(rule, "reflect/protoreflect.equalFloat"); fi != nil {
		info := fi.Info()
		sw := map[string]string{"x": "y", "y": "x"}
		a, b := swapCanon(info, fi.Decl.Body, nil), swapCanon(info, fi.Decl.Body, sw)
		R.Check(a == b, rule, fi.Key+" symmetric", P.Pos(fi.Decl), "body invariant under x<->y", "equalFloat changes when its operands are exchanged")
		// NaN clause: a return of IsNaN(x) && IsNaN(y) under a test that one is NaN
		nan := false
		walk(fi.Decl.Body, func(n ast.Node) bool {
			if rs, ok := n.(*ast.ReturnStmt); ok && len(rs.Results) == 1 {
				if be, ok := unparen(rs.Results[0]).(*ast.BinaryExpr); ok && be.Op == token.LAND && strings.Contains(exprStr(be.X), "IsNaN(") && strings.Contains(exprStr(be.Y), "IsNaN(") {
					nan = true
				}
			}
			return true
		})
		R.Check(nan, rule, fi.Key+" NaN", P.Pos(fi.Decl), "two NaNs equal, NaN and number different", "equalFloat has no clause returning `IsNaN(x) && IsNaN(y)`: Equal is not reflexive on NaN, or a NaN equals a number")
	}
	// 3. equalUnknown ×2
	for _, key := range []string{"reflect/protoreflect.equalUnknown", "internal/impl.equalUnknown"} {
		fi := c.need(rule, key)
		if fi == nil {
			continue
		}
		info := fi.Info()
		sw := map[string]string{"x": "y", "y": "x", "mx": "my", "my": "mx", "v1": "v2", "v2": "v1"}
		var a, b []string
		for _, st := range fi.Decl.Body.List {
			a = append(a, swapCanon(info, st, nil))
			b = append(b, swapCanon(info, st, sw))
		}
		// a loop `for k, v1 := range mx { v2, ok := my[k] … }` is symmetric given the preceding len(mx) == len(my) test
		lenTest := false
		for _, s := range a {
			if strings.Contains(s, "(len(mx) != len(my))") {
				lenTest = true
			}
		}
		filter := func(ss []string) []string {
			var out []string
			for _, s := range ss {
				if lenTest && (strings.HasPrefix(s, "range k,v1:=mx") || strings.HasPrefix(s, "range k,v2:=my")) {
					continue
				}
				out = append(out, s)
			}
			sort.Strings(out)
			return out
		}
		fa, fb := filter(a), filter(b)
		R.Check(strings.Join(fa, "\n") == strings.Join(fb, "\n"), rule, fi.Key+" symmetric", P.Pos(fi.Decl), itoa(len(fa))+" statements invariant under x<->y", "equalUnknown is not invariant under exchanging its arguments: unknown fields are grouped or compared differently for the two messages")
	}
}
