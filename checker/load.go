package main

import (
	"fmt"
	"go/ast"
	"go/token"
	"go/types"
	"os"
	"sort"
	"strings"
	"sync"

	"golang.org/x/tools/go/callgraph"
	"golang.org/x/tools/go/callgraph/cha"
	"golang.org/x/tools/go/callgraph/vta"
	"golang.org/x/tools/go/packages"
	"golang.org/x/tools/go/ssa"
	"golang.org/x/tools/go/ssa/ssautil"
)

const modPath = "google.golang.org/protobuf"

// Program is one loaded configuration of the repository.
type Program struct {
	Repo   string
	Config string // "default", "legacy", "reflect", "race", "opaque"
	Tags   string
	Fset   *token.FileSet
	Pkgs   []*packages.Package          // module packages only, sorted by path
	ByPath map[string]*packages.Package // all packages incl. deps
	Errors []string

	ssaOnce sync.Once
	SSA     *ssa.Program
	ssaPkgs map[string]*ssa.Package

	cgOnce sync.Once
	cg     *callgraph.Graph

	funcIdx map[string]*FuncInfo
}

type FuncInfo struct {
	Pkg  *packages.Package
	Decl *ast.FuncDecl
	Obj  *types.Func
	Key  string // pkgpath.(*T).M or pkgpath.F
}

var configTags = map[string]string{
	"default": "",
	"legacy":  "protolegacy",
	"reflect": "protoreflect",
	"race":    "race",
	"opaque":  "protoopaque",
}

// LoadProgram loads patterns (relative to repo) from source with full syntax
// for every package (std included: no dependency on the build cache).
func LoadProgram(repo, config string, patterns []string) (*Program, error) {
	tags, ok := configTags[config]
	if !ok {
		return nil, fmt.Errorf("unknown config %q", config)
	}
	env := []string{}
	for _, e := range os.Environ() {
		if strings.HasPrefix(e, "GOWORK=") || strings.HasPrefix(e, "GOFLAGS=") ||
			strings.HasPrefix(e, "GOPROXY=") || strings.HasPrefix(e, "GOSUMDB=") ||
			strings.HasPrefix(e, "GOTOOLCHAIN=") {
			continue
		}
		env = append(env, e)
	}
	env = append(env, "GOWORK=off", "GOFLAGS=-mod=mod", "GOPROXY=off", "GOSUMDB=off", "GOTOOLCHAIN=local")
	cfg := &packages.Config{
		Mode: packages.NeedName | packages.NeedFiles | packages.NeedCompiledGoFiles |
			packages.NeedImports | packages.NeedDeps | packages.NeedTypes |
			packages.NeedSyntax | packages.NeedTypesInfo | packages.NeedTypesSizes | packages.NeedModule,
		Dir:   repo,
		Env:   env,
		Tests: false,
	}
	if tags != "" {
		cfg.BuildFlags = []string{"-tags=" + tags}
	}
	pkgs, err := packages.Load(cfg, patterns...)
	if err != nil {
		return nil, err
	}
	p := &Program{Repo: repo, Config: config, Tags: tags, ByPath: map[string]*packages.Package{}}
	packages.Visit(pkgs, nil, func(pk *packages.Package) {
		p.ByPath[pk.PkgPath] = pk
		if p.Fset == nil && pk.Fset != nil {
			p.Fset = pk.Fset
		}
		if isModPkg(pk.PkgPath) {
			p.Pkgs = append(p.Pkgs, pk)
			for _, e := range pk.Errors {
				p.Errors = append(p.Errors, fmt.Sprintf("%s: %s", pk.PkgPath, e.Error()))
			}
			if pk.Types == nil || pk.TypesInfo == nil || len(pk.Syntax) == 0 {
				if len(pk.GoFiles) > 0 {
					p.Errors = append(p.Errors, fmt.Sprintf("%s: no syntax/types loaded", pk.PkgPath))
				}
			}
		}
	})
	sort.Slice(p.Pkgs, func(i, j int) bool { return p.Pkgs[i].PkgPath < p.Pkgs[j].PkgPath })
	if len(p.Pkgs) == 0 {
		return nil, fmt.Errorf("no module packages loaded for %v", patterns)
	}
	p.index()
	return p, nil
}

func isModPkg(path string) bool {
	return path == modPath || strings.HasPrefix(path, modPath+"/")
}

func (p *Program) index() {
	p.funcIdx = map[string]*FuncInfo{}
	for _, pk := range p.Pkgs {
		for _, f := range pk.Syntax {
			for _, d := range f.Decls {
				fd, ok := d.(*ast.FuncDecl)
				if !ok {
					continue
				}
				obj, _ := pk.TypesInfo.Defs[fd.Name].(*types.Func)
				if obj == nil {
					continue
				}
				key := funcKey(obj)
				p.funcIdx[key] = &FuncInfo{Pkg: pk, Decl: fd, Obj: obj, Key: key}
			}
		}
	}
}

// funcKey renders pkgpath.F, pkgpath.(*T).M or pkgpath.T.M with the module
// prefix stripped ("internal/impl.(*MessageInfo).init").
func funcKey(obj *types.Func) string {
	pkg := ""
	if obj.Pkg() != nil {
		pkg = shortPkg(obj.Pkg().Path())
	}
	sig, _ := obj.Type().(*types.Signature)
	if sig != nil && sig.Recv() != nil {
		t := sig.Recv().Type()
		ptr := false
		if pt, ok := t.(*types.Pointer); ok {
			t = pt.Elem()
			ptr = true
		}
		name := "?"
		switch tt := t.(type) {
		case *types.Named:
			name = tt.Obj().Name()
		case *types.Alias:
			name = tt.Obj().Name()
		}
		if ptr {
			return pkg + ".(*" + name + ")." + obj.Name()
		}
		return pkg + "." + name + "." + obj.Name()
	}
	return pkg + "." + obj.Name()
}

func shortPkg(path string) string {
	if path == modPath {
		return "."
	}
	return strings.TrimPrefix(path, modPath+"/")
}

// Func looks up a source function by short key, e.g.
// "internal/impl.(*MessageInfo).unmarshalPointer".
func (p *Program) Func(key string) *FuncInfo { return p.funcIdx[key] }

func (p *Program) Pkg(short string) *packages.Package {
	if short == "." {
		return p.ByPath[modPath]
	}
	return p.ByPath[modPath+"/"+short]
}

// FuncsIn returns all source functions of a package, sorted by key.
func (p *Program) FuncsIn(short string) []*FuncInfo {
	var out []*FuncInfo
	pre := short + "."
	for k, f := range p.funcIdx {
		if strings.HasPrefix(k, pre) && shortPkg(f.Pkg.PkgPath) == short {
			out = append(out, f)
		}
	}
	sort.Slice(out, func(i, j int) bool { return out[i].Key < out[j].Key })
	return out
}

func (p *Program) AllFuncs() []*FuncInfo {
	var out []*FuncInfo
	for _, f := range p.funcIdx {
		out = append(out, f)
	}
	sort.Slice(out, func(i, j int) bool { return out[i].Key < out[j].Key })
	return out
}

func (p *Program) Pos(n ast.Node) string {
	if n == nil {
		return "?"
	}
	return p.PosOf(n.Pos())
}

func (p *Program) PosOf(pos token.Pos) string {
	if !pos.IsValid() {
		return "?"
	}
	ps := p.Fset.Position(pos)
	fn := strings.TrimPrefix(ps.Filename, p.Repo+"/")
	return fmt.Sprintf("%s:%d", fn, ps.Line)
}

// BuildSSA builds SSA for all loaded packages (module packages with bodies).
func (p *Program) BuildSSA() {
	p.ssaOnce.Do(func() {
		var initial []*packages.Package
		for _, pk := range p.Pkgs {
			initial = append(initial, pk)
		}
		prog, _ := ssautil.AllPackages(initial, ssa.InstantiateGenerics)
		prog.Build()
		p.SSA = prog
		p.ssaPkgs = map[string]*ssa.Package{}
		for _, sp := range prog.AllPackages() {
			p.ssaPkgs[sp.Pkg.Path()] = sp
		}
	})
}

func (p *Program) SSAPkg(short string) *ssa.Package {
	p.BuildSSA()
	if short == "." {
		return p.ssaPkgs[modPath]
	}
	return p.ssaPkgs[modPath+"/"+short]
}

// SSAFunc returns the SSA function for a source function.
func (p *Program) SSAFunc(fi *FuncInfo) *ssa.Function {
	p.BuildSSA()
	return p.SSA.FuncValue(fi.Obj)
}

// CallGraph returns the VTA-refined CHA call graph over all functions.
func (p *Program) CallGraph() *callgraph.Graph {
	p.cgOnce.Do(func() {
		p.BuildSSA()
		all := ssautil.AllFunctions(p.SSA)
		p.cg = vta.CallGraph(all, cha.CallGraph(p.SSA))
	})
	return p.cg
}

func isModFunc(f *ssa.Function) bool {
	if f == nil {
		return false
	}
	if f.Pkg != nil {
		return isModPkg(f.Pkg.Pkg.Path())
	}
	if f.Parent() != nil {
		return isModFunc(f.Parent())
	}
	if o := f.Origin(); o != nil && o != f {
		return isModFunc(o)
	}
	if f.Object() != nil && f.Object().Pkg() != nil {
		return isModPkg(f.Object().Pkg().Path())
	}
	return false
}

func ssaFuncName(f *ssa.Function) string {
	s := f.String()
	s = strings.ReplaceAll(s, modPath+"/", "")
	return s
}
