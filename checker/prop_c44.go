package main

import (
	"go/ast"
	"go/token"
	"go/types"
	"sort"
	"strings"
)

func init() {
	register(&Property{
		ID:         "C44",
		Level:      "other",
		Technique:  "exhaustive finite case analysis of the path comparator over all 256×256 byte pairs (with uint8 wrap-around), shape rules tying Normalize's sort and prefix elision to it; swap-invariance of the merge cases; linear-form rule for rangeFields (static)",
		Explain:    "Decides structural necessary conditions of `Normalize returns a sorted, prefix-free list covering the same paths` (and of Intersect, which merges two normalized lists with the same predicates): (1) lessPath decides on the first differing byte by `(x[i]-K) < (y[i]-K)` in uint8 arithmetic; evaluated for all 65280 pairs of distinct bytes this is a strict total order (exactly one direction holds) in which the path separator K = '.' is the minimum, and a proper prefix sorts before its extensions (`len(x) < len(y)` on a common prefix). With '.' minimal every extension `p.q` of a path p sorts after p and before any other string starting with p, which is what makes comparing only with the last kept path sufficient; (2) normalizePaths sorts with lessPath and elides a path exactly when hasPathPrefix(path, last kept path); (3) hasPathPrefix is `HasPrefix && (equal length || next byte is the same separator)`, so `ab` is not taken for a sub-path of `a`; (4) path validation (New/Append/IsValid) applies the rule that a group is named by its message name only to group-like fields, so every DELIMITED message field stays reachable. Further: Intersect's two-cursor merge walks only lists last assigned from normalizePaths and its cases are invariant under exchanging the lists; Union/Intersect return normalizePaths(...); rangeFields keeps the separator in the remainder so the exit test cannot be taken right after one (linear form), applies f before the exit test and removes exactly one separator; numValidPaths applies the group naming rule only to group-like fields (found D22).",
		NotCovered: "idempotence and coverage equality on concrete path lists; Union/Intersect results on values; resolution of path segments against concrete descriptors beyond the group-naming clause.",
		Quick:      all("./types/known/fieldmaskpb"),
		Thorough:   all("./..."),
		Run: func(c *Ctx) {
			c.rulePathOrder("R-PATH-ORDER")
			c.ruleFieldMaskGroupName("R-FIELDMASK-GROUP-NAME")
			c.ruleIntersectMerge("R-INTERSECT-MERGE")
			c.ruleRangeFieldsSegments("R-RANGEFIELDS-SEGMENTS")
		},
	})
}

func (c *Ctx) rulePathOrder(rule string) {
	R, P := c.R, c.P
	R.Rule(rule, "fieldmaskpb: lessPath's byte comparison is a strict total order with the separator as minimum (all byte pairs); common prefix ⇒ shorter first; normalizePaths sorts with lessPath and elides on hasPathPrefix against the last kept path; hasPathPrefix requires equality or the separator after the prefix", 6)
	const pk = "types/known/fieldmaskpb."
	fl, fh, fn := c.need(rule, pk+"lessPath"), c.need(rule, pk+"hasPathPrefix"), c.need(rule, pk+"normalizePaths")
	if fl == nil || fh == nil || fn == nil {
		return
	}
	// --- lessPath
	info := fl.Info()
	var cmp *ast.BinaryExpr
	var lenRet bool
	walk(fl.Decl.Body, func(n ast.Node) bool {
		rs, ok := n.(*ast.ReturnStmt)
		if !ok || len(rs.Results) != 1 {
			return true
		}
		be, ok := unparen(rs.Results[0]).(*ast.BinaryExpr)
		if !ok || be.Op != token.LSS {
			return true
		}
		if strings.HasPrefix(exprStr(be.X), "len(") && strings.HasPrefix(exprStr(be.Y), "len(") {
			xs, ys := exprStr(be.X), exprStr(be.Y)
			lenRet = xs != ys
		} else {
			cmp = be
		}
		return true
	})
	sepK := int64(-1)
	if cmp == nil {
		R.Unk(rule, fl.Key+" byte order", P.Pos(fl.Decl), "byte comparison `(x[i]-K) < (y[i]-K)` not found")
	} else {
		// shape: (a - K) < (b - K) with a, b index expressions on the two parameters, or a < b
		shape := func(e ast.Expr) (int64, bool) {
			e = unparen(e)
			if _, ok := e.(*ast.IndexExpr); ok {
				return 0, true
			}
			if be, ok := e.(*ast.BinaryExpr); ok && be.Op == token.SUB {
				if _, ok := unparen(be.X).(*ast.IndexExpr); ok {
					if k, ok := constInt(info, be.Y); ok {
						return k, true
					}
				}
			}
			return 0, false
		}
		k1, ok1 := shape(cmp.X)
		k2, ok2 := shape(cmp.Y)
		bt, _ := info.TypeOf(cmp.X).Underlying().(*types.Basic)
		if !ok1 || !ok2 || bt == nil || bt.Kind() != types.Uint8 {
			R.Unk(rule, fl.Key+" byte order", P.Pos(cmp), "comparison is not of the form (x[i]-K1) < (y[i]-K2) on bytes")
		} else {
			less := func(a, b int) bool { return uint8(a-int(k1)) < uint8(b-int(k2)) }
			bad := ""
			for a := 0; a < 256 && bad == ""; a++ {
				for b := 0; b < 256; b++ {
					if a == b {
						continue
					}
					if less(a, b) == less(b, a) {
						bad = "bytes 0x" + hex2(int64(a)) + " and 0x" + hex2(int64(b)) + " are ordered both ways or neither: not a strict total order"
						break
					}
				}
			}
			// transitivity follows from being the order of uint8 values under a bijection when k1 == k2
			if bad == "" && k1 != k2 {
				bad = "the two sides subtract different constants: the relation is not the order of a single key"
			}
			R.Check(bad == "", rule, fl.Key+" byte order", P.Pos(cmp), "strict total order on all 65280 pairs of distinct bytes (order of the key byte-K in uint8)", bad)
			sepK = k1
			// minimum
			min := -1
			for a := 0; a < 256; a++ {
				isMin := true
				for b := 0; b < 256; b++ {
					if a != b && !less(a, b) {
						isMin = false
						break
					}
				}
				if isMin {
					min = a
				}
			}
			R.Check(min == '.', rule, fl.Key+" separator first", P.Pos(cmp), "'.' is the minimum of the byte order", "the minimum of the byte order is 0x"+hex2(int64(min))+", not the path separator '.': after sorting, an extension `p.q` of a kept path p can be separated from p by other paths starting with p (e.g. `p!`), so the prefix elision against the last kept path misses it")
		}
	}
	R.Check(lenRet, rule, fl.Key+" prefix first", P.Pos(fl.Decl), "common prefix ⇒ shorter path first", "on a common prefix the shorter path is not ordered first (`return len(x) < len(y)` missing)")
	// --- hasPathPrefix
	hinfo := fh.Info()
	okShape, sepH := false, int64(-2)
	if len(fh.Decl.Body.List) == 1 {
		if rs, ok := fh.Decl.Body.List[0].(*ast.ReturnStmt); ok && len(rs.Results) == 1 {
			if and, ok := unparen(rs.Results[0]).(*ast.BinaryExpr); ok && and.Op == token.LAND {
				hp := containsCall(hinfo, and.X, "strings.HasPrefix") != nil
				if or, ok := unparen(and.Y).(*ast.BinaryExpr); ok && or.Op == token.LOR && hp {
					eqLen, sep := false, false
					for _, side := range []ast.Expr{or.X, or.Y} {
						if be, ok := unparen(side).(*ast.BinaryExpr); ok && be.Op == token.EQL {
							if strings.HasPrefix(exprStr(be.X), "len(") && strings.HasPrefix(exprStr(be.Y), "len(") {
								eqLen = true
							}
							if ix, ok := unparen(be.X).(*ast.IndexExpr); ok && strings.HasPrefix(exprStr(ix.Index), "len(") {
								if k, ok := constInt(hinfo, be.Y); ok {
									sep, sepH = true, k
								}
							}
						}
					}
					okShape = eqLen && sep
				}
			}
		}
	}
	R.Check(okShape, rule, fh.Key+" boundary", P.Pos(fh.Decl), "HasPrefix && (equal length || separator follows)", "hasPathPrefix is not `strings.HasPrefix(path, prefix) && (len(path) == len(prefix) || path[len(prefix)] == sep)`: `ab` would count as a sub-path of `a`, or an equal path would not")
	R.Check(sepH == sepK && sepK == '.', rule, fh.Key+" separator", P.Pos(fh.Decl), "same separator '.' as the order's minimum", "hasPathPrefix and lessPath do not use the same separator byte")
	// --- normalizePaths
	ninfo := fn.Info()
	sorts := false
	walkAll(fn.Decl.Body, func(n ast.Node) bool {
		if call, ok := n.(*ast.CallExpr); ok && strings.HasPrefix(calleeKey(ninfo, call), "sort.Slice") {
			if containsCallAll(ninfo, call, fl.Key) {
				sorts = true
			}
		}
		return true
	})
	R.Check(sorts, rule, fn.Key+" sort", P.Pos(fn.Decl), "sorted with lessPath", "normalizePaths does not sort with lessPath")
	elide := false
	walk(fn.Decl.Body, func(n ast.Node) bool {
		rs, ok := n.(*ast.RangeStmt)
		if !ok {
			return true
		}
		for _, st := range rs.Body.List {
			if is, ok := st.(*ast.IfStmt); ok {
				call := containsCall(ninfo, is.Cond, fh.Key)
				if call != nil && len(call.Args) == 2 && strings.Contains(exprStr(call.Args[1]), "[len(") && len(is.Body.List) == 1 {
					if br, ok := is.Body.List[0].(*ast.BranchStmt); ok && br.Tok == token.CONTINUE {
						elide = true
					}
				}
			}
		}
		return true
	})
	R.Check(elide, rule, fn.Key+" elision", P.Pos(fn.Decl), "a path is dropped iff it has the last kept path as prefix", "the prefix elision of normalizePaths is not `if hasPathPrefix(path, out[len(out)-1]) { continue }`")
}

// containsCallAll: like containsCall but descends into function literals.
func containsCallAll(info *types.Info, n ast.Node, key string) bool {
	found := false
	walkAll(n, func(x ast.Node) bool {
		if call, ok := x.(*ast.CallExpr); ok && calleeKey(info, call) == key {
			found = true
		}
		return true
	})
	return found
}

// R-FIELDMASK-GROUP-NAME: in a field mask path a proto2 group is named by its
// message name, because that is what the text format calls it. An editions
// message field with DELIMITED encoding also has GroupKind but is group-like
// only if its name is the lower-cased message name; otherwise it is an
// ordinary field and must be accepted under its own name. The rejection of a
// GroupKind field found by its own name therefore has to be restricted to
// group-like fields.
func (c *Ctx) ruleFieldMaskGroupName(rule string) {
	R, P := c.R, c.P
	R.Rule(rule, "fieldmaskpb.numValidPaths rejects a field of GroupKind that was found by its own name only if the field is group-like (its name equals the lower-cased message name); other DELIMITED fields are reachable under their own name", 1)
	fi := c.need(rule, "types/known/fieldmaskpb.numValidPaths")
	if fi == nil {
		return
	}
	n := 0
	walkAll(fi.Decl.Body, func(x ast.Node) bool {
		is, ok := x.(*ast.IfStmt)
		if !ok {
			return true
		}
		check := func(s *ast.IfStmt) {
			cs := exprStr(s.Cond)
			if !strings.Contains(cs, "GroupKind") || !strings.Contains(cs, "!=") {
				return
			}
			clears := false
			for _, st := range s.Body.List {
				if as, ok := st.(*ast.AssignStmt); ok && len(as.Rhs) == 1 && exprStr(as.Rhs[0]) == "nil" {
					clears = true
				}
			}
			if !clears {
				return
			}
			n++
			groupLike := strings.Contains(cs, "ToLower(") && strings.Contains(cs, ".Name()") && strings.Contains(cs, "Message().Name()")
			nameSide := false
			walk(s.Cond, func(y ast.Node) bool {
				if be, ok := y.(*ast.BinaryExpr); ok && be.Op == token.EQL {
					l, r := exprStr(be.X), exprStr(be.Y)
					if (strings.Contains(l, "ToLower(") && strings.HasSuffix(strings.TrimSuffix(r, ")"), ".Name()")) || (strings.Contains(r, "ToLower(") && strings.HasSuffix(strings.TrimSuffix(l, ")"), ".Name()")) {
						nameSide = true
					}
				}
				return true
			})
			R.Check(groupLike && nameSide, rule, fi.Key+" group rejection#"+itoa(n), P.Pos(s), "restricted to group-like fields", "a field of GroupKind found by its own name is rejected whenever the name differs from the message name, without testing that the field is group-like: an editions message field with DELIMITED encoding whose name is not the lower-cased message name cannot be named by any path (IsValid/New/Append reject it and everything below it)")
		}
		check(is)
		if e, ok := is.Else.(*ast.IfStmt); ok {
			_ = e // visited by walkAll
		}
		return true
	})
	if n == 0 {
		R.Unk(rule, fi.Key, P.Pos(fi.Decl), "rejection of a GroupKind field found by its own name not found")
	}
}

// R-INTERSECT-MERGE: Intersect walks two lists with two cursors and relies on
// both being sorted with lessPath and prefix-free, i.e. both being results of
// normalizePaths; the four cases have to treat the two lists alike; the
// results of Union and Intersect are normalized.
func (c *Ctx) ruleIntersectMerge(rule string) {
	R, P := c.R, c.P
	R.Rule(rule, "fieldmaskpb.Intersect: every list indexed by the two-cursor merge loop was last assigned from normalizePaths(...) before the loop; the loop's cases are invariant under exchanging the two lists; Union and Intersect return normalizePaths(...) as Paths", 4)
	const pk = "types/known/fieldmaskpb."
	fi := c.need(rule, pk+"Intersect")
	if fi == nil {
		return
	}
	info := fi.Info()
	var loop *ast.ForStmt
	var lit *ast.FuncLit
	walkAll(fi.Decl.Body, func(n ast.Node) bool {
		if fl, ok := n.(*ast.FuncLit); ok && lit == nil {
			walk(fl.Body, func(m ast.Node) bool {
				if fs, ok := m.(*ast.ForStmt); ok && loop == nil && fs.Cond != nil && strings.Contains(exprStr(fs.Cond), "&&") {
					loop, lit = fs, fl
				}
				return true
			})
		}
		return true
	})
	if loop == nil {
		R.Unk(rule, fi.Key+" merge loop", P.Pos(fi.Decl), "two-cursor merge loop not found")
	} else {
		// lists: X in `i < len(X)` conjuncts of the loop condition
		var lists []types.Object
		var cursors []string
		walk(loop.Cond, func(n ast.Node) bool {
			be, ok := n.(*ast.BinaryExpr)
			if !ok || be.Op != token.LSS {
				return true
			}
			if call, ok := unparen(be.Y).(*ast.CallExpr); ok && len(call.Args) == 1 && exprStr(call.Fun) == "len" {
				if id, ok := unparen(call.Args[0]).(*ast.Ident); ok {
					lists = append(lists, info.Uses[id])
					cursors = append(cursors, exprStr(be.X))
				}
			}
			return true
		})
		if len(lists) != 2 {
			R.Unk(rule, fi.Key+" merge loop", P.Pos(loop), "expected two `cursor < len(list)` conjuncts")
		} else {
			for _, lo := range lists {
				var last ast.Expr
				for _, st := range lit.Body.List {
					if st.Pos() >= loop.Pos() {
						break
					}
					if as, ok := st.(*ast.AssignStmt); ok && len(as.Lhs) == 1 && len(as.Rhs) == 1 {
						if id, ok := as.Lhs[0].(*ast.Ident); ok && info.Uses[id] == lo {
							last = as.Rhs[0]
						}
					}
				}
				norm := false
				if call, ok := last.(*ast.CallExpr); ok && calleeKey(info, call) == pk+"normalizePaths" {
					norm = true
				}
				got := "never assigned before the loop"
				if last != nil {
					got = "`" + exprStr(last) + "`"
				}
				R.Check(norm, rule, fi.Key+" merged list "+lo.Name(), P.Pos(loop), "normalizePaths(...)", "the merge loop walks "+lo.Name()+", which is "+got+" and not a result of normalizePaths: on an unsorted or non-prefix-free list the two cursors skip paths that both masks cover")
			}
			// symmetry of the cases
			var sw *ast.SwitchStmt
			for _, st := range loop.Body.List {
				if s, ok := st.(*ast.SwitchStmt); ok {
					sw = s
				}
			}
			if sw == nil {
				R.Unk(rule, fi.Key+" merge cases", P.Pos(loop), "case switch not found")
			} else {
				swap := map[string]string{cursors[0]: cursors[1], cursors[1]: cursors[0], lists[0].Name(): lists[1].Name(), lists[1].Name(): lists[0].Name()}
				if as, ok := sw.Init.(*ast.AssignStmt); ok && len(as.Lhs) == 2 {
					a, b := exprStr(as.Lhs[0]), exprStr(as.Lhs[1])
					swap[a], swap[b] = b, a
				}
				var a, b []string
				for _, cl := range sw.Body.List {
					cc := cl.(*ast.CaseClause)
					sa, sb := "", ""
					for _, e := range cc.List {
						sa += swapCanon(info, e, nil)
						sb += swapCanon(info, e, swap)
					}
					for _, st := range cc.Body {
						sa += ";" + swapCanon(info, st, nil)
						sb += ";" + swapCanon(info, st, swap)
					}
					a, b = append(a, sa), append(b, sb)
				}
				sortStrings(a)
				sortStrings(b)
				R.Check(strings.Join(a, "\n") == strings.Join(b, "\n") && len(a) >= 4, rule, fi.Key+" merge cases", P.Pos(sw), itoa(len(a))+" cases invariant under exchanging the lists", "the cases of the merge loop change when the two lists are exchanged: Intersect(a, b) and Intersect(b, a) keep different paths")
			}
		}
	}
	for _, name := range []string{"Union", "Intersect"} {
		f := c.need(rule, pk+name)
		if f == nil {
			continue
		}
		inf := f.Info()
		ok, n := true, 0
		for _, st := range f.Decl.Body.List {
			rs, k := st.(*ast.ReturnStmt)
			if !k || len(rs.Results) != 1 {
				continue
			}
			n++
			good := false
			walk(rs.Results[0], func(m ast.Node) bool {
				if kv, k := m.(*ast.KeyValueExpr); k && exprStr(kv.Key) == "Paths" {
					if call, k := unparen(kv.Value).(*ast.CallExpr); k && calleeKey(inf, call) == pk+"normalizePaths" {
						good = true
					}
				}
				return true
			})
			ok = ok && good
		}
		R.Check(ok && n > 0, rule, pk+name+" result", P.Pos(f.Decl), "Paths: normalizePaths(...)", name+" returns paths that are not passed through normalizePaths: the result is not sorted and prefix-free")
	}
}

// R-RANGEFIELDS-SEGMENTS: rangeFields is strings.Split(path, ".") without the
// allocation: f sees every segment, including the empty one after a trailing
// separator, which is what makes "a." and "a..b" invalid paths.
func (c *Ctx) ruleRangeFieldsSegments(rule string) {
	R, P := c.R, c.P
	R.Rule(rule, "fieldmaskpb.rangeFields: on the separator branch the remainder keeps the separator (path[i:], so the `len(path) == 0` exit cannot be taken right after a separator) and exactly one separator is removed afterwards (strings.TrimPrefix or path[1:]); f is applied to the segment before the exit test and its false result returns false", 2)
	fi := c.need(rule, "types/known/fieldmaskpb.rangeFields")
	if fi == nil {
		return
	}
	info := fi.Info()
	var loop *ast.ForStmt
	for _, st := range fi.Decl.Body.List {
		if fs, ok := st.(*ast.ForStmt); ok {
			loop = fs
		}
	}
	if loop == nil || len(fi.Decl.Type.Params.List) == 0 {
		R.Unk(rule, fi.Key, P.Pos(fi.Decl), "loop not found")
		return
	}
	pathObj := info.Defs[fi.Decl.Type.Params.List[0].Names[0]]
	isPath := func(e ast.Expr) bool {
		id, ok := unparen(e).(*ast.Ident)
		return ok && info.Uses[id] == pathObj
	}
	var split *ast.IfStmt
	var idx types.Object
	for _, st := range loop.Body.List {
		if is, ok := st.(*ast.IfStmt); ok && is.Init != nil && split == nil {
			if as, ok := is.Init.(*ast.AssignStmt); ok && len(as.Rhs) == 1 {
				if call, ok := as.Rhs[0].(*ast.CallExpr); ok && strings.HasPrefix(calleeKey(info, call), "strings.Index") && len(call.Args) == 2 && isPath(call.Args[0]) {
					split = is
					idx = info.Defs[as.Lhs[0].(*ast.Ident)]
				}
			}
		}
	}
	if split == nil {
		R.Unk(rule, fi.Key+" split", P.Pos(loop), "`if i := strings.IndexByte(path, '.'); i >= 0` not found")
		return
	}
	// remainder on the separator branch
	off, found := int64(-1), false
	for _, st := range split.Body.List {
		as, ok := st.(*ast.AssignStmt)
		if !ok || len(as.Lhs) != len(as.Rhs) {
			continue
		}
		for i, l := range as.Lhs {
			if !isPath(l) {
				continue
			}
			se, ok := unparen(as.Rhs[i]).(*ast.SliceExpr)
			if !ok || !isPath(se.X) || se.High != nil || se.Low == nil {
				continue
			}
			found = true
			switch lo := unparen(se.Low).(type) {
			case *ast.Ident:
				if info.Uses[lo] == idx {
					off = 0
				}
			case *ast.BinaryExpr:
				if id, ok := unparen(lo.X).(*ast.Ident); ok && info.Uses[id] == idx && lo.Op == token.ADD {
					if v, ok := constantInt64(info.Types[lo.Y].Value); ok {
						off = v
					}
				}
			}
		}
	}
	if !found || off < 0 {
		R.Unk(rule, fi.Key+" remainder", P.Pos(split), "remainder assignment `path = path[i+c:]` on the separator branch not recognised")
		return
	}
	R.Check(off == 0, rule, fi.Key+" remainder", P.Pos(split), "path[i:] keeps the separator", "on the separator branch the remainder is path[i+"+itoa(int(off))+":], which is empty when the separator is the last byte: the exit test `len(path) == 0` then ends the iteration and the empty segment after a trailing separator never reaches f, so `a.` is accepted as a valid path")
	// after the split: f(field) false → return false; then exit test; then one-separator removal
	stage := 0
	okOrder, oneSep := false, false
	after := false
	for _, st := range loop.Body.List {
		if st == ast.Stmt(split) {
			after = true
			continue
		}
		if !after {
			continue
		}
		switch x := st.(type) {
		case *ast.IfStmt:
			cs := exprStr(x.Cond)
			retFalse := false
			if len(x.Body.List) == 1 {
				if rs, ok := x.Body.List[0].(*ast.ReturnStmt); ok && len(rs.Results) == 1 && exprStr(rs.Results[0]) == "false" {
					retFalse = true
				}
			}
			if stage == 0 && strings.HasPrefix(cs, "!") && strings.Contains(cs, "(field)") && retFalse {
				stage = 1
			} else if stage == 1 && (cs == "len(path) == 0" || cs == `path == ""`) {
				stage = 2
				okOrder = true
			}
		case *ast.AssignStmt:
			if stage == 2 && len(x.Lhs) == 1 && isPath(x.Lhs[0]) {
				r := exprStr(x.Rhs[0])
				oneSep = r == `strings.TrimPrefix(path, ".")` || r == "path[1:]"
			}
		}
	}
	R.Check(okOrder, rule, fi.Key+" order", P.Pos(loop), "f(field) tested before the exit test", "f is not applied to the segment (with false returning false) before the `len(path) == 0` exit: a segment escapes validation")
	if off == 0 {
		R.Check(oneSep, rule, fi.Key+" separator removal", P.Pos(loop), "exactly one separator removed", "the separator kept in the remainder is not removed by strings.TrimPrefix(path, \".\") or path[1:]: removing a run of separators accepts `a..b`, removing none never terminates")
	}
}

func sortStrings(s []string) { sort.Strings(s) }
