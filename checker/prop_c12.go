package main

import (
	"go/ast"
	"go/token"
	"go/types"
	"reflect"
	"strings"
)

func init() {
	register(&Property{
		ID:         "C12",
		Level:      "other",
		Technique:  "CFG dominance: oneof rejection in JSON/text decoders, clear-before-store in dynamicpb, wrapper-identity test before wrapper reuse in the fast-path oneof decoder and merge; struct-shape rule over generated code (static)",
		Explain:    "Decides structural necessary conditions of oneof exclusivity: (1) in protojson and prototext unmarshalMessage the write of any singular field is dominated, for oneof members of every kind, by the seenOneofs rejection test and followed by seenOneofs.Set; (2) in dynamicpb every store into the known-field map made by Set/Mutable is dominated by clearOtherOneofFields, which deletes every other member of the oneof; (3) in every generated message struct each real oneof is a single interface-typed Go field (exclusive by construction); (4) the fast-path binary decoder of a oneof member decodes into the stored wrapper only when it is that member's wrapper (dynamic type test against the wrapper type) and otherwise allocates and stores the member's own wrapper, so the last member on the wire becomes the active one; the oneof merge replaces the wrapper unless it already holds the same member.",
		NotCovered: "last-on-wire on concrete inputs and Merge interleavings as histories; WhichOneof correctness on values; the reflection (slow-path) binary decoder relies on Message.Set of the implementation.",
		Quick:      all("./encoding/protojson", "./encoding/prototext", "./types/dynamicpb", "./internal/impl", "./types/known/structpb"),
		Thorough:   all("./..."),
		Run: func(c *Ctx) {
			c.ruleSeenFields("R-SEEN-FIELDS", "encoding/protojson.decoder.unmarshalMessage", "encoding/protojson.decoder.unmarshalSingular", "internal/encoding/json.(*Decoder).Read")
			c.ruleSeenFields("R-SEEN-FIELDS", "encoding/prototext.decoder.unmarshalMessage", "encoding/prototext.decoder.unmarshalSingular", "internal/encoding/text.(*Decoder).Read")
			c.ruleDynOneof("R-DYN-ONEOF")
			c.ruleGenOneofShape("R-GEN-ONEOF-SHAPE", 4)
			c.ruleOneofReuse("R-ONEOF-REUSE")
			c.ruleOneofMerge("R-ONEOF-MERGE")
		},
	})
}

func (c *Ctx) ruleDynOneof(rule string) {
	R, P := c.R, c.P
	R.Rule(rule, "dynamicpb: every `m.known[k] = v` store in Set/Mutable is dominated by m.clearOtherOneofFields(fd); clearOtherOneofFields deletes every member of the containing oneof whose number differs", 3)
	for _, key := range []string{"types/dynamicpb.(*Message).Set", "types/dynamicpb.(*Message).Mutable"} {
		fi := c.need(rule, key)
		if fi == nil {
			continue
		}
		info := fi.Info()
		g := fi.CFG()
		n := 0
		walk(fi.Decl.Body, func(node ast.Node) bool {
			as, ok := node.(*ast.AssignStmt)
			if !ok || len(as.Lhs) != 1 {
				return true
			}
			ix, ok := unparen(as.Lhs[0]).(*ast.IndexExpr)
			if !ok {
				return true
			}
			if _, f, ok := fieldSel(info, ix.X); !ok || f != "known" {
				return true
			}
			n++
			sp, _ := g.posOf(as)
			reach, _ := g.Forward(g.Entry(), Search{
				TargetPos: &sp,
				Barrier: func(x ast.Node) bool {
					return containsCall(info, x, "types/dynamicpb.(*Message).clearOtherOneofFields") != nil
				},
				EdgeBarrier: func(b *cfgBlock, succ int) bool {
					// extensions are never oneof members
					for _, a := range edgeAtoms(b, succ) {
						if call, ok := a.E.(*ast.CallExpr); ok && a.Val && calleeKey(info, call) == "reflect/protoreflect.FieldDescriptor.IsExtension" {
							return true
						}
					}
					return false
				},
			})
			dom := !reach
			R.Check(dom, rule, key+" store#"+itoa(n), P.Pos(as), "dominated by clearOtherOneofFields (or on the fd.IsExtension() branch: extensions are not oneof members)", "a field value is stored without first clearing the other members of its oneof: two members of one oneof can be populated at once")
			return true
		})
		if n == 0 {
			R.Unk(rule, key, P.Pos(fi.Decl), "no store into m.known found: idiom not recognised")
		}
	}
	if fi := c.need(rule, "types/dynamicpb.(*Message).clearOtherOneofFields"); fi != nil {
		info := fi.Info()
		defs := localDefs(fi.Decl.Body, info)
		ok := false
		walk(fi.Decl.Body, func(node ast.Node) bool {
			fs, isFor := node.(*ast.ForStmt)
			if !isFor {
				return true
			}
			walk(fs.Body, func(x ast.Node) bool {
				is, isIf := x.(*ast.IfStmt)
				if !isIf {
					return true
				}
				be, isBE := unparen(is.Cond).(*ast.BinaryExpr)
				if !isBE || be.Op != token.NEQ {
					return true
				}
				// both sides are field numbers (FieldDescriptor.Number()), directly or through a local
				isNumber := func(e ast.Expr) bool {
					e = unparen(e)
					if call, ok := e.(*ast.CallExpr); ok {
						return calleeKey(info, call) == "reflect/protoreflect.FieldDescriptor.Number"
					}
					if id, ok := e.(*ast.Ident); ok {
						for _, d := range defs[info.Uses[id]] {
							if call, ok := unparen(d.rhs).(*ast.CallExpr); ok && calleeKey(info, call) == "reflect/protoreflect.FieldDescriptor.Number" {
								return true
							}
						}
					}
					return false
				}
				if !isNumber(be.X) || !isNumber(be.Y) {
					return true
				}
				if del := containsCall(info, is.Body, "builtin.delete"); del != nil && len(del.Args) == 2 && isNumber(del.Args[1]) {
					ok = true
				}
				return true
			})
			return true
		})
		R.Check(ok, rule, fi.Key, P.Pos(fi.Decl), "loops over the oneof's fields and deletes every other number", "clearOtherOneofFields does not delete, inside its loop over the oneof's members, every member whose field number differs from the number of the field being set (the comparison must be between two FieldDescriptor.Number() values — an index within the oneof and an index within the message are different things): another member can stay populated")
	}
}

// R-ONEOF-REUSE: the binary decoder of a oneof member decodes into the wrapper
// the message already holds only if that wrapper is this member's wrapper
// (its dynamic type is the member's wrapper type taken from
// oneofWrappersByNumber); otherwise it allocates the member's own wrapper and
// stores it. Reusing the wrapper of another member (say, one with the same
// payload Go type) leaves the previous member active after a later member was
// decoded: WhichOneof names the wrong field.
func (c *Ctx) ruleOneofReuse(rule string) {
	R, P := c.R, c.P
	R.Rule(rule, "in the oneof unmarshal closure of initOneofFieldCoders the wrapper decoded into is either freshly allocated with the member's wrapper type (from oneofWrappersByNumber) or the stored wrapper under the dominating test that its pointee's dynamic type equals that wrapper type; the wrapper is stored back into the oneof field", 2)
	fi := c.need(rule, "internal/impl.(*MessageInfo).initOneofFieldCoders")
	if fi == nil {
		return
	}
	info := fi.Info()
	outerDefs := localDefs(fi.Decl.Body, info)
	isWrapperType := func(e ast.Expr) bool {
		o := objOf(info, e)
		if o == nil {
			return false
		}
		for _, d := range outerDefs[o] {
			ix, ok := unparen(d.rhs).(*ast.IndexExpr)
			if !ok {
				return false
			}
			if _, f, ok := fieldSel(info, ix.X); !ok || f != "oneofWrappersByNumber" {
				return false
			}
		}
		return len(outerDefs[o]) > 0
	}
	n := 0
	for _, br := range bodiesOf(fi) {
		if br.Lit == nil {
			continue
		}
		sig, ok := info.TypeOf(br.Lit).(*types.Signature)
		if !ok || sig.Results().Len() != 2 || namedTypeName(sig.Results().At(0).Type()) != "internal/impl.unmarshalOutput" {
			continue
		}
		g := newCFG(br.Body, info)
		// the variable passed (through pointerOfValue) to the member's unmarshal function
		var stores, reuses, fresh int
		walk(br.Body, func(x ast.Node) bool {
			as, ok := x.(*ast.AssignStmt)
			if !ok || as.Tok != token.ASSIGN || len(as.Lhs) != 1 || len(as.Rhs) != 1 {
				return true
			}
			id, ok := as.Lhs[0].(*ast.Ident)
			if !ok || namedTypeName(info.TypeOf(id)) != "reflect.Value" {
				return true
			}
			rhs := unparen(as.Rhs[0])
			if call, ok := rhs.(*ast.CallExpr); ok && calleeKey(info, call) == "reflect.New" && len(call.Args) == 1 {
				fresh++
				n++
				R.Check(isWrapperType(call.Args[0]), rule, br.Name+" fresh wrapper", P.Pos(as), "reflect.New("+exprStr(call.Args[0])+") with the member's wrapper type", "the freshly allocated wrapper does not have the member's wrapper type from oneofWrappersByNumber")
				return true
			}
			reuses++
			n++
			want := exprStr(rhs) + ".Elem().Type()"
			good := g.DominatedByCond(as, func(core ast.Expr, val bool) bool {
				be, ok := unparen(core).(*ast.BinaryExpr)
				if !ok || !((be.Op == token.EQL && val) || (be.Op == token.NEQ && !val)) {
					return false
				}
				return (exprStr(unparen(be.X)) == want && isWrapperType(be.Y)) || (exprStr(unparen(be.Y)) == want && isWrapperType(be.X))
			})
			R.Check(good, rule, br.Name+" reused wrapper", P.Pos(as), "reused only when "+want+" equals the member's wrapper type", "the stored wrapper ("+exprStr(rhs)+") is decoded into without establishing that its dynamic type is this member's wrapper type: after decoding, the previously active member stays active (another member with the same payload type shares the test)")
			return true
		})
		walk(br.Body, func(x ast.Node) bool {
			if call, ok := x.(*ast.CallExpr); ok && calleeKey(info, call) == "reflect.Value.Set" {
				stores++
			}
			return true
		})
		if fresh+reuses > 0 {
			n++
			R.Check(stores > 0 && fresh > 0, rule, br.Name+" store", P.Pos(br.Lit), "wrapper stored back into the oneof field", "the decoded wrapper is never stored into the oneof field, or no fresh wrapper can be allocated")
		}
	}
	if n == 0 {
		R.Unk(rule, fi.Key, P.Pos(fi.Decl), "oneof unmarshal closure not found")
	}
}

// R-GEN-ONEOF-SHAPE: in generated code a real oneof is one interface-typed
// struct field (tag protobuf_oneof); its members live in wrapper structs of
// exactly one field (tag `protobuf:"…,oneof"`), so two members cannot be
// stored at once. A member field placed directly in the message struct would
// be populated independently of the oneof field.
func (c *Ctx) ruleGenOneofShape(rule string, floor int) {
	R, P := c.R, c.P
	R.Rule(rule, "every struct field tagged protobuf_oneof has an interface type with at least one (marker) method, and every type of the package that implements such an interface is a struct of exactly one field whose protobuf tag carries the `oneof` option (a wrapper of one member)", floor)
	for _, pk := range P.Pkgs {
		scope := pk.Types.Scope()
		var ifaces []*types.Interface
		names := scope.Names()
		for _, nm := range names {
			tn, ok := scope.Lookup(nm).(*types.TypeName)
			if !ok {
				continue
			}
			st, ok := tn.Type().Underlying().(*types.Struct)
			if !ok {
				continue
			}
			for i := 0; i < st.NumFields(); i++ {
				tag := reflect.StructTag(st.Tag(i))
				if on, ok := tag.Lookup("protobuf_oneof"); ok {
					it, isIface := st.Field(i).Type().Underlying().(*types.Interface)
					R.Check(isIface && it.NumMethods() > 0, rule, pk.PkgPath[len(modPath)+1:]+"."+nm+"."+st.Field(i).Name()+" oneof "+on, P.PosOf(st.Field(i).Pos()), "interface-typed oneof field", "the oneof is not represented by one interface-typed field: its members can be populated independently")
					if isIface {
						ifaces = append(ifaces, it)
					}
				}
			}
		}
		// every type implementing a oneof interface is a one-field wrapper whose field is tagged `oneof`
		for _, nm := range names {
			tn, ok := scope.Lookup(nm).(*types.TypeName)
			if !ok || len(ifaces) == 0 {
				continue
			}
			if _, isIface := tn.Type().Underlying().(*types.Interface); isIface {
				continue
			}
			pt := types.NewPointer(tn.Type())
			impl := false
			for _, it := range ifaces {
				if it.NumMethods() > 0 && (types.Implements(pt, it) || types.Implements(tn.Type(), it)) {
					impl = true
				}
			}
			if !impl {
				continue
			}
			st, isStruct := tn.Type().Underlying().(*types.Struct)
			good := isStruct && st.NumFields() == 1
			if good {
				good = false
				if ptag, ok := reflect.StructTag(st.Tag(0)).Lookup("protobuf"); ok {
					for _, part := range strings.Split(ptag, ",") {
						if part == "oneof" {
							good = true
						}
					}
				}
			}
			R.Check(good, rule, pk.PkgPath[len(modPath)+1:]+"."+nm+" wrapper", P.PosOf(tn.Pos()), "one-field wrapper struct for one member", "a type implementing a oneof interface is not a one-field wrapper of a single member: two members could be held at once")
		}
	}
}
