package main

import (
	"go/ast"
	"go/token"
)

func init() {
	register(&Property{
		ID:         "C12",
		Level:      "other",
		Technique:  "CFG dominance: oneof rejection in JSON/text decoders, clear-before-store in dynamicpb; struct-shape rule over generated code (static)",
		Explain:    "Decides structural necessary conditions of oneof exclusivity: (1) in protojson and prototext unmarshalMessage the write of any singular field is dominated, for oneof members of every kind, by the seenOneofs rejection test and followed by seenOneofs.Set; (2) in dynamicpb every store into the known-field map made by Set/Mutable is dominated by clearOtherOneofFields, which deletes every other member of the oneof; (3) in every generated message struct each real oneof is a single interface-typed Go field (exclusive by construction).",
		NotCovered: "which member wins in binary decoding (last-on-wire) and Merge interleavings: value-level; WhichOneof correctness on values.",
		Quick:      all("./encoding/protojson", "./encoding/prototext", "./types/dynamicpb"),
		Thorough:   all("./..."),
		Run: func(c *Ctx) {
			c.ruleSeenFields("R-SEEN-FIELDS", "encoding/protojson.decoder.unmarshalMessage", "encoding/protojson.decoder.unmarshalSingular", "internal/encoding/json.(*Decoder).Read")
			c.ruleSeenFields("R-SEEN-FIELDS", "encoding/prototext.decoder.unmarshalMessage", "encoding/prototext.decoder.unmarshalSingular", "internal/encoding/text.(*Decoder).Read")
			c.ruleDynOneof("R-DYN-ONEOF")
		},
	})
}

func (c *Ctx) ruleDynOneof(rule string) {
	R, P := c.R, c.P
	R.Rule(rule, "dynamicpb: every `m.known[k] = v` store in Set/Mutable is dominated by m.clearOtherOneofFields(fd); clearOtherOneofFields deletes every member of the containing oneof whose number differs", 3)
	for _, key := range []string{"types/dynamicpb.(*Message).Set", "types/dynamicpb.(*Message).Mutable"} {
		fi := c.need(rule, key)
		if fi == nil {
			continue
		}
		info := fi.Info()
		g := fi.CFG()
		n := 0
		walk(fi.Decl.Body, func(node ast.Node) bool {
			as, ok := node.(*ast.AssignStmt)
			if !ok || len(as.Lhs) != 1 {
				return true
			}
			ix, ok := unparen(as.Lhs[0]).(*ast.IndexExpr)
			if !ok {
				return true
			}
			if _, f, ok := fieldSel(info, ix.X); !ok || f != "known" {
				return true
			}
			n++
			sp, _ := g.posOf(as)
			reach, _ := g.Forward(g.Entry(), Search{
				TargetPos: &sp,
				Barrier: func(x ast.Node) bool {
					return containsCall(info, x, "types/dynamicpb.(*Message).clearOtherOneofFields") != nil
				},
				EdgeBarrier: func(b *cfgBlock, succ int) bool {
					// extensions are never oneof members
					for _, a := range edgeAtoms(b, succ) {
						if call, ok := a.E.(*ast.CallExpr); ok && a.Val && calleeKey(info, call) == "reflect/protoreflect.FieldDescriptor.IsExtension" {
							return true
						}
					}
					return false
				},
			})
			dom := !reach
			R.Check(dom, rule, key+" store#"+itoa(n), P.Pos(as), "dominated by clearOtherOneofFields (or on the fd.IsExtension() branch: extensions are not oneof members)", "a field value is stored without first clearing the other members of its oneof: two members of one oneof can be populated at once")
			return true
		})
		if n == 0 {
			R.Unk(rule, key, P.Pos(fi.Decl), "no store into m.known found: idiom not recognised")
		}
	}
	if fi := c.need(rule, "types/dynamicpb.(*Message).clearOtherOneofFields"); fi != nil {
		info := fi.Info()
		ok := false
		walk(fi.Decl.Body, func(node ast.Node) bool {
			fs, isFor := node.(*ast.ForStmt)
			if !isFor {
				return true
			}
			walk(fs.Body, func(x ast.Node) bool {
				is, isIf := x.(*ast.IfStmt)
				if !isIf {
					return true
				}
				be, isBE := unparen(is.Cond).(*ast.BinaryExpr)
				if !isBE || be.Op != token.NEQ {
					return true
				}
				if containsCall(info, is.Body, "builtin.delete") != nil {
					ok = true
				}
				return true
			})
			return true
		})
		R.Check(ok, rule, fi.Key, P.Pos(fi.Decl), "loops over the oneof's fields and deletes every other number", "clearOtherOneofFields no longer deletes every other member of the oneof inside its loop")
	}
}
