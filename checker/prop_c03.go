package main

func init() {
	register(&Property{
		ID:         "C03",
		Level:      "other",
		Technique:  "coder-row agreement over every coder literal (wire family, inverse transforms, accessor, UTF-8), kind-context table conformance of the coder tables and the reflection codec; linear-form verification of the speculative length-prefix protocol (static)",
		Explain:    "Decides structural necessary conditions of the binary round trip: (1) for every coder literal {size, marshal, unmarshal, merge} of the fast path, the unmarshal function tests the wire type and uses the Consume primitive of the family the marshal function emits (varint, fixed32, fixed64, length-delimited, group), slice coders of packable kinds accept both the packed and the unpacked form, value transforms are mutually inverse (ZigZag, Bool, float bit casts), all functions of the literal use the same Go accessor, and UTF-8 validation is on both sides or on neither; (2) in every Kind-dependent branch of the coder tables (fieldCoder, encoderFuncsForValue), of the validator and of the reflection codec in package proto, the wire primitives, transforms, Value constructors/accessors and the coder installed for the Kind match the protobuf scalar table; (3) the reflection encoder's length-prefix protocol (appendSpeculativeLength / finishSpeculativeLength) leaves b[:pos] ++ varint(payload length) ++ payload for every payload length — payload length, prefix size, grow-loop count, copy bounds, final length and prefix write are verified as linear forms over len(b), pos and the prefix size; (4) on the decoding side of the round trip: the lazy field index covers exactly each lazy field occurrence, the validator's explicit stack restores the recursion budget on every pop, and the three tag loops of the fast-path decoder agree (number range, end groups, errUnknown means skip).",
		NotCovered: "the round trip on concrete messages; map entries, extensions resolution, MessageSet, dynamicpb; arithmetic inside the primitives (C01).",
		Quick:      all("./internal/impl", "./proto"),
		Thorough:   allAndLegacy("./internal/impl", "./proto"),
		Run: func(c *Ctx) {
			c.ruleMergeClass("R-MERGE-CLASS", 60)
			c.ruleSizeCache("R-SIZECACHE")
			c.ruleCoderRow("R-CODER-ROW", 100)
			c.ruleCoderSelect("R-CODER-SELECT", 60)
			c.ruleKindContext("R-KIND-CONTEXT", []string{"proto", "internal/impl"}, 100)
			c.ruleSpecLen("R-SPEC-LEN")
			c.ruleLazyIndex("R-LAZY-INDEX")
			c.ruleDepthPair("R-DEPTH-PAIR", "internal/impl.(*MessageInfo).validate")
			c.ruleDecodeSiblings("R-DECODE-SIBLINGS")
		},
	})
}
