package main

import (
	"go/ast"
	"go/token"
	"go/types"
	"strings"
)

// factsAt returns the atomic facts that hold when evaluation of expression
// root reaches sub-expression target (short-circuit semantics): descending
// into the right operand of A||B adds "A false", of A&&B adds "A true".
func factsAt(root ast.Expr, target ast.Node) ([]atomVal, bool) {
	var facts []atomVal
	found := false
	var rec func(e ast.Expr) bool
	contains := func(e ast.Expr) bool { return containsNode(e, target) }
	rec = func(e ast.Expr) bool {
		if e == nil {
			return false
		}
		if ast.Node(e) == target {
			found = true
			return true
		}
		switch x := e.(type) {
		case *ast.ParenExpr:
			return rec(x.X)
		case *ast.BinaryExpr:
			if x.Op == token.LAND || x.Op == token.LOR {
				if contains(x.X) {
					return rec(x.X)
				}
				if contains(x.Y) {
					impliedAtoms(x.X, x.Op == token.LAND, &facts)
					return rec(x.Y)
				}
				return false
			}
		case *ast.UnaryExpr:
			if x.Op == token.NOT {
				return rec(x.X)
			}
		}
		if contains(e) {
			found = true
			return true
		}
		return false
	}
	rec(root)
	return facts, found
}

// guardedUse: the use (a node inside body) is guarded by a fact accepted by
// pass, either through a dominating CFG edge or by short-circuit evaluation
// inside the condition/expression that contains it.
func (g *FCFG) guardedUse(use ast.Node, pass func(core ast.Expr, val bool) bool) bool {
	if g.DominatedByCond(use, pass) {
		return true
	}
	// intra-expression: find the CFG node containing the use
	p, ok := g.posOf(use)
	if !ok {
		return false
	}
	node := p.B.Nodes[p.I]
	var roots []ast.Expr
	switch n := node.(type) {
	case ast.Expr:
		roots = append(roots, n)
	case *ast.ReturnStmt:
		roots = append(roots, n.Results...)
	case *ast.AssignStmt:
		roots = append(roots, n.Rhs...)
	case *ast.ExprStmt:
		roots = append(roots, n.X)
	}
	for _, r := range roots {
		if !containsNode(r, use) {
			continue
		}
		facts, found := factsAt(r, use)
		if !found {
			continue
		}
		for _, f := range facts {
			if pass(f.E, f.Val) {
				return true
			}
		}
	}
	return false
}

// R-NIL-GUARD (impl closures): every has/get/which accessor closure of the
// reflection tables, and every getter closure returned by a getterFor*
// constructor, touches its `p pointer` parameter only under !p.IsNil().
func (c *Ctx) ruleNilGuardClosures(rule string, floor int) {
	R, P := c.R, c.P
	R.Rule(rule, "every read-only reflection accessor closure over `p pointer` (values of has/get/which in fieldInfo/oneofInfo literals and closures returned by getter constructors) uses p only on paths/short-circuits where p.IsNil() is false", floor)
	isPointerParam := func(info *types.Info, fl *ast.FuncLit) *types.Var {
		if fl.Type.Params == nil || len(fl.Type.Params.List) != 1 || len(fl.Type.Params.List[0].Names) != 1 {
			return nil
		}
		v, _ := info.Defs[fl.Type.Params.List[0].Names[0]].(*types.Var)
		if v == nil || namedTypeName(v.Type()) != "internal/impl.pointer" {
			return nil
		}
		return v
	}
	checkLit := func(fi *FuncInfo, name string, fl *ast.FuncLit) {
		info := fi.Info()
		pv := isPointerParam(info, fl)
		if pv == nil {
			return
		}
		g := newCFG(fl.Body, info)
		bad := ""
		n := 0
		walk(fl.Body, func(x ast.Node) bool {
			id, ok := x.(*ast.Ident)
			if !ok || info.Uses[id] != pv {
				return true
			}
			n++
			return true
		})
		// collect uses with parents
		var stack []ast.Node
		ast.Inspect(fl.Body, func(x ast.Node) bool {
			if x == nil {
				stack = stack[:len(stack)-1]
				return false
			}
			stack = append(stack, x)
			id, ok := x.(*ast.Ident)
			if !ok || info.Uses[id] != pv || bad != "" {
				return true
			}
			// p.IsNil() itself is always allowed
			if len(stack) >= 3 {
				if se, ok := stack[len(stack)-2].(*ast.SelectorExpr); ok && se.Sel.Name == "IsNil" {
					return true
				}
			}
			isNilFalse := func(core ast.Expr, val bool) bool {
				call, ok := core.(*ast.CallExpr)
				if !ok || val {
					return false
				}
				se, ok := unparen(call.Fun).(*ast.SelectorExpr)
				if !ok || se.Sel.Name != "IsNil" {
					return false
				}
				rid, ok := unparen(se.X).(*ast.Ident)
				return ok && info.Uses[rid] == pv
			}
			// uses inside nested literals are checked against the nested body's own CFG only if guarded outside
			if !g.guardedUse(id, isNilFalse) {
				bad = P.Pos(id)
			}
			return true
		})
		if bad != "" {
			R.Bad(rule, name, P.Pos(fl), "parameter p is used at "+bad+" on a path where p.IsNil() was not excluded: the accessor panics on a typed nil message instead of reporting the empty value")
		} else {
			R.OK(rule, name, P.Pos(fl), itoa(n)+" uses of p, all under !p.IsNil()")
		}
	}
	for _, fi := range P.FuncsIn("internal/impl") {
		if fi.Decl.Body == nil {
			continue
		}
		info := fi.Info()
		k := 0
		walkAll(fi.Decl.Body, func(n ast.Node) bool {
			switch x := n.(type) {
			case *ast.KeyValueExpr:
				id, ok := x.Key.(*ast.Ident)
				if !ok || (id.Name != "has" && id.Name != "get" && id.Name != "which") {
					return true
				}
				if fl, ok := unparen(x.Value).(*ast.FuncLit); ok {
					k++
					checkLit(fi, fi.Key+" "+id.Name+" closure#"+itoa(k), fl)
				}
			case *ast.ReturnStmt:
				// closures returned by getter constructors
				sig := fi.Obj.Type().(*types.Signature)
				if sig.Results().Len() != 1 {
					return true
				}
				if _, isFunc := sig.Results().At(0).Type().Underlying().(*types.Signature); !isFunc {
					return true
				}
				for _, r := range x.Results {
					if fl, ok := unparen(r).(*ast.FuncLit); ok {
						if rs := fl.Type.Results; rs != nil && len(rs.List) == 1 {
							if tv, ok := info.Types[rs.List[0].Type]; ok && (namedTypeName(tv.Type) == "reflect/protoreflect.Value") {
								k++
								checkLit(fi, fi.Key+" returned getter#"+itoa(k), fl)
							}
						}
					}
				}
			case *ast.AssignStmt:
				// getter := func(p pointer) protoreflect.Value {…} later stored in get:
				for i, r := range x.Rhs {
					fl, ok := unparen(r).(*ast.FuncLit)
					if !ok || i >= len(x.Lhs) {
						continue
					}
					// oi.which = func(p pointer) …: accessor stored into a table field
					if se, ok := x.Lhs[i].(*ast.SelectorExpr); ok && (se.Sel.Name == "has" || se.Sel.Name == "get" || se.Sel.Name == "which") {
						k++
						checkLit(fi, fi.Key+" "+se.Sel.Name+" closure#"+itoa(k), fl)
						continue
					}
					lid, ok := x.Lhs[i].(*ast.Ident)
					if !ok || !strings.Contains(strings.ToLower(lid.Name), "getter") {
						continue
					}
					k++
					checkLit(fi, fi.Key+" getter var#"+itoa(k), fl)
				}
			}
			return true
		})
	}
}

// R-NIL-GUARD (entry points): read-only pointer entry points test p.IsNil()
// before touching the message memory.
func (c *Ctx) ruleNilGuardEntries(rule string) {
	R, P := c.R, c.P
	R.Rule(rule, "read-only fast-path entry points (sizePointer, marshalAppendPointer, checkInitializedPointer, mergePointer's source) use their pointer argument only under !p.IsNil()", 4)
	for _, e := range []struct{ key, param string }{
		{"internal/impl.(*MessageInfo).sizePointer", "p"},
		{"internal/impl.(*MessageInfo).marshalAppendPointer", "p"},
		{"internal/impl.(*MessageInfo).checkInitializedPointer", "p"},
		{"internal/impl.(*MessageInfo).mergePointer", "src"},
	} {
		fi := c.need(rule, e.key)
		if fi == nil {
			continue
		}
		info := fi.Info()
		var pv *types.Var
		for _, f := range fi.Decl.Type.Params.List {
			for _, nm := range f.Names {
				if nm.Name == e.param {
					pv, _ = info.Defs[nm].(*types.Var)
				}
			}
		}
		if pv == nil {
			R.Unk(rule, e.key, P.Pos(fi.Decl), "parameter "+e.param+" not found")
			continue
		}
		g := fi.CFG()
		bad := ""
		var stack []ast.Node
		ast.Inspect(fi.Decl.Body, func(x ast.Node) bool {
			if x == nil {
				stack = stack[:len(stack)-1]
				return false
			}
			stack = append(stack, x)
			if _, isLit := x.(*ast.FuncLit); isLit {
				return true
			}
			id, ok := x.(*ast.Ident)
			if !ok || info.Uses[id] != pv || bad != "" {
				return true
			}
			if len(stack) >= 2 {
				if se, ok := stack[len(stack)-2].(*ast.SelectorExpr); ok {
					if se.Sel.Name == "IsNil" {
						return true
					}
					if se.Sel.Name != "Apply" {
						return true // passing p along is fine; only Apply dereferences
					}
				} else {
					return true
				}
			}
			if !g.guardedUse(id, func(core ast.Expr, val bool) bool {
				call, ok := core.(*ast.CallExpr)
				if !ok || val {
					return false
				}
				se, ok := unparen(call.Fun).(*ast.SelectorExpr)
				if !ok || se.Sel.Name != "IsNil" {
					return false
				}
				rid, ok := unparen(se.X).(*ast.Ident)
				return ok && info.Uses[rid] == pv
			}) {
				bad = P.Pos(id)
			}
			return true
		})
		R.Check(bad == "", rule, e.key+" "+e.param, P.Pos(fi.Decl), "Apply only under !"+e.param+".IsNil()", e.param+".Apply is reached at "+bad+" without excluding a nil message pointer: Marshal/Size/CheckInitialized/Merge of a typed nil message panics")
	}
}

// R-GEN-NIL-GETTER: in every generated message file, every Get*/Has* method
// with a pointer receiver reads receiver fields only under `x != nil`.
func (c *Ctx) ruleGenNilGetters(rule string, libFloor int) {
	R, P := c.R, c.P
	R.Rule(rule, "every generated Get*/Has*/Which* method of a message type dereferences its receiver only where `x != nil` holds (dominating edge or short-circuit); floor counts the library's own types/... packages", libFloor)
	total, files := 0, 0
	for _, pk := range P.Pkgs {
		for _, f := range pk.Syntax {
			fn := P.Fset.Position(f.Pos()).Filename
			if !strings.HasSuffix(fn, ".pb.go") {
				continue
			}
			files++
			isLib := strings.Contains(fn, "/types/")
			info := pk.TypesInfo
			for _, d := range f.Decls {
				fd, ok := d.(*ast.FuncDecl)
				if !ok || fd.Recv == nil || fd.Body == nil || len(fd.Recv.List) != 1 || len(fd.Recv.List[0].Names) != 1 {
					continue
				}
				nm := fd.Name.Name
				if !(strings.HasPrefix(nm, "Get") || strings.HasPrefix(nm, "Has") || strings.HasPrefix(nm, "Which")) {
					continue
				}
				rv, _ := info.Defs[fd.Recv.List[0].Names[0]].(*types.Var)
				if rv == nil {
					continue
				}
				if _, isPtr := rv.Type().(*types.Pointer); !isPtr {
					continue
				}
				// only message structs (have a ProtoReflect method) or oneof wrappers
				total++
				obj, _ := info.Defs[fd.Name].(*types.Func)
				key := fn[strings.Index(fn, "/repo/")+6:] + ":" + funcKey(obj)
				g := newCFG(fd.Body, info)
				bad := ""
				var stack []ast.Node
				ast.Inspect(fd.Body, func(x ast.Node) bool {
					if x == nil {
						stack = stack[:len(stack)-1]
						return false
					}
					stack = append(stack, x)
					id, ok := x.(*ast.Ident)
					if !ok || info.Uses[id] != rv || bad != "" || len(stack) < 2 {
						return true
					}
					deref := false
					switch par := stack[len(stack)-2].(type) {
					case *ast.SelectorExpr:
						if sel := info.Selections[par]; sel != nil && sel.Kind() == types.FieldVal && par.X == ast.Expr(id) {
							deref = true
						}
					case *ast.StarExpr:
						deref = true
					}
					if !deref {
						return true
					}
					if !g.guardedUse(id, func(core ast.Expr, val bool) bool {
						be, ok := core.(*ast.BinaryExpr)
						if !ok {
							return false
						}
						xid, ok := unparen(be.X).(*ast.Ident)
						if !ok || info.Uses[xid] != rv || !isNilIdent(info, be.Y) {
							return false
						}
						return (be.Op == token.NEQ && val) || (be.Op == token.EQL && !val)
					}) {
						bad = P.Pos(id)
					}
					return true
				})
				if bad != "" {
					R.Bad(rule, key, P.Pos(fd), "receiver field read at "+bad+" is not guarded by `x != nil`: calling this getter on a typed nil message panics")
				} else if isLib {
					R.OK(rule, key, P.Pos(fd), "receiver dereferenced only under x != nil")
				}
			}
		}
	}
	c.R.Assumptions = append(c.R.Assumptions, "R-GEN-NIL-GETTER analysed "+itoa(total)+" generated Get/Has/Which methods in "+itoa(files)+" .pb.go files of the loaded packages; only those under types/ are counted against the floor and listed as discharged obligations, violations are reported for all")
}
