package main

func init() {
	register(&Property{
		ID:         "C31",
		Level:      "other",
		Technique:  "nil-guard dominance (CFG edges + short-circuit facts) over all reflection accessor closures, fast-path entry points and all generated getters (static)",
		Explain:    "Decides structural necessary conditions of typed-nil safety: (1) every has/get/which accessor closure in the reflection tables and every getter closure returned by the getterFor* constructors uses its pointer argument only under !p.IsNil(); (2) the read-only fast-path entry points (sizePointer, marshalAppendPointer, checkInitializedPointer, mergePointer source) call p.Apply only under !p.IsNil(); (3) every generated Get*/Has*/Which* method in every .pb.go of the loaded packages dereferences its receiver only under x != nil. Also: accessor closures stored into table fields (oi.which = func…) are covered, and proto.Equal distinguishes an invalid from a valid message in both argument orders. The text and JSON encoders reach CheckInitialized on every success path that was not asked for AllowPartial (R-CHECKINIT, shared with C10): an early return for a typed nil message would skip the required-field check an empty message gets.",
		NotCovered: "that the value returned for nil equals the empty-message value (behavioural); protojson/prototext Format of typed nil beyond panic freedom of the accessors they call.",
		Quick:      all("./internal/impl", "./types/...", "./proto", "./encoding/prototext", "./encoding/protojson"),
		Thorough:   all("./..."),
		Run: func(c *Ctx) {
			c.ruleNilGuardClosures("R-NIL-GUARD", 50)
			c.ruleNilGuardEntries("R-NIL-ENTRY")
			c.ruleGenNilGetters("R-GEN-NIL-GETTER", 100)
			c.ruleEqualValidity("R-EQUAL-VALIDITY")
			c.ruleCheckInitOnSuccess("R-CHECKINIT")
		},
	})
}
