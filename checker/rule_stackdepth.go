package main

import (
	"go/ast"
	"go/token"
)

// R-STACK-DEPTH: in a scanner with an explicit nesting counter, every
// increment of the counter is followed, before any further call or exit, by a
// comparison of the counter against the recursion limit.
func (c *Ctx) ruleStackDepth(rule, fnKey, counter string) {
	R := c.R
	R.Rule(rule, "explicit-stack scanners: every `counter++` is followed, before any call or function exit, by a branch on `counter > limit` (limit = a RecursionLimit/depth expression)", 0)
	fi := c.need(rule, fnKey)
	if fi == nil {
		return
	}
	g := fi.CFG()
	info := fi.Info()
	n := 0
	for _, b := range g.G.Blocks {
		for i, node := range b.Nodes {
			ids, ok := node.(*ast.IncDecStmt)
			if !ok || ids.Tok != token.INC {
				continue
			}
			id, ok := unparen(ids.X).(*ast.Ident)
			if !ok || id.Name != counter {
				continue
			}
			n++
			isCheck := func(x ast.Node) bool {
				e, ok := x.(ast.Expr)
				if !ok {
					return false
				}
				core, _ := stripNot(e)
				be, ok := core.(*ast.BinaryExpr)
				if !ok {
					return false
				}
				l, lok := unparen(be.X).(*ast.Ident)
				_, rdepth := depthExprName(be.Y)
				if lok && l.Name == counter && rdepth && (be.Op == token.GTR || be.Op == token.GEQ) {
					return true
				}
				return false
			}
			found, wit := g.Forward(cfgPos{b, i + 1}, Search{
				Target: func(x ast.Node) bool {
					if isCheck(x) {
						return false
					}
					hasCall := false
					walk(x, func(y ast.Node) bool {
						if ce, ok := y.(*ast.CallExpr); ok {
							if k := calleeKey(info, ce); k == "" || k[:8] != "builtin." {
								hasCall = true
							}
						}
						return true
					})
					return hasCall
				},
				Barrier:      isCheck,
				ExitIsTarget: true,
			})
			name := fnKey + " " + counter + "++ #" + itoa(n)
			if found {
				R.Bad(rule, name, c.P.Pos(node), "after `"+counter+"++` a path reaches "+c.P.Pos(wit)+" without comparing "+counter+" against the recursion limit: nesting is unbounded")
			} else {
				R.OK(rule, name, c.P.Pos(node), "followed by `"+counter+" > limit` before any call/exit")
			}
		}
	}
	if n == 0 {
		R.Unk(rule, fnKey, c.P.Pos(fi.Decl), "no `"+counter+"++` found: idiom not recognised")
	}
}
