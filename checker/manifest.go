package main

import (
	"fmt"
	"sort"
)

// notApplicable: properties not claimed, with the reason. A property is
// either registered (claimed) or listed here; genManifest fails otherwise.
var notApplicable = map[string]string{
	"C28": "Reflection API contract: a stateful abstract-model conformance over operation histories and runtime values; no structural clause short of re-specifying fieldInfo semantics per kind, which static analysis cannot decide soundly.",
	"C35": "Panic-freedom and rejection-completeness of descriptor validation over adversarial protos needs whole-program nil/index reasoning and a completeness argument about validators; beyond any sound static rule in reach.",
	"C41": "Requires running the generator and the Go compiler on new schemas; not decidable from the source without execution.",
}

// planned: properties whose rules are designed (DESIGN.md §4) but not yet built.
var planned = map[string]string{}

func genManifest() map[string]any {
	var ids []string
	for id := range registry {
		ids = append(ids, id)
	}
	sort.Strings(ids)
	var checks []any
	for _, id := range ids {
		p := registry[id]
		checks = append(checks, map[string]any{
			"property_id":         id,
			"quick_cmd":           "./run.sh " + id + " quick",
			"thorough_cmd":        "./run.sh " + id + " thorough",
			"evidence_file":       "/verif/evidence/" + id + ".json",
			"replay_cmd_template": "./run.sh " + id + " quick --replay {path}",
			"engine":              "verifcheck",
			"technique":           p.Technique,
			"level_claimed": map[string]any{
				"category":   p.Level,
				"text":       p.Explain + " Not covered: " + p.NotCovered,
				"design_ref": "DESIGN.md §4 " + id,
			},
			"level_note": "Trusted: go/types + x/tools v0.29.0 (go/packages, go/cfg, go/ssa, VTA) and the rule implementations in /verif/checker; rules decide structural necessary conditions on /repo's current source and never execute it. Unrecognised idioms, unresolved anchors, type errors and analysis panics fail the check (UNDECIDED).",
		})
	}
	var na []any
	var naIDs []string
	for id := range notApplicable {
		naIDs = append(naIDs, id)
	}
	for id := range planned {
		naIDs = append(naIDs, id)
	}
	sort.Strings(naIDs)
	for _, id := range naIDs {
		if _, claimed := registry[id]; claimed {
			continue
		}
		reason := notApplicable[id]
		if reason == "" {
			reason = planned[id]
		}
		na = append(na, map[string]any{"property_id": id, "reason": reason})
	}
	// completeness
	for i := 1; i <= 47; i++ {
		id := fmt.Sprintf("C%02d", i)
		_, a := registry[id]
		_, b := notApplicable[id]
		_, c := planned[id]
		if !a && !b && !c {
			na = append(na, map[string]any{"property_id": id, "reason": "rule designed (DESIGN.md §4) but not implemented yet; not claimed on a weaker proxy."})
		}
	}
	return map[string]any{
		"version":   1,
		"setup_cmd": "cd /verif/checker && env -u GOWORK GOFLAGS=-mod=mod GOPROXY=off GOSUMDB=off GOTOOLCHAIN=local go build -o /verif/bin/verifcheck .",
		"hooks": map[string]any{
			"guard":            "verif",
			"enable":           "no hooks: the checks read /repo's source; nothing in /repo is instrumented (tag `verif` reserved, unused)",
			"baseline_off_cmd": "for m in $(cat /w/out/gomods.txt); do MF=$(cd /repo/$m && . /w/out/goenv.sh && gomodflag); (cd /repo/$m && go test $MF -json -vet=off -count=1 -timeout 25m ./...); done",
			"source_commits":   []string{},
			"add_only":         true,
		},
		"engines": []any{
			map[string]any{"name": "verifcheck", "path": "/verif/checker", "serves_properties": ids,
				"kind_free_text": "repository-specific static analyser (go/packages + go/types + go/cfg + go/ssa + VTA call graph); one rule set per property; obligations keyed by rule+construct"},
		},
		"checks":         checks,
		"not_applicable": na,
		"notes":          "Static analysis only: no check executes protobuf-go. See DESIGN.md. known_findings.json lists recorded/fixed defects.",
	}
}
