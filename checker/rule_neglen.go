package main

import (
	"go/ast"
	"go/token"
	"go/types"
)

// R-NEG-LEN: protowire.Consume* report malformed input by returning a negative
// length. A length obtained from such a call must not be used as a slice or
// index bound (or added into one) on any path that has not first taken the
// false edge of `n < 0` (or true edge of `n >= 0`): otherwise malformed input
// panics with "slice bounds out of range" instead of returning an error.

var consumeLenResult = map[string]int{
	"encoding/protowire.ConsumeVarint":      1,
	"encoding/protowire.ConsumeFixed32":     1,
	"encoding/protowire.ConsumeFixed64":     1,
	"encoding/protowire.ConsumeBytes":       1,
	"encoding/protowire.ConsumeString":      1,
	"encoding/protowire.ConsumeGroup":       1,
	"encoding/protowire.ConsumeTag":         2,
	"encoding/protowire.ConsumeField":       2,
	"encoding/protowire.ConsumeFieldValue":  0,
	"encoding/protowire.consumeFieldValueD": 0,
}

func usesObj(info *types.Info, n ast.Node, obj types.Object) bool {
	found := false
	walk(n, func(x ast.Node) bool {
		if id, ok := x.(*ast.Ident); ok && info.Uses[id] == obj {
			found = true
		}
		return !found
	})
	return found
}

// boundUse reports whether node n uses obj inside a slice/index bound.
func boundUse(info *types.Info, n ast.Node, obj types.Object) ast.Node {
	var hit ast.Node
	walk(n, func(x ast.Node) bool {
		if hit != nil {
			return false
		}
		switch e := x.(type) {
		case *ast.SliceExpr:
			for _, b := range []ast.Expr{e.Low, e.High, e.Max} {
				if b != nil && usesObj(info, b, obj) {
					hit = e
				}
			}
		case *ast.IndexExpr:
			if tv, ok := info.Types[e.X]; ok {
				switch tv.Type.Underlying().(type) {
				case *types.Slice, *types.Array, *types.Basic, *types.Pointer:
					if usesObj(info, e.Index, obj) {
						hit = e
					}
				}
			}
		}
		return true
	})
	return hit
}

func (c *Ctx) ruleNegLen(rule string, pkgs []string, exempt map[string]string, floor int) {
	R, P := c.R, c.P
	R.Rule(rule, "a length returned by a protowire.Consume* call is never used in a slice/index bound before the path has taken the non-negative edge of a test on it (`n < 0` false / `n >= 0` true); decided per definition by forward CFG search", floor)
	for _, pkg := range pkgs {
		for _, fi := range P.FuncsIn(pkg) {
			if fi.Decl.Body == nil {
				continue
			}
			info := fi.Info()
			for _, br := range bodiesOf(fi) {
				var g *FCFG
				cnt := 0
				walk(br.Body, func(node ast.Node) bool {
					var lhs []ast.Expr
					var rhs ast.Expr
					switch s := node.(type) {
					case *ast.AssignStmt:
						if len(s.Rhs) != 1 {
							return true
						}
						lhs, rhs = s.Lhs, s.Rhs[0]
					case *ast.ValueSpec:
						if len(s.Values) != 1 {
							return true
						}
						for _, nm := range s.Names {
							lhs = append(lhs, nm)
						}
						rhs = s.Values[0]
					default:
						return true
					}
					call, ok := unparen(rhs).(*ast.CallExpr)
					if !ok {
						return true
					}
					key := calleeKey(info, call)
					idx, ok := consumeLenResult[key]
					if !ok || idx >= len(lhs) {
						return true
					}
					id, ok := lhs[idx].(*ast.Ident)
					if !ok || id.Name == "_" {
						return true
					}
					obj := objOf(info, id)
					if obj == nil {
						return true
					}
					cnt++
					name := br.Name + " " + id.Name + " := " + key + " #" + itoa(cnt)
					if why, ok := exempt[br.Name+" "+id.Name]; ok {
						R.Exempt(rule, name, P.Pos(node), why)
						return true
					}
					if g == nil {
						g = newCFG(br.Body, info)
					}
					dp, ok := g.posOf(node)
					if !ok {
						R.Unk(rule, name, P.Pos(node), "definition not found in CFG")
						return true
					}
					isNonNegEdge := func(b *cfgBlock, succ int) bool {
						for _, a := range edgeAtoms(b, succ) {
							be, ok := a.E.(*ast.BinaryExpr)
							if !ok {
								continue
							}
							xid, ok := unparen(be.X).(*ast.Ident)
							if !ok || objOf(info, xid) != obj {
								continue
							}
							v, isC := constInt(info, be.Y)
							if !isC {
								continue
							}
							switch {
							case be.Op == token.LSS && v == 0 && !a.Val,
								be.Op == token.GEQ && v == 0 && a.Val,
								be.Op == token.GTR && v >= -1 && a.Val,
								be.Op == token.LEQ && v >= -1 && !a.Val,
								be.Op == token.LSS && v >= 0 && !a.Val:
								return true
							}
						}
						return false
					}
					var hit ast.Node
					found, _ := g.Forward(cfgPos{dp.B, dp.I + 1}, Search{
						Target: func(n ast.Node) bool {
							if h := boundUse(info, n, obj); h != nil {
								hit = h
								return true
							}
							return false
						},
						Barrier: func(n ast.Node) bool {
							// redefinition of obj kills this definition
							if as, ok := n.(*ast.AssignStmt); ok {
								for _, l := range as.Lhs {
									if lid, ok := l.(*ast.Ident); ok && objOf(info, lid) == obj {
										return true
									}
								}
							}
							return false
						},
						EdgeBarrier: isNonNegEdge,
					})
					if found {
						R.Bad(rule, name, P.Pos(node), "the length is used as a slice/index bound at "+P.Pos(hit)+" on a path that never tested it for < 0: malformed input makes this panic instead of returning an error")
					} else {
						R.OK(rule, name, P.Pos(node), "every bound use is behind the non-negative edge of a sign test")
					}
					return true
				})
			}
		}
	}
}
