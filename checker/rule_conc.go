package main

import (
	"go/ast"
	"go/token"
	"go/types"
	"sort"
	"strings"
)

// E4: access discipline for state that is initialised lazily and used concurrently.

// constructionPhase: functions that run before the object they write is
// published to other goroutines (reviewed; one symbol each).
var constructionPhase = map[string]string{
	"internal/impl.InitExtensionInfo":          "constructor: called from generated package init (TypeBuilder) before the ExtensionInfo is reachable by any other goroutine",
	"internal/filedesc.(*stringName).InitJSON": "construction-time setter: called while the field descriptor is being built (unmarshalFull, protodesc, tag), before the descriptor is published",
}

func isLockCall(info *types.Info, n ast.Node) bool {
	return containsCall(info, n, "sync.(*Mutex).Lock", "sync.(*RWMutex).Lock", "sync.(*RWMutex).RLock") != nil
}

// lockHeldAt: site in fi is dominated by a Lock() call in fi, or fi is an
// unexported function all of whose in-scope callers hold a lock at the call
// site (depth-bounded).
func (c *Ctx) lockHeldAt(fi *FuncInfo, site ast.Node, callers map[string][]callSite, depth int) bool {
	info := fi.Info()
	g := fi.CFG()
	s := site
	if _, ok := g.posOf(s); !ok {
		// inside a closure or deferred call: use the enclosing statement
		walk(fi.Decl.Body, func(x ast.Node) bool {
			if st, ok := x.(ast.Stmt); ok && containsNode(st, site) {
				if _, ok := g.posOf(st); ok {
					s = st
				}
			}
			return true
		})
	}
	if g.DominatedByNode(s, func(n ast.Node) bool { return isLockCall(info, n) }) {
		return true
	}
	if depth >= 3 || fi.Obj.Exported() {
		return false
	}
	cs := callers[fi.Key]
	if len(cs) == 0 {
		return false
	}
	for _, cc := range cs {
		if !c.lockHeldAt(cc.fi, cc.call, callers, depth+1) {
			return false
		}
	}
	return true
}

type callSite struct {
	fi   *FuncInfo
	call *ast.CallExpr
}

func (c *Ctx) staticCallers(pkgs []string) map[string][]callSite {
	out := map[string][]callSite{}
	for _, pkg := range pkgs {
		for _, fi := range c.P.FuncsIn(pkg) {
			if fi.Decl.Body == nil {
				continue
			}
			info := fi.Info()
			walkAll(fi.Decl.Body, func(n ast.Node) bool {
				if call, ok := n.(*ast.CallExpr); ok {
					if k := calleeKey(info, call); k != "" {
						out[k] = append(out[k], callSite{fi, call})
					}
				}
				return true
			})
		}
	}
	return out
}

func atomicLocationArg(info *types.Info, call *ast.CallExpr) types.Object {
	k := calleeKey(info, call)
	if !strings.HasPrefix(k, "sync/atomic.") || len(call.Args) == 0 {
		return nil
	}
	ue, ok := unparen(call.Args[0]).(*ast.UnaryExpr)
	if !ok || ue.Op != token.AND {
		return nil
	}
	switch x := unparen(ue.X).(type) {
	case *ast.SelectorExpr:
		return info.Uses[x.Sel]
	case *ast.Ident:
		return info.Uses[x]
	}
	return nil
}

// R-ATOMIC-FLAG
func (c *Ctx) ruleAtomicFlags(rule string, pkgs []string, floor int) {
	R, P := c.R, c.P
	R.Rule(rule, "every variable or struct field that is accessed through sync/atomic somewhere (initialisation flags, enable switches) is accessed through sync/atomic everywhere, except where a mutex is held (Lock dominates the access in the same function, or in every caller of an unexported helper); a non-zero store to such a flag is made with a mutex held and is the last write of the initialisation (deferred, or followed by no further field writes)", floor)
	locs := map[types.Object]string{}
	for _, pkg := range pkgs {
		for _, fi := range P.FuncsIn(pkg) {
			if fi.Decl.Body == nil {
				continue
			}
			info := fi.Info()
			walkAll(fi.Decl.Body, func(n ast.Node) bool {
				if call, ok := n.(*ast.CallExpr); ok {
					if o := atomicLocationArg(info, call); o != nil {
						if v, ok := o.(*types.Var); ok && (v.IsField() || v.Parent() == v.Pkg().Scope()) {
							locs[o] = qualObj(o)
						}
					}
				}
				return true
			})
		}
	}
	callers := c.staticCallers(pkgs)
	for _, pkg := range pkgs {
		for _, fi := range P.FuncsIn(pkg) {
			if fi.Decl.Body == nil {
				continue
			}
			info := fi.Info()
			// positions of &X args inside atomic calls
			inAtomic := map[*ast.Ident]bool{}
			var stores []*ast.CallExpr
			walkAll(fi.Decl.Body, func(n ast.Node) bool {
				if call, ok := n.(*ast.CallExpr); ok {
					if o := atomicLocationArg(info, call); o != nil {
						walk(call.Args[0], func(x ast.Node) bool {
							if id, ok := x.(*ast.Ident); ok && info.Uses[id] == o {
								inAtomic[id] = true
							}
							return true
						})
						if strings.HasPrefix(calleeKey(info, call), "sync/atomic.Store") && locs[o] != "" {
							stores = append(stores, call)
						}
					}
				}
				return true
			})
			k := 0
			walkAll(fi.Decl.Body, func(n ast.Node) bool {
				id, ok := n.(*ast.Ident)
				if !ok || inAtomic[id] {
					return true
				}
				o := info.Uses[id]
				name, isLoc := locs[o]
				if !isLoc {
					return true
				}
				k++
				construct := fi.Key + " plain access #" + itoa(k) + " of " + name
				if why, ok := constructionPhase[fi.Key]; ok {
					R.Exempt(rule, construct, P.Pos(id), why)
					return true
				}
				R.Check(c.lockHeldAt(fi, id, callers, 0), rule, construct, P.Pos(id), "mutex held", "`"+name+"` is read or written without sync/atomic and without a mutex held, although other code accesses it atomically: a data race on first use")
				return true
			})
			for i, st := range stores {
				o := atomicLocationArg(info, st)
				construct := fi.Key + " store #" + itoa(i+1) + " to " + locs[o]
				zero := false
				if len(st.Args) == 2 {
					if v, ok := constInt(info, st.Args[1]); ok && v == 0 {
						zero = true
					}
				}
				if !o.(*types.Var).IsField() {
					R.OK(rule, construct, P.Pos(st), "package-level switch (not an initialisation flag)")
					continue
				}
				if zero {
					R.OK(rule, construct, P.Pos(st), "reset to zero")
					continue
				}
				held := c.lockHeldAt(fi, st, callers, 0)
				// last write: deferred, or no later assignment to fields in this function
				deferred := false
				walkAll(fi.Decl.Body, func(x ast.Node) bool {
					if d, ok := x.(*ast.DeferStmt); ok && d.Call == st {
						deferred = true
					}
					return true
				})
				last := deferred
				if !deferred {
					g := fi.CFG()
					if sp, ok := g.posOf(st); ok {
						found, _ := g.Forward(cfgPos{sp.B, sp.I + 1}, Search{Target: func(x ast.Node) bool {
							as, ok := x.(*ast.AssignStmt)
							if !ok {
								return false
							}
							for _, l := range as.Lhs {
								if _, isSel := unparen(l).(*ast.SelectorExpr); isSel {
									return true
								}
							}
							return false
						}})
						last = !found
					}
				}
				switch {
				case !held:
					R.Bad(rule, construct, P.Pos(st), "the initialisation flag is published without the mutex held: two goroutines can run the initialisation concurrently")
				case !last:
					R.Bad(rule, construct, P.Pos(st), "the initialisation flag is published before the initialisation finished (fields are written after the store): a concurrent reader sees the flag and reads half-built state")
				default:
					R.OK(rule, construct, P.Pos(st), "published under the mutex after all writes")
				}
			}
		}
	}
	if len(locs) == 0 {
		R.Unk(rule, "atomic locations", "", "no atomically accessed location found")
	}
}

// R-ONCE-GUARD: state written inside once.Do(func(){…}) is read only after the once.
func (c *Ctx) ruleOnceGuard(rule string, pkgs []string, floor int) {
	R, P := c.R, c.P
	R.Rule(rule, "for every once.Do(func(){…}) the fields and captured variables assigned inside the closure are, outside it, only accessed through the value returned by the method that runs the once (`p.lazyInit().f`) or at sites dominated by the once.Do call; they are assigned nowhere else", floor)
	type onceInfo struct {
		fi      *FuncInfo
		call    *ast.CallExpr
		lit     *ast.FuncLit
		written map[types.Object]bool
	}
	var onces []onceInfo
	lazyMethods := map[string]bool{} // methods whose body runs a once.Do and returns the receiver
	for _, pkg := range pkgs {
		for _, fi := range P.FuncsIn(pkg) {
			if fi.Decl.Body == nil {
				continue
			}
			info := fi.Info()
			walkAll(fi.Decl.Body, func(n ast.Node) bool {
				call, ok := n.(*ast.CallExpr)
				if !ok || calleeKey(info, call) != "sync.(*Once).Do" || len(call.Args) != 1 {
					return true
				}
				lit, ok := unparen(call.Args[0]).(*ast.FuncLit)
				if !ok {
					R.Unk(rule, fi.Key+" once.Do", P.Pos(call), "once.Do argument is not a function literal")
					return true
				}
				oi := onceInfo{fi: fi, call: call, lit: lit, written: map[types.Object]bool{}}
				walkAll(lit.Body, func(x ast.Node) bool {
					if as, ok := x.(*ast.AssignStmt); ok {
						for _, l := range as.Lhs {
							switch lv := unparen(l).(type) {
							case *ast.SelectorExpr:
								if v, ok := info.Uses[lv.Sel].(*types.Var); ok && v.IsField() {
									if rid := rootIdent(lv); rid != nil && objOf(info, rid) == recvObj(info, fi) {
										oi.written[v] = true
									}
								}
							case *ast.Ident:
								if o := info.Uses[lv]; o != nil && (o.Pos() < lit.Pos() || o.Pos() > lit.End()) {
									if _, isVar := o.(*types.Var); isVar {
										oi.written[o] = true
									}
								}
							}
						}
					}
					return true
				})
				onces = append(onces, oi)
				if fi.Decl.Recv != nil {
					lazyMethods[fi.Key] = true
				}
				return true
			})
		}
	}
	for _, oi := range onces {
		var names []string
		for o := range oi.written {
			names = append(names, o.Name())
		}
		sort.Strings(names)
		construct := oi.fi.Key + " once{" + strings.Join(names, ",") + "}"
		bad := ""
		for _, pkg := range pkgs {
			for _, fi := range P.FuncsIn(pkg) {
				if fi.Decl.Body == nil {
					continue
				}
				info := fi.Info()
				var g *FCFG
				var stack []ast.Node
				ast.Inspect(fi.Decl.Body, func(n ast.Node) bool {
					if n == nil {
						stack = stack[:len(stack)-1]
						return false
					}
					stack = append(stack, n)
					id, ok := n.(*ast.Ident)
					if !ok || !oi.written[info.Uses[id]] || bad != "" {
						return true
					}
					if id.Pos() >= oi.lit.Pos() && id.End() <= oi.lit.End() {
						return true // inside the once closure
					}
					if _, ok := constructionPhase[fi.Key]; ok {
						return true // reviewed construction-phase function
					}
					// field selected from the result of a lazy method call?
					if len(stack) >= 2 {
						if se, ok := stack[len(stack)-2].(*ast.SelectorExpr); ok && se.Sel == id {
							if call, ok := unparen(se.X).(*ast.CallExpr); ok && lazyMethods[calleeKey(info, call)] {
								return true
							}
						}
					}
					// dominated by the once.Do call or a lazy-method call in this function (or enclosing literal)
					if g == nil {
						g = fi.CFG()
					}
					site := ast.Node(id)
					dom := func(gr *FCFG) bool {
						return gr.DominatedByNode(site, func(x ast.Node) bool {
							if containsNode(x, oi.call) {
								return true
							}
							found := false
							walk(x, func(y ast.Node) bool {
								if call, ok := y.(*ast.CallExpr); ok && lazyMethods[calleeKey(info, call)] {
									found = true
								}
								return true
							})
							return found
						})
					}
					if _, ok := g.posOf(site); ok && dom(g) {
						return true
					}
					// inside a function literal: use that literal's own CFG
					for i := len(stack) - 1; i >= 0; i-- {
						if fl, ok := stack[i].(*ast.FuncLit); ok {
							if dom(newCFG(fl.Body, info)) {
								return true
							}
							break
						}
					}
					bad = P.Pos(id) + " (" + fi.Key + ")"
					return true
				})
			}
		}
		if bad != "" {
			R.Bad(rule, construct, bad, "state initialised under this sync.Once is accessed at "+bad+" without going through the once: a concurrent first use can read it half-built or write it twice")
		} else {
			R.OK(rule, construct, P.Pos(oi.call), "accessed only through the once")
		}
	}
}

// R-CLOSURE-SHARED-WRITE: a function literal that outlives its creator
// (stored in a field, returned) and may be called from several goroutines
// writes captured variables only inside once.Do or with a mutex held.
func (c *Ctx) ruleClosureSharedWrite(rule string, pkgs []string, floor int) {
	R, P := c.R, c.P
	R.Rule(rule, "a function literal stored into a struct field or returned (it outlives its creator and can run on several goroutines) assigns captured variables only inside a once.Do closure or with a mutex held", floor)
	for _, pkg := range pkgs {
		for _, fi := range P.FuncsIn(pkg) {
			if fi.Decl.Body == nil {
				continue
			}
			info := fi.Info()
			k := 0
			var stack []ast.Node
			ast.Inspect(fi.Decl.Body, func(n ast.Node) bool {
				if n == nil {
					stack = stack[:len(stack)-1]
					return false
				}
				stack = append(stack, n)
				fl, ok := n.(*ast.FuncLit)
				if !ok || len(stack) < 2 {
					return true
				}
				escapes := false
				switch par := stack[len(stack)-2].(type) {
				case *ast.AssignStmt:
					for i, r := range par.Rhs {
						if r == ast.Expr(fl) && i < len(par.Lhs) {
							if _, isSel := unparen(par.Lhs[i]).(*ast.SelectorExpr); isSel {
								escapes = true
							}
						}
					}
				case *ast.ReturnStmt:
					escapes = true
				case *ast.KeyValueExpr:
					escapes = true
				}
				if !escapes {
					return true
				}
				k++
				bad := ""
				g := newCFG(fl.Body, info)
				walk(fl.Body, func(x ast.Node) bool {
					var targets []ast.Expr
					switch v := x.(type) {
					case *ast.AssignStmt:
						if v.Tok == token.DEFINE {
							return true
						}
						targets = v.Lhs
					case *ast.IncDecStmt:
						targets = []ast.Expr{v.X}
					default:
						return true
					}
					for _, t := range targets {
						id, ok := unparen(t).(*ast.Ident)
						if !ok {
							continue
						}
						o := info.Uses[id]
						if o == nil || (o.Pos() >= fl.Pos() && o.Pos() <= fl.End()) {
							continue // declared inside the literal
						}
						if _, isVar := o.(*types.Var); !isVar {
							continue
						}
						if !g.DominatedByNode(x, func(y ast.Node) bool { return isLockCall(info, y) }) {
							bad = P.Pos(x) + " `" + id.Name + "`"
						}
					}
					return true
				})
				construct := fi.Key + " escaping literal #" + itoa(k)
				if bad != "" {
					R.Bad(rule, construct, P.Pos(fl), "captured variable assigned at "+bad+" outside once.Do and without a mutex: concurrent callers of this stored closure race on it")
				} else {
					R.OK(rule, construct, P.Pos(fl), "no unsynchronised write to captured state")
				}
				return true
			})
		}
	}
}

// R-SENTINEL-ASSERT: values loaded from a sync.Map that may hold an
// in-progress placeholder are asserted to their final type with a checked
// comma-ok (a failed assertion to a basic type yields its zero value, which
// is indistinguishable from a real answer).
func (c *Ctx) ruleSentinelAssert(rule string, pkgs []string, floor int) {
	R, P := c.R, c.P
	R.Rule(rule, "in functions that Load from a sync.Map, every type assertion of the loaded value to a basic type (bool, integers, string) uses the comma-ok form and tests ok before the value is used", floor)
	for _, pkg := range pkgs {
		for _, fi := range P.FuncsIn(pkg) {
			if fi.Decl.Body == nil {
				continue
			}
			info := fi.Info()
			if containsCall(info, fi.Decl.Body, "sync.(*Map).Load", "sync.(*Map).LoadOrStore") == nil {
				continue
			}
			k := 0
			walkAll(fi.Decl.Body, func(n ast.Node) bool {
				ta, ok := n.(*ast.TypeAssertExpr)
				if !ok || ta.Type == nil {
					return true
				}
				if _, isBasic := info.TypeOf(ta.Type).Underlying().(*types.Basic); !isBasic {
					return true
				}
				k++
				construct := fi.Key + " assertion #" + itoa(k) + " to " + exprStr(ta.Type)
				// find the statement: must be `x, ok := v.(T)` with ok tested in an if condition
				good := false
				walkAll(fi.Decl.Body, func(x ast.Node) bool {
					var as *ast.AssignStmt
					var cond ast.Expr
					switch v := x.(type) {
					case *ast.IfStmt:
						if a, ok := v.Init.(*ast.AssignStmt); ok {
							as, cond = a, v.Cond
						}
					case *ast.AssignStmt:
						as = v
					}
					if as == nil || len(as.Rhs) != 1 || unparen(as.Rhs[0]) != ast.Expr(ta) || len(as.Lhs) != 2 {
						return true
					}
					okID, isID := as.Lhs[1].(*ast.Ident)
					if !isID || okID.Name == "_" {
						return true
					}
					okObj := objOf(info, okID)
					uses := func(e ast.Node) bool { return e != nil && usesObj(info, e, okObj) }
					if uses(cond) {
						good = true
					}
					if cond == nil {
						// plain statement: ok must appear in a later condition or return expression
						walkAll(fi.Decl.Body, func(y ast.Node) bool {
							switch w := y.(type) {
							case *ast.IfStmt:
								if uses(w.Cond) {
									good = true
								}
							case *ast.ReturnStmt:
								for _, r := range w.Results {
									if uses(r) {
										good = true
									}
								}
							}
							return true
						})
					}
					return true
				})
				R.Check(good, rule, construct, P.Pos(ta), "comma-ok with ok tested", "the assertion's ok result is discarded: an in-progress placeholder stored in the map is read as a definitive zero value")
				return true
			})
		}
	}
}

// R-L2-VIA-LAZY: the lazily built second level of descriptors (X.L2) is
// written by the builder under File.mu and must be read only through the
// lazyInit methods, which synchronise with that initialisation.
func (c *Ctx) ruleL2ViaLazy(rule string) {
	R, P := c.R, c.P
	R.Rule(rule, "in internal/filedesc every selection of a descriptor's L2 field outside the builder (functions reachable from File.lazyInitOnce / Builder.Build) is the return value of a lazyInit method that first synchronises with File.lazyInit, or is listed as eagerly initialised", 5)
	const pkg = "internal/filedesc"
	callers := c.staticCallers([]string{pkg})
	_ = callers
	// builder set: static reachability inside the package
	callees := map[string][]string{}
	for _, fi := range P.FuncsIn(pkg) {
		if fi.Decl.Body == nil {
			continue
		}
		info := fi.Info()
		walkAll(fi.Decl.Body, func(n ast.Node) bool {
			if call, ok := n.(*ast.CallExpr); ok {
				if k := calleeKey(info, call); strings.HasPrefix(k, pkg+".") {
					callees[fi.Key] = append(callees[fi.Key], k)
				}
			}
			return true
		})
	}
	builder := map[string]bool{}
	var visit func(k string)
	visit = func(k string) {
		if builder[k] {
			return
		}
		builder[k] = true
		for _, n := range callees[k] {
			visit(n)
		}
	}
	for _, root := range []string{pkg + ".(*File).lazyInitOnce", pkg + ".Builder.Build"} {
		if c.need(rule, root) != nil {
			visit(root)
		}
	}
	// lazyInit methods themselves are not part of the builder even if reachable
	exempt := map[string]string{
		pkg + ".(*Enum).Values": "read under ed.L1.eagerValues: for such enums L2 is allocated and filled when the file is first built (unmarshalSeed), before the descriptor is published",
	}
	for _, fi := range P.FuncsIn(pkg) {
		if fi.Decl.Body == nil {
			continue
		}
		isLazy := fi.Obj.Name() == "lazyInit"
		if builder[fi.Key] && !isLazy {
			continue
		}
		info := fi.Info()
		k := 0
		walkAll(fi.Decl.Body, func(n ast.Node) bool {
			se, ok := n.(*ast.SelectorExpr)
			if !ok || se.Sel.Name != "L2" {
				return true
			}
			if v, ok := info.Uses[se.Sel].(*types.Var); !ok || !v.IsField() {
				return true
			}
			k++
			construct := fi.Key + " L2 read #" + itoa(k)
			if why, ok := exempt[fi.Key]; ok {
				g := fi.CFG()
				if g.DominatedByCond(se, func(core ast.Expr, val bool) bool {
					_, f, isF := fieldSel(info, core)
					return isF && f == "eagerValues" && val
				}) {
					R.Exempt(rule, construct, P.Pos(se), why)
					return true
				}
			}
			if isLazy {
				g := fi.CFG()
				sync := g.DominatedByNode(se, func(x ast.Node) bool {
					return containsCall(info, x, pkg+".(*File).lazyInit", pkg+".(*File).lazyInitOnce") != nil || containsCall(info, x, "sync/atomic.LoadUint32") != nil
				})
				R.Check(sync, rule, construct, P.Pos(se), "read after synchronising with File.lazyInit", "lazyInit returns L2 without first synchronising with the file's lazy initialisation")
				return true
			}
			R.Bad(rule, construct, P.Pos(se), "L2 is read directly instead of through lazyInit(): a concurrent first use reads it before (or while) the builder fills it")
			return true
		})
	}
}

// R-INIT-BEFORE-USE: MessageInfo's tables are built lazily by initOnce. A
// function outside the builder that reads one of those tables through a
// *MessageInfo must have synchronised with the initialisation first: mi.init()
// dominates the read, or the function is only called (statically, within the
// package) from sites where that holds, or it is stored in a table that is
// itself only installed by the builder (so it cannot run before init finished).
func (c *Ctx) ruleInitBeforeUse(rule string, exempt map[string]string, floor int) {
	R, P := c.R, c.P
	R.Rule(rule, "every read of a lazily built MessageInfo table (a field assigned by code reachable from initOnce) outside the builder happens after mi.init(): init() dominates it in the same function, or every static caller reaches the function after init(); reviewed exceptions listed", floor)
	const pkg = "internal/impl"
	callees := map[string][]string{}
	callers := c.staticCallers([]string{pkg})
	for _, fi := range P.FuncsIn(pkg) {
		if fi.Decl.Body == nil {
			continue
		}
		info := fi.Info()
		// calls made by the function itself; calls inside function literals run
		// later (the literals are stored in coder/accessor tables), not during the build
		walk(fi.Decl.Body, func(n ast.Node) bool {
			if call, ok := n.(*ast.CallExpr); ok {
				if k := calleeKey(info, call); strings.HasPrefix(k, pkg+".") {
					callees[fi.Key] = append(callees[fi.Key], k)
				}
			}
			return true
		})
	}
	builder := map[string]bool{}
	var visit func(k string)
	visit = func(k string) {
		if builder[k] {
			return
		}
		builder[k] = true
		for _, n := range callees[k] {
			visit(n)
		}
	}
	if c.need(rule, pkg+".(*MessageInfo).initOnce") == nil {
		return
	}
	visit(pkg + ".(*MessageInfo).initOnce")
	delete(builder, pkg+".(*MessageInfo).init")
	// W: MessageInfo-reachable fields assigned in the builder through a *MessageInfo receiver/param
	isMI := func(t types.Type) bool { return namedTypeName(t) == pkg+".MessageInfo" }
	W := map[types.Object]bool{}
	for k := range builder {
		fi := P.Func(k)
		if fi == nil || fi.Decl.Body == nil {
			continue
		}
		info := fi.Info()
		walkAll(fi.Decl.Body, func(n ast.Node) bool {
			as, ok := n.(*ast.AssignStmt)
			if !ok {
				return true
			}
			for _, l := range as.Lhs {
				se, ok := unparen(l).(*ast.SelectorExpr)
				if !ok {
					continue
				}
				if isMI(info.TypeOf(se.X)) {
					if v, ok := info.Uses[se.Sel].(*types.Var); ok && v.IsField() {
						W[v] = true
					}
				}
			}
			return true
		})
	}
	if len(W) < 10 {
		R.Unk(rule, "lazily built tables", "", "fewer than 10 MessageInfo fields are assigned by the builder: anchor drifted")
		return
	}
	initDominates := func(fi *FuncInfo, site ast.Node) bool {
		info := fi.Info()
		g := fi.CFG()
		s := site
		if _, ok := g.posOf(s); !ok {
			walk(fi.Decl.Body, func(x ast.Node) bool {
				if st, ok := x.(ast.Stmt); ok && containsNode(st, site) {
					if _, ok := g.posOf(st); ok {
						s = st
					}
				}
				return true
			})
		}
		return g.DominatedByNode(s, func(n ast.Node) bool {
			return containsCall(info, n, pkg+".(*MessageInfo).init") != nil
		})
	}
	lastUnsafe := ""
	var safeAt func(fi *FuncInfo, site ast.Node, depth int, seen map[string]bool) bool
	safeAt = func(fi *FuncInfo, site ast.Node, depth int, seen map[string]bool) bool {
		if builder[fi.Key] {
			return true
		}
		if initDominates(fi, site) {
			return true
		}
		if depth >= 6 {
			lastUnsafe = fi.Key + " (call chain too deep)"
			return false
		}
		if seen[fi.Key] {
			return true // recursion: decided by the other callers
		}
		seen[fi.Key] = true
		cs := callers[fi.Key]
		if len(cs) == 0 {
			lastUnsafe = fi.Key + " (no init() and no static caller)"
			return false
		}
		for _, cc := range cs {
			if !safeAt(cc.fi, cc.call, depth+1, seen) {
				return false
			}
		}
		return true
	}
	for _, fi := range P.FuncsIn(pkg) {
		if fi.Decl.Body == nil || builder[fi.Key] {
			continue
		}
		info := fi.Info()
		var first ast.Node
		n := 0
		walkAll(fi.Decl.Body, func(x ast.Node) bool {
			se, ok := x.(*ast.SelectorExpr)
			if !ok || !isMI(info.TypeOf(se.X)) {
				return true
			}
			if v, ok := info.Uses[se.Sel].(*types.Var); ok && W[v] {
				n++
				if first == nil || !initDominates(fi, first) {
					if !initDominates(fi, se) {
						first = se
					} else if first == nil {
						first = se
					}
				}
			}
			return true
		})
		if n == 0 {
			continue
		}
		construct := fi.Key
		if why, ok := exempt[fi.Key]; ok {
			R.Exempt(rule, construct, P.Pos(fi.Decl), why)
			continue
		}
		// check every read
		bad := ""
		walkAll(fi.Decl.Body, func(x ast.Node) bool {
			se, ok := x.(*ast.SelectorExpr)
			if !ok || !isMI(info.TypeOf(se.X)) || bad != "" {
				return true
			}
			if v, ok := info.Uses[se.Sel].(*types.Var); ok && W[v] {
				if !safeAt(fi, se, 0, map[string]bool{}) {
					bad = P.Pos(se) + " ." + se.Sel.Name + " [reached via " + lastUnsafe + "]"
				}
			}
			return true
		})
		if bad != "" {
			R.Bad(rule, construct, bad, "a lazily built MessageInfo table is read at "+bad+" on a path that has not called mi.init(): concurrent first use reads it while initOnce is filling it")
		} else {
			R.OK(rule, construct, P.Pos(fi.Decl), itoa(n)+" table reads, all after init()")
		}
	}
}
