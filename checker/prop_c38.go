package main

import (
	"go/ast"
	"go/token"
	"go/types"
	"strings"
)

func init() {
	register(&Property{
		ID:         "C38",
		Level:      "other",
		Technique:  "sibling agreement of the two feature-resolution implementations (per resolved feature: the set of enum values that turn it on), exhaustiveness over the EditionFeatures struct, parent-first merge shape at every call site; ownership rule for the cached defaults (static)",
		Explain:    "Decides structural necessary conditions of feature resolution by inheritance: (1) the compact builder's unmarshalFeatureSet/unmarshalGoFeature (generated code path) and protodesc's mergeEditionFeatures (descriptor-proto path) assign the same set of resolved features, every field of filedesc.EditionFeatures is assigned by both, and for each boolean feature both compare the FeatureSet field against the same set of enum values (e.g. field presence = EXPLICIT or LEGACY_REQUIRED; legacy-required = LEGACY_REQUIRED); (2) every merge is parent-first: the override is applied on top of the features already inherited (the child's own features record initialised from, or the parent descriptor passed to, the merge) so a nearer explicit setting wins and unset features keep the inherited value; (3) the legacy `packed` field option overrides the inherited repeated-field encoding with its value (true or false) in both builders. Also: feature inheritance steps and option promotion as under C37; the cached edition defaults returned by getFeatureSetFor are never a write destination; RequiredNumbers is built from the resolved cardinality.",
		NotCovered: "edition defaults tables (binary defaults blob), the file→message→field initialisation order on concrete schemas, and behavioural equivalence of proto2/proto3 files with their editions translation.",
		Quick:      all("./internal/filedesc", "./reflect/protodesc"),
		Thorough:   all("./..."),
		Run: func(c *Ctx) {
			c.ruleFeatureFields("R-FEATURE-FIELDS")
			c.ruleOptionOverride("R-FEATURE-FIELDS")
			c.ruleFeatureInherit("R-FEATURE-INHERIT", 12)
			c.ruleOptionPromotion("R-OPTION-PROMOTION", 5)
			c.ruleDefaultsImmutable("R-DEFAULTS-IMMUTABLE")
			c.ruleRequiredNumbers("R-REQUIRED-NUMBERS", 2)
		},
	})
}

// featureAssignments: EditionFeatures field → sorted list of enum-value names compared (or "copy").
func (c *Ctx) featureAssignments(fi *FuncInfo) map[string]string {
	info := fi.Info()
	out := map[string]string{}
	walkAll(fi.Decl.Body, func(n ast.Node) bool {
		as, ok := n.(*ast.AssignStmt)
		if !ok || len(as.Lhs) != 1 || len(as.Rhs) != 1 {
			return true
		}
		se, ok := unparen(as.Lhs[0]).(*ast.SelectorExpr)
		if !ok || namedTypeName(info.TypeOf(se.X)) != "internal/filedesc.EditionFeatures" {
			return true
		}
		vals := map[string]bool{}
		walk(as.Rhs[0], func(x ast.Node) bool {
			be, ok := x.(*ast.BinaryExpr)
			if !ok || be.Op != token.EQL {
				return true
			}
			for _, side := range []ast.Expr{be.X, be.Y} {
				if o := objOf(info, side); o != nil {
					if _, isC := o.(*types.Const); isC {
						nm := strings.TrimSuffix(o.Name(), "_enum_value")
						vals[nm] = true
					}
				}
			}
			return true
		})
		if len(vals) == 0 {
			out[se.Sel.Name] = "copy"
		} else {
			out[se.Sel.Name] = strings.Join(sortedSet(vals), " | ")
		}
		return true
	})
	return out
}

func (c *Ctx) ruleFeatureFields(rule string) {
	R, P := c.R, c.P
	R.Rule(rule, "filedesc.unmarshalFeatureSet (+unmarshalGoFeature) and protodesc.mergeEditionFeatures assign every field of filedesc.EditionFeatures, and each boolean feature is defined by comparing against the same set of FeatureSet enum values in both; every call applies the override on top of inherited features", 14)
	fa, fg, fb := c.need(rule, "internal/filedesc.unmarshalFeatureSet"), c.need(rule, "internal/filedesc.unmarshalGoFeature"), c.need(rule, "reflect/protodesc.mergeEditionFeatures")
	if fa == nil || fg == nil || fb == nil {
		return
	}
	a := c.featureAssignments(fa)
	for k, v := range c.featureAssignments(fg) {
		a[k] = v
	}
	b := c.featureAssignments(fb)
	// struct fields
	var fields []string
	if pk := P.Pkg("internal/filedesc"); pk != nil {
		if tn, ok := pk.Types.Scope().Lookup("EditionFeatures").(*types.TypeName); ok {
			if st, ok := tn.Type().Underlying().(*types.Struct); ok {
				for i := 0; i < st.NumFields(); i++ {
					fields = append(fields, st.Field(i).Name())
				}
			}
		}
	}
	if len(fields) < 8 {
		R.Unk(rule, "EditionFeatures", "", "struct not found")
		return
	}
	for _, f := range fields {
		construct := "EditionFeatures." + f
		va, inA := a[f]
		vb, inB := b[f]
		switch {
		case !inA:
			R.Bad(rule, construct, P.Pos(fa.Decl), "the compact builder never resolves this feature from a FeatureSet: generated descriptors keep the inherited value whatever the schema says")
		case !inB:
			R.Bad(rule, construct, P.Pos(fb.Decl), "protodesc never resolves this feature from a FeatureSet: descriptors built from protos keep the inherited value whatever the schema says")
		case va != vb:
			R.Bad(rule, construct, P.Pos(fb.Decl), "the compact builder turns this feature on for {"+va+"} but protodesc for {"+vb+"}: the two descriptor builders disagree on the same schema")
		default:
			R.OK(rule, construct, P.Pos(fb.Decl), "on for {"+va+"} in both")
		}
	}
	// parent-first merges at call sites
	k := 0
	for _, pkg := range []string{"internal/filedesc", "reflect/protodesc"} {
		for _, fi := range P.FuncsIn(pkg) {
			if fi.Decl.Body == nil {
				continue
			}
			info := fi.Info()
			walkAll(fi.Decl.Body, func(n ast.Node) bool {
				as, ok := n.(*ast.AssignStmt)
				if !ok || len(as.Rhs) != 1 || len(as.Lhs) != 1 {
					return true
				}
				call, ok := unparen(as.Rhs[0]).(*ast.CallExpr)
				if !ok {
					return true
				}
				switch calleeKey(info, call) {
				case "internal/filedesc.unmarshalFeatureSet":
					// x = unmarshalFeatureSet(v, x): the override is applied to the value already inherited into x
					k++
					good := len(call.Args) == 2 && exprStr(unparen(call.Args[1])) == exprStr(unparen(as.Lhs[0]))
					R.Check(good, rule, fi.Key+" merge #"+itoa(k), P.Pos(call), "override applied on top of the target's inherited features", "the FeatureSet is merged onto something other than the features the target already inherited: inheritance from the enclosing scope is lost")
				case "reflect/protodesc.mergeEditionFeatures":
					k++
					// first argument: a parent descriptor (parent, or the descriptor itself for defaults→explicit layering)
					t := info.TypeOf(call.Args[0])
					good := t != nil && (types.Implements(t, descIface(P)) || strings.Contains(t.String(), "filedesc."))
					R.Check(good, rule, fi.Key+" merge #"+itoa(k), P.Pos(call), "override applied on top of a parent descriptor's features", "mergeEditionFeatures is not given a descriptor to inherit from")
				}
				return true
			})
		}
	}
}

func descIface(P *Program) *types.Interface {
	if pk := P.ByPath[modPath+"/reflect/protoreflect"]; pk != nil {
		if tn, ok := pk.Types.Scope().Lookup("Descriptor").(*types.TypeName); ok {
			if it, ok := tn.Type().Underlying().(*types.Interface); ok {
				return it
			}
		}
	}
	return types.NewInterfaceType(nil, nil)
}

// legacy option overrides: an explicit `packed` field option overrides the
// inherited repeated-field encoding in both directions, so both descriptor
// builders assign the option's *value* (true or false) whenever it is present.
func (c *Ctx) ruleOptionOverride(rule string) {
	R, P := c.R, c.P
	k := 0
	for _, pkg := range []string{"internal/filedesc", "reflect/protodesc"} {
		for _, fi := range P.FuncsIn(pkg) {
			if fi.Decl.Body == nil {
				continue
			}
			switch fi.Obj.Name() {
			case "unmarshalFeatureSet", "mergeEditionFeatures", "unmarshalGoFeature":
				continue
			}
			info := fi.Info()
			walkAll(fi.Decl.Body, func(n ast.Node) bool {
				as, ok := n.(*ast.AssignStmt)
				if !ok || len(as.Lhs) != 1 || len(as.Rhs) != 1 {
					return true
				}
				se, ok := unparen(as.Lhs[0]).(*ast.SelectorExpr)
				if !ok || se.Sel.Name != "IsPacked" || namedTypeName(info.TypeOf(se.X)) != "internal/filedesc.EditionFeatures" {
					return true
				}
				k++
				_, isConst := constBool(info, as.Rhs[0])
				R.Check(!isConst, rule, fi.Key+" packed option override #"+itoa(k), P.Pos(as), "assigns the option's value", "the explicit `packed` option sets the feature to a constant: `packed = false` (or true) no longer overrides the inherited encoding, so a proto2/proto3 file and its editions translation encode the field differently")
				return true
			})
		}
	}
	if k < 4 {
		R.Unk(rule, "packed option override", "", "expected the four option-override sites of the two descriptor builders; found "+itoa(k))
	}
}
