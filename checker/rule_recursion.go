package main

import (
	"fmt"
	"go/ast"
	"go/token"
	"go/types"
	"os"
	"sort"
	"strings"

	"golang.org/x/tools/go/callgraph"
	"golang.org/x/tools/go/ssa"
)

// R-RECURSION-GUARD
//
// In every input-driven recursion cycle (SCC of the VTA call graph restricted
// to module functions, containing a function that takes decoder input and is
// not append-style), delete every call edge whose call site is dominated in
// the caller by a depth check; what remains must be acyclic.

type recScope struct {
	Rule string
	// Pkgs: an SCC is in scope if one of its functions lives in one of these packages.
	Pkgs []string
	// Exempt: reviewed cycles, keyed by the sorted function list joined with " ".
	// value = reason.
	ExemptFuncs map[string]string
	Floor       int // minimal number of guarded (deleted) edges expected
	// Extra: additional reviewed edge-guard recognisers (each names the idiom it accepts).
	Extra []edgeGuard
	// CutCallees: reviewed callees (ssa names) into which edges are removed, with reason.
	CutCallees map[string]string
}

type edgeGuard func(g *FCFG, caller, callee *ssa.Function, call *ast.CallExpr) (bool, string)

// guardConsumeGroupPayload: the recursive call's []byte argument is the payload
// returned by protowire.ConsumeGroup in the same function (ConsumeGroup bounds
// nesting by DefaultRecursionLimit itself, decided under C02).
func guardConsumeGroupPayload(g *FCFG, caller, callee *ssa.Function, call *ast.CallExpr) (bool, string) {
	for _, a := range call.Args {
		id, ok := unparen(a).(*ast.Ident)
		if !ok {
			continue
		}
		obj := objOf(g.Info, id)
		if obj == nil || !isByteSlice(obj.Type()) {
			continue
		}
		// every assignment to obj in this body must be from ConsumeGroup, and one must dominate
		okAll, any := true, false
		var doms []ast.Node
		walk(g.Body, func(n ast.Node) bool {
			as, ok := n.(*ast.AssignStmt)
			if !ok {
				return true
			}
			for i, l := range as.Lhs {
				lid, ok := l.(*ast.Ident)
				if !ok || objOf(g.Info, lid) != obj {
					continue
				}
				any = true
				if len(as.Rhs) == 1 && i == 0 {
					if _, ok := isCall(g.Info, unparen(as.Rhs[0]), "encoding/protowire.ConsumeGroup"); ok {
						doms = append(doms, as)
						continue
					}
				}
				okAll = false
			}
			return true
		})
		if !any || !okAll || len(doms) == 0 {
			continue
		}
		if g.DominatedByNode(call, func(n ast.Node) bool {
			for _, d := range doms {
				if n == d {
					return true
				}
			}
			return false
		}) {
			return true, "argument `" + id.Name + "` is the payload of a dominating protowire.ConsumeGroup (nesting bounded there)"
		}
	}
	return false, ""
}

// guardDominatedByCall: the call site is dominated by a call to one of keys
// (a pre-scan that enforces the limit on the whole remaining value).
func guardDominatedByCall(why string, keys ...string) edgeGuard {
	return func(g *FCFG, caller, callee *ssa.Function, call *ast.CallExpr) (bool, string) {
		if g.DominatedByNode(call, func(n ast.Node) bool { return containsCall(g.Info, n, keys...) != nil }) {
			return true, why
		}
		return false, ""
	}
}

// guardTailSelfCallOnCond: a self tail call `return f()` dominated by the true
// edge of a condition accepted by condOK.
func guardTailSelfCallOnCond(why string, condOK func(info *types.Info, core ast.Expr) bool) edgeGuard {
	return func(g *FCFG, caller, callee *ssa.Function, call *ast.CallExpr) (bool, string) {
		if caller != callee {
			return false, ""
		}
		tail := false
		walk(g.Body, func(n ast.Node) bool {
			if rs, ok := n.(*ast.ReturnStmt); ok && len(rs.Results) == 1 && unparen(rs.Results[0]) == ast.Expr(call) {
				tail = true
			}
			return true
		})
		if !tail {
			return false, ""
		}
		if g.DominatedByCond(call, func(core ast.Expr, coreTrue bool) bool { return coreTrue && condOK(g.Info, core) }) {
			return true, why
		}
		return false, ""
	}
}

var depthNames = map[string]bool{"RecursionLimit": true, "depth": true, "Depth": true}

// depthExprName returns the terminal name if e is a depth expression
// (identifier or field selector named depth/RecursionLimit).
func depthExprName(e ast.Expr) (string, bool) {
	switch x := unparen(e).(type) {
	case *ast.Ident:
		if depthNames[x.Name] {
			return x.Name, true
		}
	case *ast.SelectorExpr:
		if depthNames[x.Sel.Name] {
			return exprStr(x), true
		}
	}
	return "", false
}

// siteGuarded reports whether the call expression is dominated by a depth
// check in body: a conditional edge on which `X < 0` is false, together with
// a decrement of X that also dominates (or the call passes X-1).
func siteGuarded(c *FCFG, call *ast.CallExpr) (bool, string) {
	// candidates: all X appearing as `X < 0` conditions
	cands := map[string]bool{}
	for _, b := range c.G.Blocks {
		for si := range b.Succs {
			for _, a := range edgeAtoms(b, si) {
				if be, ok := a.E.(*ast.BinaryExpr); ok && be.Op == token.LSS {
					if v, ok := constInt(c.Info, be.Y); ok && v == 0 {
						if name, ok := depthExprName(be.X); ok {
							cands[name] = true
						}
					}
				}
			}
		}
	}
	var names []string
	for n := range cands {
		names = append(names, n)
	}
	sort.Strings(names)
	for _, name := range names {
		condDom := c.DominatedByCond(call, func(core ast.Expr, coreTrue bool) bool {
			be, ok := core.(*ast.BinaryExpr)
			if !ok || be.Op != token.LSS || coreTrue {
				return false
			}
			if v, ok := constInt(c.Info, be.Y); !ok || v != 0 {
				return false
			}
			n, ok := depthExprName(be.X)
			return ok && n == name
		})
		if !condDom {
			continue
		}
		decDom := c.DominatedByNode(call, func(n ast.Node) bool {
			ids, ok := n.(*ast.IncDecStmt)
			if !ok || ids.Tok != token.DEC {
				return false
			}
			nm, ok := depthExprName(ids.X)
			return ok && nm == name
		})
		if decDom {
			return true, "dominated by `" + name + "--` and the false edge of `" + name + " < 0`"
		}
		// call passes X-1
		for _, a := range call.Args {
			if be, ok := unparen(a).(*ast.BinaryExpr); ok && be.Op == token.SUB {
				if v, ok := constInt(c.Info, be.Y); ok && v >= 1 {
					if nm, ok := depthExprName(be.X); ok && nm == name {
						return true, "dominated by the false edge of `" + name + " < 0` and passes `" + exprStr(a) + "`"
					}
				}
			}
		}
	}
	return false, ""
}

func isByteSlice(t types.Type) bool {
	s, ok := t.Underlying().(*types.Slice)
	if !ok {
		return false
	}
	b, ok := s.Elem().Underlying().(*types.Basic)
	return ok && b.Kind() == types.Byte
}

// isAppendResult: []byte or a struct carrying the output buffer (MarshalOutput{Buf []byte}).
func isAppendResult(t types.Type) bool {
	if isByteSlice(t) {
		return true
	}
	if st, ok := t.Underlying().(*types.Struct); ok {
		for i := 0; i < st.NumFields(); i++ {
			if st.Field(i).Name() == "Buf" && isByteSlice(st.Field(i).Type()) {
				return true
			}
		}
	}
	return false
}

func isInputType(t types.Type, depth int) bool {
	if isByteSlice(t) {
		return true
	}
	n := namedTypeName(t)
	switch n {
	case "internal/encoding/json.Decoder", "internal/encoding/text.Decoder":
		return true
	}
	if depth > 1 {
		return false
	}
	if pt, ok := t.(*types.Pointer); ok {
		t = pt.Elem()
	}
	if st, ok := t.Underlying().(*types.Struct); ok {
		// decoder wrapper structs (embedded/explicit Decoder field) and input
		// records (UnmarshalInput{Buf []byte, ...})
		for i := 0; i < st.NumFields(); i++ {
			fn := namedTypeName(st.Field(i).Type())
			if fn == "internal/encoding/json.Decoder" || fn == "internal/encoding/text.Decoder" {
				return true
			}
			if st.Field(i).Name() == "Buf" && isByteSlice(st.Field(i).Type()) {
				return true
			}
		}
	}
	return false
}

func isInputConsumer(f *ssa.Function) bool {
	sig := f.Signature
	recvIsDecoder := sig.Recv() != nil && isInputType(sig.Recv().Type(), 0) && !isByteSlice(sig.Recv().Type())
	if sig.Results().Len() > 0 && !recvIsDecoder {
		r0 := sig.Results().At(0).Type()
		if isAppendResult(r0) {
			return false // append-style encoder
		}
	}
	// (a method of a decoder wrapper that returns []byte — e.g. the re-marshaled
	// payload of an expanded Any — still consumes decoder input)
	if p := f.Parent(); p != nil {
		// a closure inside an append-style encoder captures the output buffer, not input
		outer := p
		for outer.Parent() != nil {
			outer = outer.Parent()
		}
		if rs := outer.Signature.Results(); rs.Len() > 0 {
			r0 := rs.At(0).Type()
			if isAppendResult(r0) {
				return false
			}
		}
	}
	if sig.Recv() != nil && isInputType(sig.Recv().Type(), 0) {
		return true
	}
	for i := 0; i < sig.Params().Len(); i++ {
		if isInputType(sig.Params().At(i).Type(), 0) {
			return true
		}
	}
	// closures: free variables
	for _, fv := range f.FreeVars {
		t := fv.Type()
		if pt, ok := t.(*types.Pointer); ok {
			t = pt.Elem()
		}
		if isInputType(t, 0) {
			return true
		}
	}
	return false
}

type recEdge struct {
	from, to *ssa.Function
	site     ssa.CallInstruction
}

func (c *Ctx) ruleRecursionGuard(sc recScope) {
	R, P := c.R, c.P
	R.Rule(sc.Rule, "every input-driven recursion cycle of the call graph (VTA over CHA, module functions) is cut by call sites dominated by a depth decrement-and-check (`X--; if X < 0 {return}` or `if depth < 0 {return}` + `depth-1`); cycles not cut are violations", sc.Floor)
	cg := P.CallGraph()
	// nodes: module functions only
	nodes := map[*ssa.Function]*callgraph.Node{}
	// Only functions that carry (part of) the input in a parameter, receiver or
	// free variable can be frames of an input-driven recursion: the graph is
	// restricted to them, which removes the spurious cycles VTA creates through
	// generic callbacks (Range/Reset/encoders) that never see the input.
	for f, n := range cg.Nodes {
		if f != nil && isModFunc(f) && isInputConsumer(f) {
			nodes[f] = n
		}
	}
	succ := func(f *ssa.Function) []recEdge {
		var out []recEdge
		n := nodes[f]
		if n == nil {
			return nil
		}
		for _, e := range n.Out {
			if _, ok := nodes[e.Callee.Func]; ok {
				out = append(out, recEdge{f, e.Callee.Func, e.Site})
			}
		}
		return out
	}
	var fl []*ssa.Function
	for f := range nodes {
		fl = append(fl, f)
	}
	sort.Slice(fl, func(i, j int) bool { return fl[i].String() < fl[j].String() })
	sccs := tarjan(fl, func(f *ssa.Function) []*ssa.Function {
		var o []*ssa.Function
		for _, e := range succ(f) {
			o = append(o, e.to)
		}
		return o
	})
	inScopePkg := func(f *ssa.Function) bool {
		for f.Parent() != nil {
			f = f.Parent()
		}
		pp := ""
		if f.Pkg != nil {
			pp = shortPkg(f.Pkg.Pkg.Path())
		} else if f.Object() != nil && f.Object().Pkg() != nil {
			pp = shortPkg(f.Object().Pkg().Path())
		}
		for _, s := range sc.Pkgs {
			if pp == s {
				return true
			}
		}
		return false
	}
	cfgCache := map[ast.Node]*FCFG{}
	getCFG := func(f *ssa.Function) (*FCFG, bool) {
		syn := f.Syntax()
		var body *ast.BlockStmt
		switch s := syn.(type) {
		case *ast.FuncDecl:
			body = s.Body
		case *ast.FuncLit:
			body = s.Body
		}
		if body == nil {
			return nil, false
		}
		if g, ok := cfgCache[syn]; ok {
			return g, true
		}
		// find types.Info for the function's package
		ff := f
		for ff.Parent() != nil {
			ff = ff.Parent()
		}
		var info *types.Info
		if o := ff.Origin(); o != nil {
			ff = o
		}
		if ff.Pkg != nil {
			if pk := P.ByPath[ff.Pkg.Pkg.Path()]; pk != nil {
				info = pk.TypesInfo
			}
		}
		if info == nil {
			return nil, false
		}
		g := newCFG(body, info)
		cfgCache[syn] = g
		return g, true
	}
	guardedEdges := 0
	sccCount := 0
	cutSeen := map[string]string{}
	defer func() {
		for _, k := range sortedKeys(cutSeen) {
			R.Exempt(sc.Rule, "edge "+k, "", cutSeen[k])
		}
	}()
	for _, scc := range sccs {
		in := map[*ssa.Function]bool{}
		for _, f := range scc {
			in[f] = true
		}
		// nontrivial?
		if len(scc) == 1 {
			self := false
			for _, e := range succ(scc[0]) {
				if e.to == scc[0] {
					self = true
				}
			}
			if !self {
				continue
			}
		}
		scoped, driven := false, false
		for _, f := range scc {
			if inScopePkg(f) {
				scoped = true
			}
			if isInputConsumer(f) {
				driven = true
				if os.Getenv("VERIF_DEBUG") != "" {
					fmt.Fprintln(os.Stderr, "consumer:", ssaFuncName(f), f.Signature)
				}
			}
		}
		if !scoped || !driven {
			continue
		}
		names := make([]string, 0, len(scc))
		for _, f := range scc {
			names = append(names, ssaFuncName(f))
		}
		sort.Strings(names)
		construct := sccName(names)
		if !driven {
			continue
		}
		sccCount++
		// remaining graph after deleting guarded edges
		rem := map[*ssa.Function][]*ssa.Function{}
		var guardNotes []string
		for _, f := range scc {
			g, hasCFG := getCFG(f)
			for _, e := range succ(f) {
				if !in[e.to] {
					continue
				}
				guarded := false
				if why, ok := sc.CutCallees[ssaFuncName(e.to)]; ok {
					guarded = true
					cutSeen[ssaFuncName(e.from)+" -> "+ssaFuncName(e.to)] = why
				}
				if !guarded && hasCFG && e.site != nil {
					if call := findCallAt(g.Body, e.site.Pos()); call != nil {
						ok, why := siteGuarded(g, call)
						for _, eg := range sc.Extra {
							if ok {
								break
							}
							ok, why = eg(g, e.from, e.to, call)
						}
						if ok {
							guarded = true
							guardedEdges++
							R.OK(sc.Rule, "edge "+ssaFuncName(e.from)+" -> "+ssaFuncName(e.to), P.Pos(call), why)
							if len(guardNotes) < 4 {
								guardNotes = append(guardNotes, ssaFuncName(e.from)+"->"+ssaFuncName(e.to))
							}
						}
					}
				}
				if !guarded {
					rem[f] = append(rem[f], e.to)
				}
			}
		}
		// check acyclicity of rem
		sub := tarjan(scc, func(f *ssa.Function) []*ssa.Function { return rem[f] })
		cyclic := false
		for _, s2 := range sub {
			isCyc := len(s2) > 1
			if len(s2) == 1 {
				for _, t := range rem[s2[0]] {
					if t == s2[0] {
						isCyc = true
					}
				}
			}
			if !isCyc {
				continue
			}
			var n2 []string
			cycDriven, cycScoped := false, false
			for _, f := range s2 {
				n2 = append(n2, ssaFuncName(f))
				if isInputConsumer(f) {
					cycDriven = true
					if inScopePkg(f) {
						cycScoped = true // an input consumer of the property's own packages
					}
				}
			}
			if !cycDriven || !cycScoped {
				continue
			}
			sort.Strings(n2)
			key := strings.Join(n2, " ")
			pos := ""
			if len(s2) > 0 {
				pos = P.PosOf(s2[0].Pos())
			}
			if why, ok := sc.ExemptFuncs[key]; ok {
				R.Exempt(sc.Rule, "cycle "+sccName(n2), pos, why)
				continue
			}
			cyclic = true
			if os.Getenv("VERIF_DEBUG") != "" {
				// print a shortest cycle through the first consumer
				inS := map[*ssa.Function]bool{}
				for _, f := range s2 {
					inS[f] = true
				}
				for _, start := range s2 {
					if !isInputConsumer(start) {
						continue
					}
					prev := map[*ssa.Function]*ssa.Function{}
					q := []*ssa.Function{start}
					var last *ssa.Function
				bfs:
					for len(q) > 0 {
						x := q[0]
						q = q[1:]
						for _, t := range rem[x] {
							if !inS[t] {
								continue
							}
							if t == start {
								last = x
								break bfs
							}
							if _, ok := prev[t]; !ok {
								prev[t] = x
								q = append(q, t)
							}
						}
					}
					if last != nil {
						var path []string
						for x := last; x != nil && x != start; x = prev[x] {
							path = append(path, ssaFuncName(x))
						}
						fmt.Fprintln(os.Stderr, "CYCLE via", ssaFuncName(start))
						for i := len(path) - 1; i >= 0; i-- {
							fmt.Fprintln(os.Stderr, "   ->", path[i])
						}
						break
					}
				}
			}
			R.Bad(sc.Rule, "cycle "+sccName(n2), pos, fmt.Sprintf("input-driven recursion cycle with no dominating depth check on any edge: %s", truncList(n2, 60)))
		}
		if !cyclic {
			R.OK(sc.Rule, "scc "+construct, "", fmt.Sprintf("%d functions; acyclic after removing depth-guarded edges (%s)", len(scc), strings.Join(guardNotes, ", ")))
		}
	}
	_ = sccCount
}

func sccName(sorted []string) string {
	if len(sorted) <= 3 {
		return "{" + strings.Join(sorted, ", ") + "}"
	}
	return fmt.Sprintf("{%s, %s, … %d funcs}", sorted[0], sorted[1], len(sorted))
}

func truncList(s []string, n int) string {
	if len(s) <= n {
		return strings.Join(s, ", ")
	}
	return strings.Join(s[:n], ", ") + fmt.Sprintf(", … (%d total)", len(s))
}

func findCallAt(body *ast.BlockStmt, lparen token.Pos) *ast.CallExpr {
	var found *ast.CallExpr
	walk(body, func(n ast.Node) bool {
		if found != nil {
			return false
		}
		if c, ok := n.(*ast.CallExpr); ok && c.Lparen == lparen {
			found = c
			return false
		}
		return true
	})
	return found
}

// tarjan computes SCCs in deterministic order.
func tarjan(nodes []*ssa.Function, succ func(*ssa.Function) []*ssa.Function) [][]*ssa.Function {
	index := map[*ssa.Function]int{}
	low := map[*ssa.Function]int{}
	on := map[*ssa.Function]bool{}
	inSet := map[*ssa.Function]bool{}
	for _, n := range nodes {
		inSet[n] = true
	}
	var stack []*ssa.Function
	var out [][]*ssa.Function
	idx := 0
	type frame struct {
		v    *ssa.Function
		succ []*ssa.Function
		i    int
	}
	for _, root := range nodes {
		if _, ok := index[root]; ok {
			continue
		}
		var fs []*frame
		push := func(v *ssa.Function) {
			index[v] = idx
			low[v] = idx
			idx++
			stack = append(stack, v)
			on[v] = true
			fs = append(fs, &frame{v: v, succ: succ(v)})
		}
		push(root)
		for len(fs) > 0 {
			f := fs[len(fs)-1]
			if f.i < len(f.succ) {
				w := f.succ[f.i]
				f.i++
				if !inSet[w] {
					continue
				}
				if _, ok := index[w]; !ok {
					push(w)
				} else if on[w] {
					if index[w] < low[f.v] {
						low[f.v] = index[w]
					}
				}
				continue
			}
			fs = fs[:len(fs)-1]
			if len(fs) > 0 {
				p := fs[len(fs)-1]
				if low[f.v] < low[p.v] {
					low[p.v] = low[f.v]
				}
			}
			if low[f.v] == index[f.v] {
				var comp []*ssa.Function
				for {
					w := stack[len(stack)-1]
					stack = stack[:len(stack)-1]
					on[w] = false
					comp = append(comp, w)
					if w == f.v {
						break
					}
				}
				out = append(out, comp)
			}
		}
	}
	return out
}

// guardFreshFieldCoder: the call is X.funcs.unmarshal(...) where X is a local
// struct copy whose funcs were assigned from fieldCoder(...) in the enclosing
// declaration; fieldCoder returns package-level coders or make*FieldCoder
// literals, never the oneof dispatch wrapper itself, so the self edge VTA
// reports (all values stored in any funcs.unmarshal slot) is infeasible.
func guardFreshFieldCoder(P *Program) edgeGuard {
	return func(g *FCFG, caller, callee *ssa.Function, call *ast.CallExpr) (bool, string) {
		if caller != callee || caller.Parent() == nil {
			return false, ""
		}
		se, ok := unparen(call.Fun).(*ast.SelectorExpr) // X.funcs.unmarshal
		if !ok {
			return false, ""
		}
		inner, ok := unparen(se.X).(*ast.SelectorExpr) // X.funcs
		if !ok || inner.Sel.Name != "funcs" {
			return false, ""
		}
		xid, ok := unparen(inner.X).(*ast.Ident)
		if !ok {
			return false, ""
		}
		obj := objOf(g.Info, xid)
		if obj == nil {
			return false, ""
		}
		if _, isPtr := obj.Type().(*types.Pointer); isPtr {
			return false, "" // must be a by-value copy
		}
		parentSyn, _ := caller.Parent().Syntax().(*ast.FuncDecl)
		if parentSyn == nil || parentSyn.Body == nil {
			return false, ""
		}
		okAssign := false
		walkAll(parentSyn.Body, func(n ast.Node) bool {
			as, ok := n.(*ast.AssignStmt)
			if !ok || len(as.Rhs) != 1 {
				return true
			}
			rc, ok := unparen(as.Rhs[0]).(*ast.CallExpr)
			if !ok || calleeKey(g.Info, rc) != "internal/impl.fieldCoder" {
				return true
			}
			for _, l := range as.Lhs {
				if ls, ok := unparen(l).(*ast.SelectorExpr); ok && ls.Sel.Name == "funcs" {
					if lid, ok := unparen(ls.X).(*ast.Ident); ok && objOf(g.Info, lid) == obj {
						okAssign = true
					}
				}
			}
			return true
		})
		if okAssign {
			return true, "callee slot was filled from fieldCoder(...) on a by-value copy; the self edge is a VTA field-merging artefact"
		}
		return false, ""
	}
}
