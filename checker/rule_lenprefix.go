package main

import (
	"go/ast"
	"go/token"
	"go/types"
)

// R-LENPREFIX-CONSISTENT: a varint length prefix that is written immediately
// before raw appends has to declare exactly the number of bytes appended. The
// lengths are normalised to linear forms over len(<slice on entry>) and integer
// locals (sub-slices x[lo:hi] contribute hi-lo), so algebraically equivalent
// rewrites pass and a prefix that still counts a stripped old prefix does not.
func (c *Ctx) ruleLenPrefixConsistent(rule string, pkgs []string, floor int) {
	R, P := c.R, c.P
	R.Rule(rule, "for every buffer built as AppendVarint(buf, uint64(L)) followed, up to the end of the block, only by raw appends to that buffer: L equals the sum of the lengths of the appended slices (linear forms over entry lengths)", floor)
	for _, pkg := range pkgs {
		for _, fi := range P.FuncsIn(pkg) {
			if fi.Decl.Body == nil {
				continue
			}
			info := fi.Info()
			k := 0
			walkAll(fi.Decl.Body, func(n ast.Node) bool {
				var list []ast.Stmt
				switch x := n.(type) {
				case *ast.BlockStmt:
					list = x.List
				case *ast.CaseClause:
					list = x.Body
				default:
					return true
				}
				env := &linEnv{info: info, vars: map[types.Object]linForm{}, lenB: map[types.Object]linForm{}}
				lenOf := func(e ast.Expr) (linForm, bool) {
					var f func(e ast.Expr) (linForm, bool)
					f = func(e ast.Expr) (linForm, bool) {
						switch x := unparen(e).(type) {
						case *ast.Ident:
							if x.Name == "nil" {
								return linConst(0), true
							}
							o := info.Uses[x]
							if l, ok := env.lenB[o]; ok {
								return l, true
							}
							return linTerm("len(" + x.Name + ")"), true
						case *ast.SliceExpr:
							lo, hi := linConst(0), linForm{}
							ok := true
							if x.Low != nil {
								lo, ok = env.eval(x.Low)
							}
							if !ok {
								return linForm{}, false
							}
							if x.High != nil {
								hi, ok = env.eval(x.High)
							} else {
								hi, ok = f(x.X)
							}
							if !ok {
								return linForm{}, false
							}
							return hi.add(lo, -1), true
						}
						return linForm{}, false
					}
					return f(e)
				}
				// len(x) inside integer expressions goes through lenB; seed unknown slices lazily
				seed := func(e ast.Expr) {
					walk(e, func(m ast.Node) bool {
						if call, ok := m.(*ast.CallExpr); ok && calleeKey(info, call) == "builtin.len" && len(call.Args) == 1 {
							if id, ok := unparen(call.Args[0]).(*ast.Ident); ok {
								if o := info.Uses[id]; o != nil {
									if _, ok := env.lenB[o]; !ok {
										env.lenB[o] = linTerm("len(" + id.Name + ")")
									}
								}
							}
						}
						return true
					})
				}
				var buf types.Object
				var declared, payload linForm
				var prefixPos ast.Node
				active, broken := false, ""
				nApp := 0
				objOfLhs := func(e ast.Expr) types.Object {
					if id, ok := unparen(e).(*ast.Ident); ok {
						if o := info.Defs[id]; o != nil {
							return o
						}
						return info.Uses[id]
					}
					return nil
				}
				// returns (isPrefixCall, dst arg, L)
				asPrefix := func(e ast.Expr) (*ast.CallExpr, bool) {
					call, ok := unparen(e).(*ast.CallExpr)
					if !ok || calleeKey(info, call) != "encoding/protowire.AppendVarint" || len(call.Args) != 2 {
						return nil, false
					}
					return call, true
				}
				asAppend := func(e ast.Expr) (*ast.CallExpr, bool) {
					call, ok := unparen(e).(*ast.CallExpr)
					if !ok || calleeKey(info, call) != "builtin.append" || len(call.Args) != 2 || !call.Ellipsis.IsValid() {
						return nil, false
					}
					return call, true
				}
				finish := func(at ast.Node) {
					if !active {
						return
					}
					active = false
					if nApp == 0 {
						return // a varint that is not followed by raw appends is not a length prefix
					}
					k++
					key := fi.Key + " length prefix#" + itoa(k)
					if broken != "" {
						R.Unk(rule, key, P.Pos(prefixPos), broken)
						return
					}
					diff := declared.add(payload, -1)
					R.Check(diff.isConst() && diff.c == 0, rule, key, P.Pos(prefixPos), "prefix "+declared.String()+" = appended "+payload.String(), "the length prefix declares "+declared.String()+" bytes but "+payload.String()+" bytes are appended after it: the reader takes the following bytes of the stream for payload (or stops short), so the merged record no longer parses")
				}
				startPrefix := func(call *ast.CallExpr, at ast.Node) {
					seed(call.Args[1])
					l, ok := env.eval(call.Args[1])
					active, broken, prefixPos = true, "", at
					nApp = 0
					declared, payload = l, linConst(0)
					if !ok {
						broken = "length expression `" + exprStr(call.Args[1]) + "` is not linear in slice lengths"
					}
				}
				addPayload := func(call *ast.CallExpr) {
					nApp++
					l, ok := lenOf(call.Args[1])
					if !ok {
						broken = "appended slice `" + exprStr(call.Args[1]) + "` has no linear length"
						return
					}
					payload = payload.add(l, 1)
				}
				for _, st := range list {
					switch x := st.(type) {
					case *ast.AssignStmt:
						if len(x.Lhs) == 1 && len(x.Rhs) == 1 {
							lo := objOfLhs(x.Lhs[0])
							if call, ok := asPrefix(x.Rhs[0]); ok {
								finish(st)
								startPrefix(call, st)
								buf = lo
								continue
							}
							if call, ok := asAppend(x.Rhs[0]); ok && active {
								if id, ok := unparen(call.Args[0]).(*ast.Ident); ok && info.Uses[id] == buf {
									addPayload(call)
									buf = lo
									continue
								}
								if inner, ok := asPrefix(call.Args[0]); ok {
									_ = inner
								}
							}
							// other assignment: track slice lengths and integer locals
							if active && lo == buf {
								finish(st)
							}
							if lo != nil {
								if _, isSlice := lo.Type().Underlying().(*types.Slice); isSlice {
									seed(x.Rhs[0])
									if l, ok := lenOf(x.Rhs[0]); ok {
										env.lenB[lo] = l
									} else if mk, ok := unparen(x.Rhs[0]).(*ast.CallExpr); ok && calleeKey(info, mk) == "builtin.make" && len(mk.Args) >= 2 {
										if l, ok := env.eval(mk.Args[1]); ok {
											env.lenB[lo] = l
										}
									} else {
										env.lenB[lo] = linTerm("len(" + lo.Name() + "@" + itoa(int(st.Pos())) + ")")
									}
								}
							}
							continue
						}
						// multi-value assignment: results are opaque
						for _, l := range x.Lhs {
							if lo := objOfLhs(l); lo != nil {
								if active && lo == buf {
									finish(st)
								}
								if _, isSlice := lo.Type().Underlying().(*types.Slice); isSlice {
									env.lenB[lo] = linTerm("len(" + lo.Name() + "@" + itoa(int(st.Pos())) + ")")
								}
							}
						}
					case *ast.ReturnStmt:
						if len(x.Results) == 1 {
							if call, ok := asAppend(x.Results[0]); ok {
								if inner, ok := asPrefix(call.Args[0]); ok {
									finish(st)
									startPrefix(inner, st)
									addPayload(call)
								} else if id, ok := unparen(call.Args[0]).(*ast.Ident); ok && active && info.Uses[id] == buf {
									addPayload(call)
								}
							}
						}
						finish(st)
					default:
						if active {
							// the buffer may be used by anything else: the run of raw appends ends here
							finish(st)
						}
					}
				}
				finish(nil)
				return true
			})
		}
	}
	_ = token.ADD
}
