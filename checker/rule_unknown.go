package main

import (
	"go/ast"
	"go/token"
	"go/types"
)

// R-UNKNOWN-GUARD: every store into unknown-field storage made by a binary
// decode function is dominated by the DiscardUnknown option being false.
//
// Sinks are discovered, not listed: every call of
// (*MessageInfo).mutableUnknownBytes lexically inside a function that has an
// impl.unmarshalOptions parameter, and every call of
// protoreflect.Message.SetUnknown lexically inside a method of
// proto.UnmarshalOptions.
func (c *Ctx) ruleUnknownGuard(rule string, floor int) {
	R, P := c.R, c.P
	R.Rule(rule, "every unknown-field store in a binary decode function (mutableUnknownBytes under an unmarshalOptions parameter; Message.SetUnknown in proto.UnmarshalOptions methods) is dominated by the false edge of the DiscardUnknown option", floor)
	type sinkSpec struct {
		pkg     string
		callee  string
		inScope func(fi *FuncInfo) bool
	}
	specs := []sinkSpec{
		{"internal/impl", "internal/impl.(*MessageInfo).mutableUnknownBytes", func(fi *FuncInfo) bool {
			sig := fi.Obj.Type().(*types.Signature)
			for i := 0; i < sig.Params().Len(); i++ {
				if namedTypeName(sig.Params().At(i).Type()) == "internal/impl.unmarshalOptions" {
					return true
				}
			}
			return false
		}},
		{"proto", "reflect/protoreflect.Message.SetUnknown", func(fi *FuncInfo) bool {
			sig := fi.Obj.Type().(*types.Signature)
			return sig.Recv() != nil && namedTypeName(sig.Recv().Type()) == "proto.UnmarshalOptions"
		}},
	}
	isDiscard := func(info *types.Info, core ast.Expr) bool {
		switch x := unparen(core).(type) {
		case *ast.CallExpr:
			k := calleeKey(info, x)
			return k == "internal/impl.unmarshalOptions.DiscardUnknown"
		case *ast.SelectorExpr:
			if recv, field, ok := fieldSel(info, x); ok && field == "DiscardUnknown" && (recv == "UnmarshalOptions" || recv == "unmarshalOptions") {
				return true
			}
		}
		return false
	}
	for _, sp := range specs {
		if P.Pkg(sp.pkg) == nil {
			R.Unk(rule, sp.pkg, "", "package not loaded")
			continue
		}
		for _, fi := range P.FuncsIn(sp.pkg) {
			if fi.Decl.Body == nil || !sp.inScope(fi) {
				continue
			}
			info := fi.Info()
			bodies := bodiesOf(fi)
			for _, br := range bodies {
				calls := allCalls(info, br.Body, sp.callee)
				if len(calls) == 0 {
					continue
				}
				g := newCFG(br.Body, info)
				for i, call := range calls {
					name := br.Name + " sink#" + itoa(i+1) + " " + sp.callee
					pass := func(core ast.Expr, coreTrue bool) bool { return !coreTrue && isDiscard(info, core) }
					ok := g.DominatedByCond(call, pass)
					if !ok && br.Lit != nil {
						// the closure as a whole may be guarded in the enclosing body
						for _, outer := range bodies {
							if outer.Body.Pos() <= br.Lit.Pos() && br.Lit.End() <= outer.Body.End() && outer.Body != br.Body {
								og := newCFG(outer.Body, info)
								if og.DominatedByCond(br.Lit, pass) {
									ok = true
								}
							}
						}
					}
					R.Check(ok, rule, name, P.Pos(call),
						"dominated by the false edge of DiscardUnknown",
						"unknown-field bytes are stored on a path that never tests DiscardUnknown: with DiscardUnknown set the decoded message still retains unknown fields")
				}
			}
		}
	}
}

// R-UNKNOWN-PRESERVE: the unknown-field path of each tag loop appends (never
// replaces) the tag re-encoded from the decoded (num, wtyp) followed by exactly
// the bytes measured by ConsumeFieldValue(num, wtyp, b) from the front of b.
func (c *Ctx) ruleUnknownPreserve(rule string) {
	R, P := c.R, c.P
	R.Rule(rule, "in each binary tag loop the unknown path appends to the existing unknown bytes the tag of the decoded (num, wtyp) and exactly b[:n] with n = ConsumeFieldValue(num, wtyp, b) (or the raw b[:tagLen+valLen])", 3)
	for _, key := range []string{
		"internal/impl.(*MessageInfo).unmarshalPointerEager",
		"internal/impl.(*MessageInfo).unmarshalPointerLazy",
	} {
		fi := c.need(rule, key)
		if fi == nil {
			continue
		}
		info := fi.Info()
		// find `*u = protowire.AppendTag(*u, num, wtyp)` and `*u = append(*u, b[:n]...)`
		var tagAs, bytesAs *ast.AssignStmt
		var cfv *ast.AssignStmt
		walk(fi.Decl.Body, func(n ast.Node) bool {
			as, ok := n.(*ast.AssignStmt)
			if !ok || len(as.Lhs) != 1 || len(as.Rhs) != 1 {
				return true
			}
			call, ok := unparen(as.Rhs[0]).(*ast.CallExpr)
			if !ok {
				return true
			}
			switch calleeKey(info, call) {
			case "encoding/protowire.AppendTag":
				if _, isStar := as.Lhs[0].(*ast.StarExpr); isStar {
					tagAs = as
				}
			case "builtin.append":
				if _, isStar := as.Lhs[0].(*ast.StarExpr); isStar && call.Ellipsis.IsValid() {
					bytesAs = as
				}
			case "encoding/protowire.ConsumeFieldValue":
				cfv = as
			}
			return true
		})
		if tagAs == nil || bytesAs == nil || cfv == nil {
			R.Unk(rule, key, P.Pos(fi.Decl), "unknown-field idiom (`n = ConsumeFieldValue(num, wtyp, b)`, `*u = AppendTag(*u, num, wtyp)`, `*u = append(*u, b[:n]...)`) not recognised")
			continue
		}
		cfvCall := unparen(cfv.Rhs[0]).(*ast.CallExpr)
		tagCall := unparen(tagAs.Rhs[0]).(*ast.CallExpr)
		appCall := unparen(bytesAs.Rhs[0]).(*ast.CallExpr)
		sameObj := func(a, b ast.Expr) bool {
			oa, ob := objOf(info, a), objOf(info, b)
			return oa != nil && oa == ob
		}
		// tag args equal ConsumeFieldValue's num, wtyp; first arg is the lhs itself
		okTag := len(tagCall.Args) == 3 && len(cfvCall.Args) == 3 &&
			exprStr(tagCall.Args[0]) == exprStr(tagAs.Lhs[0]) &&
			sameObj(tagCall.Args[1], cfvCall.Args[0]) && sameObj(tagCall.Args[2], cfvCall.Args[1])
		R.Check(okTag, rule, key+" tag", P.Pos(tagAs), "appends AppendTag(*u, num, wtyp) with the decoded num/wtyp",
			"the unknown-field tag is not re-encoded from the same (num, wtyp) that ConsumeFieldValue measured, or does not extend the existing unknown bytes")
		// bytes: append(*u, b[:n]...), b = input measured, n = result of cfv
		okBytes := false
		if len(appCall.Args) == 2 && exprStr(appCall.Args[0]) == exprStr(bytesAs.Lhs[0]) {
			if se, ok := unparen(appCall.Args[1]).(*ast.SliceExpr); ok && se.Low == nil && se.High != nil && !se.Slice3 {
				if sameObj(se.X, cfvCall.Args[2]) && sameObj(se.High, cfv.Lhs[0]) {
					okBytes = true
				}
			}
		}
		R.Check(okBytes, rule, key+" payload", P.Pos(bytesAs), "appends exactly b[:n], n = ConsumeFieldValue(num, wtyp, b)",
			"the unknown-field payload appended is not exactly b[:n] of the measured field (bytes dropped, shifted or replaced)")
		// order: tag before payload, both after cfv
		g := fi.CFG()
		ord := g.DominatedByNode(bytesAs, func(n ast.Node) bool { return n == ast.Node(tagAs) }) &&
			g.DominatedByNode(tagAs, func(n ast.Node) bool { return n == ast.Node(cfv) })
		R.Check(ord, rule, key+" order", P.Pos(tagAs), "measure → tag → payload", "tag/payload are not appended in wire order after measuring the field")
	}
	// slow path: m.SetUnknown(append(m.GetUnknown(), b[:tagLen+valLen]...))
	if fi := c.need(rule, "proto.UnmarshalOptions.unmarshalMessageSlow"); fi != nil {
		info := fi.Info()
		calls := allCalls(info, fi.Decl.Body, "reflect/protoreflect.Message.SetUnknown")
		if len(calls) != 1 {
			R.Unk(rule, fi.Key, P.Pos(fi.Decl), "expected exactly one SetUnknown call")
		} else {
			ok := false
			if app, isCall := unparen(calls[0].Args[0]).(*ast.CallExpr); isCall && calleeKey(info, app) == "builtin.append" && len(app.Args) == 2 && app.Ellipsis.IsValid() {
				if gu, ok2 := unparen(app.Args[0]).(*ast.CallExpr); ok2 && calleeKey(info, gu) == "reflect/protoreflect.Message.GetUnknown" {
					if se, ok3 := unparen(app.Args[1]).(*ast.SliceExpr); ok3 && se.Low == nil && se.High != nil {
						if be, ok4 := unparen(se.High).(*ast.BinaryExpr); ok4 && be.Op == token.ADD {
							// tagLen + valLen by identity: one operand is result #2 of ConsumeTag(b),
							// the other is (also) assigned from ConsumeFieldValue(num, wtyp, b[tagLen:]).
							srcX := assignSources(info, fi.Decl.Body, objOf(info, be.X))
							srcY := assignSources(info, fi.Decl.Body, objOf(info, be.Y))
							has := func(m map[string]bool, k string) bool { return m[k] }
							ok = (has(srcX, "encoding/protowire.ConsumeTag#2") && has(srcY, "encoding/protowire.ConsumeFieldValue#0")) ||
								(has(srcY, "encoding/protowire.ConsumeTag#2") && has(srcX, "encoding/protowire.ConsumeFieldValue#0"))
						}
					}
				}
			}
			R.Check(ok, rule, fi.Key+" raw", P.Pos(calls[0]), "SetUnknown(append(GetUnknown(), b[:tagLen+valLen]...))",
				"the slow path does not append the raw tag+value bytes of the unknown field to the existing unknown set")
		}
	}
}

// assignSources returns, for a local variable, the set "calleeKey#resultIndex"
// of calls whose results are assigned to it anywhere in body.
func assignSources(info *types.Info, body ast.Node, obj types.Object) map[string]bool {
	out := map[string]bool{}
	if obj == nil {
		return out
	}
	walk(body, func(n ast.Node) bool {
		as, ok := n.(*ast.AssignStmt)
		if !ok || len(as.Rhs) != 1 {
			return true
		}
		call, ok := unparen(as.Rhs[0]).(*ast.CallExpr)
		if !ok {
			return true
		}
		k := calleeKey(info, call)
		if k == "" {
			return true
		}
		for i, l := range as.Lhs {
			if id, ok := l.(*ast.Ident); ok && objOf(info, id) == obj {
				out[k+"#"+itoa(i)] = true
			}
		}
		return true
	})
	return out
}
