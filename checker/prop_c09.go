package main

func init() {
	register(&Property{
		ID:         "C09",
		Level:      "other",
		Technique:  "CFG dominance of unknown-field sinks by the DiscardUnknown test + idiom conformance of the unknown path (static)",
		Explain:    "Decides structural necessary conditions of C09 on every binary decoder: (1) every store into unknown-field storage made while decoding is dominated by the false edge of DiscardUnknown (sinks are discovered by type, not listed); (2) in each tag loop the unknown path appends to the existing unknown bytes the tag of the decoded (num, wtyp) followed by exactly the bytes ConsumeFieldValue measured; (3) nested decode calls receive the caller's options; (4) the lazy decoder's field index (which decides which bytes of the retained buffer belong to which lazy field, and therefore what is re-emitted in place) tracks the position and the last field number on every iteration, for lazy and non-lazy fields alike. Also: the options rebuilt for messages without a MessageInfo (impl.marshalOptions.Options / unmarshalOptions.Options) carry every option of the proto package from the flag of the same name (DiscardUnknown reaches legacy and dynamic children).",
		NotCovered: "schema-evolution equivalence and re-emission on Marshal for concrete messages; unknown handling inside user-provided Methods.",
		Quick:      all("./proto", "./internal/impl"),
		Thorough:   []ConfigLoad{{"default", []string{"./..."}}, {"legacy", []string{"./proto", "./internal/impl"}}},
		Run: func(c *Ctx) {
			c.ruleOptionsForward("R-OPTIONS-FORWARD")
			c.ruleLazyFlagGate("R-LAZY-FLAG-GATE")
			c.ruleLazyIndex("R-LAZY-INDEX")
			c.ruleUnknownGuard("R-UNKNOWN-GUARD", 5)
			c.ruleUnknownPreserve("R-UNKNOWN-PRESERVE")
			c.ruleOptsProp("R-OPTS-PROP")
			c.ruleOptsBridge("R-OPTS-BRIDGE", "unmarshal")
		},
	})
}
