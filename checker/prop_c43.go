package main

import (
	"go/ast"
	"go/token"
	"go/types"
	"sort"
)

func init() {
	register(&Property{
		ID:         "C43",
		Level:      "other",
		Technique:  "finite case analysis of comparison-only decision procedures: the validity switches of durationpb/timestamppb evaluated on one representative per interval between all compared constants, against the documented ranges; finite case analysis over sign combinations with a loop-invariant (linear) check of the carry loops (static)",
		Explain:    "Decides one clause of C43 exactly — `CheckValid/IsValid accept exactly the documented ranges`: Duration.check and Timestamp.check touch seconds and nanos only through comparisons with constants, so their verdict depends only on the position of each value relative to those constants; evaluating the switch for one representative of every interval between consecutive constants (and the constants themselves, and 0, ±1) for both variables covers every input. The verdict must be `valid` exactly for seconds and nanos inside the documented ranges (Duration: |seconds| ≤ 315576000000, |nanos| ≤ 999999999, signs not opposite; Timestamp: -62135596800 ≤ seconds ≤ 253402300799, 0 ≤ nanos ≤ 999999999) — the same table R-WKT-RANGE holds protojson to, so the helpers and the JSON codec agree on validity. IsValid and CheckValid are checked to derive their answer from check() == 0. AsDuration: the clauses OR-ed into the overflow flag after d += nanos are evaluated for all sign combinations of (secs, nanos, d) and have to be true exactly on (+,+,-) and (-,-,+); before the product is formed, loops whose conditions hold exactly on the mixed-sign combinations carry nanos into secs while preserving secs*K+nanos, so that an overflow of the product alone implies an overflow of the sum (found D25).",
		NotCovered: "New/AsTime round trips on values; the multiplication overflow test d/Second != Duration(secs) itself (64-bit arithmetic on runtime values).",
		Quick:      all("./types/known/durationpb", "./types/known/timestamppb"),
		Thorough:   all("./..."),
		Run: func(c *Ctx) {
			c.ruleWKTCheckRanges("R-WKT-CHECK-RANGES")
			c.ruleAddOverflowSigns("R-ADD-OVERFLOW-SIGNS")
		},
	})
}

func (c *Ctx) ruleWKTCheckRanges(rule string) {
	R, P := c.R, c.P
	R.Rule(rule, "Duration.check / Timestamp.check evaluated for every combination of representatives (all intervals between the constants they compare with): verdict 0 exactly inside the documented ranges; IsValid/CheckValid decide from check()", 6)
	type spec struct {
		key        string
		secs, nano wktRange
		signRule   bool
	}
	for _, sp := range []spec{
		{"types/known/durationpb.(*Duration).check", wktRanges["Duration_Seconds_field_number"], wktRanges["Duration_Nanos_field_number"], true},
		{"types/known/timestamppb.(*Timestamp).check", wktRanges["Timestamp_Seconds_field_number"], wktRanges["Timestamp_Nanos_field_number"], false},
	} {
		fi := c.need(rule, sp.key)
		if fi == nil {
			continue
		}
		info := fi.Info()
		var secsObj, nanosObj types.Object
		var sw *ast.SwitchStmt
		for _, st := range fi.Decl.Body.List {
			switch s := st.(type) {
			case *ast.AssignStmt:
				if len(s.Lhs) == 1 && len(s.Rhs) == 1 {
					if call, ok := s.Rhs[0].(*ast.CallExpr); ok {
						switch f := calleeFunc(info, call); {
						case f != nil && f.Name() == "GetSeconds":
							secsObj = info.Defs[s.Lhs[0].(*ast.Ident)]
						case f != nil && f.Name() == "GetNanos":
							nanosObj = info.Defs[s.Lhs[0].(*ast.Ident)]
						}
					}
				}
			case *ast.SwitchStmt:
				if s.Tag == nil {
					sw = s
				}
			}
		}
		if secsObj == nil || nanosObj == nil || sw == nil {
			R.Unk(rule, sp.key, P.Pos(fi.Decl), "seconds/nanos locals or the deciding switch not found")
			continue
		}
		// constants compared with each variable
		consts := map[types.Object]map[int64]bool{secsObj: {}, nanosObj: {}}
		onlyCmp := true
		product := ""
		walk(sw, func(n ast.Node) bool {
			switch x := n.(type) {
			case *ast.BinaryExpr:
				switch x.Op {
				case token.LSS, token.LEQ, token.GTR, token.GEQ, token.EQL, token.NEQ:
					plain := false
					for _, pr := range [][2]ast.Expr{{x.X, x.Y}, {x.Y, x.X}} {
						if o := objOf(info, pr[0]); o == secsObj || o == nanosObj {
							plain = true
							if v, ok := constInt(info, pr[1]); ok {
								consts[o][v] = true
							} else {
								onlyCmp = false
							}
						}
					}
					if !plain {
						// an operand that computes with seconds/nanos instead of comparing them with a constant
						walk(x, func(y ast.Node) bool {
							if id, ok := y.(*ast.Ident); ok {
								if o := info.Uses[id]; o == secsObj || o == nanosObj {
									onlyCmp = false
								}
							}
							if m, ok := y.(*ast.BinaryExpr); ok && (m.Op == token.MUL || m.Op == token.SHL) {
								product = exprStr(m)
							}
							return true
						})
					}
					return false
				case token.LAND, token.LOR:
					return true
				default:
					onlyCmp = false
				}
			case *ast.Ident:
				if o := info.Uses[x]; o == secsObj || o == nanosObj {
					onlyCmp = false // used outside a comparison with a constant
				}
			}
			return true
		})
		if !onlyCmp && product != "" {
			R.Bad(rule, sp.key+" ranges", P.Pos(sw), "the validity decision computes `"+product+"` on seconds and nanos: for in-range values (|seconds| up to 315576000000, |nanos| up to 999999999) the int64 product exceeds 2^63 and wraps, so its sign is arbitrary — valid values are rejected and values with opposite signs accepted")
			continue
		}
		if !onlyCmp {
			R.Unk(rule, sp.key+" shape", P.Pos(sw), "seconds or nanos are used other than in comparisons with constants: the finite case analysis is not complete")
			continue
		}
		reps := func(o types.Object, extra ...int64) []int64 {
			set := map[int64]bool{0: true, 1: true, -1: true}
			for v := range consts[o] {
				set[v-1], set[v], set[v+1] = true, true, true
			}
			for _, v := range extra {
				set[v-1], set[v], set[v+1] = true, true, true
			}
			var out []int64
			for v := range set {
				out = append(out, v)
			}
			sort.Slice(out, func(i, j int) bool { return out[i] < out[j] })
			return out
		}
		rs, rn := reps(secsObj, sp.secs.lo, sp.secs.hi), reps(nanosObj, sp.nano.lo, sp.nano.hi)
		bad, undec := "", ""
		n := 0
		for _, s := range rs {
			for _, ns := range rn {
				if ns < -2147483648 || ns > 2147483647 {
					continue
				}
				env := map[types.Object]int64{secsObj: s, nanosObj: ns}
				verdict, decided := int64(-1), false
				var def *ast.CaseClause
				for _, cl := range sw.Body.List {
					cc := cl.(*ast.CaseClause)
					if cc.List == nil {
						def = cc
						continue
					}
					taken := false
					for _, l := range cc.List {
						if be, ok := unparen(l).(*ast.BinaryExpr); ok && be.Op == token.EQL && isNilIdent(info, be.Y) {
							continue // x == nil: a non-nil message is analysed
						}
						v, ok := evalBool(info, l, env)
						if !ok {
							undec = "condition " + exprStr(l) + " cannot be evaluated"
						}
						if v {
							taken = true
						}
					}
					if taken {
						verdict, decided = clauseResult(info, cc)
						break
					}
				}
				if verdict == -1 && def != nil && undec == "" {
					verdict, decided = clauseResult(info, def)
				}
				if !decided && undec == "" {
					undec = "a clause does not return a constant"
				}
				if undec != "" {
					break
				}
				n++
				want := s >= sp.secs.lo && s <= sp.secs.hi && ns >= sp.nano.lo && ns <= sp.nano.hi
				if sp.signRule && ((s > 0 && ns < 0) || (s < 0 && ns > 0)) {
					want = false
				}
				if (verdict == 0) != want && bad == "" {
					bad = "seconds=" + itoa64(s) + ", nanos=" + itoa64(ns) + ": check reports " + map[bool]string{true: "valid", false: "invalid"}[verdict == 0] + " but the documented range says " + map[bool]string{true: "valid", false: "invalid"}[want]
				}
			}
		}
		switch {
		case undec != "":
			R.Unk(rule, sp.key+" ranges", P.Pos(sw), undec)
		case bad != "":
			R.Bad(rule, sp.key+" ranges", P.Pos(sw), bad+" (documented: seconds "+itoa64(sp.secs.lo)+".."+itoa64(sp.secs.hi)+", nanos "+itoa64(sp.nano.lo)+".."+itoa64(sp.nano.hi)+")")
		default:
			R.OK(rule, sp.key+" ranges", P.Pos(sw), itoa(n)+" representative (seconds, nanos) pairs: valid exactly inside the documented ranges")
		}
		// IsValid / CheckValid derive from check()
		recv := sp.key[:len(sp.key)-len("check")]
		for _, m := range []string{"IsValid", "CheckValid"} {
			mf := c.need(rule, recv+m)
			if mf == nil {
				continue
			}
			uses := containsCall(mf.Info(), mf.Decl.Body, sp.key) != nil
			R.Check(uses, rule, recv+m+" source", P.Pos(mf.Decl), "decides from check()", m+" does not call check(): its verdict is not the range decision verified above")
		}
		if mf := c.need(rule, recv+"IsValid"); mf != nil {
			ok := false
			if len(mf.Decl.Body.List) == 1 {
				if rs, isRet := mf.Decl.Body.List[0].(*ast.ReturnStmt); isRet && len(rs.Results) == 1 {
					if be, isBE := unparen(rs.Results[0]).(*ast.BinaryExpr); isBE && be.Op == token.EQL {
						if v, isC := constInt(mf.Info(), be.Y); isC && v == 0 {
							ok = true
						}
					}
				}
			}
			R.Check(ok, rule, recv+"IsValid verdict", P.Pos(mf.Decl), "IsValid ⇔ check() == 0", "IsValid is not `check() == 0`")
		}
	}
}

// clauseResult: the constant a clause returns (named constants by value).
func clauseResult(info *types.Info, cc *ast.CaseClause) (int64, bool) {
	for _, st := range cc.Body {
		if rs, ok := st.(*ast.ReturnStmt); ok && len(rs.Results) == 1 {
			if v, ok := constInt(info, rs.Results[0]); ok {
				return v, true
			}
		}
	}
	return 0, false
}
