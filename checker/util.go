package main

import (
	"go/ast"
	"go/constant"
	"go/token"
	"go/types"
	"strings"

	"golang.org/x/tools/go/cfg"
	"golang.org/x/tools/go/types/typeutil"
)

// ---------------------------------------------------------------- AST/types

// walk visits nodes under n without descending into function literals
// (they are separate functions with their own CFG).
func walk(n ast.Node, f func(ast.Node) bool) {
	if n == nil {
		return
	}
	ast.Inspect(n, func(x ast.Node) bool {
		if x == nil {
			return false
		}
		if _, ok := x.(*ast.FuncLit); ok && x != n {
			return false
		}
		return f(x)
	})
}

// walkAll also descends into function literals.
func walkAll(n ast.Node, f func(ast.Node) bool) {
	if n == nil {
		return
	}
	ast.Inspect(n, func(x ast.Node) bool {
		if x == nil {
			return false
		}
		return f(x)
	})
}

func unparen(e ast.Expr) ast.Expr {
	for {
		p, ok := e.(*ast.ParenExpr)
		if !ok {
			return e
		}
		e = p.X
	}
}

// calleeKey returns the funcKey of the statically resolved callee of call
// (function, method, interface method), or "" (func value, builtin, conversion).
func calleeKey(info *types.Info, call *ast.CallExpr) string {
	obj := typeutil.Callee(info, call)
	switch o := obj.(type) {
	case *types.Func:
		return funcKey(o)
	case *types.Builtin:
		return "builtin." + o.Name()
	}
	return ""
}

// calleeFunc returns the *types.Func if statically resolved.
func calleeFunc(info *types.Info, call *ast.CallExpr) *types.Func {
	if f, ok := typeutil.Callee(info, call).(*types.Func); ok {
		return f
	}
	return nil
}

// fullKey is funcKey but for functions outside the module keeps the import path
// ("strconv.ParseFloat", "sync/atomic.LoadUint32").
func isCall(info *types.Info, n ast.Node, keys ...string) (*ast.CallExpr, bool) {
	call, ok := n.(*ast.CallExpr)
	if !ok {
		return nil, false
	}
	k := calleeKey(info, call)
	if k == "" {
		return nil, false
	}
	for _, want := range keys {
		if k == want {
			return call, true
		}
	}
	return nil, false
}

// containsCall reports whether node n (not descending into func literals)
// contains a call whose callee key is one of keys; returns the first.
func containsCall(info *types.Info, n ast.Node, keys ...string) *ast.CallExpr {
	var found *ast.CallExpr
	walk(n, func(x ast.Node) bool {
		if found != nil {
			return false
		}
		if c, ok := isCall(info, x, keys...); ok {
			found = c
			return false
		}
		return true
	})
	return found
}

func allCalls(info *types.Info, n ast.Node, keys ...string) []*ast.CallExpr {
	var out []*ast.CallExpr
	walk(n, func(x ast.Node) bool {
		if c, ok := isCall(info, x, keys...); ok {
			out = append(out, c)
		}
		return true
	})
	return out
}

func exprStr(e ast.Expr) string {
	if e == nil {
		return ""
	}
	return types.ExprString(e)
}

// constInt returns the constant integer value of e, if any.
func constInt(info *types.Info, e ast.Expr) (int64, bool) {
	tv, ok := info.Types[e]
	if !ok || tv.Value == nil {
		return 0, false
	}
	v := constant.ToInt(tv.Value)
	if v.Kind() != constant.Int {
		return 0, false
	}
	i, exact := constant.Int64Val(v)
	if !exact {
		if u, ok := constant.Uint64Val(v); ok {
			return int64(u), true
		}
	}
	return i, exact
}

func constUint(info *types.Info, e ast.Expr) (uint64, bool) {
	tv, ok := info.Types[e]
	if !ok || tv.Value == nil {
		return 0, false
	}
	v := constant.ToInt(tv.Value)
	if v.Kind() != constant.Int {
		return 0, false
	}
	return constant.Uint64Val(v)
}

func constBool(info *types.Info, e ast.Expr) (bool, bool) {
	tv, ok := info.Types[e]
	if !ok || tv.Value == nil || tv.Value.Kind() != constant.Bool {
		return false, false
	}
	return constant.BoolVal(tv.Value), true
}

// objOf resolves an identifier or selector to its object.
func objOf(info *types.Info, e ast.Expr) types.Object {
	switch x := unparen(e).(type) {
	case *ast.Ident:
		if o := info.Uses[x]; o != nil {
			return o
		}
		return info.Defs[x]
	case *ast.SelectorExpr:
		if sel := info.Selections[x]; sel != nil {
			return sel.Obj()
		}
		return info.Uses[x.Sel]
	}
	return nil
}

// qualName returns "pkgshort.Name" for a package-level object or
// "pkgshort.Type.Field" for a struct field selected in e.
func qualObj(o types.Object) string {
	if o == nil {
		return ""
	}
	p := ""
	if o.Pkg() != nil {
		p = shortPkg(o.Pkg().Path())
	}
	return p + "." + o.Name()
}

// fieldSel returns (struct type name, field name) if e selects a struct field.
func fieldSel(info *types.Info, e ast.Expr) (recv string, field string, ok bool) {
	se, isSel := unparen(e).(*ast.SelectorExpr)
	if !isSel {
		return "", "", false
	}
	sel := info.Selections[se]
	if sel == nil || sel.Kind() != types.FieldVal {
		return "", "", false
	}
	t := sel.Recv()
	if pt, ok := t.(*types.Pointer); ok {
		t = pt.Elem()
	}
	name := ""
	if nt, ok := t.(*types.Named); ok {
		name = nt.Obj().Name()
	}
	return name, se.Sel.Name, true
}

func namedTypeName(t types.Type) string {
	if t == nil {
		return ""
	}
	if pt, ok := t.(*types.Pointer); ok {
		t = pt.Elem()
	}
	switch nt := t.(type) {
	case *types.Named:
		if nt.Obj().Pkg() != nil {
			return shortPkg(nt.Obj().Pkg().Path()) + "." + nt.Obj().Name()
		}
		return nt.Obj().Name()
	case *types.Alias:
		return namedTypeName(types.Unalias(nt))
	}
	return t.String()
}

// stripNot returns the core condition and whether it was negated.
func stripNot(e ast.Expr) (ast.Expr, bool) {
	neg := false
	for {
		e = unparen(e)
		u, ok := e.(*ast.UnaryExpr)
		if !ok || u.Op != token.NOT {
			return e, neg
		}
		neg = !neg
		e = u.X
	}
}

// ---------------------------------------------------------------- CFG

type FCFG struct {
	G    *cfg.CFG
	Info *types.Info
	Body *ast.BlockStmt
	// position of each CFG node
	where map[ast.Node]cfgPos
}

type cfgPos struct {
	B *cfg.Block
	I int
}

func newCFG(body *ast.BlockStmt, info *types.Info) *FCFG {
	mayReturn := func(call *ast.CallExpr) bool {
		if id, ok := unparen(call.Fun).(*ast.Ident); ok {
			if b, ok := info.Uses[id].(*types.Builtin); ok && b.Name() == "panic" {
				return false
			}
		}
		if f := calleeFunc(info, call); f != nil && f.Pkg() != nil {
			if f.Pkg().Path() == "os" && f.Name() == "Exit" {
				return false
			}
		}
		return true
	}
	g := cfg.New(body, mayReturn)
	c := &FCFG{G: g, Info: info, Body: body, where: map[ast.Node]cfgPos{}}
	for _, b := range g.Blocks {
		for i, n := range b.Nodes {
			c.where[n] = cfgPos{b, i}
		}
	}
	return c
}

// posOf finds the CFG position of the CFG node that contains n (n itself or
// an ancestor statement/expression registered in the graph).
func (c *FCFG) posOf(n ast.Node) (cfgPos, bool) {
	if p, ok := c.where[n]; ok {
		return p, true
	}
	// compound statements are not CFG nodes themselves: use their header
	switch s := n.(type) {
	case *ast.BranchStmt:
		// break/continue/goto are edges, not nodes: locate the statement list
		// that contains it; use the previous sibling, or the branch block that
		// the list is the body of.
		var list []ast.Stmt
		var owner ast.Node
		isElse := false
		ast.Inspect(c.Body, func(x ast.Node) bool {
			if list != nil || x == nil {
				return false
			}
			check := func(l []ast.Stmt, o ast.Node, els bool) {
				for _, st := range l {
					if st == ast.Stmt(s) {
						list, owner, isElse = l, o, els
					}
				}
			}
			switch y := x.(type) {
			case *ast.IfStmt:
				check(y.Body.List, y, false)
				if eb, ok := y.Else.(*ast.BlockStmt); ok {
					check(eb.List, y, true)
				}
			case *ast.CaseClause:
				check(y.Body, y, false)
			case *ast.ForStmt:
				check(y.Body.List, y, false)
			case *ast.RangeStmt:
				check(y.Body.List, y, false)
			case *ast.BlockStmt:
				if list == nil {
					check(y.List, y, false)
				}
			}
			return true
		})
		if list == nil {
			return cfgPos{}, false
		}
		for i, st := range list {
			if st == ast.Stmt(s) && i > 0 {
				prev := list[i-1]
				// after a compound statement control continues in its "done" block
				for _, b := range c.G.Blocks {
					if b.Stmt != ast.Stmt(nil) && b.Stmt == prev {
						switch b.Kind {
						case cfg.KindIfDone, cfg.KindSwitchDone, cfg.KindForDone, cfg.KindRangeDone, cfg.KindSelectDone:
							return cfgPos{b, 0}, true
						}
					}
				}
				if p, ok := c.where[prev]; ok {
					return cfgPos{p.B, p.I + 1}, true
				}
				return c.posOf(prev)
			}
		}
		// first statement of a branch body: find the CFG block for it
		for _, b := range c.G.Blocks {
			if b.Stmt != ast.Stmt(nil) && ast.Node(b.Stmt) == owner {
				switch {
				case b.Kind == cfg.KindIfThen && !isElse, b.Kind == cfg.KindIfElse && isElse,
					b.Kind == cfg.KindSwitchCaseBody, b.Kind == cfg.KindForBody, b.Kind == cfg.KindRangeBody:
					return cfgPos{b, 0}, true
				}
			}
		}
		return cfgPos{}, false
	case *ast.RangeStmt:
		return c.posOf(s.X)
	case *ast.ForStmt:
		if s.Init != nil {
			return c.posOf(s.Init)
		}
		if s.Cond != nil {
			return c.posOf(s.Cond)
		}
	case *ast.IfStmt:
		if s.Init != nil {
			return c.posOf(s.Init)
		}
		return c.posOf(s.Cond)
	case *ast.SwitchStmt:
		if s.Init != nil {
			return c.posOf(s.Init)
		}
		if s.Tag != nil {
			return c.posOf(s.Tag)
		}
	}
	// find smallest enclosing registered node
	var best ast.Node
	var bp cfgPos
	for node, p := range c.where {
		if node.Pos() <= n.Pos() && n.End() <= node.End() {
			if best == nil || (node.End()-node.Pos()) < (best.End()-best.Pos()) {
				// ensure n is not inside a func literal of node
				best, bp = node, p
			}
		}
	}
	if best == nil {
		return cfgPos{}, false
	}
	return bp, true
}

// Search describes a forward path query.
type Search struct {
	Target       func(n ast.Node) bool                  // reaching such a node ends the search with found=true
	Barrier      func(n ast.Node) bool                  // a path stops at such a node
	EdgeBarrier  func(b *cfgBlock, succ int) bool       // a path cannot take such an edge
	TargetPos    *cfgPos                                // reaching this CFG position ends the search with found=true
	ExitIsTarget bool                                   // reaching a function exit counts as found
	ExitFilter   func(last ast.Node, b *cfg.Block) bool // if set, only exits for which it returns true count
}

// Forward searches from position from (the node at from.I is the first one
// examined). It returns whether a target (or exit) is reachable and a witness.
func (c *FCFG) Forward(from cfgPos, s Search) (bool, ast.Node) {
	type key struct {
		b *cfg.Block
	}
	seen := map[*cfg.Block]bool{}
	var work []cfgPos
	work = append(work, from)
	first := true
	for len(work) > 0 {
		p := work[len(work)-1]
		work = work[:len(work)-1]
		if p.I == 0 {
			if seen[p.B] {
				continue
			}
			seen[p.B] = true
		} else if !first {
			// partial blocks only arise for the start position
		}
		first = false
		stopped := false
		var last ast.Node
		for i := p.I; i < len(p.B.Nodes); i++ {
			n := p.B.Nodes[i]
			if s.TargetPos != nil && s.TargetPos.B == p.B && s.TargetPos.I == i {
				return true, n
			}
			last = n
			if s.Target != nil && s.Target(n) {
				return true, n
			}
			if s.Barrier != nil && s.Barrier(n) {
				stopped = true
				break
			}
		}
		if stopped {
			continue
		}
		if s.TargetPos != nil && s.TargetPos.B == p.B && s.TargetPos.I >= len(p.B.Nodes) && s.TargetPos.I >= p.I {
			return true, last
		}
		if len(p.B.Succs) == 0 {
			if s.ExitIsTarget && p.B.Live && !endsInNoReturn(c, p.B) {
				if s.ExitFilter == nil || s.ExitFilter(last, p.B) {
					if last == nil && len(p.B.Nodes) > 0 {
						last = p.B.Nodes[len(p.B.Nodes)-1]
					}
					return true, last
				}
			}
			continue
		}
		for i, sb := range p.B.Succs {
			if s.EdgeBarrier != nil && s.EdgeBarrier(p.B, i) {
				continue
			}
			work = append(work, cfgPos{sb, 0})
		}
	}
	return false, nil
}

func endsInNoReturn(c *FCFG, b *cfg.Block) bool {
	if len(b.Nodes) == 0 {
		return false
	}
	last := b.Nodes[len(b.Nodes)-1]
	es, ok := last.(*ast.ExprStmt)
	if !ok {
		return false
	}
	call, ok := es.X.(*ast.CallExpr)
	if !ok {
		return false
	}
	if id, ok := unparen(call.Fun).(*ast.Ident); ok {
		if bi, ok := c.Info.Uses[id].(*types.Builtin); ok && bi.Name() == "panic" {
			return true
		}
	}
	return false
}

func (c *FCFG) Entry() cfgPos { return cfgPos{c.G.Blocks[0], 0} }

// blockCond returns the branch condition of a two-way block, if any.
func blockCond(b *cfg.Block) ast.Expr {
	if len(b.Succs) != 2 || len(b.Nodes) == 0 {
		return nil
	}
	e, _ := b.Nodes[len(b.Nodes)-1].(ast.Expr)
	return e
}

// atomVal: an atomic (non-&&, non-||, non-!) condition known to have value Val.
type atomVal struct {
	E   ast.Expr
	Val bool
}

// impliedAtoms collects the atomic conditions whose value is implied by
// "e evaluates to val". go/cfg keeps a whole if-condition as one node, so
// short-circuit structure is interpreted here: A&&B true ⇒ A, B true;
// A||B false ⇒ A, B false; !A flips.
func impliedAtoms(e ast.Expr, val bool, out *[]atomVal) {
	e = unparen(e)
	switch x := e.(type) {
	case *ast.UnaryExpr:
		if x.Op == token.NOT {
			impliedAtoms(x.X, !val, out)
			return
		}
	case *ast.BinaryExpr:
		if x.Op == token.LAND {
			if val {
				impliedAtoms(x.X, true, out)
				impliedAtoms(x.Y, true, out)
			}
			return
		}
		if x.Op == token.LOR {
			if !val {
				impliedAtoms(x.X, false, out)
				impliedAtoms(x.Y, false, out)
			}
			return
		}
	}
	*out = append(*out, atomVal{e, val})
}

// edgeAtoms returns the atomic facts established by taking edge succ of b.
func edgeAtoms(b *cfg.Block, succ int) []atomVal {
	cond := blockCond(b)
	if cond == nil {
		return nil
	}
	var out []atomVal
	impliedAtoms(cond, succ == 0, &out)
	return out
}

// DominatedByCond reports whether every path from entry to site takes at
// least one edge that establishes an atomic fact accepted by pass(atom, value).
func (c *FCFG) DominatedByCond(site ast.Node, pass func(core ast.Expr, coreTrue bool) bool) bool {
	sp, ok := c.posOf(site)
	if !ok {
		return false
	}
	found, _ := c.Forward(c.Entry(), Search{
		TargetPos:   &sp,
		EdgeBarrier: func(b *cfg.Block, succ int) bool { return edgePasses(b, succ, pass) },
	})
	return !found
}

// condPasses: taking the edge on which cond evaluates to val establishes a
// fact accepted by pass. Conjunction-true / disjunction-false establish all
// operands (any one passing suffices); disjunction-true / conjunction-false
// establish one unknown operand (every operand must pass).
func condPasses(cond ast.Expr, val bool, pass func(core ast.Expr, val bool) bool) bool {
	cond = unparen(cond)
	switch x := cond.(type) {
	case *ast.UnaryExpr:
		if x.Op == token.NOT {
			return condPasses(x.X, !val, pass)
		}
	case *ast.BinaryExpr:
		if x.Op == token.LAND || x.Op == token.LOR {
			all := (x.Op == token.LAND) == val // operands all take value val
			if all {
				return condPasses(x.X, val, pass) || condPasses(x.Y, val, pass)
			}
			return condPasses(x.X, val, pass) && condPasses(x.Y, val, pass)
		}
	}
	return pass(cond, val)
}

func edgePasses(b *cfg.Block, succ int, pass func(core ast.Expr, val bool) bool) bool {
	cond := blockCond(b)
	if cond == nil {
		return false
	}
	return condPasses(cond, succ == 0, pass)
}

// DominatedByCondOrNode: every path from entry to site takes an edge accepted
// by pass or passes a node accepted by guard.
func (c *FCFG) DominatedByCondOrNode(site ast.Node, pass func(core ast.Expr, val bool) bool, guard func(n ast.Node) bool) bool {
	sp, ok := c.posOf(site)
	if !ok {
		return false
	}
	found, _ := c.Forward(c.Entry(), Search{
		TargetPos:   &sp,
		Barrier:     guard,
		EdgeBarrier: func(b *cfg.Block, succ int) bool { return edgePasses(b, succ, pass) },
	})
	return !found
}

// DominatedByNode reports whether every path from entry to site passes a node
// accepted by guard before reaching site.
func (c *FCFG) DominatedByNode(site ast.Node, guard func(n ast.Node) bool) bool {
	sp, ok := c.posOf(site)
	if !ok {
		return false
	}
	found, _ := c.Forward(c.Entry(), Search{
		TargetPos: &sp,
		Barrier:   guard,
	})
	return !found
}

// ---------------------------------------------------------------- misc

func hasSuffixAny(s string, suf ...string) bool {
	for _, x := range suf {
		if strings.HasSuffix(s, x) {
			return true
		}
	}
	return false
}

// funcLits returns the function literals directly or indirectly inside n.
func funcLits(n ast.Node) []*ast.FuncLit {
	var out []*ast.FuncLit
	walkAll(n, func(x ast.Node) bool {
		if fl, ok := x.(*ast.FuncLit); ok {
			out = append(out, fl)
		}
		return true
	})
	return out
}

// enclosingFuncBodies yields every function body (decl + nested literals) in fi
// with a construct name.
type bodyRef struct {
	Name string
	Body *ast.BlockStmt
	Type *ast.FuncType
	Lit  *ast.FuncLit
}

func bodiesOf(fi *FuncInfo) []bodyRef {
	var out []bodyRef
	if fi.Decl.Body == nil {
		return nil
	}
	out = append(out, bodyRef{Name: fi.Key, Body: fi.Decl.Body, Type: fi.Decl.Type})
	i := 0
	walkAll(fi.Decl.Body, func(x ast.Node) bool {
		if fl, ok := x.(*ast.FuncLit); ok {
			i++
			out = append(out, bodyRef{Name: fi.Key + "$" + itoa(i), Body: fl.Body, Type: fl.Type, Lit: fl})
		}
		return true
	})
	return out
}

func itoa(i int) string {
	if i == 0 {
		return "0"
	}
	s := ""
	neg := i < 0
	if neg {
		i = -i
	}
	for i > 0 {
		s = string(rune('0'+i%10)) + s
		i /= 10
	}
	if neg {
		s = "-" + s
	}
	return s
}

// ---------------------------------------------------------------- per-function helpers

func (fi *FuncInfo) Info() *types.Info { return fi.Pkg.TypesInfo }

func (fi *FuncInfo) CFG() *FCFG { return newCFG(fi.Decl.Body, fi.Pkg.TypesInfo) }

// recvVarName returns the name of the receiver variable used in a method call
// x.M(...) when x is a plain identifier.
func recvIdent(call *ast.CallExpr) *ast.Ident {
	se, ok := unparen(call.Fun).(*ast.SelectorExpr)
	if !ok {
		return nil
	}
	id, _ := unparen(se.X).(*ast.Ident)
	return id
}

// nodeHasCallOn reports whether node n contains a call with callee key `key`
// whose receiver identifier satisfies recvOK.
func nodeHasCallOn(info *types.Info, n ast.Node, key string, recvOK func(name string) bool) *ast.CallExpr {
	for _, c := range allCalls(info, n, key) {
		if id := recvIdent(c); id != nil && recvOK(id.Name) {
			return c
		}
	}
	return nil
}

type cfgBlock = cfg.Block
type typesInfo = types.Info
