package main

import (
	"go/ast"
	"go/types"
	"sort"
	"strings"
)

// descriptor proto message types whose fields are compared
var descProtoTypes = []string{"FileDescriptorProto", "DescriptorProto", "FieldDescriptorProto", "OneofDescriptorProto", "EnumDescriptorProto", "EnumValueDescriptorProto", "ServiceDescriptorProto", "MethodDescriptorProto", "DescriptorProto_ExtensionRange", "DescriptorProto_ReservedRange", "EnumDescriptorProto_EnumReservedRange"}

// descFieldSets extracts, per descriptor-proto message type:
//
//	written: fields set by protodesc's To*DescriptorProto functions (composite literal keys and later field assignments)
//	read:    fields read through GetX() getters by the rest of package protodesc
//	parsed:  fields whose genid field-number constant is handled in internal/filedesc
func (c *Ctx) descFieldSets() (written, read, parsed map[string]map[string]bool) {
	P := c.P
	written, read, parsed = map[string]map[string]bool{}, map[string]map[string]bool{}, map[string]map[string]bool{}
	add := func(m map[string]map[string]bool, t, f string) {
		if m[t] == nil {
			m[t] = map[string]bool{}
		}
		m[t][f] = true
	}
	typeOf := func(t types.Type) string {
		n := namedTypeName(t)
		if strings.HasPrefix(n, "types/descriptorpb.") {
			return strings.TrimPrefix(n, "types/descriptorpb.")
		}
		return ""
	}
	for _, fi := range P.FuncsIn("reflect/protodesc") {
		if fi.Decl.Body == nil {
			continue
		}
		info := fi.Info()
		isWriter := strings.HasPrefix(fi.Obj.Name(), "To") && strings.HasSuffix(fi.Obj.Name(), "Proto")
		walkAll(fi.Decl.Body, func(n ast.Node) bool {
			switch x := n.(type) {
			case *ast.CompositeLit:
				if t := typeOf(info.TypeOf(x)); t != "" && isWriter {
					for _, el := range x.Elts {
						if kv, ok := el.(*ast.KeyValueExpr); ok {
							if id, ok := kv.Key.(*ast.Ident); ok {
								add(written, t, id.Name)
							}
						}
					}
				}
			case *ast.AssignStmt:
				if isWriter {
					for _, l := range x.Lhs {
						if se, ok := unparen(l).(*ast.SelectorExpr); ok {
							if t := typeOf(info.TypeOf(se.X)); t != "" {
								add(written, t, se.Sel.Name)
							}
						}
					}
				}
			case *ast.CallExpr:
				if se, ok := x.Fun.(*ast.SelectorExpr); ok && strings.HasPrefix(se.Sel.Name, "Get") && !isWriter {
					if t := typeOf(info.TypeOf(se.X)); t != "" {
						add(read, t, strings.TrimPrefix(se.Sel.Name, "Get"))
					}
				}
			case *ast.SelectorExpr:
				if !isWriter {
					if t := typeOf(info.TypeOf(x.X)); t != "" {
						if sel := info.Selections[x]; sel != nil && sel.Kind() == types.FieldVal {
							add(read, t, x.Sel.Name)
						}
					}
				}
			}
			return true
		})
	}
	for _, fi := range P.FuncsIn("internal/filedesc") {
		if fi.Decl.Body == nil {
			continue
		}
		info := fi.Info()
		walkAll(fi.Decl.Body, func(n ast.Node) bool {
			id, ok := n.(*ast.Ident)
			if !ok {
				return true
			}
			cst, ok := info.Uses[id].(*types.Const)
			if !ok || cst.Pkg() == nil || !strings.HasSuffix(cst.Pkg().Path(), "/internal/genid") || !strings.HasSuffix(cst.Name(), "_field_number") {
				return true
			}
			name := strings.TrimSuffix(cst.Name(), "_field_number")
			for _, t := range descProtoTypes {
				if strings.HasPrefix(name, t+"_") {
					rest := strings.TrimPrefix(name, t+"_")
					if !strings.Contains(rest, "_") || t == "DescriptorProto" && !strings.HasPrefix(rest, "ExtensionRange_") && !strings.HasPrefix(rest, "ReservedRange_") {
						add(parsed, t, rest)
					}
				}
			}
			return true
		})
	}
	return
}

func setDiff(a, b map[string]bool) []string {
	var out []string
	for k := range a {
		if !b[k] {
			out = append(out, k)
		}
	}
	sort.Strings(out)
	return out
}

func init() {
	register(&Property{
		ID:         "C34",
		Level:      "other",
		Technique:  "writer/reader field-set agreement per descriptor-proto message between protodesc's To*DescriptorProto functions, its NewFile pipeline and the descriptor schema, with a reviewed exception table (static)",
		Explain:    "Decides a structural necessary condition of lossless conversion between descriptor protos and descriptors: for each of the eleven descriptor-proto message types, the set of fields written by the To*DescriptorProto functions equals the set of fields read by protodesc's NewFile pipeline (initialisation, resolution, validation), and every field of the generated descriptorpb struct is written — a field dropped on either side makes the round trip lossy for every schema that uses it. Exceptions are listed with reasons. The resolved features that both descriptor builders derive from the protos (field presence, packedness, …) are defined by the same FeatureSet values and option overrides in both (R-FEATURE-FIELDS), so a descriptor rebuilt from its proto has the features of the generated one. The presence-carrying optional scalars of FieldDescriptorProto (proto3_optional, json_name, default_value, oneof_index) are written each under exactly the accessor that NewFile feeds from that field (R-DESC-WRITE-GUARD). Also: protodesc reads GetDefaultValue()/GetPacked() only under the presence test of the pointer field (`default = \"\"` is a default; an absent packed option is not packed = false).",
		NotCovered: "value-level equality of the round trip (names, options content, features) and the documented normalisations.",
		Quick:      all("./reflect/protodesc", "./internal/filedesc", "./types/descriptorpb"),
		Thorough:   all("./..."),
		Run: func(c *Ctx) {
			c.ruleDescFields("R-DESC-FIELDS", "C34")
			c.ruleDescWriteGuard("R-DESC-WRITE-GUARD")
			c.rulePresenceNotValue("R-PRESENCE-NOT-VALUE", 4)
			c.ruleFeatureFields("R-FEATURE-FIELDS")
			c.ruleOptionOverride("R-FEATURE-FIELDS")
		},
	})
	register(&Property{
		ID:         "C37",
		Level:      "other",
		Technique:  "field-set containment per descriptor-proto message between the compact raw-descriptor parser (internal/filedesc) and protodesc's reader, with a reviewed exception table; presence-vs-value agreement of the parser clauses; CFG dominance of the RequiredNumbers appends (static)",
		Explain:    "Decides a structural necessary condition of agreement between the two descriptor builders: for each descriptor-proto message type, every field that protodesc.NewFile reads is also handled (by its genid field-number constant) in the compact builder's seed or lazy parser in internal/filedesc, and vice versa; a field parsed by only one builder makes the two descriptors of the same file disagree on the accessor it feeds. Exceptions are listed with reasons. Feature resolution agreement (R-FEATURE-FIELDS) is part of this check. Two derived facts are compared as well: a field that protodesc treats by presence (`!= nil` on an optional scalar) is stored by the compact parser without any branch on the consumed value (presence is reaching the clause), and both constructions list a field in RequiredNumbers under the test of its resolved cardinality. Further: per descriptor kind, the option fields protodesc promotes into the descriptor equal the genid option constants the compact builder matches for that kind (found D23, D24); every assignment of resolved features is the inheritance from the parent descriptor or the override of the descriptor's own value; default_value/packed are read under presence tests only.",
		NotCovered: "agreement of accessor results on concrete files (values), option message contents (kept raw by the compact builder), and the lazy/eager split inside filedesc.",
		Quick:      all("./reflect/protodesc", "./internal/filedesc", "./types/descriptorpb"),
		Thorough:   all("./..."),
		Run: func(c *Ctx) {
			c.ruleDescFields("R-DESC-FIELDS", "C37")
			c.ruleFeatureFields("R-FEATURE-FIELDS")
			c.ruleOptionOverride("R-FEATURE-FIELDS")
			c.ruleDescPresenceStore("R-DESC-PRESENCE-STORE", 6)
			c.ruleRequiredNumbers("R-REQUIRED-NUMBERS", 2)
			c.rulePresenceNotValue("R-PRESENCE-NOT-VALUE", 4)
			c.ruleOptionPromotion("R-OPTION-PROMOTION", 5)
			c.ruleFeatureInherit("R-FEATURE-INHERIT", 12)
		},
	})
}

var descFieldExceptions = map[string]string{
	"C34 FileDescriptorProto.WeakDependency schema-not-written": "weak imports are no longer supported by this implementation: neither NewFile nor ToFileDescriptorProto handles weak_dependency and FileImport.IsWeak is never set, so a weak import is normalised to an ordinary import in both directions",
	"C37 FileDescriptorProto.SourceCodeInfo read-not-parsed":    "source locations are not embedded in raw descriptors of generated code (stripped by the generator); the compact builder has no source info by design",
}

func (c *Ctx) ruleDescFields(rule string, prop string) {
	R, P := c.R, c.P
	R.Rule(rule, "per descriptor-proto message type: (C34) fields written by To*DescriptorProto = fields read by protodesc's NewFile pipeline ⊇ all fields of the descriptorpb struct; (C37) fields read by protodesc = fields handled by the compact parser in internal/filedesc; reviewed exceptions only", 11)
	w, r, p := c.descFieldSets()
	schema := map[string]map[string]bool{}
	if pk := P.Pkg("types/descriptorpb"); pk != nil {
		for _, t := range descProtoTypes {
			if tn, ok := pk.Types.Scope().Lookup(t).(*types.TypeName); ok {
				if st, ok := tn.Type().Underlying().(*types.Struct); ok {
					schema[t] = map[string]bool{}
					for i := 0; i < st.NumFields(); i++ {
						if f := st.Field(i); f.Exported() && !strings.HasPrefix(f.Name(), "XXX_") {
							schema[t][f.Name()] = true
						}
					}
				}
			}
		}
	}
	report := func(t, kind string, fields []string, msg string) bool {
		ok := true
		for _, f := range fields {
			key := prop + " " + t + "." + f + " " + kind
			if why, ex := descFieldExceptions[key]; ex {
				R.Exempt(rule, t+"."+f+" "+kind, "", why)
				continue
			}
			ok = false
			R.Bad(rule, t+"."+f+" "+kind, "", msg)
		}
		return ok
	}
	for _, t := range descProtoTypes {
		if len(w[t]) == 0 || len(r[t]) == 0 || len(p[t]) == 0 {
			R.Unk(rule, t, "", "could not extract the field sets (written "+itoa(len(w[t]))+", read "+itoa(len(r[t]))+", parsed "+itoa(len(p[t]))+")")
			continue
		}
		ok := true
		if prop == "C34" {
			ok = report(t, "written-not-read", setDiff(w[t], r[t]), "ToXDescriptorProto writes this field but NewFile never reads it: the information is dropped when the proto is converted back") && ok
			ok = report(t, "read-not-written", setDiff(r[t], w[t]), "NewFile reads this field but ToXDescriptorProto never writes it: the information is dropped when a descriptor is converted to a proto") && ok
			if schema[t] != nil {
				ok = report(t, "schema-not-written", setDiff(schema[t], w[t]), "the descriptor schema has this field but ToXDescriptorProto never writes it") && ok
			}
		} else {
			ok = report(t, "read-not-parsed", setDiff(r[t], p[t]), "protodesc reads this field but the compact builder never parses it: descriptors of generated code lack what descriptors built from the proto have") && ok
			ok = report(t, "parsed-not-read", setDiff(p[t], r[t]), "the compact builder parses this field but protodesc never reads it: descriptors built from the proto lack what generated ones have") && ok
		}
		if ok {
			R.OK(rule, t, "", itoa(len(w[t]))+" written / "+itoa(len(r[t]))+" read / "+itoa(len(p[t]))+" parsed fields agree")
		}
	}
}
