package main

var sizeAppendNotAnalysed = map[string]string{
	"proto.MarshalOptions.sizeField":       "decided by R-REFL-ENC-PARITY (symbolic wire shapes of the reflection encoder for every assignment of its condition atoms)",
	"proto.MarshalOptions.sizeList":        "decided by R-REFL-ENC-PARITY (symbolic wire shapes of the reflection encoder for every assignment of its condition atoms)",
	"proto.MarshalOptions.sizeMap":         "decided by R-REFL-ENC-PARITY (symbolic wire shapes of the reflection encoder for every assignment of its condition atoms)",
	"proto.MarshalOptions.sizeMessageSet":  "MessageSet framing in the reflection encoder; outside the recognised idioms, stated as not covered",
	"proto.MarshalOptions.sizeMessageSlow": "decided by R-REFL-ENC-PARITY (symbolic wire shapes of the reflection encoder for every assignment of its condition atoms)",
	"internal/impl.sizeMap":                "map entries: per-entry sizing branches on whether the value is a message with a MessageInfo and the append side is split over appendMap/appendMapItem/appendMapDeterministic; outside the recognised idioms, stated as not covered",
	"internal/impl.sizeMessageSet":         "MessageSet item framing with lazy-extension branches; outside the recognised idioms, stated as not covered",
}

func init() {
	register(&Property{
		ID:         "C04",
		Level:      "other",
		Technique:  "wire-effect summaries (E1): multiset agreement of size and append siblings over all codec functions; tag-size construction rule (static)",
		Explain:    "Decides structural necessary conditions of Size(m) == len(Marshal(m)): (1) for every sibling pair sizeX/appendX of the fast-path codec (all generated scalar, pointer, slice, packed and reflection-value coders, message/group coders in open and opaque form) and of the reflection encoder's per-kind singular codec the size function accounts for exactly the multiset of wire operations the append function emits — tag, varint of the same expression, fixed width, length prefix of the same content, raw bytes, nested message — in the same loop context, and both skip the field under the same `nothing to encode` guards (zero tests of implicit-presence fields including the -0.0 test, empty packed lists); (2) every recorded tag size is the varint size of the wire tag recorded next to it; (3) the per-field loops of sizePointerSlow and marshalAppendPointer, read as decision procedures over the field-state atoms (coder present, presence-tracked, present, lazy, pointer, slot undecoded, element nil, lazy pass-through allowed), take the same decision — skip, copy raw lazy bytes, or encode (decoding a lazy field first or not) — for every assignment of the atoms, under two stated invariants; both passes handle extensions and unknown bytes; (4) finishSpeculativeLength leaves Varint(len(payload)) followed by the payload for every payload length (R-SPEC-LEN, linear forms), which is what the size side counts for a speculative length prefix; (5) map entries: for both value representations the entry's length prefix is the varint of exactly what appendMapItem writes after it, and sizeMap accounts for the field tag plus the length-prefixed same multiset (R-MAP-ENTRY-PARITY); the extension loops take the lazy pass-through under the same guards on both sides (R-EXT-LAZY-PARITY); (6) the reflection encoder's field, list, map and message functions describe the same wire shape on the size and on the write side for every assignment of their condition atoms (R-REFL-ENC-PARITY).",
		NotCovered: "MessageSet framing of known extensions beyond the lazy/expand parity, the MessageSet branch of the reflection encoder, the size cache (C16); equality on concrete messages.",
		Quick:      all("./internal/impl", "./proto", "./internal/encoding/messageset"),
		Thorough:   allAndLegacy("./internal/impl", "./proto", "./internal/encoding/messageset"),
		Run: func(c *Ctx) {
			c.ruleSizeCache("R-SIZECACHE")
			c.ruleSizeAppend("R-SIZE-APPEND", []string{"internal/impl", "proto", "internal/encoding/messageset"}, sizeAppendNotAnalysed, 130)
			c.ruleSpecLen("R-SPEC-LEN")
			c.ruleMapEntryParity("R-MAP-ENTRY-PARITY")
			c.ruleReflEncParity("R-REFL-ENC-PARITY")
			c.ruleTagSize("R-TAGSIZE", []string{"internal/impl"}, 3)
			c.ruleExtLazyParity("R-EXT-LAZY-PARITY", extLazyPairs, 3)
			c.ruleMsgLoopParity("R-MSG-LOOP-PARITY", "internal/impl.(*MessageInfo).sizePointerSlow", "internal/impl.(*MessageInfo).marshalAppendPointer")
		},
	})
}
