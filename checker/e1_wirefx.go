package main

import (
	"fmt"
	"go/ast"
	"go/token"
	"go/types"
	"sort"
	"strings"
)

// E1 wirefx: wire-effect summaries of the codec idiom. A size function and its
// append sibling are abstracted to the multiset of wire operations they
// account for / emit (tag, varint of e, fixed32/64, length prefix of n, raw
// bytes of e, nested message), each with its loop context, plus the list of
// "field absent" guards. Agreement of the two summaries is a necessary
// condition of Size(m) == len(Marshal(m)). Statements outside the recognised
// idioms make the pair UNDECIDED (never silently ignored).

type wfx struct {
	info      *types.Info
	fn        *FuncInfo
	ops       []string                  // emitted / accounted operations (with loop context prefix)
	guards    []string                  // early "nothing to encode" returns
	ints      map[types.Object][]string // accumulated ops of int locals (n, size, siz)
	alias     map[types.Object]string   // non-int single-definition locals → canonical expression
	ctx       []string
	problem   string
	bufObj    types.Object // append side: the []byte being appended to
	specMarks []int
	errObj    map[types.Object]bool
}

func (w *wfx) fail(format string, a ...any) {
	if w.problem == "" {
		w.problem = fmt.Sprintf(format, a...)
	}
}

func (w *wfx) pre(op string) string {
	if len(w.ctx) == 0 {
		return op
	}
	return strings.Join(w.ctx, "/") + "|" + op
}

// canon prints e with aliases of single-definition locals substituted.
func (w *wfx) canon(e ast.Expr) string {
	e = unparen(e)
	switch x := e.(type) {
	case *ast.Ident:
		if o := w.info.Uses[x]; o != nil {
			if a, ok := w.alias[o]; ok {
				return a
			}
		}
		return x.Name
	case *ast.SelectorExpr:
		return w.canon(x.X) + "." + x.Sel.Name
	case *ast.StarExpr:
		return "*" + w.canon(x.X)
	case *ast.CallExpr:
		var as []string
		for _, a := range x.Args {
			as = append(as, w.canon(a))
		}
		return w.canon(x.Fun) + "(" + strings.Join(as, ",") + ")"
	case *ast.BinaryExpr:
		return "(" + w.canon(x.X) + x.Op.String() + w.canon(x.Y) + ")"
	case *ast.UnaryExpr:
		return x.Op.String() + w.canon(x.X)
	case *ast.IndexExpr:
		return w.canon(x.X) + "[" + w.canon(x.Index) + "]"
	case *ast.BasicLit:
		return x.Value
	}
	return exprStr(e)
}

func isTagSizeExpr(e ast.Expr) bool {
	switch x := unparen(e).(type) {
	case *ast.Ident:
		return x.Name == "tagsize"
	case *ast.SelectorExpr:
		return x.Sel.Name == "tagsize"
	}
	return false
}

func isWireTagExpr(e ast.Expr) bool {
	switch x := unparen(e).(type) {
	case *ast.Ident:
		return x.Name == "wiretag"
	case *ast.SelectorExpr:
		return x.Sel.Name == "wiretag"
	case *ast.BinaryExpr: // f.wiretag+1: end-group tag, same length as the start tag (they differ in the low three bits only)
		if x.Op == token.ADD {
			return isWireTagExpr(x.X)
		}
	}
	return false
}

// calleeStem: a name shared by a size function and its append sibling.
func calleeStem(name string) string {
	switch name {
	case "marshalMessage", "size": // proto.MarshalOptions: size(m) ↔ marshalMessage(b, m)
		return ""
	}
	for _, p := range []string{"marshalAppend", "MarshalAppend", "append", "marshal", "size", "Size"} {
		if strings.HasPrefix(name, p) {
			return strings.TrimPrefix(name, p)
		}
	}
	return name
}

// nested: N(receiver.stem|args) for a call to a sibling size/append function.
func (w *wfx) nested(call *ast.CallExpr, dropFirst bool) string {
	name, recv := "", ""
	switch f := unparen(call.Fun).(type) {
	case *ast.Ident:
		name = f.Name
	case *ast.SelectorExpr:
		name, recv = f.Sel.Name, w.canon(f.X)+"."
	}
	args := call.Args
	if dropFirst && len(args) > 0 {
		args = args[1:]
	}
	var as []string
	for _, a := range args {
		switch {
		case isTagSizeExpr(a), isWireTagExpr(a):
			as = append(as, "TAG") // the size side passes the tag's size, the append side the tag itself (R-TAGSIZE ties them)
		default:
			as = append(as, w.canon(a))
		}
	}
	return "N(" + recv + calleeStem(name) + "|" + strings.Join(as, ",") + ")"
}

func isIntType(t types.Type) bool {
	b, ok := t.Underlying().(*types.Basic)
	return ok && b.Info()&types.IsInteger != 0
}

// intOps: the operations an int-valued size expression accounts for.
func (w *wfx) intOps(e ast.Expr) []string {
	e = unparen(e)
	if v, ok := constInt(w.info, e); ok {
		if v == 0 {
			return nil
		}
		return []string{w.pre("C" + itoa(int(v)))}
	}
	if isTagSizeExpr(e) {
		return []string{w.pre("T")}
	}
	switch x := e.(type) {
	case *ast.Ident:
		if o := w.info.Uses[x]; o != nil {
			if ops, ok := w.ints[o]; ok {
				return append([]string{}, ops...)
			}
		}
		w.fail("int variable %s with unknown content", x.Name)
		return nil
	case *ast.BinaryExpr:
		switch x.Op {
		case token.ADD:
			return append(w.intOps(x.X), w.intOps(x.Y)...)
		case token.MUL:
			// k * E  or  len(s) * E
			if k, ok := constInt(w.info, x.X); ok && k > 0 && k < 8 {
				var out []string
				for i := int64(0); i < k; i++ {
					out = append(out, w.intOps(x.Y)...)
				}
				return out
			}
			if call, ok := unparen(x.X).(*ast.CallExpr); ok {
				if id, ok := call.Fun.(*ast.Ident); ok && id.Name == "len" && len(call.Args) == 1 {
					w.ctx = append(w.ctx, "range "+w.canon(call.Args[0]))
					out := w.intOps(x.Y)
					w.ctx = w.ctx[:len(w.ctx)-1]
					return out
				}
			}
			if l := w.canon(x.X); strings.HasSuffix(l, ".Len()") {
				w.ctx = append(w.ctx, "range "+strings.TrimSuffix(l, ".Len()"))
				out := w.intOps(x.Y)
				w.ctx = w.ctx[:len(w.ctx)-1]
				return out
			}
		}
		w.fail("unsupported size arithmetic %s", exprStr(e))
		return nil
	case *ast.CallExpr:
		if id, ok := x.Fun.(*ast.Ident); ok && id.Name == "len" && len(x.Args) == 1 {
			return []string{w.pre("L(" + w.canon(x.Args[0]) + ")")}
		}
		if tv, ok := w.info.Types[x.Fun]; ok && tv.IsType() && len(x.Args) == 1 {
			return w.intOps(x.Args[0]) // int(...) conversion
		}
		switch calleeKey(w.info, x) {
		case "encoding/protowire.SizeVarint":
			return []string{w.pre("V(" + w.canon(x.Args[0]) + ")")}
		case "encoding/protowire.SizeFixed32":
			return []string{w.pre("F32")}
		case "encoding/protowire.SizeFixed64":
			return []string{w.pre("F64")}
		case "encoding/protowire.SizeTag":
			return []string{w.pre("T")}
		case "encoding/protowire.SizeBytes":
			inner := w.intOps(x.Args[0])
			return append([]string{w.pre("VL[" + strings.Join(sortedCopy(inner), ";") + "]")}, inner...)
		case "encoding/protowire.SizeGroup":
			inner := w.intOps(x.Args[1]) // SizeGroup(num, n) = n + SizeTag(num): the end-group tag
			return append([]string{w.pre("T")}, inner...)
		}
		// nested size call: a function, method or function-valued field named size…/Size…
		name := ""
		switch f := unparen(x.Fun).(type) {
		case *ast.Ident:
			name = f.Name
		case *ast.SelectorExpr:
			name = f.Sel.Name
		}
		if t := w.info.TypeOf(x); t != nil && isIntType(t) && (strings.HasPrefix(name, "size") || strings.HasPrefix(name, "Size")) {
			return []string{w.pre(w.nested(x, false))}
		}
	}
	w.fail("unsupported size expression %s", exprStr(e))
	return nil
}

func sortedCopy(s []string) []string {
	c := append([]string{}, s...)
	sort.Strings(c)
	return c
}

func (w *wfx) loopCtx(s ast.Stmt) (string, *ast.BlockStmt, bool) {
	switch x := s.(type) {
	case *ast.RangeStmt:
		if id, ok := x.Value.(*ast.Ident); ok && id.Name != "_" {
			if o := w.info.Defs[id]; o != nil {
				w.alias[o] = "elem(" + w.canon(x.X) + ")"
			}
		}
		if id, ok := x.Key.(*ast.Ident); ok && id.Name != "_" {
			if o := w.info.Defs[id]; o != nil {
				w.alias[o] = "key(" + w.canon(x.X) + ")"
			}
		}
		return "range " + w.canon(x.X), x.Body, true
	case *ast.ForStmt:
		// for i := 0; i < llen; i++  /  for i, llen := 0, llen; i < llen; i++   with llen = list.Len()
		if as, ok := x.Init.(*ast.AssignStmt); ok && as.Tok == token.DEFINE {
			for i := range as.Lhs {
				if i < len(as.Rhs) {
					if id, ok := as.Lhs[i].(*ast.Ident); ok {
						if v, isC := constInt(w.info, as.Rhs[i]); isC && v == 0 {
							if o := w.info.Defs[id]; o != nil {
								w.alias[o] = "idx"
							}
						} else if o := w.info.Defs[id]; o != nil {
							w.alias[o] = w.canon(as.Rhs[i])
						}
					}
				}
			}
			if be, ok := unparen(x.Cond).(*ast.BinaryExpr); ok && be.Op == token.LSS {
				if l := w.canon(be.Y); strings.HasSuffix(l, ".Len()") && w.canon(be.X) == "idx" {
					return "range " + strings.TrimSuffix(l, ".Len()"), x.Body, true
				}
			}
		}
		// for i, llen := 0, list.Len(); i < llen; i++   (reflection lists)
		if as, ok := x.Init.(*ast.AssignStmt); ok && len(as.Rhs) == 2 {
			if call, ok := unparen(as.Rhs[1]).(*ast.CallExpr); ok {
				if se, ok := call.Fun.(*ast.SelectorExpr); ok && se.Sel.Name == "Len" {
					if id, ok := as.Lhs[0].(*ast.Ident); ok {
						if o := w.info.Defs[id]; o != nil {
							w.alias[o] = "idx"
						}
					}
					return "range " + w.canon(se.X), x.Body, true
				}
			}
		}
	}
	return "", nil, false
}

// returnsNothingToEncode: `return 0` (size) / `return b, nil` (append).
func (w *wfx) isEmptyReturn(body *ast.BlockStmt) bool {
	if len(body.List) != 1 {
		return false
	}
	rs, ok := body.List[0].(*ast.ReturnStmt)
	if !ok {
		return false
	}
	switch len(rs.Results) {
	case 1:
		v, ok := constInt(w.info, rs.Results[0])
		return ok && v == 0
	case 2:
		return w.bufObj != nil && objOf(w.info, rs.Results[0]) == w.bufObj && isNilIdent(w.info, rs.Results[1])
	}
	return false
}

func (w *wfx) isErrorReturn(body *ast.BlockStmt) bool {
	if len(body.List) != 1 {
		return false
	}
	rs, ok := body.List[0].(*ast.ReturnStmt)
	if !ok || len(rs.Results) != 2 {
		return false
	}
	return !isNilIdent(w.info, rs.Results[1])
}

func (w *wfx) stmts(list []ast.Stmt, isAppend bool) {
	for _, s := range list {
		if w.problem != "" {
			return
		}
		w.stmt(s, isAppend)
	}
}

func (w *wfx) define(lhs ast.Expr, rhs ast.Expr) {
	id, ok := unparen(lhs).(*ast.Ident)
	if !ok || id.Name == "_" {
		return
	}
	o := w.info.Defs[id]
	if o == nil {
		o = w.info.Uses[id]
	}
	if o == nil {
		return
	}
	if b, ok := o.Type().Underlying().(*types.Basic); ok && b.Kind() == types.Int {
		saved := w.problem
		ops := w.intOps(rhs)
		if w.problem == saved {
			w.ints[o] = ops
			return
		}
		w.problem = saved // not a size expression (e.g. llen := list.Len()): treat as a value
	}
	w.alias[o] = w.canon(rhs)
}

func (w *wfx) stmt(s ast.Stmt, isAppend bool) {
	switch x := s.(type) {
	case *ast.DeclStmt:
		if gd, ok := x.Decl.(*ast.GenDecl); ok {
			for _, sp := range gd.Specs {
				vs := sp.(*ast.ValueSpec)
				for i, nm := range vs.Names {
					o := w.info.Defs[nm]
					if i < len(vs.Values) {
						w.define(nm, vs.Values[i])
					} else if o != nil && isIntType(o.Type()) {
						w.ints[o] = nil
					}
				}
			}
		}
	case *ast.AssignStmt:
		// b = … / b, err = …
		if isAppend && len(x.Lhs) >= 1 && objOf(w.info, x.Lhs[0]) == w.bufObj && len(x.Rhs) == 1 {
			if call, ok := unparen(x.Rhs[0]).(*ast.CallExpr); ok {
				switch short(calleeKey(w.info, call)) {
				case "appendSpeculativeLength": // b, pos = appendSpeculativeLength(b): length prefix of what follows
					w.specMarks = append(w.specMarks, len(w.ops))
					return
				case "finishSpeculativeLength":
					if len(w.specMarks) == 0 {
						w.fail("finishSpeculativeLength without appendSpeculativeLength")
						return
					}
					m := w.specMarks[len(w.specMarks)-1]
					w.specMarks = w.specMarks[:len(w.specMarks)-1]
					inner := append([]string{}, w.ops[m:]...)
					w.ops = append(w.ops, w.pre("VL["+strings.Join(sortedCopy(inner), ";")+"]"))
					return
				}
			}
			w.emit(x.Rhs[0])
			return
		}
		if len(x.Lhs) == 1 && len(x.Rhs) == 1 {
			o := objOf(w.info, x.Lhs[0])
			switch x.Tok {
			case token.DEFINE, token.ASSIGN:
				w.define(x.Lhs[0], x.Rhs[0])
			case token.ADD_ASSIGN:
				if o != nil && isIntType(o.Type()) {
					w.ints[o] = append(w.ints[o], w.intOps(x.Rhs[0])...)
				} else {
					w.fail("unsupported += on %s", exprStr(x.Lhs[0]))
				}
			default:
				w.fail("unsupported assignment %s", firstLine(exprOrStmt(x)))
			}
			return
		}
		if len(x.Lhs) == len(x.Rhs) {
			for i := range x.Lhs {
				w.define(x.Lhs[i], x.Rhs[i])
			}
			return
		}
		w.fail("unsupported assignment %s", firstLine(exprOrStmt(x)))
	case *ast.RangeStmt, *ast.ForStmt:
		c, body, ok := w.loopCtx(x)
		if !ok {
			w.fail("unsupported loop %s", firstLine(exprOrStmt(x)))
			return
		}
		w.ctx = append(w.ctx, c)
		w.stmts(body.List, isAppend)
		w.ctx = w.ctx[:len(w.ctx)-1]
	case *ast.IfStmt:
		if x.Else == nil && x.Init == nil && w.isEmptyReturn(x.Body) {
			w.guards = append(w.guards, w.pre(w.canon(x.Cond)))
			return
		}
		if isAppend && x.Else == nil && w.isErrorReturn(x.Body) {
			return // error exits (propagated error, size mismatch check, invalid UTF-8) do not change what a successful append emits
		}
		w.fail("unsupported conditional %s", firstLine(exprOrStmt(x)))
	case *ast.ReturnStmt:
		if isAppend {
			if len(x.Results) == 2 && objOf(w.info, x.Results[0]) == w.bufObj {
				return
			}
			// return f(b, …) tail call
			if len(x.Results) == 1 {
				if call, ok := unparen(x.Results[0]).(*ast.CallExpr); ok && len(call.Args) > 0 && objOf(w.info, call.Args[0]) == w.bufObj {
					w.emit(call)
					return
				}
			}
			w.fail("unsupported return %s", firstLine(exprOrStmt(x)))
			return
		}
		if len(x.Results) == 1 {
			w.ops = append(w.ops, w.intOps(x.Results[0])...)
			return
		}
		if len(x.Results) == 0 { // named result `size`
			if rs := w.fn.Decl.Type.Results; rs != nil && len(rs.List) == 1 && len(rs.List[0].Names) == 1 {
				w.ops = append(w.ops, w.ints[w.info.Defs[rs.List[0].Names[0]]]...)
				return
			}
		}
		w.fail("unsupported return %s", firstLine(exprOrStmt(x)))
	case *ast.SwitchStmt:
		if x.Tag == nil || x.Init != nil {
			w.fail("unsupported switch %s", firstLine(exprOrStmt(x)))
			return
		}
		for _, cs := range x.Body.List {
			cc := cs.(*ast.CaseClause)
			var labels []string
			for _, e := range cc.List {
				n, _ := labelName(w.info, e)
				labels = append(labels, n)
			}
			sort.Strings(labels)
			lab := "default"
			if len(labels) > 0 {
				lab = strings.Join(labels, ",")
			}
			w.ctx = append(w.ctx, "case "+lab)
			w.stmts(cc.Body, isAppend)
			w.ctx = w.ctx[:len(w.ctx)-1]
		}
	case *ast.ExprStmt:
		w.fail("unsupported statement %s", firstLine(exprOrStmt(x)))
	default:
		w.fail("unsupported statement %s", firstLine(exprOrStmt(s)))
	}
}

// emit: the right-hand side of `b = …`.
func (w *wfx) emit(rhs ast.Expr) {
	call, ok := unparen(rhs).(*ast.CallExpr)
	if !ok {
		w.fail("buffer assigned from a non-call %s", exprStr(rhs))
		return
	}
	if id, ok := call.Fun.(*ast.Ident); ok && id.Name == "append" {
		if call.Ellipsis.IsValid() && len(call.Args) == 2 && objOf(w.info, call.Args[0]) == w.bufObj {
			w.ops = append(w.ops, w.pre("L("+w.canon(call.Args[1])+")"))
			return
		}
		w.fail("unsupported append form %s", exprStr(call))
		return
	}
	if len(call.Args) == 0 || objOf(w.info, call.Args[0]) != w.bufObj {
		w.fail("buffer assigned from a call that does not take it first: %s", exprStr(call))
		return
	}
	switch calleeKey(w.info, call) {
	case "encoding/protowire.AppendVarint":
		arg := call.Args[1]
		if isWireTagExpr(arg) {
			w.ops = append(w.ops, w.pre("T"))
			return
		}
		if _, ok := isCall(w.info, unparen(arg), "encoding/protowire.EncodeTag"); ok {
			w.ops = append(w.ops, w.pre("T")) // a tag built in place (end-group marker)
			return
		}
		// uint64(n) where n is an int local with known content → length prefix
		if conv, ok := unparen(arg).(*ast.CallExpr); ok && len(conv.Args) == 1 {
			if tv, ok := w.info.Types[conv.Fun]; ok && tv.IsType() {
				if id, ok := unparen(conv.Args[0]).(*ast.Ident); ok {
					if o := w.info.Uses[id]; o != nil {
						if ops, ok := w.ints[o]; ok {
							w.ops = append(w.ops, w.pre("VL["+strings.Join(sortedCopy(ops), ";")+"]"))
							return
						}
					}
				}
				if inner, ok := unparen(conv.Args[0]).(*ast.CallExpr); ok {
					if iid, ok := inner.Fun.(*ast.Ident); ok && iid.Name == "len" {
						w.ops = append(w.ops, w.pre("VL["+w.pre("L("+w.canon(inner.Args[0])+")")+"]"))
						return
					}
				}
			}
		}
		w.ops = append(w.ops, w.pre("V("+w.canon(arg)+")"))
	case "encoding/protowire.AppendTag":
		w.ops = append(w.ops, w.pre("T"))
	case "encoding/protowire.AppendFixed32":
		w.ops = append(w.ops, w.pre("F32"))
	case "encoding/protowire.AppendFixed64":
		w.ops = append(w.ops, w.pre("F64"))
	case "encoding/protowire.AppendBytes", "encoding/protowire.AppendString":
		l := w.pre("L(" + w.canon(call.Args[1]) + ")")
		w.ops = append(w.ops, w.pre("VL["+l+"]"), l)
	default:
		w.ops = append(w.ops, w.pre(w.nested(call, true)))
	}
}

func (c *Ctx) wireSummary(fi *FuncInfo, isAppend bool) *wfx {
	w := &wfx{info: fi.Info(), fn: fi, ints: map[types.Object][]string{}, alias: map[types.Object]string{}}
	if isAppend {
		for _, f := range fi.Decl.Type.Params.List {
			for _, nm := range f.Names {
				if isByteSlice(w.info.TypeOf(f.Type)) && w.bufObj == nil {
					w.bufObj = w.info.Defs[nm]
				}
			}
		}
		if w.bufObj == nil {
			w.fail("no []byte parameter")
			return w
		}
	} else if rs := fi.Decl.Type.Results; rs != nil && len(rs.List) == 1 && len(rs.List[0].Names) == 1 {
		w.ints[w.info.Defs[rs.List[0].Names[0]]] = nil
	}
	w.stmts(fi.Decl.Body.List, isAppend)
	return w
}

// R-SIZE-APPEND over all size*/append* (marshal*) sibling pairs of the packages.
func (c *Ctx) ruleSizeAppend(rule string, pkgs []string, notAnalysed map[string]string, floor int) {
	R, P := c.R, c.P
	R.Rule(rule, "for every sibling pair sizeX / appendX (marshalX) the size function accounts for exactly the multiset of wire operations the append function emits (tag, varint of the same expression, fixed width, length prefix of the same content, raw bytes, nested message), in the same loop context, and both skip the field under the same `nothing to encode` guards", floor)
	for _, pkg := range pkgs {
		byName := map[string]*FuncInfo{}
		for _, fi := range P.FuncsIn(pkg) {
			if fi.Decl.Body == nil {
				continue
			}
			if fi.Decl.Recv == nil {
				byName[fi.Obj.Name()] = fi
			} else if rn := namedTypeName(fi.Obj.Type().(*types.Signature).Recv().Type()); rn == "proto.MarshalOptions" {
				byName[fi.Obj.Name()] = fi // the reflection encoder's methods are paired by name like functions
			}
		}
		var names []string
		for n := range byName {
			names = append(names, n)
		}
		sort.Strings(names)
		for _, n := range names {
			if !strings.HasPrefix(n, "size") {
				continue
			}
			stem := strings.TrimPrefix(n, "size")
			fs := byName[n]
			fa := byName["append"+stem]
			if fa == nil {
				fa = byName["marshal"+stem]
			}
			if fa == nil {
				continue
			}
			// shape: size returns int, append takes and returns []byte
			if rs := fs.Obj.Type().(*types.Signature).Results(); rs.Len() != 1 || !isIntType(rs.At(0).Type()) {
				continue
			}
			if rs := fa.Obj.Type().(*types.Signature).Results(); rs.Len() == 0 || !isByteSlice(rs.At(0).Type()) {
				continue
			}
			construct := fs.Key + " ~ " + fa.Obj.Name()
			if why, ok := notAnalysed[fs.Key]; ok {
				R.Exempt(rule, construct, P.Pos(fs.Decl), "not analysed by this rule: "+why)
				continue
			}
			ws := c.wireSummary(fs, false)
			wa := c.wireSummary(fa, true)
			if ws.problem != "" {
				R.Unk(rule, construct, P.Pos(fs.Decl), "size function outside the recognised codec idioms: "+ws.problem)
				continue
			}
			if wa.problem != "" {
				R.Unk(rule, construct, P.Pos(fa.Decl), "append function outside the recognised codec idioms: "+wa.problem)
				continue
			}
			so, ao := sortedCopy(ws.ops), sortedCopy(wa.ops)
			sg, ag := strings.Join(ws.guards, " ; "), strings.Join(wa.guards, " ; ")
			switch {
			case sg != ag:
				R.Bad(rule, construct, P.Pos(fs.Decl), "the two functions skip the field under different conditions: size {"+sg+"} vs append {"+ag+"}: for a value on which they disagree Size differs from the marshaled length")
			case strings.Join(so, " + ") != strings.Join(ao, " + "):
				R.Bad(rule, construct, P.Pos(fs.Decl), "size accounts for {"+strings.Join(so, " + ")+"} but append emits {"+strings.Join(ao, " + ")+"}")
			default:
				R.OK(rule, construct, P.Pos(fs.Decl), "{"+strings.Join(so, " + ")+"}"+map[bool]string{true: " guards {" + sg + "}", false: ""}[sg != ""])
			}
		}
	}
}

// R-TAGSIZE: wherever a coder-info literal records a tag size, it is the
// varint size of the very wire tag recorded next to it (the axiom
// len(Varint(wiretag)) = tagsize used by R-SIZE-APPEND).
func (c *Ctx) ruleTagSize(rule string, pkgs []string, floor int) {
	R, P := c.R, c.P
	R.Rule(rule, "every composite literal with a `tagsize` field sets it to protowire.SizeVarint(X) where X is the expression stored in the same literal's `wiretag` field; the fixed map-entry tag sizes equal the varint size of the tags of fields 1 and 2", floor)
	for _, pkg := range pkgs {
		for _, fi := range P.FuncsIn(pkg) {
			if fi.Decl.Body == nil {
				continue
			}
			info := fi.Info()
			k := 0
			walkAll(fi.Decl.Body, func(n ast.Node) bool {
				cl, ok := n.(*ast.CompositeLit)
				if !ok {
					return true
				}
				var tagsize, wiretag ast.Expr
				for _, el := range cl.Elts {
					if kv, ok := el.(*ast.KeyValueExpr); ok {
						if id, ok := kv.Key.(*ast.Ident); ok {
							switch id.Name {
							case "tagsize":
								tagsize = kv.Value
							case "wiretag":
								wiretag = kv.Value
							}
						}
					}
				}
				if tagsize == nil {
					return true
				}
				k++
				construct := fi.Key + " literal #" + itoa(k)
				call, ok := isCall(info, unparen(tagsize), "encoding/protowire.SizeVarint")
				good := ok && wiretag != nil && len(call.Args) == 1 && exprStr(unparen(call.Args[0])) == exprStr(unparen(wiretag)) && objOf(info, call.Args[0]) != nil && objOf(info, call.Args[0]) == objOf(info, wiretag)
				R.Check(good, rule, construct, P.Pos(cl), "tagsize: SizeVarint(wiretag) of the literal's own wiretag", "tagsize is not the varint size of the wire tag stored in the same coder info: every size function using it disagrees with the tag its append sibling emits")
				return true
			})
		}
	}
	// map entry constants
	if pk := P.Pkg("internal/impl"); pk != nil {
		for _, name := range []string{"mapKeyTagSize", "mapValTagSize"} {
			o := pk.Types.Scope().Lookup(name)
			cst, ok := o.(*types.Const)
			if !ok {
				R.Unk(rule, "internal/impl."+name, "", "constant not found")
				continue
			}
			v := cst.Val().ExactString()
			// tags of field numbers 1 and 2 are (n<<3|wt) < 128: one byte
			R.Check(v == "1", rule, "internal/impl."+name, P.PosOf(cst.Pos()), "1 byte (field numbers 1 and 2 have one-byte tags)", "map entry tag size constant is "+v+" but the tags of map-entry fields 1 and 2 are one byte long")
		}
	}
}
