package main

import (
	"go/ast"
	"go/token"
	"go/types"
	"strings"
)

// rootIdent returns the identifier at the root of a selector/index/star chain.
func rootIdent(e ast.Expr) *ast.Ident {
	for {
		switch x := unparen(e).(type) {
		case *ast.Ident:
			return x
		case *ast.SelectorExpr:
			e = x.X
		case *ast.IndexExpr:
			e = x.X
		case *ast.StarExpr:
			e = x.X
		case *ast.TypeAssertExpr:
			e = x.X
		case *ast.CallExpr:
			return nil
		default:
			return nil
		}
	}
}

// derivedFrom: obj is the receiver or a local whose single definition reads
// from the receiver (an alias of state stored in the registry).
func derivedFromRecv(info *types.Info, defs map[types.Object][]defSite, recv types.Object, obj types.Object, depth int) bool {
	if obj == nil || depth > 4 {
		return false
	}
	if obj == recv {
		return true
	}
	for _, d := range defs[obj] {
		if id := rootIdent(d.rhs); id != nil && derivedFromRecv(info, defs, recv, objOf(info, id), depth+1) {
			return true
		}
		if ta, ok := unparen(d.rhs).(*ast.TypeAssertExpr); ok {
			if id := rootIdent(ta.X); id != nil && derivedFromRecv(info, defs, recv, objOf(info, id), depth+1) {
				return true
			}
		}
	}
	return false
}

type regMutation struct {
	node   ast.Node
	what   string
	errObj types.Object // for call sites: the error variable assigned from the call
}

// registryMutations lists the statements of fn that mutate state reachable
// from the receiver. Creation of an empty container in a nil field
// (`r.f = make(...)` / composite literal) is not a table mutation.
func (c *Ctx) registryMutations(fi *FuncInfo, mutators map[string]bool) []regMutation {
	info := fi.Info()
	recv := recvObj(info, fi)
	if recv == nil {
		return nil
	}
	defs := localDefs(fi.Decl.Body, info)
	var out []regMutation
	isEmptyContainer := func(e ast.Expr) bool {
		switch x := unparen(e).(type) {
		case *ast.CallExpr:
			if id, ok := x.Fun.(*ast.Ident); ok && id.Name == "make" {
				return true
			}
		case *ast.CompositeLit:
			_, isMap := info.TypeOf(x).Underlying().(*types.Map)
			return isMap
		}
		return false
	}
	walkAll(fi.Decl.Body, func(n ast.Node) bool {
		switch v := n.(type) {
		case *ast.AssignStmt:
			for i, l := range v.Lhs {
				if _, isIdent := unparen(l).(*ast.Ident); isIdent {
					continue // plain local
				}
				id := rootIdent(l)
				if id == nil || !derivedFromRecv(info, defs, recv, objOf(info, id), 0) {
					continue
				}
				if _, isSel := unparen(l).(*ast.SelectorExpr); isSel && len(v.Lhs) == len(v.Rhs) && isEmptyContainer(v.Rhs[i]) && rootIdent(l) != nil && objOf(info, rootIdent(l)) == recv {
					continue // lazy creation of an empty table
				}
				out = append(out, regMutation{node: v, what: exprStr(l)})
			}
		case *ast.IncDecStmt:
			if id := rootIdent(v.X); id != nil && derivedFromRecv(info, defs, recv, objOf(info, id), 0) {
				if _, isIdent := unparen(v.X).(*ast.Ident); !isIdent {
					out = append(out, regMutation{node: v, what: exprStr(v.X)})
				}
			}
		case *ast.CallExpr:
			if id, ok := v.Fun.(*ast.Ident); ok && id.Name == "delete" && len(v.Args) > 0 {
				if rid := rootIdent(v.Args[0]); rid != nil && derivedFromRecv(info, defs, recv, objOf(info, rid), 0) {
					out = append(out, regMutation{node: v, what: "delete " + exprStr(v.Args[0])})
				}
			}
			if mutators[calleeKey(info, v)] {
				m := regMutation{node: v, what: "call " + calleeKey(info, v)}
				// error variable assigned from this call
				walkAll(fi.Decl.Body, func(x ast.Node) bool {
					if as, ok := x.(*ast.AssignStmt); ok && len(as.Rhs) == 1 && unparen(as.Rhs[0]) == ast.Expr(v) && len(as.Lhs) >= 1 {
						m.errObj = objOf(info, as.Lhs[len(as.Lhs)-1])
					}
					return true
				})
				out = append(out, m)
			}
		}
		return true
	})
	return out
}

// R-COMMIT-AFTER-VALIDATE
func (c *Ctx) ruleCommitAfterValidate(rule string) {
	R, P := c.R, c.P
	R.Rule(rule, "in the registration functions no statement that can return a non-nil error is reachable after a mutation of the registry tables (insertions, counters, appended file lists; a helper that inserts counts as a mutation on its success continuation): a rejected registration leaves the registry unchanged. Lazy creation of an empty table is not a mutation", 8)
	keys := []string{
		"reflect/protoregistry.(*Types).register",
		"reflect/protoregistry.(*Files).RegisterFile",
		"reflect/protoregistry.(*Types).RegisterMessage",
		"reflect/protoregistry.(*Types).RegisterEnum",
		"reflect/protoregistry.(*Types).RegisterExtension",
	}
	mutators := map[string]bool{}
	for _, key := range keys {
		fi := c.need(rule, key)
		if fi == nil {
			continue
		}
		info := fi.Info()
		muts := c.registryMutations(fi, mutators)
		if len(muts) == 0 {
			R.Unk(rule, key, P.Pos(fi.Decl), "no table mutation found in a registration function: idiom not recognised")
			continue
		}
		mutators[key] = true
		g := fi.CFG()
		// closures (rangeTopLevelDescriptors callbacks) have their own bodies: a mutation
		// inside a callback is attributed to the call statement that receives the callback
		for i, m := range muts {
			site := m.node
			if _, ok := g.posOf(site); !ok {
				// inside a function literal: lift to the enclosing top-level statement
				walk(fi.Decl.Body, func(x ast.Node) bool {
					if es, ok := x.(*ast.ExprStmt); ok && containsNode(es, m.node) {
						site = es
					}
					return true
				})
			}
			sp, ok := g.posOf(site)
			construct := key + " mutation #" + itoa(i+1) + " (" + m.what + ")"
			if !ok {
				R.Unk(rule, construct, P.Pos(m.node), "cannot locate the mutation in the control-flow graph")
				continue
			}
			found, at := g.Forward(cfgPos{sp.B, sp.I + 1}, Search{
				Target: func(x ast.Node) bool {
					rs, ok := x.(*ast.ReturnStmt)
					if !ok || len(rs.Results) == 0 {
						return false
					}
					last := unparen(rs.Results[len(rs.Results)-1])
					if id, ok := last.(*ast.Ident); ok && id.Name == "nil" {
						return false
					}
					return true
				},
				EdgeBarrier: func(b *cfgBlock, succ int) bool {
					if m.errObj == nil {
						return false
					}
					// the callee's own failure: `err != nil` true edge for the error assigned by this call
					return edgePasses(b, succ, func(core ast.Expr, val bool) bool {
						be, ok := unparen(core).(*ast.BinaryExpr)
						return ok && val && be.Op == token.NEQ && objOf(info, be.X) == m.errObj && isNilIdent(info, be.Y)
					})
				},
			})
			if found {
				R.Bad(rule, construct, P.Pos(m.node), "an error return at "+P.Pos(at)+" is reachable after this mutation: a registration that is rejected there leaves a partial entry behind")
			} else {
				R.OK(rule, construct, P.Pos(m.node), "no error return reachable afterwards")
			}
		}
	}
}

// R-REG-LOCK: lock discipline of protoregistry.
func (c *Ctx) ruleRegistryLock(rule string) {
	R, P := c.R, c.P
	R.Rule(rule, "every method of protoregistry.Files/Types that touches the registry's fields does so only after the `if r == GlobalX { globalMutex.(R)Lock(); defer globalMutex.(R)Unlock() }` prologue (write lock if the method or a helper it calls mutates), and unexported helpers that touch the fields are called only from such methods after their prologue", 20)
	var methods []*FuncInfo
	for _, fi := range P.FuncsIn("reflect/protoregistry") {
		if fi.Decl.Body == nil || fi.Decl.Recv == nil {
			continue
		}
		rn := namedTypeName(fi.Obj.Type().(*types.Signature).Recv().Type())
		if rn == "reflect/protoregistry.Files" || rn == "reflect/protoregistry.Types" {
			methods = append(methods, fi)
		}
	}
	touches := func(fi *FuncInfo) []ast.Node {
		info := fi.Info()
		recv := recvObj(info, fi)
		var out []ast.Node
		walkAll(fi.Decl.Body, func(n ast.Node) bool {
			if se, ok := n.(*ast.SelectorExpr); ok {
				if id, ok := unparen(se.X).(*ast.Ident); ok && objOf(info, id) == recv {
					if sel := info.Selections[se]; sel != nil && sel.Kind() == types.FieldVal {
						out = append(out, se)
					}
				}
			}
			return true
		})
		return out
	}
	type prologue struct {
		cond  ast.Expr
		write bool
	}
	findPrologue := func(fi *FuncInfo) *prologue {
		info := fi.Info()
		recv := recvObj(info, fi)
		var p *prologue
		for _, s := range fi.Decl.Body.List {
			is, ok := s.(*ast.IfStmt)
			if !ok || is.Else != nil {
				continue
			}
			be, ok := unparen(is.Cond).(*ast.BinaryExpr)
			if !ok || be.Op != token.EQL || objOf(info, be.X) != recv {
				continue
			}
			g := objOf(info, be.Y)
			if g == nil || (g.Name() != "GlobalFiles" && g.Name() != "GlobalTypes") {
				continue
			}
			lock, unlock := "", ""
			for _, bs := range is.Body.List {
				switch x := bs.(type) {
				case *ast.ExprStmt:
					if call, ok := x.X.(*ast.CallExpr); ok && strings.HasSuffix(exprStr(call.Fun), "globalMutex.Lock") {
						lock = "Lock"
					} else if ok && strings.HasSuffix(exprStr(call.Fun), "globalMutex.RLock") {
						lock = "RLock"
					}
				case *ast.DeferStmt:
					if strings.HasSuffix(exprStr(x.Call.Fun), "globalMutex.Unlock") {
						unlock = "Lock"
					} else if strings.HasSuffix(exprStr(x.Call.Fun), "globalMutex.RUnlock") {
						unlock = "RLock"
					}
				}
			}
			if lock != "" && lock == unlock {
				if mu := objOf(info, &ast.Ident{Name: "globalMutex"}); mu != nil {
					_ = mu
				}
				p = &prologue{cond: is.Cond, write: lock == "Lock"}
			}
		}
		return p
	}
	mutates := map[string]bool{}
	for _, fi := range methods {
		if len(c.registryMutations(fi, nil)) > 0 {
			mutates[fi.Key] = true
		}
	}
	// include lazy creation as a write for locking purposes
	for _, fi := range methods {
		info := fi.Info()
		recv := recvObj(info, fi)
		walkAll(fi.Decl.Body, func(n ast.Node) bool {
			if as, ok := n.(*ast.AssignStmt); ok {
				for _, l := range as.Lhs {
					if _, isIdent := unparen(l).(*ast.Ident); isIdent {
						continue
					}
					if id := rootIdent(l); id != nil && objOf(info, id) == recv {
						mutates[fi.Key] = true
					}
				}
			}
			return true
		})
	}
	helperCallers := map[string][]struct {
		caller *FuncInfo
		call   *ast.CallExpr
	}{}
	for _, fi := range methods {
		info := fi.Info()
		walkAll(fi.Decl.Body, func(n ast.Node) bool {
			if call, ok := n.(*ast.CallExpr); ok {
				k := calleeKey(info, call)
				if strings.HasPrefix(k, "reflect/protoregistry.(*Files).") || strings.HasPrefix(k, "reflect/protoregistry.(*Types).") {
					helperCallers[k] = append(helperCallers[k], struct {
						caller *FuncInfo
						call   *ast.CallExpr
					}{fi, call})
				}
			}
			return true
		})
	}
	for _, fi := range methods {
		acc := touches(fi)
		if len(acc) == 0 {
			continue
		}
		info := fi.Info()
		p := findPrologue(fi)
		needWrite := mutates[fi.Key]
		for k, cs := range helperCallers {
			_ = cs
			if mutates[k] {
				// does fi call k?
				for _, cc := range helperCallers[k] {
					if cc.caller == fi {
						needWrite = true
					}
				}
			}
		}
		if p != nil {
			g := fi.CFG()
			bad := ""
			for _, a := range acc {
				// accesses inside closures are attributed to the enclosing statement
				site := ast.Node(a)
				if _, ok := g.posOf(site); !ok {
					walk(fi.Decl.Body, func(x ast.Node) bool {
						if st, ok := x.(ast.Stmt); ok && containsNode(st, a) {
							if _, ok := g.posOf(st); ok {
								site = st
							}
						}
						return true
					})
				}
				if a.Pos() >= p.cond.Pos() && a.End() <= p.cond.End() {
					continue
				}
				// the nil-receiver test `r == nil` reads no field; field reads must follow the prologue
				if !g.DominatedByNode(site, func(n ast.Node) bool { return n == ast.Node(p.cond) }) {
					bad = P.Pos(a)
				}
			}
			switch {
			case bad != "":
				R.Bad(rule, fi.Key, bad, "a registry field is accessed at "+bad+" on a path that has not passed the global-registry lock prologue")
			case needWrite && !p.write:
				R.Bad(rule, fi.Key, P.Pos(fi.Decl), "the method mutates the registry but takes only the read lock")
			default:
				R.OK(rule, fi.Key, P.Pos(fi.Decl), map[bool]string{true: "write", false: "read"}[p.write]+" lock prologue dominates all "+itoa(len(acc))+" field accesses")
			}
			continue
		}
		// no prologue: must be an unexported helper called only under a caller's prologue
		if fi.Obj.Exported() {
			R.Bad(rule, fi.Key, P.Pos(fi.Decl), "exported method touches registry fields without the global-registry lock prologue")
			continue
		}
		callers := helperCallers[fi.Key]
		if len(callers) == 0 {
			R.Unk(rule, fi.Key, P.Pos(fi.Decl), "helper touches registry fields but no caller was found")
			continue
		}
		bad := ""
		for _, cc := range callers {
			cp := findPrologue(cc.caller)
			if cp == nil || (mutates[fi.Key] && !cp.write) {
				bad = cc.caller.Key
				continue
			}
			g := cc.caller.CFG()
			if !g.DominatedByNode(cc.call, func(n ast.Node) bool { return n == ast.Node(cp.cond) }) {
				bad = cc.caller.Key
			}
		}
		_ = info
		R.Check(bad == "", rule, fi.Key, P.Pos(fi.Decl), "helper; every caller holds the lock at the call site", "helper touches registry fields but is called from "+bad+" without (the right kind of) lock held")
	}
}
