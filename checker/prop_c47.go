package main

import (
	"go/ast"
	"go/token"
	"go/types"
	"sort"
	"strings"
)

func init() {
	register(&Property{
		ID:         "C47",
		Level:      "other",
		Technique:  "writer/sizer/reader agreement on the MessageSet item frame (tag multisets by constant, wire types in the reader's switch), DiscardUnknown dominance of unknown-item sinks, recursion guard (static; protolegacy configuration)",
		Explain:    "Decides structural necessary conditions of the MessageSet item format: (1) SizeField accounts for exactly the tags and varint that AppendFieldStart and AppendFieldEnd emit (item start and end tags of field 1, type_id tag of field 2, the type id varint), and SizeUnknown for what AppendUnknown emits (frame, message tag of field 3, payload); the item constants have the values of the MessageSet wire format (1, 2, 3); (2) the reader accepts the same frame: Unmarshal enters an item on (FieldItem, StartGroupType) and ConsumeFieldValue's switch handles exactly (FieldItem, EndGroupType), (FieldTypeID, VarintType), (FieldMessage, BytesType) with every consumed length sign-tested; (3) with the protolegacy tag, unknown MessageSet items are stored only when DiscardUnknown is off, on both decoding paths; (4) MessageSet decoding recursion is cut by the depth checks of the binary decoders.",
		NotCovered: "the round trip on concrete MessageSets; merging of repeated message fields inside one item (value-level); sizeMessageSet/marshalMessageSet per-extension loops (lazy extension branches).",
		Quick:      []ConfigLoad{{"legacy", []string{"./proto", "./internal/impl", "./internal/encoding/messageset"}}},
		Thorough:   []ConfigLoad{{"legacy", []string{"./..."}}, {"default", []string{"./proto", "./internal/impl", "./internal/encoding/messageset"}}},
		Run: func(c *Ctx) {
			c.ruleMessageSetFrame("R-MSET-FRAME")
			c.ruleLazyBufRecords("R-LAZYBUF-RECORDS", 3)
			c.ruleExtLazyParity("R-EXT-LAZY-PARITY", extLazyPairs, 3)
			c.ruleConsumeTagRange("R-CONSUMETAG-RANGE", []string{"internal/encoding/messageset"}, 4)
			c.ruleUnknownGuard("R-UNKNOWN-GUARD", 5)
			c.ruleNegLen("R-NEG-LEN", []string{"internal/encoding/messageset"}, map[string]string{
				"internal/encoding/messageset.ConsumeFieldValue nn": "re-parses the length prefix of `message`, which is b[:n:n] of a ConsumeBytes call that already succeeded in this function",
			}, 5)
			c.ruleRecursionGuard(recScope{Rule: "R-RECURSION-GUARD", Pkgs: []string{"internal/encoding/messageset", "proto", "internal/impl"}, Extra: []edgeGuard{guardConsumeGroupPayload, guardFreshFieldCoder(c.P)}, Floor: 5, CutCallees: lazyCutCallees})
		},
	})
}

// msetOps: multiset of frame operations of a messageset function, expanding
// calls to the package's own frame helpers (see frameOps).
func (c *Ctx) msetOps(fi *FuncInfo, depth int) []string {
	return c.frameOps(fi, []ast.Node{fi.Decl.Body}, nil, nil, depth)
}

func (c *Ctx) ruleMessageSetFrame(rule string) {
	R, P := c.R, c.P
	R.Rule(rule, "MessageSet item frame: SizeField ≙ AppendFieldStart + AppendFieldEnd and SizeUnknown ≙ AppendUnknown as multisets of (tag of constant, varint of expression); FieldItem/FieldTypeID/FieldMessage are 1/2/3; the reader enters items on (FieldItem, StartGroupType) and its switch handles exactly (FieldItem, EndGroupType), (FieldTypeID, VarintType), (FieldMessage, BytesType)", 6)
	const mp = "internal/encoding/messageset."
	pk := P.Pkg("internal/encoding/messageset")
	if pk == nil {
		R.Unk(rule, "messageset", "", "package not loaded")
		return
	}
	for name, want := range map[string]string{"FieldItem": "1", "FieldTypeID": "2", "FieldMessage": "3"} {
		cst, ok := pk.Types.Scope().Lookup(name).(*types.Const)
		R.Check(ok && cst.Val().ExactString() == want, rule, mp+name, "", "= "+want, "item constant does not have the MessageSet wire-format value "+want)
	}
	get := func(n string) *FuncInfo { return c.need(rule, mp+n) }
	if fs, fa, fe := get("SizeField"), get("AppendFieldStart"), get("AppendFieldEnd"); fs != nil && fa != nil && fe != nil {
		s := strings.Join(c.msetOps(fs, 0), " + ")
		ae := append(c.msetOps(fa, 0), c.msetOps(fe, 0)...)
		sort.Strings(ae)
		a := strings.Join(ae, " + ")
		R.Check(s == a && s != "", rule, mp+"SizeField ~ AppendFieldStart+AppendFieldEnd", P.Pos(fs.Decl), "{"+s+"}", "SizeField accounts for {"+s+"} but the frame writers emit {"+a+"}")
	}
	if fs, fa := get("SizeUnknown"), get("AppendUnknown"); fs != nil && fa != nil {
		s, a := strings.Join(c.msetOps(fs, 0), " + "), strings.Join(c.msetOps(fa, 0), " + ")
		R.Check(s == a && s != "", rule, mp+"SizeUnknown ~ AppendUnknown", P.Pos(fs.Decl), "{"+s+"}", "SizeUnknown accounts for {"+s+"} but AppendUnknown emits {"+a+"}")
	}
	// reader
	pairsIn := func(fi *FuncInfo) map[string]bool {
		info := fi.Info()
		out := map[string]bool{}
		walkAll(fi.Decl.Body, func(n ast.Node) bool {
			be, ok := n.(*ast.BinaryExpr)
			if !ok || (be.Op != token.LAND && be.Op != token.LOR) {
				return true
			}
			var num, wt string
			for _, side := range []ast.Expr{be.X, be.Y} {
				if cmp, ok := unparen(side).(*ast.BinaryExpr); ok && (cmp.Op == token.EQL || cmp.Op == token.NEQ) {
					if n, isC := labelName(info, cmp.Y); isC {
						if strings.HasPrefix(n, "Field") {
							num = n
						}
						if strings.HasSuffix(n, "Type") {
							wt = n
						}
					}
				}
			}
			if num != "" && wt != "" {
				out[num+","+wt] = true
			}
			return true
		})
		return out
	}
	if fi := get("Unmarshal"); fi != nil {
		p := pairsIn(fi)
		R.Check(p["FieldItem,StartGroupType"], rule, fi.Key+" item entry", P.Pos(fi.Decl), "(FieldItem, StartGroupType)", "the reader does not enter items on (FieldItem, StartGroupType)")
	}
	if fi := get("ConsumeFieldValue"); fi != nil {
		p := pairsIn(fi)
		want := []string{"FieldItem,EndGroupType", "FieldMessage,BytesType", "FieldTypeID,VarintType"}
		R.Check(strings.Join(sortedSet(p), ";") == strings.Join(want, ";"), rule, fi.Key+" item fields", P.Pos(fi.Decl), strings.Join(want, "; "), "the item reader handles {"+strings.Join(sortedSet(p), "; ")+"} instead of {"+strings.Join(want, "; ")+"}")
	}
}
