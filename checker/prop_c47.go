package main

import (
	"go/ast"
	"go/token"
	"go/types"
	"sort"
	"strings"
)

func init() {
	register(&Property{
		ID:         "C47",
		Level:      "other",
		Technique:  "writer/sizer/reader agreement on the MessageSet item frame (tag multisets by constant, wire types in the reader's switch), DiscardUnknown dominance of unknown-item sinks, recursion guard (static; protolegacy configuration)",
		Explain:    "Decides structural necessary conditions of the MessageSet item format: (1) SizeField accounts for exactly the tags and varint that AppendFieldStart and AppendFieldEnd emit (item start and end tags of field 1, type_id tag of field 2, the type id varint), and SizeUnknown for what AppendUnknown emits (frame, message tag of field 3, payload); the item constants have the values of the MessageSet wire format (1, 2, 3); (2) the reader accepts the same frame: Unmarshal enters an item on (FieldItem, StartGroupType) and ConsumeFieldValue's switch handles exactly (FieldItem, EndGroupType), (FieldTypeID, VarintType), (FieldMessage, BytesType) with every consumed length sign-tested; (3) with the protolegacy tag, unknown MessageSet items are stored only when DiscardUnknown is off, on both decoding paths; (4) MessageSet decoding recursion is cut by the depth checks of the binary decoders. Further: the length prefix rebuilt when an item has several message subfields declares exactly the bytes appended after it (linear forms); the reflective item decoder merges into m.Mutable(xd) like the table-driven one; both decoders store an unknown item canonically (tag, minimal length, payload; found D26).",
		NotCovered: "the round trip on concrete MessageSets; sizeMessageSet/marshalMessageSet per-extension loops (lazy extension branches).",
		Quick:      []ConfigLoad{{"legacy", []string{"./proto", "./internal/impl", "./internal/encoding/messageset"}}},
		Thorough:   []ConfigLoad{{"legacy", []string{"./..."}}, {"default", []string{"./proto", "./internal/impl", "./internal/encoding/messageset"}}},
		Run: func(c *Ctx) {
			c.ruleMessageSetFrame("R-MSET-FRAME")
			c.ruleLenPrefixConsistent("R-LENPREFIX-CONSISTENT", []string{"internal/encoding/messageset", "encoding/protowire"}, 3)
			c.ruleReflMsgMerge("R-REFL-MSG-MERGE", 5)
			c.ruleLazyBufRecords("R-LAZYBUF-RECORDS", 3)
			c.ruleExtLazyParity("R-EXT-LAZY-PARITY", extLazyPairs, 3)
			c.ruleConsumeTagRange("R-CONSUMETAG-RANGE", []string{"internal/encoding/messageset"}, 4)
			c.ruleUnknownGuard("R-UNKNOWN-GUARD", 5)
			c.ruleMsetUnknownCanon("R-MSET-UNKNOWN-CANON")
			c.ruleNegLen("R-NEG-LEN", []string{"internal/encoding/messageset"}, map[string]string{
				"internal/encoding/messageset.ConsumeFieldValue nn": "re-parses the length prefix of `message`, which is b[:n:n] of a ConsumeBytes call that already succeeded in this function",
			}, 5)
			c.ruleRecursionGuard(recScope{Rule: "R-RECURSION-GUARD", Pkgs: []string{"internal/encoding/messageset", "proto", "internal/impl"}, Extra: []edgeGuard{guardConsumeGroupPayload, guardFreshFieldCoder(c.P)}, Floor: 5, CutCallees: lazyCutCallees})
		},
	})
}

// msetOps: multiset of frame operations of a messageset function, expanding
// calls to the package's own frame helpers (see frameOps).
func (c *Ctx) msetOps(fi *FuncInfo, depth int) []string {
	return c.frameOps(fi, []ast.Node{fi.Decl.Body}, nil, nil, depth)
}

func (c *Ctx) ruleMessageSetFrame(rule string) {
	R, P := c.R, c.P
	R.Rule(rule, "MessageSet item frame: SizeField ≙ AppendFieldStart + AppendFieldEnd and SizeUnknown ≙ AppendUnknown as multisets of (tag of constant, varint of expression); FieldItem/FieldTypeID/FieldMessage are 1/2/3; the reader enters items on (FieldItem, StartGroupType) and its switch handles exactly (FieldItem, EndGroupType), (FieldTypeID, VarintType), (FieldMessage, BytesType)", 6)
	const mp = "internal/encoding/messageset."
	pk := P.Pkg("internal/encoding/messageset")
	if pk == nil {
		R.Unk(rule, "messageset", "", "package not loaded")
		return
	}
	for name, want := range map[string]string{"FieldItem": "1", "FieldTypeID": "2", "FieldMessage": "3"} {
		cst, ok := pk.Types.Scope().Lookup(name).(*types.Const)
		R.Check(ok && cst.Val().ExactString() == want, rule, mp+name, "", "= "+want, "item constant does not have the MessageSet wire-format value "+want)
	}
	get := func(n string) *FuncInfo { return c.need(rule, mp+n) }
	if fs, fa, fe := get("SizeField"), get("AppendFieldStart"), get("AppendFieldEnd"); fs != nil && fa != nil && fe != nil {
		s := strings.Join(c.msetOps(fs, 0), " + ")
		ae := append(c.msetOps(fa, 0), c.msetOps(fe, 0)...)
		sort.Strings(ae)
		a := strings.Join(ae, " + ")
		R.Check(s == a && s != "", rule, mp+"SizeField ~ AppendFieldStart+AppendFieldEnd", P.Pos(fs.Decl), "{"+s+"}", "SizeField accounts for {"+s+"} but the frame writers emit {"+a+"}")
	}
	if fs, fa := get("SizeUnknown"), get("AppendUnknown"); fs != nil && fa != nil {
		s, a := strings.Join(c.msetOps(fs, 0), " + "), strings.Join(c.msetOps(fa, 0), " + ")
		R.Check(s == a && s != "", rule, mp+"SizeUnknown ~ AppendUnknown", P.Pos(fs.Decl), "{"+s+"}", "SizeUnknown accounts for {"+s+"} but AppendUnknown emits {"+a+"}")
	}
	// reader
	pairsIn := func(fi *FuncInfo) map[string]bool {
		info := fi.Info()
		out := map[string]bool{}
		walkAll(fi.Decl.Body, func(n ast.Node) bool {
			be, ok := n.(*ast.BinaryExpr)
			if !ok || (be.Op != token.LAND && be.Op != token.LOR) {
				return true
			}
			var num, wt string
			for _, side := range []ast.Expr{be.X, be.Y} {
				if cmp, ok := unparen(side).(*ast.BinaryExpr); ok && (cmp.Op == token.EQL || cmp.Op == token.NEQ) {
					if n, isC := labelName(info, cmp.Y); isC {
						if strings.HasPrefix(n, "Field") {
							num = n
						}
						if strings.HasSuffix(n, "Type") {
							wt = n
						}
					}
				}
			}
			if num != "" && wt != "" {
				out[num+","+wt] = true
			}
			return true
		})
		return out
	}
	if fi := get("Unmarshal"); fi != nil {
		p := pairsIn(fi)
		R.Check(p["FieldItem,StartGroupType"], rule, fi.Key+" item entry", P.Pos(fi.Decl), "(FieldItem, StartGroupType)", "the reader does not enter items on (FieldItem, StartGroupType)")
	}
	if fi := get("ConsumeFieldValue"); fi != nil {
		p := pairsIn(fi)
		want := []string{"FieldItem,EndGroupType", "FieldMessage,BytesType", "FieldTypeID,VarintType"}
		R.Check(strings.Join(sortedSet(p), ";") == strings.Join(want, ";"), rule, fi.Key+" item fields", P.Pos(fi.Decl), strings.Join(want, "; "), "the item reader handles {"+strings.Join(sortedSet(p), "; ")+"} instead of {"+strings.Join(want, "; ")+"}")
	}
}

// R-MSET-UNKNOWN-CANON: an unknown MessageSet item is stored in the unknown
// fields as tag(type id, bytes) + length + payload by both decoders. The
// callback of messageset.Unmarshal receives the payload with its length
// prefix as encoded in the input when wantLen is true, and without it
// otherwise. Both have to store the canonical (minimal) length: copying the
// prefixed value verbatim keeps a non-minimal length varint of the input in
// one decoder only, and the two decoded messages differ (unknown bytes, Size,
// Marshal).
func (c *Ctx) ruleMsetUnknownCanon(rule string) {
	R, P := c.R, c.P
	R.Rule(rule, "in the callbacks that impl.unmarshalMessageSet and proto.unmarshalMessageSet pass to messageset.Unmarshal, the bytes stored after AppendTag into the unknown fields are protowire.AppendBytes(·, payload), where payload is the callback's value (wantLen = false) or the first result of protowire.ConsumeBytes(value) (wantLen = true); the value is never appended verbatim", 2)
	for _, key := range []string{"internal/impl.unmarshalMessageSet", "proto.UnmarshalOptions.unmarshalMessageSet"} {
		fi := c.need(rule, key)
		if fi == nil {
			continue
		}
		info := fi.Info()
		var lit *ast.FuncLit
		wantLen := ""
		walkAll(fi.Decl.Body, func(n ast.Node) bool {
			call, ok := n.(*ast.CallExpr)
			if !ok || calleeKey(info, call) != "internal/encoding/messageset.Unmarshal" || len(call.Args) != 3 {
				return true
			}
			wantLen = exprStr(call.Args[1])
			lit, _ = call.Args[2].(*ast.FuncLit)
			return true
		})
		if lit == nil || (wantLen != "true" && wantLen != "false") || len(lit.Type.Params.List) < 2 {
			R.Unk(rule, key, P.Pos(fi.Decl), "messageset.Unmarshal(b, <const>, func(num, v) …) not found")
			continue
		}
		var vObj types.Object
		np := 0
		for _, f := range lit.Type.Params.List {
			for _, nm := range f.Names {
				np++
				if np == 2 {
					vObj = info.Defs[nm]
				}
			}
		}
		defs := localDefs(lit.Body, info)
		isV := func(e ast.Expr) bool {
			id, ok := unparen(e).(*ast.Ident)
			return ok && info.Uses[id] == vObj
		}
		isPayloadOfV := func(e ast.Expr) bool {
			id, ok := unparen(e).(*ast.Ident)
			if !ok {
				return false
			}
			ds := defs[info.Uses[id]]
			if len(ds) != 1 || ds[0].idx != 0 {
				return false
			}
			call, ok := unparen(ds[0].rhs).(*ast.CallExpr)
			return ok && calleeKey(info, call) == "encoding/protowire.ConsumeBytes" && len(call.Args) == 1 && isV(call.Args[0])
		}
		seenTag, stored, verdict := false, 0, ""
		var pos ast.Node = lit
		walk(lit.Body, func(n ast.Node) bool {
			as, ok := n.(*ast.AssignStmt)
			if !ok || len(as.Rhs) != 1 {
				return true
			}
			call, ok := unparen(as.Rhs[0]).(*ast.CallExpr)
			if !ok {
				return true
			}
			switch calleeKey(info, call) {
			case "encoding/protowire.AppendTag":
				seenTag = true
			case "encoding/protowire.AppendBytes":
				if !seenTag || len(call.Args) != 2 {
					return true
				}
				stored++
				pos = as
				switch {
				case wantLen == "false" && isV(call.Args[1]):
				case wantLen == "true" && isPayloadOfV(call.Args[1]):
				case wantLen == "true" && isV(call.Args[1]):
					verdict = "the value, which already carries a length prefix (wantLen = true), is wrapped in a second one"
				default:
					verdict = "AppendBytes stores `" + exprStr(call.Args[1]) + "`, which is not the item's payload"
				}
			case "builtin.append":
				if !seenTag || len(call.Args) != 2 || !call.Ellipsis.IsValid() {
					return true
				}
				stored++
				pos = as
				if wantLen == "true" && isV(call.Args[1]) {
					verdict = "the value is appended verbatim with the length prefix as encoded in the input: a non-minimal length varint survives here but not in the other decoder (which re-encodes with AppendBytes), so the two decoded messages differ in unknown bytes, Size and Marshal output"
				} else {
					verdict = "`" + exprStr(call.Args[1]) + "` is appended without a length prefix written by AppendBytes"
				}
			}
			return true
		})
		switch {
		case stored == 0:
			R.Unk(rule, key+" unknown item", P.Pos(lit), "no store into the unknown fields after AppendTag found in the callback")
		case verdict != "":
			R.Bad(rule, key+" unknown item", P.Pos(pos), verdict)
		default:
			R.OK(rule, key+" unknown item", P.Pos(pos), "tag + AppendBytes(payload), wantLen = "+wantLen)
		}
	}
}
