package main

import (
	"go/ast"
	"go/token"
	"go/types"
	"sort"
	"strings"
)

// R-DESC-PRESENCE-STORE. protodesc reads descriptor protos as Go structs and
// distinguishes "field present" from "field absent" for some optional scalar
// fields (`fd.JsonName != nil`, `fd.DefaultValue != nil`, `opts.Packed != nil`,
// …): presence, not the value, decides HasJSONName, HasDefault, the packed
// override. The compact builder sees presence as the occurrence of the field
// on the wire, i.e. as reaching the `case genid.X_field_number:` clause. For
// every field that protodesc treats by presence, the clause must therefore
// store unconditionally with respect to the consumed value: a clause that
// skips empty or zero values turns a present-but-empty field into an absent
// one, and the two descriptors disagree (HasDefault for `[default = ""]`).
func (c *Ctx) ruleDescPresenceStore(rule string, floor int) {
	R, P := c.R, c.P
	R.Rule(rule, "for every descriptor-proto field that protodesc tests for presence (`x.F != nil` on an optional scalar of a descriptorpb message), the `case genid.<Msg>_<F>_field_number` clauses of the compact builder's parsers contain no branch on the consumed value: reaching the clause is presence", floor)
	// 1. presence-tested fields in protodesc
	tested := map[string]string{} // genid const name -> position of a presence test
	for _, fi := range P.FuncsIn("reflect/protodesc") {
		if fi.Decl.Body == nil {
			continue
		}
		info := fi.Info()
		walkAll(fi.Decl.Body, func(n ast.Node) bool {
			be, ok := n.(*ast.BinaryExpr)
			if !ok || (be.Op != token.NEQ && be.Op != token.EQL) || !isNilIdent(info, be.Y) {
				return true
			}
			sel, ok := unparen(be.X).(*ast.SelectorExpr)
			if !ok {
				return true
			}
			s := info.Selections[sel]
			if s == nil || s.Kind() != types.FieldVal {
				return true
			}
			recv := namedTypeName(s.Recv())
			if !strings.HasPrefix(recv, "types/descriptorpb.") {
				return true
			}
			// optional scalar: pointer to basic, or []byte
			switch t := s.Obj().Type().(type) {
			case *types.Pointer:
				if _, basic := t.Elem().Underlying().(*types.Basic); !basic {
					return true
				}
			default:
				return true
			}
			name := strings.TrimPrefix(recv, "types/descriptorpb.") + "_" + s.Obj().Name() + "_field_number"
			if _, seen := tested[name]; !seen {
				tested[name] = P.Pos(be)
			}
			return true
		})
	}
	if len(tested) == 0 {
		R.Unk(rule, "reflect/protodesc", "", "no presence test on a descriptor-proto field found")
		return
	}
	// 2. the clauses of the compact builder
	found := map[string]int{}
	for _, fi := range P.FuncsIn("internal/filedesc") {
		if fi.Decl.Body == nil {
			continue
		}
		info := fi.Info()
		var pm map[ast.Node]ast.Node
		walk(fi.Decl.Body, func(n ast.Node) bool {
			cc, ok := n.(*ast.CaseClause)
			if !ok {
				return true
			}
			for _, lab := range cc.List {
				nm, isConst := labelName(info, lab)
				if !isConst {
					continue
				}
				if _, want := tested[nm]; !want {
					continue
				}
				if o := objOf(info, lab); o == nil || o.Pkg() == nil || !strings.HasSuffix(o.Pkg().Path(), "/internal/genid") {
					continue
				}
				if pm == nil {
					pm = parentMap(fi.Decl.Body)
				}
				found[nm]++
				construct := fi.Key + " case " + nm
				// the consumed value: first result of the protowire.Consume* call of the enclosing wire-type clause
				var v types.Object
				for p := pm[cc]; p != nil && v == nil; p = pm[p] {
					oc, ok := p.(*ast.CaseClause)
					if !ok || oc == cc {
						continue
					}
					for _, st := range oc.Body {
						as, ok := st.(*ast.AssignStmt)
						if !ok || len(as.Rhs) != 1 {
							continue
						}
						if call, ok := as.Rhs[0].(*ast.CallExpr); ok && strings.HasPrefix(calleeKey(info, call), "encoding/protowire.Consume") {
							if id, ok := as.Lhs[0].(*ast.Ident); ok {
								v = info.Defs[id]
								if v == nil {
									v = info.Uses[id]
								}
							}
							break
						}
					}
				}
				if v == nil {
					R.Unk(rule, construct, P.Pos(cc), "the variable holding the consumed value was not found: cannot decide whether the clause branches on it")
					continue
				}
				var bad ast.Node
				for _, st := range cc.Body {
					walkAll(st, func(x ast.Node) bool {
						if bad != nil {
							return false
						}
						var cond ast.Expr
						switch s := x.(type) {
						case *ast.IfStmt:
							cond = s.Cond
						case *ast.SwitchStmt:
							cond = s.Tag
						case *ast.ForStmt:
							cond = s.Cond
						}
						if cond == nil {
							return true
						}
						walkAll(cond, func(y ast.Node) bool {
							if id, ok := y.(*ast.Ident); ok && info.Uses[id] == v {
								bad = x
							}
							return true
						})
						return true
					})
				}
				if bad != nil {
					R.Bad(rule, construct, P.Pos(bad), "the clause branches on the consumed value although protodesc treats this field by presence ("+tested[nm]+"): a present field with an empty/zero value is handled as absent by the compact builder only")
				} else {
					R.OK(rule, construct, P.Pos(cc), "no branch on the consumed value; presence test in protodesc at "+tested[nm])
				}
			}
			return true
		})
	}
	var names []string
	for nm := range tested {
		names = append(names, nm)
	}
	sort.Strings(names)
	for _, nm := range names {
		if found[nm] == 0 {
			R.Exempt(rule, "genid."+nm+" not parsed", tested[nm], "no clause for this field in internal/filedesc (field agreement is decided by R-DESC-FIELDS)")
		}
	}
}

// R-REQUIRED-NUMBERS: Message.RequiredNumbers is derived in both
// constructions; a field belongs to it iff its *resolved* cardinality is
// Required (editions: features.field_presence = LEGACY_REQUIRED carries label
// OPTIONAL in the proto).
func (c *Ctx) ruleRequiredNumbers(rule string, floor int) {
	R, P := c.R, c.P
	R.Rule(rule, "every append of a field number to Message.L2.RequiredNumbers.List, in internal/filedesc and in reflect/protodesc, is guarded by `<that field>.L1.Cardinality == protoreflect.Required` (the resolved cardinality, after feature resolution), and nothing else writes the list", floor)
	for _, pkg := range []string{"internal/filedesc", "reflect/protodesc"} {
		for _, fi := range P.FuncsIn(pkg) {
			if fi.Decl.Body == nil {
				continue
			}
			info := fi.Info()
			var g *FCFG
			walk(fi.Decl.Body, func(n ast.Node) bool {
				as, ok := n.(*ast.AssignStmt)
				if !ok || len(as.Lhs) != 1 || len(as.Rhs) != 1 {
					return true
				}
				lhs := exprStr(as.Lhs[0])
				if !strings.HasSuffix(lhs, ".RequiredNumbers.List") {
					return true
				}
				construct := fi.Key + " " + lhs
				call, ok := unparen(as.Rhs[0]).(*ast.CallExpr)
				if !ok || calleeKey(info, call) != "builtin.append" || len(call.Args) != 2 || exprStr(call.Args[0]) != lhs {
					R.Bad(rule, construct, P.Pos(as), "RequiredNumbers.List is written other than by appending one field number")
					return true
				}
				num := exprStr(unparen(call.Args[1]))
				if !strings.HasSuffix(num, ".L1.Number") {
					R.Unk(rule, construct, P.Pos(as), "appended value "+num+" is not `<field>.L1.Number`")
					return true
				}
				base := strings.TrimSuffix(num, ".L1.Number")
				if g == nil {
					g = fi.CFG()
				}
				good := g.DominatedByCond(as, func(core ast.Expr, val bool) bool {
					be, ok := unparen(core).(*ast.BinaryExpr)
					if !ok || !((be.Op == token.EQL && val) || (be.Op == token.NEQ && !val)) {
						return false
					}
					isCard := func(e ast.Expr) bool { return exprStr(unparen(e)) == base+".L1.Cardinality" }
					isReq := func(e ast.Expr) bool {
						nm, isC := labelName(info, e)
						return isC && nm == "Required"
					}
					return (isCard(be.X) && isReq(be.Y)) || (isCard(be.Y) && isReq(be.X))
				})
				R.Check(good, rule, construct, P.Pos(as), "guarded by "+base+".L1.Cardinality == Required", "the field number is listed as required without the test `"+base+".L1.Cardinality == protoreflect.Required` on the resolved descriptor: the two constructions disagree for fields whose requiredness comes from feature resolution (LEGACY_REQUIRED) or from the raw label only")
				return true
			})
		}
	}
}

// R-DESC-WRITE-GUARD: the optional scalar fields of FieldDescriptorProto that
// carry presence information are written by ToFieldDescriptorProto under the
// descriptor accessor that NewFile feeds from that very field (so that the
// round trip is the identity on it), and not under the guard of a different
// attribute: proto3_optional ↔ HasOptionalKeyword, json_name ↔ HasJSONName,
// default_value ↔ HasDefault, oneof_index ↔ ContainingOneof. A proto3_optional
// written only for members of a synthetic oneof is lost for proto3 optional
// extensions, which have no containing oneof.
var descWriteGuards = map[string]string{
	"Proto3Optional": "HasOptionalKeyword",
	"JsonName":       "HasJSONName",
	"DefaultValue":   "HasDefault",
	"OneofIndex":     "ContainingOneof",
}

func (c *Ctx) ruleDescWriteGuard(rule string) {
	R, P := c.R, c.P
	R.Rule(rule, "ToFieldDescriptorProto writes proto3_optional, json_name, default_value and oneof_index each under (only) the descriptor accessor that reports the attribute the field feeds: HasOptionalKeyword, HasJSONName, HasDefault, ContainingOneof", 4)
	fi := c.need(rule, "reflect/protodesc.ToFieldDescriptorProto")
	if fi == nil {
		return
	}
	info := fi.Info()
	pm := parentMap(fi.Decl.Body)
	seen := map[string]bool{}
	walk(fi.Decl.Body, func(n ast.Node) bool {
		as, ok := n.(*ast.AssignStmt)
		if !ok || len(as.Lhs) != 1 {
			return true
		}
		se, ok := as.Lhs[0].(*ast.SelectorExpr)
		if !ok {
			return true
		}
		want, tracked := descWriteGuards[se.Sel.Name]
		if !tracked {
			return true
		}
		seen[se.Sel.Name] = true
		// accessors mentioned by the enclosing guards
		mentioned := map[string]bool{}
		var cur ast.Node = as
		for p := pm[cur]; p != nil; cur, p = p, pm[p] {
			is, ok := p.(*ast.IfStmt)
			if !ok || (cur != ast.Node(is.Body) && cur != is.Else) {
				continue
			}
			for _, e := range []ast.Node{is.Init, is.Cond} {
				if e == nil {
					continue
				}
				walk(e, func(x ast.Node) bool {
					if call, ok := x.(*ast.CallExpr); ok {
						if k := calleeKey(info, call); strings.HasPrefix(k, "reflect/protoreflect.FieldDescriptor.") {
							mentioned[k[strings.LastIndex(k, ".")+1:]] = true
						}
					}
					return true
				})
			}
		}
		other := ""
		for _, a := range descWriteGuards {
			if a != want && mentioned[a] {
				other = a
			}
		}
		construct := fi.Key + " " + se.Sel.Name
		switch {
		case !mentioned[want]:
			R.Bad(rule, construct, P.Pos(as), se.Sel.Name+" is written without a guard on "+want+"(), the accessor NewFile feeds from this field: descriptors for which the guards differ lose or gain the attribute on the round trip")
		case other != "":
			R.Bad(rule, construct, P.Pos(as), se.Sel.Name+" is written under a guard on "+other+"() as well: fields that have the attribute but fail that other test (e.g. proto3 optional extensions, which have no containing oneof) lose it")
		default:
			R.OK(rule, construct, P.Pos(as), "written under "+want+"()")
		}
		return true
	})
	for f, a := range descWriteGuards {
		if !seen[f] {
			R.Bad(rule, fi.Key+" "+f, P.Pos(fi.Decl), f+" is never written ("+a+"() is lost on conversion)")
		}
	}
}

// R-PRESENCE-NOT-VALUE: for default_value and packed the *presence* of the
// field in the descriptor proto carries meaning of its own: `default = ""` is
// a default, and `packed = false` overrides an inherited PACKED encoding, while
// an absent option leaves the inherited value alone. protodesc may therefore
// read the getter's value only where it has tested the pointer field for
// presence; a test on the value (`GetDefaultValue() != ""`) or no test at all
// (`IsPacked = opts.GetPacked()` for every field with options) loses the
// distinction.
var presenceFields = map[string]string{
	"GetDefaultValue": "DefaultValue",
	"GetPacked":       "Packed",
}

func (c *Ctx) rulePresenceNotValue(rule string, floor int) {
	R, P := c.R, c.P
	R.Rule(rule, "in reflect/protodesc (To*Proto writers and validate* excluded) every call of GetDefaultValue()/GetPacked() on a descriptorpb message is dominated by the passing edge of `<same receiver>.DefaultValue != nil` / `.Packed != nil`", floor)
	for _, fi := range P.FuncsIn("reflect/protodesc") {
		if fi.Decl.Body == nil {
			continue
		}
		name := fi.Obj.Name()
		if (strings.HasPrefix(name, "To") && strings.HasSuffix(name, "Proto")) || strings.HasPrefix(name, "validate") {
			continue
		}
		info := fi.Info()
		var g *FCFG
		k := 0
		walkAll(fi.Decl.Body, func(n ast.Node) bool {
			call, ok := n.(*ast.CallExpr)
			if !ok || len(call.Args) != 0 {
				return true
			}
			se, ok := call.Fun.(*ast.SelectorExpr)
			if !ok {
				return true
			}
			field, ok := presenceFields[se.Sel.Name]
			if !ok || !strings.HasPrefix(namedTypeName(info.TypeOf(se.X)), "types/descriptorpb.") {
				return true
			}
			k++
			if g == nil {
				g = fi.CFG()
			}
			recv := exprStr(se.X)
			ok = g.DominatedByCond(call, func(core ast.Expr, val bool) bool {
				be, isBE := unparen(core).(*ast.BinaryExpr)
				if !isBE || !isNilIdent(info, be.Y) {
					return false
				}
				if exprStr(be.X) != recv+"."+field {
					return false
				}
				return (be.Op == token.NEQ && val) || (be.Op == token.EQL && !val)
			})
			R.Check(ok, rule, fi.Key+" "+se.Sel.Name+"#"+itoa(k), P.Pos(call), "under `"+recv+"."+field+" != nil`", "the value of "+se.Sel.Name+"() is used where the presence of `"+field+"` was not established: an explicit empty default (`default = \"\"`) is taken for no default, or an absent `packed` option for `packed = false`; HasDefault()/IsPacked() then differ from the descriptor of generated code and the proto does not convert back losslessly")
			return true
		})
	}
}
