package main

import (
	"go/ast"
	"go/token"
	"go/types"
)

func init() {
	register(&Property{
		ID:         "C33",
		Level:      "other",
		Technique:  "forward CFG reachability from every table mutation to error returns (commit-after-validate) + lock-prologue dominance over every registry field access + exhaustiveness of search loops and unfiltered lookup keys (static)",
		Explain:    "Decides structural necessary conditions of `registries behave like a conflict-checking name table`: (1) in RegisterFile, RegisterMessage, RegisterEnum, RegisterExtension and the shared register helper no error return is reachable after any mutation of the registry tables (insertions, counters, file lists; a helper that inserts counts as a mutation on its success continuation), so a rejected registration leaves nothing behind and lookups/counters/ranges stay mutually consistent; (2) every method of Files/Types touches the tables only after the global-registry lock prologue, with the write lock when it (or a helper it calls) mutates; (3) every search loop of the lookup functions continues with the next element on a miss (no break, no nil return inside the loop), so a registered descriptor is found wherever it is declared; (4) the by-package readers use the package name as given (no early return under a predicate on it), matching the key RegisterFile stores. Also: every condition that consults ignoreConflict, evaluated over (r is the global registry, policy says ignore), suppresses the conflict error only when both hold; every Range* method returns when the callback reports false.",
		NotCovered: "which conflicts are detected (name, path, package/declaration, extension number) and the results of lookups on concrete histories; custom (non-global) registries are not synchronised by design.",
		Quick:      all("./reflect/protoregistry"),
		Thorough:   all("./..."),
		Run: func(c *Ctx) {
			c.ruleCommitAfterValidate("R-COMMIT-AFTER-VALIDATE")
			c.ruleRegistryLock("R-REG-LOCK")
			c.ruleSearchExhaustive("R-SEARCH-EXHAUSTIVE", "reflect/protoregistry", 2)
			c.ruleLookupKeyUnfiltered("R-LOOKUP-KEY-UNFILTERED")
			c.ruleConflictPolicy("R-CONFLICT-POLICY")
			c.ruleRangeStop("R-RANGE-STOP", "reflect/protoregistry", 5)
		},
	})
}

// R-SEARCH-EXHAUSTIVE: a descriptor that is registered is found wherever it is
// declared. The registry's lookup functions search by loops that return on a
// hit; on a miss the loop must go on to the next element — a `break` (or a
// return of nil) inside such a loop makes every element after the first miss
// unreachable (values of all but one nested enum, …).
func (c *Ctx) ruleSearchExhaustive(rule string, pkg string, floor int) {
	R, P := c.R, c.P
	R.Rule(rule, "every search loop of the registry (a loop whose body returns a found descriptor) continues with the next element on a miss: no break and no nil return inside the loop", floor)
	for _, fi := range P.FuncsIn(pkg) {
		if fi.Decl.Body == nil {
			continue
		}
		info := fi.Info()
		i := 0
		walk(fi.Decl.Body, func(n ast.Node) bool {
			var body *ast.BlockStmt
			switch l := n.(type) {
			case *ast.ForStmt:
				body = l.Body
			case *ast.RangeStmt:
				body = l.Body
			}
			if body == nil {
				return true
			}
			// does the body return a non-nil, non-constant value (a hit)?
			hit := false
			var early ast.Node
			var scan func(n ast.Node, inNested bool)
			scan = func(n ast.Node, inNested bool) {
				walk(n, func(x ast.Node) bool {
					switch s := x.(type) {
					case *ast.ForStmt, *ast.RangeStmt, *ast.SwitchStmt, *ast.TypeSwitchStmt, *ast.SelectStmt:
						if x != n {
							// break inside these belongs to them; returns still count
							walk(x, func(y ast.Node) bool {
								if rs, ok := y.(*ast.ReturnStmt); ok {
									for _, r := range rs.Results {
										if !isNilIdent(info, r) {
											if _, isC := constBool(info, r); !isC {
												hit = true
											}
										}
									}
								}
								return true
							})
							return false
						}
					case *ast.ReturnStmt:
						allNil := len(s.Results) > 0
						for _, r := range s.Results {
							if !isNilIdent(info, r) {
								allNil = false
								if _, isC := constBool(info, r); !isC {
									hit = true
								}
							}
						}
						if allNil && early == nil {
							early = s
						}
					case *ast.BranchStmt:
						if s.Tok == token.BREAK && s.Label == nil && early == nil {
							early = s
						}
					}
					return true
				})
			}
			scan(body, false)
			if !hit {
				return true
			}
			i++
			construct := fi.Key + " search loop#" + itoa(i)
			if early != nil {
				R.Bad(rule, construct, P.Pos(early), "the search loop is left on a miss (break / nil return) instead of continuing with the next element: descriptors declared in the remaining elements are never found although they are registered")
			} else {
				R.OK(rule, construct, P.Pos(n), "continues on a miss")
			}
			return true
		})
	}
}

// R-LOOKUP-KEY-UNFILTERED: RegisterFile records every file under its package
// name as it is (the empty name for files without a package clause). The
// by-package readers must use the caller's key as it is too: an early return
// under a predicate on the key hides the files stored under keys failing it.
func (c *Ctx) ruleLookupKeyUnfiltered(rule string) {
	R, P := c.R, c.P
	R.Rule(rule, "Files.NumFilesByPackage and RangeFilesByPackage look their key up as given: no return is guarded by a predicate on the package name", 2)
	for _, key := range []string{"reflect/protoregistry.(*Files).NumFilesByPackage", "reflect/protoregistry.(*Files).RangeFilesByPackage"} {
		fi := c.need(rule, key)
		if fi == nil {
			continue
		}
		info := fi.Info()
		var nameObj types.Object
		for _, f := range fi.Decl.Type.Params.List {
			for _, nm := range f.Names {
				if namedTypeName(info.TypeOf(nm)) == "reflect/protoreflect.FullName" {
					nameObj = info.Defs[nm]
				}
			}
		}
		var bad ast.Node
		walk(fi.Decl.Body, func(n ast.Node) bool {
			is, ok := n.(*ast.IfStmt)
			if !ok {
				return true
			}
			mentions := false
			walk(is.Cond, func(x ast.Node) bool {
				if id, ok := x.(*ast.Ident); ok && info.Uses[id] == nameObj {
					mentions = true
				}
				return true
			})
			if !mentions {
				return true
			}
			for _, st := range is.Body.List {
				if _, isRet := st.(*ast.ReturnStmt); isRet && bad == nil {
					bad = is
				}
			}
			return true
		})
		R.Check(bad == nil && nameObj != nil, rule, fi.Key+" key", P.Pos(fi.Decl), "key used as given", "an early return is guarded by a predicate on the package name: files registered under names failing it (e.g. the empty name of files without a package clause) are hidden from the by-package API although RegisterFile stored them")
	}
}
