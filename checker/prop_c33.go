package main

func init() {
	register(&Property{
		ID:         "C33",
		Level:      "other",
		Technique:  "forward CFG reachability from every table mutation to error returns (commit-after-validate) + lock-prologue dominance over every registry field access (static)",
		Explain:    "Decides structural necessary conditions of `registries behave like a conflict-checking name table`: (1) in RegisterFile, RegisterMessage, RegisterEnum, RegisterExtension and the shared register helper no error return is reachable after any mutation of the registry tables (insertions, counters, file lists; a helper that inserts counts as a mutation on its success continuation), so a rejected registration leaves nothing behind and lookups/counters/ranges stay mutually consistent; (2) every method of Files/Types touches the tables only after the global-registry lock prologue, with the write lock when it (or a helper it calls) mutates.",
		NotCovered: "which conflicts are detected (name, path, package/declaration, extension number) and the results of lookups on concrete histories; custom (non-global) registries are not synchronised by design.",
		Quick:      all("./reflect/protoregistry"),
		Thorough:   all("./..."),
		Run: func(c *Ctx) {
			c.ruleCommitAfterValidate("R-COMMIT-AFTER-VALIDATE")
			c.ruleRegistryLock("R-REG-LOCK")
		},
	})
}
