package main

import (
	"fmt"
	"go/ast"
	"go/constant"
	"go/token"
	"go/types"
	"os"
	"sort"
	"strings"

	"golang.org/x/tools/go/cfg"
)

// E7 scanfa: abstract interpretation of hand-written byte-cursor scanners into
// a finite automaton over bytes, compared (language inclusion both ways) with
// a reference automaton written from the specification.
//
// Idiom accepted: one cursor variable s of type []byte/string initialised
// from the input, advanced only by s = s[k:] (k constant), inspected through
// len(s) and s[i] (i constant) comparisons with constants; an optional
// "consumed counter" n kept equal to the number of consumed bytes (n++, n += k)
// and used as input[n] / n < len(input); bounded loop counters compared with
// constants; an optional suffix prologue (size := len(b); b[size-1] != C →
// reject; b = b[:size-1]). Conditions on anything else are treated as
// non-deterministic (value checks such as strconv overflow). Anything that
// touches the cursor outside the idiom makes the function UNDECIDED.

type bset [4]uint64

func (b *bset) add(c int)      { b[c>>6] |= 1 << uint(c&63) }
func (b bset) has(c int) bool  { return b[c>>6]&(1<<uint(c&63)) != 0 }
func (b bset) empty() bool     { return b == bset{} }
func (b bset) and(o bset) bset { return bset{b[0] & o[0], b[1] & o[1], b[2] & o[2], b[3] & o[3]} }
func (b bset) not() bset       { return bset{^b[0], ^b[1], ^b[2], ^b[3]} }
func fullSet() bset            { return bset{^uint64(0), ^uint64(0), ^uint64(0), ^uint64(0)} }
func setOf(pred func(c int) bool) bset {
	var b bset
	for c := 0; c < 256; c++ {
		if pred(c) {
			b.add(c)
		}
	}
	return b
}
func (b bset) String() string {
	var parts []string
	for c := 0; c < 256; {
		if !b.has(c) {
			c++
			continue
		}
		d := c
		for d+1 < 256 && b.has(d+1) {
			d++
		}
		f := func(x int) string {
			if x >= 0x21 && x < 0x7f {
				return string(rune(x))
			}
			return fmt.Sprintf("\\x%02x", x)
		}
		if d == c {
			parts = append(parts, f(c))
		} else {
			parts = append(parts, f(c)+"-"+f(d))
		}
		c = d + 1
	}
	return "[" + strings.Join(parts, "") + "]"
}

const lookN = 3
const unbounded = 1 << 20

// scanAbs is the abstract state at a program point.
type scanAbs struct {
	lo, hi   int         // lo <= len(s) <= hi (hi == unbounded: no upper bound)
	look     [lookN]bset // constraint on s[0..2]
	delta    int         // (consumed counter) - (bytes consumed); valid if hasCounter
	counters string      // "name=v;…" for bounded counters (value capped)
	stripped bool        // suffix prologue executed
	last     bset        // constraint on the last byte of the un-stripped input (suffix prologue)
}

func (a scanAbs) key() string {
	return fmt.Sprintf("%d|%d|%x|%x|%x|%d|%s|%v|%x", a.lo, a.hi, a.look[0], a.look[1], a.look[2], a.delta, a.counters, a.stripped, a.last)
}

type nfaEdge struct {
	to    int
	label bset // empty label == epsilon when eps is true
	eps   bool
}

type scanNFA struct {
	edges      [][]nfaEdge
	accept     map[int]bool // may-accept nodes (return true reachable consuming nothing more)
	acceptFull map[int]bool // accept nodes where remaining input may be empty
	start      int
}

type scanFunc struct {
	c             *Ctx
	fi            *FuncInfo
	info          *types.Info
	g             *FCFG
	cursor        types.Object
	input         types.Object         // original parameter (for input[n], len(input))
	counter       types.Object         // consumed counter (optional)
	sizeVar       types.Object         // size := len(cursor) alias (optional)
	bounded       map[types.Object]int // counter -> cap
	suffix        *bset                // required last byte (suffix prologue)
	caseSw        map[*ast.CaseClause]*ast.SwitchStmt
	problems      []string
	undecided     []string
	boolResultIdx int
	opaqueSkip    bool
	enumVars      map[types.Object]bool // non-cursor integer locals assigned only constants (mode/kind flags)
}

// byteExpr: e denotes s[i] (cursor-relative) or input[n] with delta==0.
func (sf *scanFunc) byteIndex(e ast.Expr, st scanAbs) (int, bool) {
	ix, ok := unparen(e).(*ast.IndexExpr)
	if !ok {
		// conversions like rune(s[0]) / byte(x)
		if call, ok := unparen(e).(*ast.CallExpr); ok && len(call.Args) == 1 {
			if tv, ok := sf.info.Types[call.Fun]; ok && tv.IsType() {
				return sf.byteIndex(call.Args[0], st)
			}
		}
		return 0, false
	}
	base := objOf(sf.info, ix.X)
	if base == sf.cursor {
		if v, ok := constInt(sf.info, ix.Index); ok && v >= 0 && v < lookN {
			return int(v), true
		}
		// b[size-1] handled elsewhere
		return 0, false
	}
	if base == sf.input && sf.counter != nil {
		if id, ok := unparen(ix.Index).(*ast.Ident); ok && objOf(sf.info, id) == sf.counter && st.delta == 0 {
			return 0, true
		}
	}
	return 0, false
}

type outcome struct {
	st  scanAbs
	val bool
}

// evalCond returns the possible (refined state, truth value) outcomes.
func (sf *scanFunc) evalCond(e ast.Expr, st scanAbs) []outcome {
	e = unparen(e)
	switch x := e.(type) {
	case *ast.UnaryExpr:
		if x.Op == token.NOT {
			outs := sf.evalCond(x.X, st)
			for i := range outs {
				outs[i].val = !outs[i].val
			}
			return outs
		}
	case *ast.BinaryExpr:
		switch x.Op {
		case token.LAND:
			var res []outcome
			for _, o := range sf.evalCond(x.X, st) {
				if !o.val {
					res = append(res, o)
				} else {
					res = append(res, sf.evalCond(x.Y, o.st)...)
				}
			}
			return res
		case token.LOR:
			var res []outcome
			for _, o := range sf.evalCond(x.X, st) {
				if o.val {
					res = append(res, o)
				} else {
					res = append(res, sf.evalCond(x.Y, o.st)...)
				}
			}
			return res
		case token.EQL, token.NEQ, token.LSS, token.LEQ, token.GTR, token.GEQ:
			if len(sf.enumVars) > 0 && !sf.mentionsCursor(x) {
				env := map[types.Object]int64{}
				for o := range sf.enumVars {
					if v, known := counterGet(st.counters, "enum:"+o.Name()); known {
						env[o] = int64(v)
					}
				}
				if v, ok := evalBool(sf.info, x, env); ok {
					return []outcome{{st, v}}
				} else if os.Getenv("VERIF_DEBUG") != "" {
					fmt.Println("E7 enum cond undecided:", exprStr(x), env, st.counters)
				}
			}
			if outs, ok := sf.evalCmp(x, st); ok {
				return outs
			}
		}
	case *ast.CallExpr:
		// predicate over a byte: f(s[i])
		if len(x.Args) == 1 {
			if i, ok := sf.byteIndex(x.Args[0], st); ok {
				if set, ok := sf.predicateSet(x); ok {
					return sf.splitByte(st, i, set, x)
				}
			}
		}
	}
	if sf.mentionsCursor(e) {
		sf.undecided = append(sf.undecided, "condition on the cursor outside the idiom: `"+exprStr(e)+"` at "+sf.c.P.Pos(e))
	}
	// non-syntactic condition: both outcomes possible
	return []outcome{{st, true}, {st, false}}
}

func (sf *scanFunc) mentionsCursor(e ast.Node) bool {
	m := false
	walk(e, func(n ast.Node) bool {
		if id, ok := n.(*ast.Ident); ok {
			if o := sf.info.Uses[id]; o != nil && (o == sf.cursor || (sf.counter != nil && o == sf.counter) || (sf.sizeVar != nil && o == sf.sizeVar)) {
				m = true
			}
		}
		return !m
	})
	return m
}

// splitByte refines look[i] by set; requires len(s) > i.
func (sf *scanFunc) splitByte(st scanAbs, i int, set bset, at ast.Node) []outcome {
	if st.lo <= i {
		sf.problems = append(sf.problems, fmt.Sprintf("s[%d] is read at %s where only len(s) >= %d is established: index out of range is possible", i, sf.c.P.Pos(at), st.lo))
		return nil
	}
	var res []outcome
	t := st
	t.look[i] = st.look[i].and(set)
	if !t.look[i].empty() {
		res = append(res, outcome{t, true})
	}
	f := st
	f.look[i] = st.look[i].and(set.not())
	if !f.look[i].empty() {
		res = append(res, outcome{f, false})
	}
	return res
}

func cmpHolds(op token.Token, a, b int64) bool {
	switch op {
	case token.EQL:
		return a == b
	case token.NEQ:
		return a != b
	case token.LSS:
		return a < b
	case token.LEQ:
		return a <= b
	case token.GTR:
		return a > b
	case token.GEQ:
		return a >= b
	}
	return false
}

func flipOp(op token.Token) token.Token {
	switch op {
	case token.LSS:
		return token.GTR
	case token.LEQ:
		return token.GEQ
	case token.GTR:
		return token.LSS
	case token.GEQ:
		return token.LEQ
	}
	return op
}

func (sf *scanFunc) evalCmp(x *ast.BinaryExpr, st scanAbs) ([]outcome, bool) {
	l, r, op := x.X, x.Y, x.Op
	if _, ok := constInt(sf.info, l); ok {
		l, r, op = r, l, flipOp(op)
	}
	cv, isConst := constInt(sf.info, r)
	// len(s) op const  /  size op const  /  n op len(input)
	if isConst {
		if call, ok := unparen(l).(*ast.CallExpr); ok && calleeKey(sf.info, call) == "builtin.len" && len(call.Args) == 1 && objOf(sf.info, call.Args[0]) == sf.cursor {
			return sf.splitLen(st, op, int(cv)), true
		}
		if id, ok := unparen(l).(*ast.Ident); ok && sf.sizeVar != nil && objOf(sf.info, id) == sf.sizeVar && !st.stripped {
			return sf.splitLen(st, op, int(cv)), true
		}
		// byte compare
		if i, ok := sf.byteIndex(l, st); ok {
			set := setOf(func(c int) bool { return cmpHolds(op, int64(c), cv) })
			return sf.splitByte(st, i, set, x), true
		}
		// b[size-1] op const  (suffix prologue)
		if ix, ok := unparen(l).(*ast.IndexExpr); ok && objOf(sf.info, ix.X) == sf.cursor && sf.sizeVar != nil && !st.stripped {
			if be, ok := unparen(ix.Index).(*ast.BinaryExpr); ok && be.Op == token.SUB && objOf(sf.info, be.X) == sf.sizeVar {
				if one, ok := constInt(sf.info, be.Y); ok && one == 1 {
					set := setOf(func(c int) bool { return cmpHolds(op, int64(c), cv) })
					if st.lo < 1 {
						sf.problems = append(sf.problems, "last byte read at "+sf.c.P.Pos(x)+" without len >= 1")
						return nil, true
					}
					var res []outcome
					tt, ff := st, st
					tt.last = st.last.and(set)
					ff.last = st.last.and(set.not())
					if !tt.last.empty() {
						res = append(res, outcome{tt, true})
					}
					if !ff.last.empty() {
						res = append(res, outcome{ff, false})
					}
					return res, true
				}
			}
		}
		// bounded counter compare
		if id, ok := unparen(l).(*ast.Ident); ok {
			if capv, isB := sf.bounded[objOf(sf.info, id)]; isB {
				v, known := counterGet(st.counters, id.Name)
				if known && v < capv {
					return []outcome{{st, cmpHolds(op, int64(v), cv)}}, true
				}
				return []outcome{{st, true}, {st, false}}, true
			}
		}
	}
	// n < len(input): with delta == 0 this is len(s) > 0
	if sf.counter != nil {
		if id, ok := unparen(l).(*ast.Ident); ok && objOf(sf.info, id) == sf.counter {
			if call, ok := unparen(r).(*ast.CallExpr); ok && calleeKey(sf.info, call) == "builtin.len" && len(call.Args) == 1 && objOf(sf.info, call.Args[0]) == sf.input {
				if st.delta != 0 {
					sf.undecided = append(sf.undecided, "consumed counter is not aligned with the cursor at "+sf.c.P.Pos(x))
					return []outcome{{st, true}, {st, false}}, true
				}
				switch op {
				case token.LSS:
					return sf.splitLen(st, token.GTR, 0), true
				case token.GEQ:
					return sf.splitLen(st, token.LEQ, 0), true
				case token.EQL:
					return sf.splitLen(st, token.EQL, 0), true
				case token.NEQ:
					return sf.splitLen(st, token.NEQ, 0), true
				}
			}
		}
	}
	return nil, false
}

var _ = constant.MakeBool

// splitLen refines [lo,hi] by `len(s) op k`.
func (sf *scanFunc) splitLen(st scanAbs, op token.Token, k int) []outcome {
	var res []outcome
	add := func(lo, hi int, val bool) {
		if lo < st.lo {
			lo = st.lo
		}
		if hi > st.hi {
			hi = st.hi
		}
		if lo > hi {
			return
		}
		t := st
		t.lo, t.hi = lo, hi
		// bytes beyond hi carry no constraint
		for i := 0; i < lookN; i++ {
			if i >= hi {
				t.look[i] = fullSet()
			}
		}
		res = append(res, outcome{t, val})
	}
	switch op {
	case token.EQL:
		add(k, k, true)
		add(0, k-1, false)
		add(k+1, unbounded, false)
	case token.NEQ:
		add(k, k, false)
		add(0, k-1, true)
		add(k+1, unbounded, true)
	case token.LSS:
		add(0, k-1, true)
		add(k, unbounded, false)
	case token.LEQ:
		add(0, k, true)
		add(k+1, unbounded, false)
	case token.GTR:
		add(k+1, unbounded, true)
		add(0, k, false)
	case token.GEQ:
		add(k, unbounded, true)
		add(0, k-1, false)
	}
	return res
}

func counterGet(s, name string) (int, bool) {
	for _, kv := range strings.Split(s, ";") {
		if strings.HasPrefix(kv, name+"=") {
			v := 0
			fmt.Sscanf(kv[len(name)+1:], "%d", &v)
			return v, true
		}
	}
	return 0, false
}

func counterSet(s, name string, v int) string {
	var out []string
	for _, kv := range strings.Split(s, ";") {
		if kv != "" && !strings.HasPrefix(kv, name+"=") {
			out = append(out, kv)
		}
	}
	out = append(out, fmt.Sprintf("%s=%d", name, v))
	sort.Strings(out)
	return strings.Join(out, ";")
}

// predicateSet evaluates a one-argument byte predicate function (module
// function whose body is a single return of a boolean expression over its
// parameter and constants) on all 256 byte values by constant folding.
func (sf *scanFunc) predicateSet(call *ast.CallExpr) (bset, bool) {
	f := calleeFunc(sf.info, call)
	if f == nil {
		return bset{}, false
	}
	fi := sf.c.P.Func(funcKey(f))
	if fi == nil || fi.Decl.Body == nil || len(fi.Decl.Body.List) != 1 || fi.Decl.Type.Params == nil || len(fi.Decl.Type.Params.List) != 1 {
		return bset{}, false
	}
	rs, ok := fi.Decl.Body.List[0].(*ast.ReturnStmt)
	if !ok || len(rs.Results) != 1 {
		return bset{}, false
	}
	param := fi.Info().Defs[fi.Decl.Type.Params.List[0].Names[0]]
	okAll := true
	var eval func(e ast.Expr, c int) bool
	var evalInt func(e ast.Expr, c int) (int64, bool)
	evalInt = func(e ast.Expr, c int) (int64, bool) {
		e = unparen(e)
		if v, ok := constInt(fi.Info(), e); ok {
			return v, true
		}
		if id, ok := e.(*ast.Ident); ok && fi.Info().Uses[id] == param {
			return int64(c), true
		}
		return 0, false
	}
	eval = func(e ast.Expr, c int) bool {
		e = unparen(e)
		switch x := e.(type) {
		case *ast.UnaryExpr:
			if x.Op == token.NOT {
				return !eval(x.X, c)
			}
		case *ast.BinaryExpr:
			switch x.Op {
			case token.LAND:
				return eval(x.X, c) && eval(x.Y, c)
			case token.LOR:
				return eval(x.X, c) || eval(x.Y, c)
			default:
				a, ok1 := evalInt(x.X, c)
				b, ok2 := evalInt(x.Y, c)
				if ok1 && ok2 {
					return cmpHolds(x.Op, a, b)
				}
			}
		case *ast.CallExpr:
			// nested predicate on the same parameter
			if len(x.Args) == 1 {
				if id, ok := unparen(x.Args[0]).(*ast.Ident); ok && fi.Info().Uses[id] == param {
					sub := &scanFunc{c: sf.c, info: fi.Info()}
					if set, ok := sub.predicateSet(x); ok {
						return set.has(c)
					}
				}
			}
		}
		okAll = false
		return false
	}
	set := setOf(func(c int) bool { return eval(rs.Results[0], c) })
	return set, okAll
}

// ---------------------------------------------------------------- exploration

type scanNode struct {
	b   *cfg.Block
	i   int
	key string
}

type scanResult struct {
	nfa        *scanNFA
	nodes      int
	problems   []string
	undecided  []string
	suffixUsed bool
	opaqueSkip bool
}

// analyseScanner builds the NFA of a scanner function.
func (c *Ctx) analyseScanner(fi *FuncInfo) *scanResult {
	info := fi.Info()
	sf := &scanFunc{c: c, fi: fi, info: info, g: fi.CFG(), bounded: map[types.Object]int{}, caseSw: map[*ast.CaseClause]*ast.SwitchStmt{}}
	res := &scanResult{}
	// input parameter: first parameter of type []byte or string
	var inputObj types.Object
	for _, f := range fi.Decl.Type.Params.List {
		for _, nm := range f.Names {
			o := info.Defs[nm]
			if isByteSlice(o.Type()) || o.Type().String() == "string" {
				if inputObj == nil {
					inputObj = o
				}
			}
		}
	}
	if inputObj == nil {
		res.undecided = append(res.undecided, "no []byte/string input parameter")
		return res
	}
	sf.input = inputObj
	// cursor: the variable that is re-sliced from itself with a low bound; counter: int var used as input[n]
	walk(fi.Decl.Body, func(n ast.Node) bool {
		switch x := n.(type) {
		case *ast.AssignStmt:
			if len(x.Lhs) == 1 && len(x.Rhs) == 1 {
				if se, ok := unparen(x.Rhs[0]).(*ast.SliceExpr); ok && se.Low != nil && se.High == nil {
					if lid, ok := x.Lhs[0].(*ast.Ident); ok && objOf(info, lid) == objOf(info, se.X) && objOf(info, lid) != nil {
						if sf.cursor == nil {
							sf.cursor = objOf(info, lid)
						} else if sf.cursor != objOf(info, lid) {
							res.undecided = append(res.undecided, "more than one cursor variable")
						}
					}
				}
				// size := len(x)
				if call, ok := unparen(x.Rhs[0]).(*ast.CallExpr); ok && x.Tok == token.DEFINE && calleeKey(info, call) == "builtin.len" {
					if lid, ok := x.Lhs[0].(*ast.Ident); ok {
						sf.sizeVar = objOf(info, lid)
					}
				}
			}
		case *ast.IndexExpr:
			if objOf(info, x.X) == inputObj {
				if id, ok := unparen(x.Index).(*ast.Ident); ok {
					if o := objOf(info, id); o != nil {
						if b, ok := o.Type().Underlying().(*types.Basic); ok && b.Info()&types.IsInteger != 0 && sf.cursor != nil && inputObj != sf.cursor {
							sf.counter = o
						}
					}
				}
			}
		case *ast.SwitchStmt:
			for _, cc := range x.Body.List {
				sf.caseSw[cc.(*ast.CaseClause)] = x
			}
		case *ast.BinaryExpr:
			// bounded counters: ident compared with a small constant, where ident is an int local that is incremented
			if id, ok := unparen(x.X).(*ast.Ident); ok {
				if v, ok := constInt(info, x.Y); ok && v >= 0 && v <= 16 {
					if o := objOf(info, id); o != nil && o != sf.cursor {
						if b, ok := o.Type().Underlying().(*types.Basic); ok && b.Info()&types.IsInteger != 0 {
							if cur, ok := sf.bounded[o]; !ok || int(v)+1 > cur {
								sf.bounded[o] = int(v) + 1
							}
						}
					}
				}
			}
		}
		return true
	})
	// enum variables: integer locals (not counters) every assignment of which is a constant
	{
		cand := map[types.Object]bool{}
		bad := map[types.Object]bool{}
		walk(fi.Decl.Body, func(n ast.Node) bool {
			switch x := n.(type) {
			case *ast.AssignStmt:
				for i, l := range x.Lhs {
					id, ok := l.(*ast.Ident)
					if !ok {
						continue
					}
					o := objOf(info, id)
					if o == nil {
						continue
					}
					b, isBasic := o.Type().Underlying().(*types.Basic)
					if !isBasic || b.Info()&types.IsInteger == 0 {
						continue
					}
					if len(x.Lhs) == len(x.Rhs) && (x.Tok == token.DEFINE || x.Tok == token.ASSIGN) {
						if _, isC := constInt(info, x.Rhs[i]); isC {
							cand[o] = true
							continue
						}
					}
					bad[o] = true
				}
			case *ast.IncDecStmt:
				if id, ok := x.X.(*ast.Ident); ok {
					bad[objOf(info, id)] = true
				}
			case *ast.UnaryExpr:
				if x.Op == token.AND {
					if id, ok := unparen(x.X).(*ast.Ident); ok {
						bad[objOf(info, id)] = true
					}
				}
			}
			return true
		})
		sf.enumVars = map[types.Object]bool{}
		for o := range cand {
			if !bad[o] && o != sf.cursor && o != sf.counter && o != sf.sizeVar {
				sf.enumVars[o] = true
				delete(sf.bounded, o) // only ever assigned constants: tracked exactly, not as a capped counter
			}
		}
	}
	if sf.cursor == nil {
		res.undecided = append(res.undecided, "no cursor variable (x = x[k:]) found")
		return res
	}
	if sf.counter != nil {
		delete(sf.bounded, sf.counter)
	}
	if sf.sizeVar != nil {
		delete(sf.bounded, sf.sizeVar)
	}
	// the cursor may be the input itself or a copy (s := input / b := []byte(input))
	nfa := &scanNFA{accept: map[int]bool{}, acceptFull: map[int]bool{}}
	ids := map[string]int{}
	newNode := func() int {
		nfa.edges = append(nfa.edges, nil)
		return len(nfa.edges) - 1
	}
	type work struct {
		b  *cfg.Block
		i  int
		st scanAbs
		id int
	}
	var queue []work
	get := func(b *cfg.Block, i int, st scanAbs) (int, bool) {
		k := fmt.Sprintf("%d.%d.%s", b.Index, i, st.key())
		if id, ok := ids[k]; ok {
			return id, false
		}
		id := newNode()
		ids[k] = id
		queue = append(queue, work{b, i, st, id})
		return id, true
	}
	init := scanAbs{lo: 0, hi: unbounded, last: fullSet()}
	for i := range init.look {
		init.look[i] = fullSet()
	}
	nfa.start, _ = get(sf.g.G.Blocks[0], 0, init)
	finalNode := newNode() // after suffix byte
	nfa.accept[finalNode] = true
	nfa.acceptFull[finalNode] = true
	eps := func(from, to int) { nfa.edges[from] = append(nfa.edges[from], nfaEdge{to: to, eps: true}) }
	boolIdx := -1
	if r := fi.Decl.Type.Results; r != nil {
		k := 0
		for _, f := range r.List {
			n := len(f.Names)
			if n == 0 {
				n = 1
			}
			if tv, ok := info.Types[f.Type]; ok && tv.Type.String() == "bool" {
				boolIdx = k + n - 1
			}
			k += n
		}
	}
	steps := 0
	for len(queue) > 0 {
		w := queue[0]
		queue = queue[1:]
		steps++
		if steps > 200000 {
			res.undecided = append(res.undecided, "state space too large")
			break
		}
		b, i, st := w.b, w.i, w.st
		if i >= len(b.Nodes) {
			// block end without condition: follow successors
			for _, sb := range b.Succs {
				to, _ := get(sb, 0, st)
				eps(w.id, to)
			}
			continue
		}
		node := b.Nodes[i]
		isCond := i == len(b.Nodes)-1 && len(b.Succs) == 2
		if isCond {
			cond, _ := node.(ast.Expr)
			var outs []outcome
			if cond != nil {
				// tagged switch case value?
				if sw := sf.caseTag(b, cond); sw != nil {
					outs = sf.evalCond(&ast.BinaryExpr{X: sw.Tag, Op: token.EQL, Y: cond}, st)
				} else {
					outs = sf.evalCond(cond, st)
				}
			} else {
				outs = []outcome{{st, true}, {st, false}}
			}
			for _, o := range outs {
				succ := b.Succs[1]
				if o.val {
					succ = b.Succs[0]
				}
				to, _ := get(succ, 0, o.st)
				eps(w.id, to)
			}
			continue
		}
		// plain statement
		nexts := sf.step(node, st, res)
		for _, nx := range nexts {
			switch {
			case nx.ret:
				if nx.accept {
					n := w.id
					if st.stripped {
						// must have consumed all of w; then the suffix byte
						if st.lo == 0 {
							nfa.edges[n] = append(nfa.edges[n], nfaEdge{to: finalNode, label: st.last})
							res.suffixUsed = true
						}
					} else {
						nfa.accept[n] = true
						if st.lo == 0 {
							nfa.acceptFull[n] = true
						}
					}
				}
			case len(nx.consume) > 0:
				cur := w.id
				for _, lab := range nx.consume {
					mid := newNode()
					nfa.edges[cur] = append(nfa.edges[cur], nfaEdge{to: mid, label: lab})
					cur = mid
				}
				to, _ := get(b, i+1, nx.st)
				eps(cur, to)
			default:
				to, _ := get(b, i+1, nx.st)
				eps(w.id, to)
			}
		}
	}
	_ = boolIdx
	res.nfa = nfa
	res.nodes = len(nfa.edges)
	res.opaqueSkip = sf.opaqueSkip
	res.problems = append(res.problems, sf.problems...)
	res.undecided = append(res.undecided, sf.undecided...)
	return res
}

// caseTag: cond is a case value of a tagged switch → return the switch.
func (sf *scanFunc) caseTag(b *cfg.Block, cond ast.Expr) *ast.SwitchStmt {
	for cc, sw := range sf.caseSw {
		if sw.Tag == nil {
			continue
		}
		for _, e := range cc.List {
			if e == cond {
				return sw
			}
		}
	}
	return nil
}

type stepOut struct {
	st      scanAbs
	consume []bset
	ret     bool
	accept  bool
}

// step interprets one non-branching CFG node.
func (sf *scanFunc) step(node ast.Node, st scanAbs, res *scanResult) []stepOut {
	info := sf.info
	switch x := node.(type) {
	case *ast.ReturnStmt:
		acc := true // unknown → may accept
		for _, r := range x.Results {
			if tv, ok := info.Types[r]; ok && tv.Type != nil && tv.Type.String() == "bool" {
				if v, ok := constBool(info, r); ok {
					acc = v
				}
			}
		}
		// size-style results (text scanner) are not handled: bool result required
		return []stepOut{{st: st, ret: true, accept: acc}}
	case *ast.IncDecStmt:
		if id, ok := unparen(x.X).(*ast.Ident); ok {
			o := objOf(info, id)
			d := 1
			if x.Tok == token.DEC {
				d = -1
			}
			if sf.counter != nil && o == sf.counter {
				st.delta += d
			} else if capv, ok := sf.bounded[o]; ok {
				if v, known := counterGet(st.counters, id.Name); known {
					v += d
					if v > capv {
						v = capv
					}
					st.counters = counterSet(st.counters, id.Name, v)
				}
			}
		}
		return []stepOut{{st: st}}
	case *ast.AssignStmt:
		if len(x.Lhs) == 1 && len(x.Rhs) == 1 {
			lid, _ := x.Lhs[0].(*ast.Ident)
			var lo types.Object
			if lid != nil {
				lo = objOf(info, lid)
			}
			// cursor = cursor[k:]
			if lo != nil && lo == sf.cursor {
				if se, ok := unparen(x.Rhs[0]).(*ast.SliceExpr); ok && objOf(info, se.X) == sf.cursor {
					if se.Low != nil && se.High == nil {
						k64, ok := constInt(info, se.Low)
						k := int(k64)
						if !ok || k < 0 || k > lookN {
							sf.undecided = append(sf.undecided, "cursor advanced by a non-constant amount at "+sf.c.P.Pos(x))
							return nil
						}
						if st.lo < k {
							sf.problems = append(sf.problems, fmt.Sprintf("`%s` at %s executes where only len >= %d is established: slice bounds out of range is possible%s", exprOrStmt(x), sf.c.P.Pos(x), st.lo, dbgCounters(st)))
							return nil
						}
						var labs []bset
						for j := 0; j < k; j++ {
							labs = append(labs, st.look[j])
						}
						n := st
						for j := 0; j < lookN; j++ {
							if j+k < lookN {
								n.look[j] = st.look[j+k]
							} else {
								n.look[j] = fullSet()
							}
						}
						n.lo = st.lo - k
						if st.hi != unbounded {
							n.hi = st.hi - k
						}
						if sf.counter != nil {
							n.delta = st.delta - k
						}
						return []stepOut{{st: n, consume: labs}}
					}
					// suffix strip: b = b[:size-1]
					if se.Low == nil && se.High != nil && sf.sizeVar != nil && !st.stripped {
						if be, ok := unparen(se.High).(*ast.BinaryExpr); ok && be.Op == token.SUB && objOf(info, be.X) == sf.sizeVar {
							if one, ok := constInt(info, be.Y); ok && one == 1 {
								if st.lo < 1 {
									sf.problems = append(sf.problems, "suffix strip at "+sf.c.P.Pos(x)+" without len >= 1")
									return nil
								}
								n := st
								n.lo--
								if n.hi != unbounded {
									n.hi--
								}
								n.stripped = true
								return []stepOut{{st: n}}
							}
						}
					}
					sf.undecided = append(sf.undecided, "cursor re-sliced outside the idiom at "+sf.c.P.Pos(x))
					return nil
				}
				// cursor := input / []byte(input)
				src := unparen(x.Rhs[0])
				if call, ok := src.(*ast.CallExpr); ok && len(call.Args) == 1 {
					if tv, ok := info.Types[call.Fun]; ok && tv.IsType() {
						src = unparen(call.Args[0])
					}
				}
				if objOf(info, src) == sf.input {
					return []stepOut{{st: st}}
				}
				// cursor = f(cursor, …) with f returning []byte: an opaque skip of
				// some bytes (whitespace/comment skipper). Nothing is known about
				// the remaining length or the next bytes afterwards. The extracted
				// language is no longer comparable with a grammar (opaqueSkip),
				// but the bounds analysis stays sound.
				if call, ok := src.(*ast.CallExpr); ok && len(call.Args) >= 1 && objOf(info, call.Args[0]) == sf.cursor && isByteSlice(info.TypeOf(call)) {
					sf.opaqueSkip = true
					n := st
					n.lo, n.hi = 0, unbounded
					for i := range n.look {
						n.look[i] = fullSet()
					}
					return []stepOut{{st: n}}
				}
				sf.undecided = append(sf.undecided, "cursor assigned from something other than the input at "+sf.c.P.Pos(x))
				return nil
			}
			// consumed counter: n += k / n = ...
			if lo != nil && sf.counter != nil && lo == sf.counter {
				if x.Tok == token.ADD_ASSIGN {
					if k, ok := constInt(info, x.Rhs[0]); ok {
						st.delta += int(k)
						return []stepOut{{st: st}}
					}
				}
				if v, ok := constInt(info, x.Rhs[0]); ok && v == 0 {
					return []stepOut{{st: st}}
				}
				sf.undecided = append(sf.undecided, "consumed counter updated outside the idiom at "+sf.c.P.Pos(x))
				return nil
			}
			// mode/kind flags: v := const / v = const
			if lo != nil && sf.enumVars[lo] && (x.Tok == token.DEFINE || x.Tok == token.ASSIGN) {
				if v, isC := constInt(info, x.Rhs[0]); isC {
					st.counters = counterSet(st.counters, "enum:"+lid.Name, int(v))
					return []stepOut{{st: st}}
				}
			}
			// bounded counters: n := c / n = c / n += c
			if lo != nil {
				if capv, ok := sf.bounded[lo]; ok {
					if v, isC := constInt(info, x.Rhs[0]); isC {
						nv := int(v)
						if x.Tok == token.ADD_ASSIGN {
							if cur, known := counterGet(st.counters, lid.Name); known {
								nv = cur + int(v)
							} else {
								nv = capv
							}
						}
						if nv > capv {
							nv = capv
						}
						st.counters = counterSet(st.counters, lid.Name, nv)
						return []stepOut{{st: st}}
					}
					// unknown value
					st.counters = counterSet(st.counters, lid.Name, capv)
					return []stepOut{{st: st}}
				}
			}
		}
		// size := len(b) and everything else that does not assign the cursor
		for _, l := range x.Lhs {
			if id, ok := l.(*ast.Ident); ok && objOf(info, id) == sf.cursor {
				sf.undecided = append(sf.undecided, "cursor assigned in a multi-assignment at "+sf.c.P.Pos(x))
				return nil
			}
		}
		return []stepOut{{st: st}}
	case *ast.ValueSpec:
		for _, nm := range x.Names {
			if o := info.Defs[nm]; o != nil {
				if _, ok := sf.bounded[o]; ok && len(x.Values) == 0 {
					st.counters = counterSet(st.counters, nm.Name, 0)
				}
			}
		}
		return []stepOut{{st: st}}
	case ast.Expr:
		// switch tag or other expression node: index reads need len
		if i, ok := sf.byteIndex(x, st); ok && st.lo <= i {
			sf.problems = append(sf.problems, fmt.Sprintf("s[%d] read at %s with only len >= %d established", i, sf.c.P.Pos(x), st.lo))
			return nil
		}
		return []stepOut{{st: st}}
	}
	return []stepOut{{st: st}}
}

// ---------------------------------------------------------------- reference automata (tiny regex → NFA)

type rxParser struct {
	s   string
	pos int
	n   *scanNFA
}

func (p *rxParser) node() int {
	p.n.edges = append(p.n.edges, nil)
	return len(p.n.edges) - 1
}
func (p *rxParser) eps(a, b int) { p.n.edges[a] = append(p.n.edges[a], nfaEdge{to: b, eps: true}) }

// compileRegex supports literals, escapes (\. \\), classes [a-z0-9+-], groups,
// alternation |, and the postfix operators ? * + {m,n}.
func compileRegex(pat string) *scanNFA {
	p := &rxParser{s: pat, n: &scanNFA{accept: map[int]bool{}, acceptFull: map[int]bool{}}}
	s, e := p.alt()
	p.n.start = s
	p.n.accept[e] = true
	p.n.acceptFull[e] = true
	if p.pos != len(p.s) {
		panic("regex: trailing input in " + pat)
	}
	return p.n
}

func (p *rxParser) alt() (int, int) {
	s, e := p.node(), p.node()
	for {
		a, b := p.seq()
		p.eps(s, a)
		p.eps(b, e)
		if p.pos < len(p.s) && p.s[p.pos] == '|' {
			p.pos++
			continue
		}
		break
	}
	return s, e
}

func (p *rxParser) seq() (int, int) {
	s := p.node()
	cur := s
	for p.pos < len(p.s) && p.s[p.pos] != '|' && p.s[p.pos] != ')' {
		a, b := p.postfix()
		p.eps(cur, a)
		cur = b
	}
	return s, cur
}

func (p *rxParser) postfix() (int, int) {
	startPos := p.pos
	a, b := p.atom()
	endPos := p.pos
	for p.pos < len(p.s) {
		switch p.s[p.pos] {
		case '?':
			p.pos++
			s, e := p.node(), p.node()
			p.eps(s, a)
			p.eps(b, e)
			p.eps(s, e)
			a, b = s, e
		case '*':
			p.pos++
			s, e := p.node(), p.node()
			p.eps(s, a)
			p.eps(b, e)
			p.eps(s, e)
			p.eps(b, a)
			a, b = s, e
		case '+':
			p.pos++
			s, e := p.node(), p.node()
			p.eps(s, a)
			p.eps(b, e)
			p.eps(b, a)
			a, b = s, e
		case '{':
			// {m,n}: re-parse the atom text m..n times
			j := strings.IndexByte(p.s[p.pos:], '}')
			var m, n int
			fmt.Sscanf(p.s[p.pos:p.pos+j+1], "{%d,%d}", &m, &n)
			p.pos += j + 1
			atomText := p.s[startPos:endPos]
			save, savePos := p.s, p.pos
			s := p.node()
			cur := s
			e := p.node()
			for k := 0; k < n; k++ {
				if k >= m {
					p.eps(cur, e)
				}
				p.s, p.pos = atomText, 0
				x, y := p.atom()
				p.s, p.pos = save, savePos
				p.eps(cur, x)
				cur = y
			}
			p.eps(cur, e)
			a, b = s, e
		default:
			return a, b
		}
	}
	return a, b
}

func (p *rxParser) atom() (int, int) {
	c := p.s[p.pos]
	switch c {
	case '(':
		p.pos++
		s, e := p.alt()
		if p.pos >= len(p.s) || p.s[p.pos] != ')' {
			panic("regex: missing )")
		}
		p.pos++
		return s, e
	case '[':
		p.pos++
		var set bset
		for p.s[p.pos] != ']' {
			lo := p.s[p.pos]
			if lo == '\\' {
				p.pos++
				lo = p.s[p.pos]
			}
			hi := lo
			if p.pos+2 < len(p.s) && p.s[p.pos+1] == '-' && p.s[p.pos+2] != ']' {
				hi = p.s[p.pos+2]
				p.pos += 2
			}
			for x := int(lo); x <= int(hi); x++ {
				set.add(x)
			}
			p.pos++
		}
		p.pos++
		s, e := p.node(), p.node()
		p.n.edges[s] = append(p.n.edges[s], nfaEdge{to: e, label: set})
		return s, e
	case '\\':
		p.pos++
		c = p.s[p.pos]
	}
	p.pos++
	var set bset
	set.add(int(c))
	s, e := p.node(), p.node()
	p.n.edges[s] = append(p.n.edges[s], nfaEdge{to: e, label: set})
	return s, e
}

// ---------------------------------------------------------------- inclusion

// byteClasses partitions 0..255 by the labels used in the given automata.
func byteClasses(ns ...*scanNFA) (classOf [256]int, reps []int) {
	sig := make([]string, 256)
	for _, n := range ns {
		for _, es := range n.edges {
			for _, e := range es {
				if e.eps {
					continue
				}
				for c := 0; c < 256; c++ {
					if e.label.has(c) {
						sig[c] += "1"
					} else {
						sig[c] += "0"
					}
				}
			}
		}
	}
	ids := map[string]int{}
	for c := 0; c < 256; c++ {
		id, ok := ids[sig[c]]
		if !ok {
			id = len(reps)
			ids[sig[c]] = id
			reps = append(reps, c)
		}
		classOf[c] = id
	}
	return
}

func (n *scanNFA) closure(set map[int]bool) map[int]bool {
	stack := make([]int, 0, len(set))
	for s := range set {
		stack = append(stack, s)
	}
	for len(stack) > 0 {
		s := stack[len(stack)-1]
		stack = stack[:len(stack)-1]
		for _, e := range n.edges[s] {
			if e.eps && !set[e.to] {
				set[e.to] = true
				stack = append(stack, e.to)
			}
		}
	}
	return set
}

func (n *scanNFA) move(set map[int]bool, c int) map[int]bool {
	out := map[int]bool{}
	for s := range set {
		for _, e := range n.edges[s] {
			if !e.eps && e.label.has(c) {
				out[e.to] = true
			}
		}
	}
	return n.closure(out)
}

func setKey(m map[int]bool) string {
	ks := make([]int, 0, len(m))
	for k := range m {
		ks = append(ks, k)
	}
	sort.Ints(ks)
	return fmt.Sprint(ks)
}

func anyIn(set map[int]bool, acc map[int]bool) bool {
	for s := range set {
		if acc[s] {
			return true
		}
	}
	return false
}

// included reports whether L(a, accA) ⊆ L(b, accB); otherwise returns a
// shortest witness word in L(a) \ L(b).
func included(a *scanNFA, accA map[int]bool, b *scanNFA, accB map[int]bool) (bool, string) {
	_, reps := byteClasses(a, b)
	type pair struct {
		sa, sb map[int]bool
		word   []byte
	}
	start := pair{a.closure(map[int]bool{a.start: true}), b.closure(map[int]bool{b.start: true}), nil}
	seen := map[string]bool{setKey(start.sa) + "/" + setKey(start.sb): true}
	queue := []pair{start}
	for len(queue) > 0 {
		p := queue[0]
		queue = queue[1:]
		if anyIn(p.sa, accA) && !anyIn(p.sb, accB) {
			return false, string(p.word)
		}
		for _, c := range reps {
			na := a.move(p.sa, c)
			if len(na) == 0 {
				continue
			}
			nb := b.move(p.sb, c)
			k := setKey(na) + "/" + setKey(nb)
			if seen[k] {
				continue
			}
			seen[k] = true
			w := append(append([]byte{}, p.word...), byte(c))
			queue = append(queue, pair{na, nb, w})
		}
	}
	return true, ""
}

// ---------------------------------------------------------------- rule

type scannerSpec struct {
	key        string
	regex      string
	what       string
	usePrefix  bool // check consumed prefixes at any accepting return (token scanners with trailing input)
	boundsOnly bool // decide only that no index/slice can go out of range (no reference grammar)
}

func (c *Ctx) ruleScanner(rule string, sp scannerSpec) {
	R, P := c.R, c.P
	R.Rule(rule, "the automaton extracted from the scanner by abstract interpretation (cursor length interval × look-ahead byte sets × bounded counters) accepts exactly the reference grammar: may-accept ⊆ grammar (nothing outside the grammar is accepted) and grammar ⊆ may-accept (nothing in the grammar is rejected syntactically); no index/slice can go out of range", 0)
	fi := c.need(rule, sp.key)
	if fi == nil {
		return
	}
	res := c.analyseScanner(fi)
	pos := P.Pos(fi.Decl)
	for _, u := range dedupe(res.undecided) {
		R.Unk(rule, sp.key+" idiom", pos, u)
	}
	for _, p := range dedupe(res.problems) {
		R.Bad(rule, sp.key+" bounds", pos, p)
	}
	if res.nfa == nil || len(res.undecided) > 0 {
		return
	}
	if len(res.problems) == 0 {
		R.OK(rule, sp.key+" bounds", pos, fmt.Sprintf("every s[i] / s[k:] is covered by an established length bound (%d automaton nodes)", res.nodes))
	}
	if sp.boundsOnly {
		return
	}
	if res.opaqueSkip {
		R.Unk(rule, sp.key+" grammar", pos, "the scanner skips bytes through a helper: its language cannot be compared with a grammar")
		return
	}
	ref := compileRegex(sp.regex)
	// soundness: everything the code may accept is in the grammar
	if sp.usePrefix {
		ok, w := included(res.nfa, res.nfa.accept, ref, ref.accept)
		R.Check(ok, rule, sp.key+" accepts⊆grammar (consumed prefix)", pos, "every consumed prefix on an accepting return matches "+sp.what,
			fmt.Sprintf("the scanner can return success having consumed %q, which is not a %s", w, sp.what))
	}
	ok, w := included(res.nfa, res.nfa.acceptFull, ref, ref.accept)
	R.Check(ok, rule, sp.key+" accepts⊆grammar (whole input)", pos, "every fully consumed accepted input matches "+sp.what,
		fmt.Sprintf("the scanner accepts the input %q, which is not a %s", w, sp.what))
	ok2, w2 := included(ref, ref.accept, res.nfa, res.nfa.acceptFull)
	R.Check(ok2, rule, sp.key+" grammar⊆accepts", pos, "every "+sp.what+" is accepted",
		fmt.Sprintf("the %s %q is rejected by the scanner on syntactic grounds", sp.what, w2))
}

func dedupe(s []string) []string {
	seen := map[string]bool{}
	var out []string
	for _, x := range s {
		if !seen[x] {
			seen[x] = true
			out = append(out, x)
		}
	}
	sort.Strings(out)
	return out
}

func dbgCounters(st scanAbs) string {
	if os.Getenv("VERIF_DEBUG") != "" {
		return " [state " + st.counters + "]"
	}
	return ""
}
