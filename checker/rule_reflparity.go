package main

import (
	"go/ast"
	"go/token"
	"go/types"
	"sort"
	"strings"
)

// R-REFL-ENC-PARITY. The reflection encoder (package proto) sizes and writes
// fields with two families of methods (sizeField/marshalField, sizeList/
// marshalList, sizeMap/marshalMap, sizeMessageSlow/marshalMessageSlow). Each
// pair is executed symbolically for every assignment of the condition atoms
// (packed && non-empty, IsList, IsMap, IsMessageSet) into a wire shape over
//
//	T            tag of the field            S          one singular payload
//	F(x)         nested field x              U          unknown bytes
//	EACH{…}      once per element / entry    SB{…}      length prefix + content
//	CALL(X)      the sibling pair X
//
// (SizeBytes(x) on the size side, appendSpeculativeLength … finishSpeculativeLength
// on the write side, both SB). The shapes must be equal as nested multisets.

type shape []string

func (s shape) String() string {
	c := append([]string{}, s...)
	sort.Strings(c)
	return strings.Join(c, " + ")
}

type reflSym struct {
	c      *Ctx
	fi     *FuncInfo
	info   *types.Info
	atoms  map[string]bool
	seen   map[string]bool
	env    map[types.Object]shape // integer accumulators (size side)
	strDef map[types.Object]string
	emit   []shape // stack of emission buffers (write side); emit[0] is the output
	ret    shape
	done   bool
	fail   string
	isSize bool
	inLoop int
}

var reflPairName = map[string]string{
	"sizeList": "List", "marshalList": "List", "sizeMap": "Map", "marshalMap": "Map",
	"sizeMessageSet": "MessageSet", "marshalMessageSet": "MessageSet",
	"sizeField": "Field", "marshalField": "Field", "sizeSingular": "S", "marshalSingular": "S",
}

func (rs *reflSym) fdName(e ast.Expr) string {
	e = unparen(e)
	if call, ok := e.(*ast.CallExpr); ok {
		if se, ok := call.Fun.(*ast.SelectorExpr); ok && (se.Sel.Name == "MapKey" || se.Sel.Name == "MapValue") {
			return se.Sel.Name
		}
	}
	if id, ok := e.(*ast.Ident); ok {
		if s, ok := rs.strDef[rs.info.Uses[id]]; ok {
			return s
		}
		return "fd"
	}
	return exprStr(e)
}

func (rs *reflSym) callShape(call *ast.CallExpr) (shape, bool) {
	k := calleeKey(rs.info, call)
	switch k {
	case "encoding/protowire.SizeTag":
		return shape{"T"}, true
	case "encoding/protowire.SizeBytes":
		return shape{"SB{" + rs.intShape(call.Args[0]).String() + "}"}, true
	case "builtin.len":
		if strings.Contains(exprStr(call.Args[0]), "GetUnknown()") {
			return shape{"U"}, true
		}
	}
	if f := calleeFunc(rs.info, call); f != nil && strings.HasSuffix(k, "."+f.Name()) && strings.HasPrefix(k, "proto.MarshalOptions.") {
		if nm, ok := reflPairName[f.Name()]; ok {
			switch nm {
			case "S":
				return shape{"S"}, true
			case "Field":
				arg := call.Args[0]
				if !rs.isSize {
					arg = call.Args[1]
				}
				return shape{"F(" + rs.fdName(arg) + ")"}, true
			default:
				return shape{"CALL(" + nm + ")"}, true
			}
		}
	}
	return nil, false
}

func (rs *reflSym) intShape(e ast.Expr) shape {
	e = unparen(e)
	if v, ok := constInt(rs.info, e); ok && v == 0 {
		return shape{}
	}
	switch x := e.(type) {
	case *ast.Ident:
		if s, ok := rs.env[rs.info.Uses[x]]; ok {
			return append(shape{}, s...)
		}
	case *ast.BinaryExpr:
		if x.Op == token.ADD {
			return append(rs.intShape(x.X), rs.intShape(x.Y)...)
		}
	case *ast.CallExpr:
		if s, ok := rs.callShape(x); ok {
			return s
		}
	}
	rs.fail = "unrecognised size expression " + exprStr(e)
	return shape{"?"}
}

func (rs *reflSym) cond(e ast.Expr) bool {
	e = unparen(e)
	switch x := e.(type) {
	case *ast.UnaryExpr:
		if x.Op == token.NOT {
			return !rs.cond(x.X)
		}
	case *ast.BinaryExpr:
		if x.Op == token.LAND {
			// one atom for the whole packed test
			a := exprStr(x)
			rs.seen[a] = true
			return rs.atoms[a]
		}
	}
	a := exprStr(e)
	a = strings.ReplaceAll(a, "m.Descriptor()", "md")
	rs.seen[a] = true
	return rs.atoms[a]
}

func (rs *reflSym) out() *shape { return &rs.emit[len(rs.emit)-1] }

// loopBody executes a loop/callback body and returns what one iteration adds.
func (rs *reflSym) loopBody(stmts []ast.Stmt) (perAcc map[types.Object]shape, emitted shape) {
	before := map[types.Object]int{}
	for o, s := range rs.env {
		before[o] = len(s)
	}
	rs.emit = append(rs.emit, shape{})
	savedDone := rs.done
	rs.inLoop++
	rs.exec(stmts)
	rs.inLoop--
	rs.done = savedDone
	emitted = rs.emit[len(rs.emit)-1]
	rs.emit = rs.emit[:len(rs.emit)-1]
	perAcc = map[types.Object]shape{}
	for o, s := range rs.env {
		n, had := before[o]
		if !had {
			delete(rs.env, o) // loop-local variable
			continue
		}
		if len(s) > n {
			perAcc[o] = append(shape{}, s[n:]...)
			rs.env[o] = s[:n]
		}
	}
	return
}

func (rs *reflSym) applyLoop(stmts []ast.Stmt) {
	per, em := rs.loopBody(stmts)
	for o, s := range per {
		if len(s) > 0 {
			rs.env[o] = append(rs.env[o], "EACH{"+s.String()+"}")
		}
	}
	if len(em) > 0 {
		*rs.out() = append(*rs.out(), "EACH{"+em.String()+"}")
	}
}

func (rs *reflSym) exec(stmts []ast.Stmt) {
	for _, st := range stmts {
		if rs.done || rs.fail != "" {
			return
		}
		switch s := st.(type) {
		case *ast.AssignStmt:
			rs.assign(s)
		case *ast.DeclStmt:
		case *ast.ExprStmt:
			if call, ok := s.X.(*ast.CallExpr); ok {
				rs.callStmt(call)
			}
		case *ast.ForStmt:
			rs.applyLoop(s.Body.List)
		case *ast.RangeStmt:
			rs.applyLoop(s.Body.List)
		case *ast.IfStmt:
			if s.Init != nil {
				rs.exec([]ast.Stmt{s.Init})
			}
			// error plumbing and order selection
			cs := exprStr(s.Cond)
			if strings.Contains(cs, "err ") || strings.Contains(cs, "Deterministic") {
				if strings.Contains(cs, "Deterministic") {
					continue
				}
				continue
			}
			if rs.cond(s.Cond) {
				rs.exec(s.Body.List)
			} else if s.Else != nil {
				switch e := s.Else.(type) {
				case *ast.BlockStmt:
					rs.exec(e.List)
				case *ast.IfStmt:
					rs.exec([]ast.Stmt{e})
				}
			}
		case *ast.SwitchStmt:
			if s.Tag != nil {
				rs.fail = "tagged switch"
				return
			}
			var def *ast.CaseClause
			taken := false
			for _, c := range s.Body.List {
				cc := c.(*ast.CaseClause)
				if cc.List == nil {
					def = cc
					continue
				}
				if rs.cond(cc.List[0]) {
					rs.exec(cc.Body)
					taken = true
					break
				}
			}
			if !taken && def != nil {
				rs.exec(def.Body)
			}
		case *ast.ReturnStmt:
			if rs.inLoop > 0 {
				return // end of one iteration / callback
			}
			if rs.isSize {
				if len(s.Results) == 1 {
					rs.ret = rs.intShape(s.Results[0])
				} else {
					// named result
					rs.ret = nil
				}
			} else if len(s.Results) >= 1 {
				if call, ok := unparen(s.Results[0]).(*ast.CallExpr); ok {
					if sh, ok := rs.callShape(call); ok {
						*rs.out() = append(*rs.out(), sh...)
					}
				}
			}
			if len(rs.emit) == 1 {
				rs.done = true
			}
			return
		default:
			rs.fail = "unrecognised statement"
			return
		}
	}
}

func (rs *reflSym) callStmt(call *ast.CallExpr) {
	// Range-style callbacks
	for _, a := range call.Args {
		if fl, ok := a.(*ast.FuncLit); ok {
			rs.applyLoop(fl.Body.List)
			return
		}
	}
}

func (rs *reflSym) assign(s *ast.AssignStmt) {
	if len(s.Rhs) != 1 {
		return
	}
	rhs := unparen(s.Rhs[0])
	// descriptor aliases: keyf := fd.MapKey()
	if len(s.Lhs) == 1 {
		if id, ok := s.Lhs[0].(*ast.Ident); ok {
			if call, ok := rhs.(*ast.CallExpr); ok {
				if se, ok := call.Fun.(*ast.SelectorExpr); ok && (se.Sel.Name == "MapKey" || se.Sel.Name == "MapValue") {
					rs.strDef[rs.info.Defs[id]] = se.Sel.Name
					return
				}
			}
		}
	}
	if rs.isSize {
		if len(s.Lhs) != 1 {
			return
		}
		id, ok := s.Lhs[0].(*ast.Ident)
		if !ok || id.Name == "_" || rs.info.TypeOf(id) == nil || !isIntType(rs.info.TypeOf(id)) {
			return
		}
		o := rs.info.Defs[id]
		if o == nil {
			o = rs.info.Uses[id]
		}
		switch s.Tok {
		case token.DEFINE, token.ASSIGN:
			sh := rs.intShape(rhs)
			if rs.fail != "" && s.Tok == token.DEFINE {
				rs.fail = "" // an integer that is not a size (field number, index)
				return
			}
			rs.env[o] = sh
		case token.ADD_ASSIGN:
			rs.env[o] = append(rs.env[o], rs.intShape(rhs)...)
		}
		return
	}
	// write side
	call, ok := rhs.(*ast.CallExpr)
	if !ok {
		return
	}
	k := calleeKey(rs.info, call)
	switch {
	case k == "encoding/protowire.AppendTag":
		*rs.out() = append(*rs.out(), "T")
	case k == "proto.appendSpeculativeLength":
		rs.emit = append(rs.emit, shape{})
	case k == "proto.finishSpeculativeLength":
		if len(rs.emit) < 2 {
			rs.fail = "finishSpeculativeLength without appendSpeculativeLength"
			return
		}
		inner := rs.emit[len(rs.emit)-1]
		rs.emit = rs.emit[:len(rs.emit)-1]
		*rs.out() = append(*rs.out(), "SB{"+inner.String()+"}")
	case k == "builtin.append":
		if len(call.Args) == 2 && strings.Contains(exprStr(call.Args[1]), "GetUnknown()") {
			*rs.out() = append(*rs.out(), "U")
		}
	default:
		if sh, ok := rs.callShape(call); ok {
			*rs.out() = append(*rs.out(), sh...)
		}
	}
}

func (c *Ctx) reflShape(fi *FuncInfo, isSize bool, atoms map[string]bool, seen map[string]bool) (string, string) {
	rs := &reflSym{c: c, fi: fi, info: fi.Info(), atoms: atoms, seen: seen, env: map[types.Object]shape{}, strDef: map[types.Object]string{}, emit: []shape{{}}, isSize: isSize}
	// named result accumulator
	var resObj types.Object
	if isSize && fi.Decl.Type.Results != nil {
		for _, f := range fi.Decl.Type.Results.List {
			for _, nm := range f.Names {
				resObj = rs.info.Defs[nm]
				rs.env[resObj] = shape{}
			}
		}
	}
	rs.exec(fi.Decl.Body.List)
	if rs.fail != "" {
		return "", rs.fail
	}
	if isSize {
		if rs.ret != nil {
			return rs.ret.String(), ""
		}
		if resObj != nil {
			return rs.env[resObj].String(), ""
		}
		return "", "no result"
	}
	if len(rs.emit) != 1 {
		return "", "unbalanced speculative length"
	}
	return rs.emit[0].String(), ""
}

func (c *Ctx) ruleReflEncParity(rule string) {
	R, P := c.R, c.P
	R.Rule(rule, "reflection encoder: sizeField/marshalField, sizeList/marshalList, sizeMap/marshalMap and sizeMessageSlow/marshalMessageSlow, executed symbolically for every assignment of their condition atoms, describe the same wire shape (tags, singular payloads, nested fields, per-element repetition, length-delimited groups, unknown bytes)", 9)
	for _, pr := range [][2]string{{"sizeField", "marshalField"}, {"sizeList", "marshalList"}, {"sizeMap", "marshalMap"}, {"sizeMessageSlow", "marshalMessageSlow"}} {
		fs, fa := c.need(rule, "proto.MarshalOptions."+pr[0]), c.need(rule, "proto.MarshalOptions."+pr[1])
		if fs == nil || fa == nil {
			continue
		}
		// discover atoms with an all-false run
		seen := map[string]bool{}
		c.reflShape(fs, true, map[string]bool{}, seen)
		c.reflShape(fa, false, map[string]bool{}, seen)
		// switch clauses not reached in the all-false run: collect all case conditions syntactically
		for _, fi := range []*FuncInfo{fs, fa} {
			walk(fi.Decl.Body, func(n ast.Node) bool {
				if cc, ok := n.(*ast.CaseClause); ok {
					for _, l := range cc.List {
						seen[strings.ReplaceAll(exprStr(unparen(l)), "m.Descriptor()", "md")] = true
					}
				}
				return true
			})
		}
		var atoms []string
		for a := range seen {
			atoms = append(atoms, a)
		}
		sort.Strings(atoms)
		if len(atoms) > 5 {
			R.Unk(rule, pr[0]+" ~ "+pr[1], P.Pos(fs.Decl), "too many condition atoms: "+strings.Join(atoms, "; "))
			continue
		}
		for m := 0; m < 1<<len(atoms); m++ {
			asg := map[string]bool{}
			var desc []string
			for i, a := range atoms {
				asg[a] = m&(1<<i) != 0
				if asg[a] {
					desc = append(desc, a)
				} else {
					desc = append(desc, "!("+a+")")
				}
			}
			construct := pr[0] + " ~ " + pr[1] + " [" + strings.Join(desc, ", ") + "]"
			ss, f1 := c.reflShape(fs, true, asg, map[string]bool{})
			sa, f2 := c.reflShape(fa, false, asg, map[string]bool{})
			switch {
			case f1 != "" || f2 != "":
				R.Unk(rule, construct, P.Pos(fs.Decl), "outside the recognised statements: "+f1+" "+f2)
			case ss != sa:
				R.Bad(rule, construct, P.Pos(fs.Decl), "size describes {"+ss+"} but marshal writes {"+sa+"}: Size differs from the marshaled length in this case")
			default:
				R.OK(rule, construct, P.Pos(fs.Decl), "{"+ss+"}")
			}
		}
	}
}
