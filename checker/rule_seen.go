package main

import (
	"go/ast"
	"strings"
)

// R-SEEN-FIELDS: in a text/JSON unmarshalMessage, the write of a singular
// field (call to unmarshalSingular) is dominated by the duplicate test
// (false edge of seenNums.Has) and, for oneof members, by the false edge of
// seenOneofs.Has and by seenOneofs.Set (or the edge on which the field has no
// containing oneof); and seenNums.Set is executed before the next field is
// read.
func (c *Ctx) ruleSeenFields(rule, fnKey, singularKey, readKey string) {
	R := c.R
	R.Rule(rule, "the singular-field write in unmarshalMessage is dominated by the false edge of seenNums.Has, by `oneof==nil` or the false edge of seenOneofs.Has + seenOneofs.Set, and seenNums.Set runs before the next field name is read", 0)
	fi := c.need(rule, fnKey)
	if fi == nil {
		return
	}
	info := fi.Info()
	g := fi.CFG()
	const hasKey, setKey = "internal/set.(*Ints).Has", "internal/set.(*Ints).Set"
	isNums := func(n string) bool { return strings.Contains(strings.ToLower(n), "num") }
	isOneof := func(n string) bool { return strings.Contains(strings.ToLower(n), "oneof") }
	sites := allCalls(info, fi.Decl.Body, singularKey)
	if len(sites) == 0 {
		R.Unk(rule, fnKey, c.P.Pos(fi.Decl), "no call to "+singularKey+" found: idiom not recognised")
		return
	}
	for i, site := range sites {
		name := fnKey + " call#" + itoa(i+1) + " " + singularKey
		// (1) duplicate test dominates
		dupDom := g.DominatedByCond(site, func(core ast.Expr, coreTrue bool) bool {
			if coreTrue {
				return false
			}
			call, ok := core.(*ast.CallExpr)
			if !ok {
				return false
			}
			return nodeHasCallOn(info, call, hasKey, isNums) != nil
		})
		R.Check(dupDom, rule, name+" dup-test", c.P.Pos(site),
			"dominated by the false edge of seenNums.Has(num)",
			"a path reaches the singular-field write without passing the `seenNums.Has(num)` rejection: a non-repeated field set twice would be accepted")
		// (2) seenNums.Set on every path from site to the next Read
		sp, _ := g.posOf(site)
		setDom := g.DominatedByNode(site, func(n ast.Node) bool { return nodeHasCallOn(info, n, setKey, isNums) != nil })
		if !setDom {
			found, _ := g.Forward(cfgPos{sp.B, sp.I + 1}, Search{
				Target: func(n ast.Node) bool { return containsCall(info, n, readKey) != nil },
				Barrier: func(n ast.Node) bool {
					_, isRet := n.(*ast.ReturnStmt)
					return isRet || nodeHasCallOn(info, n, setKey, isNums) != nil
				},
			})
			setDom = !found
		}
		R.Check(setDom, rule, name+" dup-record", c.P.Pos(site),
			"seenNums.Set(num) is executed before the next field name is read",
			"the next field name can be read without seenNums.Set(num) having been executed: the duplicate test would never fire")
		// (3) oneof exclusivity
		sp2, _ := g.posOf(site)
		found, _ := g.Forward(g.Entry(), Search{
			TargetPos: &sp2,
			EdgeBarrier: func(b *cfgBlock, succ int) bool {
				for _, a := range edgeAtoms(b, succ) {
					if call, ok := a.E.(*ast.CallExpr); ok && !a.Val && nodeHasCallOn(info, call, hasKey, isOneof) != nil {
						return true
					}
					if oneofNilEdge(info, a) {
						return true
					}
				}
				return false
			},
		})
		R.Check(!found, rule, name+" oneof-test", c.P.Pos(site),
			"every path passes `ContainingOneof()==nil` or the false edge of seenOneofs.Has(idx)",
			"a path reaches the singular-field write for a oneof member without the `seenOneofs.Has(idx)` rejection: two members of one oneof would be accepted")
		found2, _ := g.Forward(g.Entry(), Search{
			TargetPos: &sp2,
			Barrier:   func(n ast.Node) bool { return nodeHasCallOn(info, n, setKey, isOneof) != nil },
			EdgeBarrier: func(b *cfgBlock, succ int) bool {
				for _, a := range edgeAtoms(b, succ) {
					if oneofNilEdge(info, a) {
						return true
					}
				}
				return false
			},
		})
		R.Check(!found2, rule, name+" oneof-record", c.P.Pos(site),
			"every path for a oneof member passes seenOneofs.Set(idx)",
			"a oneof member can be written without seenOneofs.Set(idx): a second member of the same oneof would not be rejected")
	}
}

func isNilIdent(info *typesInfo, e ast.Expr) bool {
	id, ok := unparen(e).(*ast.Ident)
	return ok && id.Name == "nil" && info.Uses[id] != nil && info.Uses[id].Pkg() == nil
}

// isOneofDescExpr: expression of type protoreflect.OneofDescriptor.
func isOneofDescExpr(info *typesInfo, e ast.Expr) bool {
	tv, ok := info.Types[e]
	if !ok {
		return false
	}
	return namedTypeName(tv.Type) == "reflect/protoreflect.OneofDescriptor"
}

// oneofNilEdge: the fact establishes that the field's containing oneof is nil.
func oneofNilEdge(info *typesInfo, a atomVal) bool {
	be, ok := a.E.(*ast.BinaryExpr)
	if !ok || !isNilIdent(info, be.Y) || !isOneofDescExpr(info, be.X) {
		return false
	}
	return (be.Op.String() == "!=" && !a.Val) || (be.Op.String() == "==" && a.Val)
}
