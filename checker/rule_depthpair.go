package main

import (
	"go/ast"
	"go/token"
	"go/types"
	"sort"
	"strings"
)

// R-DEPTH-PAIR (explicit-stack validator): the set of state types for which
// a push decrements the depth budget equals the set of state types for which
// the pop increments it again. A type decremented but never incremented leaks
// budget per completed sibling (valid input rejected); the converse inflates
// the budget (limit not enforced).
func (c *Ctx) ruleDepthPair(rule, fnKey string) {
	R, P := c.R, c.P
	R.Rule(rule, "in the validator's explicit stack, {state types whose push executes depth--} == {state types whose pop executes depth++}; every push (append to the state stack) is followed by its (possibly type-conditional) depth-- before the loop continues", 4)
	fi := c.need(rule, fnKey)
	if fi == nil {
		return
	}
	info := fi.Info()
	constName := func(e ast.Expr) (string, bool) {
		o := objOf(info, e)
		cst, ok := o.(*types.Const)
		if !ok || !strings.HasPrefix(cst.Name(), "validationType") {
			return "", false
		}
		return cst.Name(), true
	}
	// typ-disjunction: X.typ == A || X.typ == B ...
	var disj func(e ast.Expr, out map[string]bool) bool
	disj = func(e ast.Expr, out map[string]bool) bool {
		e = unparen(e)
		be, ok := e.(*ast.BinaryExpr)
		if !ok {
			return false
		}
		if be.Op == token.LOR {
			return disj(be.X, out) && disj(be.Y, out)
		}
		if be.Op == token.EQL {
			if n, ok := constName(be.Y); ok {
				if se, ok := unparen(be.X).(*ast.SelectorExpr); ok && se.Sel.Name == "typ" {
					out[n] = true
					return true
				}
			}
		}
		return false
	}
	isDepthIncDec := func(n ast.Node, tok token.Token) bool {
		ids, ok := n.(*ast.IncDecStmt)
		if !ok || ids.Tok != tok {
			return false
		}
		_, isDepth := depthExprName(ids.X)
		return isDepth
	}
	push := map[string]bool{}
	pop := map[string]bool{}
	pushSites := 0
	// walk with parent stack
	var stack []ast.Node
	ast.Inspect(fi.Decl.Body, func(n ast.Node) bool {
		if n == nil {
			stack = stack[:len(stack)-1]
			return false
		}
		stack = append(stack, n)
		if _, isLit := n.(*ast.FuncLit); isLit {
			return true
		}
		if isDepthIncDec(n, token.DEC) {
			pushSites++
			// nearest enclosing IfStmt (other than the one whose Init this is) with a typ-disjunction
			found := false
			for i := len(stack) - 2; i >= 0 && !found; i-- {
				if is, ok := stack[i].(*ast.IfStmt); ok {
					if is.Init == n {
						continue
					}
					set := map[string]bool{}
					if disj(is.Cond, set) {
						for k := range set {
							push[k] = true
						}
						found = true
					}
					continue
				}
				if cc, ok := stack[i].(*ast.CaseClause); ok {
					// unconditional within this clause: use the typ of the append literal in the clause
					for _, st := range cc.Body {
						walk(st, func(x ast.Node) bool {
							if kv, ok := x.(*ast.KeyValueExpr); ok {
								if id, ok := kv.Key.(*ast.Ident); ok && id.Name == "typ" {
									if nme, ok := constName(kv.Value); ok {
										push[nme] = true
										found = true
									}
								}
							}
							return true
						})
					}
					break
				}
			}
			if !found {
				// function-level root state: message or group
				walk(fi.Decl.Body, func(x ast.Node) bool {
					switch s := x.(type) {
					case *ast.KeyValueExpr:
						if id, ok := s.Key.(*ast.Ident); ok && id.Name == "typ" {
							if nme, ok := constName(s.Value); ok && len(stackDepthOf(fi.Decl.Body, s)) == 0 {
								push[nme] = true
							}
						}
					case *ast.AssignStmt:
						if len(s.Lhs) == 1 && len(s.Rhs) == 1 {
							if se, ok := unparen(s.Lhs[0]).(*ast.SelectorExpr); ok && se.Sel.Name == "typ" {
								// only the root stack slot: states[0].typ = X
								if _, isIdx := unparen(se.X).(*ast.IndexExpr); isIdx && len(stackDepthOf(fi.Decl.Body, s)) == 0 {
									if nme, ok := constName(s.Rhs[0]); ok {
										push[nme] = true
									}
								}
							}
						}
					}
					return true
				})
			}
		}
		if isDepthIncDec(n, token.INC) {
			for i := len(stack) - 2; i >= 0; i-- {
				if cc, ok := stack[i].(*ast.CaseClause); ok {
					for _, e := range cc.List {
						if nme, ok := constName(e); ok {
							pop[nme] = true
						}
					}
					break
				}
			}
		}
		return true
	})
	names := func(m map[string]bool) string {
		var s []string
		for k := range m {
			s = append(s, strings.TrimPrefix(k, "validationType"))
		}
		sort.Strings(s)
		return strings.Join(s, ",")
	}
	if pushSites == 0 || len(pop) == 0 {
		R.Unk(rule, fnKey, P.Pos(fi.Decl), "explicit-stack depth idiom not recognised (no depth--/depth++ found)")
		return
	}
	for i := 0; i < pushSites; i++ {
		R.OK(rule, fnKey+" push#"+itoa(i+1), P.Pos(fi.Decl), "depth-- site")
	}
	same := len(push) == len(pop)
	for k := range push {
		if !pop[k] {
			same = false
		}
	}
	R.Check(same, rule, fnKey+" push/pop type sets", P.Pos(fi.Decl),
		"push{"+names(push)+"} == pop{"+names(pop)+"}",
		"depth is decremented when pushing {"+names(push)+"} but incremented when popping {"+names(pop)+"}: the budget leaks (valid inputs with many sibling submessages/groups are rejected) or inflates (limit not enforced)")
}

// stackDepthOf returns the chain of enclosing for/switch statements of n
// inside root (empty = function top level).
func stackDepthOf(root ast.Node, target ast.Node) []ast.Node {
	var stack, res []ast.Node
	done := false
	ast.Inspect(root, func(n ast.Node) bool {
		if done {
			return false
		}
		if n == nil {
			stack = stack[:len(stack)-1]
			return false
		}
		if n == target {
			for _, s := range stack {
				switch s.(type) {
				case *ast.ForStmt, *ast.RangeStmt, *ast.SwitchStmt:
					res = append(res, s)
				}
			}
			done = true
			return false
		}
		stack = append(stack, n)
		return true
	})
	return res
}
