package main

import (
	"go/ast"
	"go/constant"
	"go/token"
	"go/types"
	"strings"
)

func init() {
	register(&Property{
		ID:         "C46",
		Level:      "other",
		Technique:  "writer/reader table agreement of the struct-tag codec (tokens, Kind mapping per token, cardinality words) with a reviewed exception table; attribute-copy completeness of the legacy extension descriptor against the tag parser; CFG dominance of fresh-child stores by a nil test in all singular message coders; completeness of the option conversion against the option structs; ownership rule for retained element pointers (static)",
		Explain:    "Decides a structural necessary condition of `legacy and struct-tag-only messages behave like generated ones`: the struct-tag writer used by the generator (tag.Marshal) and the struct-tag reader used for legacy/aberrant messages (tag.Unmarshal) agree on the tag language: (1) every token the writer can emit is recognised by the reader (exception: `oneof`, which the reader derives from the oneof wrapper types); (2) for each wire-type token the reader can assign every Kind for which the writer emits that token (enum through the `enum=` token); (3) the cardinality words opt/req/rep map to the same Cardinality constants in both directions; (4) every attribute the tag reader can set on the scratch field is copied by ExtensionInfo.initFromLegacy into the derived extension descriptor from that field (exceptions listed), so what the tag says (packed, proto3, default, kind, cardinality) reaches the legacy extension; (5) every singular message/group coder of the table-driven decoder — including the fallback coder used for legacy and struct-tag-only child types — allocates a child only when the slot is nil and otherwise decodes into the existing child (merge semantics of repeated occurrences, as dynamicpb and the MessageInfo path). Further: the options rebuilt for messages without a MessageInfo carry every option of the proto package, including the remaining recursion depth (found D32); legacyLoadMessageDesc's looks-generated guard tests every struct tag by which the struct-tag loader recognises a field; the lists whose element pointers the struct-tag loader retains are reserved up front (found D33).",
		NotCovered: "cross-generation behaviour of legacy messages (reflection, codec) on values; the remaining details of aberrant descriptor synthesis (proto3 repeated scalars without a packed token, see DESIGN.md N16).",
		Quick:      all("./internal/encoding/tag", "./internal/impl"),
		Thorough:   all("./..."),
		Run: func(c *Ctx) {
			c.ruleOptionsForward("R-OPTIONS-FORWARD")
			c.ruleLegacyGuardTags("R-LEGACY-GUARD-TAGS")
			c.ruleStableElementPointers("R-STABLE-ELEMENT-POINTERS")
			c.ruleTagTable("R-TAG-TABLE")
			c.ruleLegacyExtCopy("R-LEGACY-EXT-COPY")
			c.ruleSingularMsgReuse("R-SINGULAR-MSG-REUSE", 4)
		},
	})
}

func stringConstsIn(info *types.Info, n ast.Node) []string {
	var out []string
	walk(n, func(x ast.Node) bool {
		if e, ok := x.(ast.Expr); ok {
			if tv, ok := info.Types[e]; ok && tv.Value != nil && tv.Value.Kind() == constant.String {
				if _, isLit := e.(*ast.BasicLit); isLit {
					out = append(out, constant.StringVal(tv.Value))
				}
			}
		}
		return true
	})
	return out
}

func kindsAssignedIn(info *types.Info, n ast.Node) map[string]bool {
	out := map[string]bool{}
	walk(n, func(x ast.Node) bool {
		if as, ok := x.(*ast.AssignStmt); ok && len(as.Rhs) == 1 {
			if k, ok := kindOfExpr(info, as.Rhs[0]); ok {
				out[k] = true
			}
		}
		return true
	})
	return out
}

func (c *Ctx) ruleTagTable(rule string) {
	R, P := c.R, c.P
	R.Rule(rule, "tag.Marshal and tag.Unmarshal agree on the struct-tag language: writer tokens ⊆ reader tokens (exception table), per wire-type token the reader's assignable Kinds ⊇ the writer's Kinds, and opt/req/rep denote the same Cardinality constants", 17)
	fw, fr := c.need(rule, "internal/encoding/tag.Marshal"), c.need(rule, "internal/encoding/tag.Unmarshal")
	if fw == nil || fr == nil {
		return
	}
	wi, ri := fw.Info(), fr.Info()
	exceptions := map[string]string{"oneof": "written for documentation; the reader determines oneof membership from the oneof wrapper struct types, not from the tag"}
	// writer: tokens appended to the tag slice, with the Kind / Cardinality labels of the enclosing case
	type wtok struct {
		tok    string
		labels []string
	}
	var wtoks []wtok
	walkAll(fw.Decl.Body, func(n ast.Node) bool {
		call, ok := n.(*ast.CallExpr)
		if !ok {
			return true
		}
		id, ok := call.Fun.(*ast.Ident)
		if !ok || id.Name != "append" || len(call.Args) < 2 {
			return true
		}
		for _, a := range call.Args[1:] {
			ss := stringConstsIn(wi, a)
			if len(ss) == 0 {
				continue
			}
			t := wtok{tok: ss[0]}
			walkAll(fw.Decl.Body, func(m ast.Node) bool {
				if cc, ok := m.(*ast.CaseClause); ok && containsNode(cc, call) {
					for _, e := range cc.List {
						nm, _ := labelName(wi, e)
						t.labels = append(t.labels, nm)
					}
				}
				return true
			})
			wtoks = append(wtoks, t)
		}
		return true
	})
	// reader: clauses of the tagless switch keyed by their token
	rclauses := map[string]*ast.CaseClause{}
	walkAll(fr.Decl.Body, func(n ast.Node) bool {
		cc, ok := n.(*ast.CaseClause)
		if !ok || len(cc.List) != 1 {
			return true
		}
		switch x := unparen(cc.List[0]).(type) {
		case *ast.BinaryExpr:
			if x.Op == token.EQL {
				if ss := stringConstsIn(ri, x.Y); len(ss) == 1 {
					rclauses[ss[0]] = cc
				}
			}
		case *ast.CallExpr:
			if calleeKey(ri, x) == "strings.HasPrefix" && len(x.Args) == 2 {
				if ss := stringConstsIn(ri, x.Args[1]); len(ss) == 1 {
					rclauses[ss[0]] = cc
				}
			}
		}
		return true
	})
	if len(wtoks) < 10 || len(rclauses) < 10 {
		R.Unk(rule, "tables", P.Pos(fw.Decl), "could not extract the token tables (writer "+itoa(len(wtoks))+", reader "+itoa(len(rclauses))+")")
		return
	}
	cardOf := map[string]string{}
	for _, t := range wtoks {
		construct := "token " + t.tok
		rc, ok := rclauses[t.tok]
		if !ok {
			if why, ex := exceptions[t.tok]; ex {
				R.Exempt(rule, construct, P.Pos(fw.Decl), why)
			} else {
				R.Bad(rule, construct, P.Pos(fr.Decl), "the writer emits this token but the reader has no case for it: the property it encodes is lost when a message is reconstructed from struct tags")
			}
			continue
		}
		// kinds
		var wk []string
		for _, l := range t.labels {
			if strings.HasSuffix(l, "Kind") {
				wk = append(wk, l)
			}
			if l == "Optional" || l == "Required" || l == "Repeated" {
				cardOf[t.tok] = l
			}
		}
		if len(wk) > 0 {
			rk := kindsAssignedIn(ri, rc)
			var missing []string
			for _, k := range wk {
				if k == "EnumKind" {
					if ec := rclauses["enum="]; ec == nil || !kindsAssignedIn(ri, ec)["EnumKind"] {
						missing = append(missing, k)
					}
					continue
				}
				if !rk[k] {
					missing = append(missing, k)
				}
			}
			R.Check(len(missing) == 0, rule, construct, P.Pos(rc), "reader can assign every Kind the writer uses this token for", "the writer emits `"+t.tok+"` for "+strings.Join(missing, ",")+" but the reader's case for that token never assigns "+strings.Join(missing, ","))
			continue
		}
		if card, ok := cardOf[t.tok]; ok {
			good := false
			walk(rc, func(x ast.Node) bool {
				if as, ok := x.(*ast.AssignStmt); ok && len(as.Rhs) == 1 {
					if o := objOf(ri, as.Rhs[0]); o != nil && o.Name() == card {
						good = true
					}
				}
				return true
			})
			R.Check(good, rule, construct, P.Pos(rc), card, "the writer emits `"+t.tok+"` for "+card+" but the reader assigns a different cardinality")
			continue
		}
		R.OK(rule, construct, P.Pos(rc), "recognised by the reader")
	}
}
