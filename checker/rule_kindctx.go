package main

import (
	"go/ast"
	"go/token"
	"go/types"
	"sort"
	"strings"
)

// R-KIND-CONTEXT: inside code that is control-dependent on a field Kind (a
// `case protoreflect.XKind` clause or the branch of `k == protoreflect.XKind`),
// every call to a kind-typed primitive (wire consume/append/size functions,
// zigzag, float bit casts, protoreflect.ValueOfX constructors, Value.X
// accessors, text/JSON token accessors, bitSize arguments) must be compatible
// with every Kind of the context, per the protobuf specification table below.

var allKinds = []string{"BoolKind", "EnumKind", "Int32Kind", "Sint32Kind", "Uint32Kind", "Int64Kind", "Sint64Kind", "Uint64Kind",
	"Sfixed32Kind", "Fixed32Kind", "FloatKind", "Sfixed64Kind", "Fixed64Kind", "DoubleKind", "StringKind", "BytesKind", "MessageKind", "GroupKind"}

func kset(ks ...string) map[string]bool {
	m := map[string]bool{}
	for _, k := range ks {
		m[k+"Kind"] = true
	}
	return m
}

var (
	kVarint  = kset("Bool", "Enum", "Int32", "Sint32", "Uint32", "Int64", "Sint64", "Uint64")
	kFixed32 = kset("Sfixed32", "Fixed32", "Float")
	kFixed64 = kset("Sfixed64", "Fixed64", "Double")
	kBytes   = kset("String", "Bytes", "Message")
	kGroup   = kset("Group")
	kZigZag  = kset("Sint32", "Sint64")
	kInt32   = kset("Int32", "Sint32", "Sfixed32")
	kInt64   = kset("Int64", "Sint64", "Sfixed64")
	kUint32  = kset("Uint32", "Fixed32")
	kUint64  = kset("Uint64", "Fixed64")
	kSigned  = kset("Int32", "Sint32", "Sfixed32", "Int64", "Sint64", "Sfixed64")
	kUnsign  = kset("Uint32", "Fixed32", "Uint64", "Fixed64")
	kFloats  = kset("Float", "Double")
	k32      = kset("Int32", "Sint32", "Sfixed32", "Uint32", "Fixed32", "Float", "Enum")
	k64      = kset("Int64", "Sint64", "Sfixed64", "Uint64", "Fixed64", "Double")
)

// kindCallTable: callee key -> kinds for which the call is legitimate.
var kindCallTable = map[string]map[string]bool{
	"encoding/protowire.ConsumeVarint":  kVarint,
	"encoding/protowire.AppendVarint":   nil, // also used for lengths/tags: not constrained
	"encoding/protowire.ConsumeFixed32": kFixed32,
	"encoding/protowire.AppendFixed32":  kFixed32,
	"encoding/protowire.SizeFixed32":    kFixed32,
	"encoding/protowire.ConsumeFixed64": kFixed64,
	"encoding/protowire.AppendFixed64":  kFixed64,
	"encoding/protowire.SizeFixed64":    kFixed64,
	"encoding/protowire.ConsumeBytes":   kBytes,
	"encoding/protowire.ConsumeString":  kset("String", "Bytes"), // a bytes field may be held in a Go string: same wire form
	"encoding/protowire.AppendString":   kset("String", "Bytes"),
	"encoding/protowire.ConsumeGroup":   kGroup,
	"encoding/protowire.DecodeZigZag":   kZigZag,
	"encoding/protowire.EncodeZigZag":   kZigZag,
	"encoding/protowire.DecodeBool":     kset("Bool"),
	"encoding/protowire.EncodeBool":     kset("Bool"),
	"math.Float32bits":                  kset("Float"),
	"math.Float32frombits":              kset("Float"),
	"math.Float64bits":                  kset("Double"),
	"math.Float64frombits":              kset("Double"),

	"reflect/protoreflect.ValueOfBool":    kset("Bool"),
	"reflect/protoreflect.ValueOfInt32":   kInt32,
	"reflect/protoreflect.ValueOfInt64":   kInt64,
	"reflect/protoreflect.ValueOfUint32":  kUint32,
	"reflect/protoreflect.ValueOfUint64":  kUint64,
	"reflect/protoreflect.ValueOfFloat32": kset("Float"),
	"reflect/protoreflect.ValueOfFloat64": kset("Double"),
	"reflect/protoreflect.ValueOfString":  kset("String"),
	"reflect/protoreflect.ValueOfBytes":   kset("Bytes", "Message", "Group"), // the reflection decoder carries a nested message's raw bytes in a bytes Value before descending
	"reflect/protoreflect.ValueOfEnum":    kset("Enum"),

	"reflect/protoreflect.Value.Bool":   kset("Bool"),
	"reflect/protoreflect.Value.Int":    kSigned,
	"reflect/protoreflect.Value.Uint":   kUnsign,
	"reflect/protoreflect.Value.Float":  kFloats,
	"reflect/protoreflect.Value.Bytes":  kset("Bytes", "Message", "Group"), // see ValueOfBytes
	"reflect/protoreflect.Value.Enum":   kset("Enum"),
	"reflect/protoreflect.Value.String": nil, // String() is also the Stringer: not constrained

	"internal/encoding/text.Token.Bool":    kset("Bool"),
	"internal/encoding/text.Token.Int32":   kset("Int32", "Sint32", "Sfixed32", "Enum"), // enum by number
	"internal/encoding/text.Token.Int64":   kInt64,
	"internal/encoding/text.Token.Uint32":  kUint32,
	"internal/encoding/text.Token.Uint64":  kUint64,
	"internal/encoding/text.Token.Float32": kset("Float"),
	"internal/encoding/text.Token.Float64": kset("Double"),

	"internal/encoding/text.(*Encoder).WriteBool":  kset("Bool"),
	"internal/encoding/text.(*Encoder).WriteInt":   kset("Int32", "Sint32", "Sfixed32", "Int64", "Sint64", "Sfixed64", "Enum"),
	"internal/encoding/text.(*Encoder).WriteUint":  kUnsign,
	"internal/encoding/text.(*Encoder).WriteFloat": kFloats,
	"internal/encoding/json.(*Encoder).WriteBool":  kset("Bool"),
	"internal/encoding/json.(*Encoder).WriteInt":   kset("Int32", "Sint32", "Sfixed32", "Enum"), // 64-bit integers are written as strings
	"internal/encoding/json.(*Encoder).WriteUint":  kset("Uint32", "Fixed32"),
	"internal/encoding/json.(*Encoder).WriteFloat": kFloats,

	"encoding/protojson.unmarshalInt":   kSigned,
	"encoding/protojson.unmarshalUint":  kUnsign,
	"encoding/protojson.unmarshalFloat": kFloats,
	"encoding/protojson.unmarshalBytes": kset("Bytes"),
}

// bitSize-style constant arguments: parameter named bitSize (or strconv's).
func bitSizeParamIndex(sig *types.Signature) int {
	for i := 0; i < sig.Params().Len(); i++ {
		if n := sig.Params().At(i).Name(); n == "bitSize" {
			return i
		}
	}
	return -1
}

type kindCtx map[string]bool

func (k kindCtx) names() string {
	var s []string
	for n := range k {
		s = append(s, strings.TrimSuffix(n, "Kind"))
	}
	sort.Strings(s)
	return strings.Join(s, ",")
}

// kindOfExpr returns the Kind constant name if e is protoreflect.XKind.
func kindOfExpr(info *types.Info, e ast.Expr) (string, bool) {
	o := objOf(info, e)
	c, ok := o.(*types.Const)
	if !ok || c.Pkg() == nil || c.Pkg().Path() != modPath+"/reflect/protoreflect" {
		return "", false
	}
	if namedTypeName(c.Type()) != "reflect/protoreflect.Kind" {
		return "", false
	}
	return c.Name(), true
}

func (c *Ctx) ruleKindContext(rule string, pkgs []string, floor int) {
	R, P := c.R, c.P
	R.Rule(rule, "in code control-dependent on a field Kind (case clause / `k == XKind` branch), every kind-typed primitive (wire consume/append/size, zigzag, float bit casts, ValueOfX, Value.X, token accessors, bitSize constants) is compatible with every Kind of the context per the protobuf scalar table", floor)
	for _, pkg := range pkgs {
		for _, fi := range P.FuncsIn(pkg) {
			if fi.Decl.Body == nil {
				continue
			}
			c.kindCtxFunc(rule, fi)
		}
	}
}

func (c *Ctx) kindCtxFunc(rule string, fi *FuncInfo) {
	R, P := c.R, c.P
	info := fi.Info()
	counter := map[string]int{}
	var visit func(n ast.Node, ctx kindCtx)
	packedDepth := 0
	isBytesTypeTest := func(cond ast.Expr) bool {
		be, ok := unparen(cond).(*ast.BinaryExpr)
		if !ok || be.Op != token.EQL {
			return false
		}
		o := objOf(info, be.Y)
		return o != nil && qualObj(o) == "encoding/protowire.BytesType"
	}
	checkCall := func(call *ast.CallExpr, ctx kindCtx) {
		if len(ctx) == 0 {
			return
		}
		f := calleeFunc(info, call)
		if f == nil {
			return
		}
		key := funcKey(f)
		if f.Pkg() != nil && !isModPkg(f.Pkg().Path()) {
			key = f.Pkg().Path() + "." + f.Name()
		}
		name := func() string {
			counter[key]++
			return fi.Key + " [" + ctx.names() + "] " + key + " #" + itoa(counter[key])
		}
		if allowed, ok := kindCallTable[key]; ok && allowed != nil {
			var badKinds []string
			for k := range ctx {
				if key == "encoding/protowire.ConsumeBytes" && packedDepth > 0 && (kVarint[k] || kFixed32[k] || kFixed64[k]) {
					continue // packed repeated scalars are length-delimited: branch taken under wtyp == BytesType
				}
				if !allowed[k] {
					badKinds = append(badKinds, k)
				}
			}
			sort.Strings(badKinds)
			if len(badKinds) == 0 {
				R.OK(rule, name(), P.Pos(call), "compatible")
			} else {
				R.Bad(rule, name(), P.Pos(call), key+" is used for kind(s) "+strings.Join(badKinds, ",")+" but the protobuf scalar table does not allow it there (wrong wire family / Go type / signedness)")
			}
		}
		if sig, ok := f.Type().(*types.Signature); ok {
			if bi := bitSizeParamIndex(sig); bi >= 0 && bi < len(call.Args) {
				if v, ok := constInt(info, call.Args[bi]); ok && (v == 32 || v == 64) {
					want := k64
					if v == 32 {
						want = k32
					}
					var badKinds []string
					for k := range ctx {
						if !want[k] && (k32[k] || k64[k]) {
							badKinds = append(badKinds, k)
						}
					}
					sort.Strings(badKinds)
					nm := name() + " bitSize"
					if len(badKinds) == 0 {
						R.OK(rule, nm, P.Pos(call), "bitSize "+itoa(int(v))+" matches kind width")
					} else {
						R.Bad(rule, nm, P.Pos(call), "bitSize "+itoa(int(v))+" passed to "+key+" for kind(s) "+strings.Join(badKinds, ",")+" of the other width: values are range-checked/rounded/formatted for the wrong type")
					}
				}
			}
		}
	}
	kindEq := func(cond ast.Expr) (string, token.Token, bool) {
		be, ok := unparen(cond).(*ast.BinaryExpr)
		if !ok || (be.Op != token.EQL && be.Op != token.NEQ) {
			return "", 0, false
		}
		if k, ok := kindOfExpr(info, be.Y); ok {
			return k, be.Op, true
		}
		if k, ok := kindOfExpr(info, be.X); ok {
			return k, be.Op, true
		}
		return "", 0, false
	}
	visit = func(n ast.Node, ctx kindCtx) {
		if n == nil {
			return
		}
		switch s := n.(type) {
		case *ast.FuncLit:
			visit(s.Body, ctx)
			return
		case *ast.CaseClause:
			var ks []string
			allKind := len(s.List) > 0
			for _, e := range s.List {
				if k, ok := kindOfExpr(info, e); ok {
					ks = append(ks, k)
				} else {
					allKind = false
				}
			}
			nctx := ctx
			if allKind {
				nctx = kindCtx{}
				for _, k := range ks {
					nctx[k] = true
				}
			} else if len(s.List) == 0 {
				nctx = nil // default clause: unknown remainder
			}
			for _, st := range s.Body {
				visit(st, nctx)
			}
			return
		case *ast.SwitchStmt:
			// a nested switch on something else keeps ctx; a switch on Kind resets via clauses
			if s.Init != nil {
				visit(s.Init, ctx)
			}
			if s.Tag != nil {
				visit(s.Tag, ctx)
			}
			for _, cc := range s.Body.List {
				visit(cc, ctx)
			}
			return
		case *ast.IfStmt:
			if s.Init != nil {
				visit(s.Init, ctx)
			}
			visit(s.Cond, ctx)
			if k, op, ok := kindEq(s.Cond); ok {
				thenCtx, elseCtx := kindCtx{k: true}, kindCtx(nil)
				if len(ctx) > 0 {
					elseCtx = kindCtx{}
					for kk := range ctx {
						if kk != k {
							elseCtx[kk] = true
						}
					}
				}
				if op == token.NEQ {
					thenCtx, elseCtx = elseCtx, thenCtx
				}
				visit(s.Body, thenCtx)
				if s.Else != nil {
					visit(s.Else, elseCtx)
				}
				return
			}
			if isBytesTypeTest(s.Cond) {
				packedDepth++
				visit(s.Body, ctx)
				packedDepth--
			} else {
				visit(s.Body, ctx)
			}
			if s.Else != nil {
				visit(s.Else, ctx)
			}
			return
		case *ast.CallExpr:
			checkCall(s, ctx)
		case *ast.Ident:
			// a coder table row: `case XKind: return …, coderX` — the primitives used by
			// the coder's marshal/unmarshal functions must fit the Kind
			if len(ctx) > 0 {
				if v, ok := info.Uses[s].(*types.Var); ok && v.Parent() == v.Pkg().Scope() {
					if prims := c.coderPrimitives(v); len(prims) > 0 {
						counter["row:"+v.Name()]++
						nm := fi.Key + " [" + ctx.names() + "] row " + v.Name() + " #" + itoa(counter["row:"+v.Name()])
						var badKinds []string
						for _, pk := range prims {
							allowed := kindCallTable[pk]
							if allowed == nil {
								continue
							}
							for k := range ctx {
								if pk == "encoding/protowire.ConsumeBytes" && (kVarint[k] || kFixed32[k] || kFixed64[k]) {
									continue // packed form of repeated scalars
								}
								if !allowed[k] {
									badKinds = append(badKinds, k+" uses "+short(pk))
								}
							}
						}
						sort.Strings(badKinds)
						if len(badKinds) == 0 {
							R.OK(rule, nm, P.Pos(s), "coder primitives fit the kind")
						} else {
							R.Bad(rule, nm, P.Pos(s), "the coder installed for this Kind encodes/decodes with primitives of another wire family or Go type: "+strings.Join(dedupe(badKinds), "; "))
						}
					}
				}
			}
		}
		// generic descent
		ast.Inspect(n, func(x ast.Node) bool {
			if x == nil || x == n {
				return x != nil
			}
			visit(x, ctx)
			return false
		})
	}
	visit(fi.Decl.Body, nil)
}

// coderPrimitives: kind-typed primitives used by the marshal and unmarshal
// functions of a package-level coder variable (pointerCoderFuncs/valueCoderFuncs).
func (c *Ctx) coderPrimitives(v *types.Var) []string {
	tn := namedTypeName(v.Type())
	if tn != "internal/impl.pointerCoderFuncs" && tn != "internal/impl.valueCoderFuncs" {
		return nil
	}
	if c.coderPrimCache == nil {
		c.coderPrimCache = map[*types.Var][]string{}
		pk := c.P.Pkg("internal/impl")
		if pk == nil {
			return nil
		}
		info := pk.TypesInfo
		for _, f := range pk.Syntax {
			for _, d := range f.Decls {
				gd, ok := d.(*ast.GenDecl)
				if !ok {
					continue
				}
				for _, sp := range gd.Specs {
					vs, ok := sp.(*ast.ValueSpec)
					if !ok || len(vs.Names) != 1 || len(vs.Values) != 1 {
						continue
					}
					cl, ok := unparen(vs.Values[0]).(*ast.CompositeLit)
					if !ok {
						continue
					}
					obj, _ := info.Defs[vs.Names[0]].(*types.Var)
					if obj == nil {
						continue
					}
					set := map[string]bool{}
					for _, el := range cl.Elts {
						kv, ok := el.(*ast.KeyValueExpr)
						if !ok {
							continue
						}
						if id, ok := kv.Key.(*ast.Ident); !ok || (id.Name != "marshal" && id.Name != "unmarshal") {
							continue
						}
						if fo, ok := objOf(info, kv.Value).(*types.Func); ok {
							if fx := c.P.Func(funcKey(fo)); fx != nil && fx.Decl.Body != nil {
								for k := range c.coderFacts(fx).calls {
									if _, known := kindCallTable[k]; known {
										set[k] = true
									}
								}
							}
						}
					}
					c.coderPrimCache[obj] = sortedSet(set)
				}
			}
		}
	}
	return c.coderPrimCache[v]
}
