package main

import (
	"go/ast"
	"go/token"
	"go/types"
	"strings"
)

func init() {
	register(&Property{
		ID:         "C42",
		Level:      "other",
		Technique:  "finite case analysis of strs.GoCamelCase over all (previous byte, byte, next byte) contexts of protobuf identifier characters; shape rule for GoSanitized; CFG dominance of the FieldMask reversibility test; agreement of protogen's accessor clash check with the generator's emission guards and structural completeness of the name-allocation tables (static)",
		Explain:    "Decides three of the four clauses of C42 structurally: (1) GoCamelCase processes its input byte by byte with a switch whose conditions depend only on the byte, on whether it is the first, on the previous byte being '.', and on the class of the next byte; the switch is evaluated for every context over the identifier alphabet [A-Za-z0-9_] (every first byte in [A-Za-z_] with every possible next byte or none; every later byte with every previous and next byte): at the first position at least one byte is emitted and the first emitted byte is in [A-Z], and every byte ever emitted is in [A-Za-z0-9_] — so the result of a valid protobuf identifier matches [A-Z][A-Za-z0-9_]*, an exported Go identifier that is not a keyword; (2) GoSanitized maps every rune that is not a Unicode letter or digit to '_' and prefixes '_' whenever the result is a keyword or does not start with a letter, so the result is a Go identifier (letter or '_' first, then letters, digits, '_') and not a keyword; (3) JSONSnakeCase(JSONCamelCase(s)) == s holds for every FieldMask path protojson emits, because the writer emits a path only on that established equality (R-FIELDMASK-REVERSIBLE). (4) for the fourth clause (names inside a generated message are pairwise distinct) four structural necessary conditions: opaqueNewMessageHook considers for clashes every accessor internal_gengo emits (Get/Set always, Has/Clear under the same condition as the generator's emission guards); a oneof's base name is related to the fields' base names (shared Has/Clear prefixes); oneofs are registered with makeNameUnique as having a getter; oneof wrapper types are compared with each other. The last three fail on the current tree with confirmed inputs and are listed as open findings D27, D28, D29.",
		NotCovered: "pairwise distinctness of the names inside a generated message on concrete schemas beyond the four structural clauses decided here (clash check covers every emitted accessor; oneof base names related to field base names; oneofs registered with their getter; wrapper types compared with each other) — three of these are open findings D27-D29; identifiers containing '.' (full names) in GoCamelCase.",
		Quick:      all("./internal/strs", "./encoding/protojson", "./compiler/protogen", "./cmd/protoc-gen-go/internal_gengo"),
		Thorough:   all("./..."),
		Run: func(c *Ctx) {
			c.ruleGoCamelCase("R-GOCAMEL-IDENT")
			c.ruleGoSanitized("R-GOSANITIZED-SHAPE")
			c.ruleFieldMaskReversible("R-FIELDMASK-REVERSIBLE")
			c.ruleMethodClashCoverage("R-METHOD-CLASH-COVERAGE")
			c.ruleAccessorBaseUnique("R-ACCESSOR-BASE-UNIQUE")
			c.ruleOpenAPINameAllocation("R-UNIQUE-NAME-GETTER", "R-ONEOF-WRAPPER-UNIQUE")
		},
	})
}

type camelCtx struct {
	c          int64
	i, n       int64
	prev, next int64 // -1: none
}

type camelEval struct {
	c     *Ctx
	fi    *FuncInfo
	info  *types.Info
	cObj  types.Object
	iObj  types.Object
	sObj  types.Object
	preds map[string]bset
	fail  string
}

func (ce *camelEval) intv(e ast.Expr, cx *camelCtx) (int64, bool) {
	e = unparen(e)
	if v, ok := constInt(ce.info, e); ok {
		return v, true
	}
	switch x := e.(type) {
	case *ast.Ident:
		switch ce.info.Uses[x] {
		case ce.cObj:
			return cx.c, true
		case ce.iObj:
			return cx.i, true
		}
	case *ast.BinaryExpr:
		a, ok1 := ce.intv(x.X, cx)
		b, ok2 := ce.intv(x.Y, cx)
		if ok1 && ok2 {
			switch x.Op {
			case token.ADD:
				return a + b, true
			case token.SUB:
				return a - b, true
			}
		}
	case *ast.CallExpr:
		if calleeKey(ce.info, x) == "builtin.len" && len(x.Args) == 1 && objOf(ce.info, x.Args[0]) == ce.sObj {
			return cx.n, true
		}
	case *ast.IndexExpr:
		if objOf(ce.info, x.X) == ce.sObj {
			if k, ok := ce.intv(x.Index, cx); ok {
				switch k {
				case cx.i:
					return cx.c, true
				case cx.i + 1:
					if cx.next >= 0 {
						return cx.next, true
					}
				case cx.i - 1:
					if cx.prev >= 0 {
						return cx.prev, true
					}
				}
			}
		}
	}
	return 0, false
}

func (ce *camelEval) boolv(e ast.Expr, cx *camelCtx) bool {
	e = unparen(e)
	switch x := e.(type) {
	case *ast.UnaryExpr:
		if x.Op == token.NOT {
			return !ce.boolv(x.X, cx)
		}
	case *ast.BinaryExpr:
		switch x.Op {
		case token.LAND:
			return ce.boolv(x.X, cx) && ce.boolv(x.Y, cx)
		case token.LOR:
			return ce.boolv(x.X, cx) || ce.boolv(x.Y, cx)
		case token.EQL, token.NEQ, token.LSS, token.LEQ, token.GTR, token.GEQ:
			a, ok1 := ce.intv(x.X, cx)
			b, ok2 := ce.intv(x.Y, cx)
			if ok1 && ok2 {
				return cmpHolds(x.Op, a, b)
			}
		}
	case *ast.CallExpr:
		if len(x.Args) == 1 {
			k := calleeKey(ce.info, x)
			set, ok := ce.preds[k]
			if !ok {
				s, good := (&scanFunc{c: ce.c, info: ce.info}).predicateSet(x)
				if good {
					ce.preds[k] = s
					set, ok = s, true
				}
			}
			if ok {
				if v, okv := ce.intv(x.Args[0], cx); okv && v >= 0 && v < 256 {
					return set.has(int(v))
				}
			}
		}
	}
	if ce.fail == "" {
		ce.fail = "condition " + exprStr(e) + " cannot be evaluated in this context"
	}
	return false
}

// emit: the bytes a clause body appends for this context (each element is a set of possible bytes).
func (ce *camelEval) emit(stmts []ast.Stmt, cx *camelCtx, out *[]bset) {
	for _, st := range stmts {
		switch s := st.(type) {
		case *ast.AssignStmt:
			if len(s.Lhs) == 1 && len(s.Rhs) == 1 {
				if objOf(ce.info, s.Lhs[0]) == ce.cObj && (s.Tok == token.SUB_ASSIGN || s.Tok == token.ADD_ASSIGN) {
					if k, ok := ce.intv(s.Rhs[0], cx); ok {
						if s.Tok == token.SUB_ASSIGN {
							cx.c -= k
						} else {
							cx.c += k
						}
						continue
					}
				}
				if call, ok := unparen(s.Rhs[0]).(*ast.CallExpr); ok && calleeKey(ce.info, call) == "builtin.append" && len(call.Args) == 2 {
					if v, ok := ce.intv(call.Args[1], cx); ok && v >= 0 && v < 256 {
						*out = append(*out, setOf(func(b int) bool { return b == int(v) }))
						continue
					}
					ce.fail = "appended byte " + exprStr(call.Args[1]) + " cannot be evaluated"
					return
				}
			}
			ce.fail = "unrecognised assignment " + exprStr(s.Lhs[0])
			return
		case *ast.IfStmt:
			if s.Init != nil || s.Else != nil {
				ce.fail = "if with init/else"
				return
			}
			if ce.boolv(s.Cond, cx) {
				ce.emit(s.Body.List, cx, out)
			}
		case *ast.ForStmt:
			// for ; i+1 < len(s) && pred(s[i+1]); i++ { b = append(b, s[i+1]) }: emits bytes satisfying pred
			var pred *ast.CallExpr
			walk(s.Cond, func(n ast.Node) bool {
				if call, ok := n.(*ast.CallExpr); ok && len(call.Args) == 1 && calleeKey(ce.info, call) != "builtin.len" {
					pred = call
				}
				return true
			})
			okBody := false
			if len(s.Body.List) == 1 {
				if as, ok := s.Body.List[0].(*ast.AssignStmt); ok && len(as.Rhs) == 1 {
					if call, ok := unparen(as.Rhs[0]).(*ast.CallExpr); ok && calleeKey(ce.info, call) == "builtin.append" && pred != nil && exprStr(call.Args[1]) == exprStr(pred.Args[0]) {
						okBody = true
					}
				}
			}
			if !okBody {
				ce.fail = "inner loop not of the form `for …pred(s[i+1])… { b = append(b, s[i+1]) }`"
				return
			}
			set, good := (&scanFunc{c: ce.c, info: ce.info}).predicateSet(pred)
			if !good {
				ce.fail = "loop predicate cannot be evaluated"
				return
			}
			*out = append(*out, set) // zero or more bytes of this set
		default:
			ce.fail = "unrecognised statement in a clause"
			return
		}
	}
}

func (c *Ctx) ruleGoCamelCase(rule string) {
	R, P := c.R, c.P
	R.Rule(rule, "strs.GoCamelCase, evaluated for every context over the identifier alphabet: at the first byte (any of [A-Za-z_], any next byte or none) a byte of [A-Z] is emitted first; at every position (any previous, current and next identifier byte) only bytes of [A-Za-z0-9_] are emitted", 2)
	fi := c.need(rule, "internal/strs.GoCamelCase")
	if fi == nil {
		return
	}
	info := fi.Info()
	var loop *ast.ForStmt
	for _, st := range fi.Decl.Body.List {
		if fs, ok := st.(*ast.ForStmt); ok {
			loop = fs
		}
	}
	if loop == nil {
		R.Unk(rule, fi.Key, P.Pos(fi.Decl), "byte loop not found")
		return
	}
	ce := &camelEval{c: c, fi: fi, info: info, preds: map[string]bset{}}
	ce.sObj = info.Defs[fi.Decl.Type.Params.List[0].Names[0]]
	if as, ok := loop.Init.(*ast.AssignStmt); ok && len(as.Lhs) == 1 {
		ce.iObj = info.Defs[as.Lhs[0].(*ast.Ident)]
	}
	var sw *ast.SwitchStmt
	for _, st := range loop.Body.List {
		switch s := st.(type) {
		case *ast.AssignStmt:
			if len(s.Lhs) == 1 && s.Tok == token.DEFINE {
				if ix, ok := unparen(s.Rhs[0]).(*ast.IndexExpr); ok && objOf(info, ix.X) == ce.sObj {
					ce.cObj = info.Defs[s.Lhs[0].(*ast.Ident)]
				}
			}
		case *ast.SwitchStmt:
			if s.Tag == nil {
				sw = s
			}
		}
	}
	if sw == nil || ce.cObj == nil || ce.iObj == nil {
		R.Unk(rule, fi.Key, P.Pos(loop), "`c := s[i]` and the tagless switch not found")
		return
	}
	isIdent := func(b int64) bool {
		return b == '_' || (b >= '0' && b <= '9') || (b >= 'a' && b <= 'z') || (b >= 'A' && b <= 'Z')
	}
	var alphabet []int64
	for b := int64(0); b < 128; b++ {
		if isIdent(b) {
			alphabet = append(alphabet, b)
		}
	}
	identSet := setOf(func(b int) bool { return isIdent(int64(b)) })
	upperSet := setOf(func(b int) bool { return b >= 'A' && b <= 'Z' })
	run := func(cx camelCtx) ([]bset, string) {
		ce.fail = ""
		var out []bset
		var def *ast.CaseClause
		for _, cl := range sw.Body.List {
			cc := cl.(*ast.CaseClause)
			if cc.List == nil {
				def = cc
				continue
			}
			taken := false
			for _, l := range cc.List {
				k := cx
				if ce.boolv(l, &k) {
					taken = true
				}
			}
			if ce.fail != "" {
				return nil, ce.fail
			}
			if taken {
				k := cx
				ce.emit(cc.Body, &k, &out)
				return out, ce.fail
			}
		}
		if def != nil {
			k := cx
			ce.emit(def.Body, &k, &out)
		}
		return out, ce.fail
	}
	subset := func(a, b bset) bool { return a.and(b.not()).empty() }
	badFirst, badAlpha, undec := "", "", ""
	nFirst, nAll := 0, 0
	nexts := append([]int64{-1}, alphabet...)
	for _, c0 := range alphabet {
		for _, nx := range nexts {
			// first position
			if !(c0 >= '0' && c0 <= '9') {
				n := int64(1)
				if nx >= 0 {
					n = 2
				}
				out, f := run(camelCtx{c: c0, i: 0, n: n, prev: -1, next: nx})
				if f != "" {
					undec = f
				}
				nFirst++
				if undec == "" && badFirst == "" {
					if len(out) == 0 {
						badFirst = "for an identifier starting with `" + string(rune(c0)) + "` nothing is emitted at the first position: the result can start with a byte emitted for a later position, or be empty"
					} else if !subset(out[0], upperSet) {
						badFirst = "for an identifier starting with `" + string(rune(c0)) + "` the first emitted byte is not in [A-Z]: the result is not an exported Go identifier"
					}
				}
			}
			// later position, every previous byte
			for _, pv := range alphabet {
				n := int64(2)
				if nx >= 0 {
					n = 3
				}
				out, f := run(camelCtx{c: c0, i: 1, n: n, prev: pv, next: nx})
				if f != "" {
					undec = f
				}
				nAll++
				if undec == "" && badAlpha == "" {
					for _, s := range out {
						if !subset(s, identSet) {
							badAlpha = "for the byte `" + string(rune(c0)) + "` after `" + string(rune(pv)) + "` a byte outside [A-Za-z0-9_] is emitted"
						}
					}
				}
			}
		}
	}
	if undec != "" {
		R.Unk(rule, fi.Key+" contexts", P.Pos(sw), undec)
		return
	}
	R.Check(badFirst == "", rule, fi.Key+" first byte", P.Pos(sw), itoa(nFirst)+" first-position contexts: a byte of [A-Z] is emitted first", badFirst)
	R.Check(badAlpha == "", rule, fi.Key+" alphabet", P.Pos(sw), itoa(nAll)+" later-position contexts: only bytes of [A-Za-z0-9_] are emitted", badAlpha)
}

func (c *Ctx) ruleGoSanitized(rule string) {
	R, P := c.R, c.P
	R.Rule(rule, "strs.GoSanitized: strings.Map keeps a rune only if unicode.IsLetter or unicode.IsDigit holds and maps every other rune to '_'; '_' is prefixed whenever token.Lookup(s).IsKeyword() or the first rune is not a letter", 2)
	fi := c.need(rule, "internal/strs.GoSanitized")
	if fi == nil {
		return
	}
	info := fi.Info()
	mapOK := false
	walkAll(fi.Decl.Body, func(n ast.Node) bool {
		call, ok := n.(*ast.CallExpr)
		if !ok || calleeKey(info, call) != "strings.Map" || len(call.Args) != 2 {
			return true
		}
		fl, ok := call.Args[0].(*ast.FuncLit)
		if !ok || len(fl.Body.List) != 2 {
			return true
		}
		is, ok1 := fl.Body.List[0].(*ast.IfStmt)
		rs, ok2 := fl.Body.List[1].(*ast.ReturnStmt)
		if !ok1 || !ok2 || len(rs.Results) != 1 {
			return true
		}
		v, isC := constInt(info, rs.Results[0])
		keepsParam := false
		if len(is.Body.List) == 1 {
			if r2, ok := is.Body.List[0].(*ast.ReturnStmt); ok && len(r2.Results) == 1 {
				if id, ok := unparen(r2.Results[0]).(*ast.Ident); ok && len(fl.Type.Params.List) == 1 && info.Uses[id] == info.Defs[fl.Type.Params.List[0].Names[0]] {
					keepsParam = true
				}
			}
		}
		cond := exprStr(is.Cond)
		onlyClasses := true
		walk(is.Cond, func(x ast.Node) bool {
			if cl, ok := x.(*ast.CallExpr); ok {
				if k := calleeKey(info, cl); k != "unicode.IsLetter" && k != "unicode.IsDigit" {
					onlyClasses = false
				}
			}
			if be, ok := x.(*ast.BinaryExpr); ok && be.Op != token.LOR {
				onlyClasses = false
			}
			return true
		})
		mapOK = isC && v == '_' && keepsParam && onlyClasses && strings.Contains(cond, "unicode.IsLetter(")
		return true
	})
	R.Check(mapOK, rule, fi.Key+" alphabet", P.Pos(fi.Decl), "letters and digits kept, everything else '_'", "the sanitising map keeps runes other than Unicode letters/digits or replaces with something other than '_': the result may contain characters that are not allowed in a Go identifier")
	prefixOK := false
	walk(fi.Decl.Body, func(n ast.Node) bool {
		is, ok := n.(*ast.IfStmt)
		if !ok {
			return true
		}
		or, ok := unparen(is.Cond).(*ast.BinaryExpr)
		if !ok || or.Op != token.LOR {
			return true
		}
		kw := strings.Contains(exprStr(or), "IsKeyword()")
		notLetter := false
		for _, side := range []ast.Expr{or.X, or.Y} {
			if un, ok := unparen(side).(*ast.UnaryExpr); ok && un.Op == token.NOT {
				if cl, ok := unparen(un.X).(*ast.CallExpr); ok && calleeKey(info, cl) == "unicode.IsLetter" {
					notLetter = true
				}
			}
		}
		ret := false
		for _, st := range is.Body.List {
			if rs, ok := st.(*ast.ReturnStmt); ok && len(rs.Results) == 1 {
				if be, ok := unparen(rs.Results[0]).(*ast.BinaryExpr); ok && be.Op == token.ADD {
					if tv, ok := info.Types[be.X]; ok && tv.Value != nil && constantString(tv.Value) == "_" {
						ret = true
					}
				}
			}
		}
		if kw && notLetter && ret {
			prefixOK = true
		}
		return true
	})
	R.Check(prefixOK, rule, fi.Key+" prefix", P.Pos(fi.Decl), "'_' prefixed on keyword or non-letter start", "the result is not prefixed with '_' both when it is a Go keyword and when it does not start with a letter (digits, empty string): it is not a valid non-keyword identifier")
}

// R-METHOD-CLASH-COVERAGE: opaqueNewMessageHook decides whether the accessor
// names of a field clash with another field's name by looking at the methods
// the field will get. That list has to cover what the generator emits: Get and
// Set always, Has and Clear under the very condition under which
// internal_gengo emits opaqueGenHas / opaqueGenClear. A narrower condition
// leaves a HasX method and a field (or getter) named HasX in one struct.
func (c *Ctx) ruleMethodClashCoverage(rule string) {
	R, P := c.R, c.P
	R.Rule(rule, "protogen.opaqueNewMessageHook considers Set and Get for every field and adds Has and Clear under a condition C; every call of internal_gengo.opaqueGenHas / opaqueGenClear is preceded in its loop by `if !C { continue }`, so every emitted accessor was considered for clashes; oneof unions are checked for Has, Clear and Which", 4)
	hook := c.need(rule, "compiler/protogen.opaqueNewMessageHook")
	if hook == nil {
		return
	}
	info := hook.Info()
	strLits := func(n ast.Node) map[string]bool {
		out := map[string]bool{}
		walk(n, func(m ast.Node) bool {
			if bl, ok := m.(*ast.BasicLit); ok && bl.Kind == token.STRING {
				out[constantString(info.Types[bl].Value)] = true
			}
			return true
		})
		return out
	}
	var base map[string]bool
	var presenceCond ast.Expr
	var oneofSet map[string]bool
	walkAll(hook.Decl.Body, func(n ast.Node) bool {
		switch x := n.(type) {
		case *ast.AssignStmt:
			if len(x.Lhs) == 1 && exprStr(x.Lhs[0]) == "methods" && x.Tok == token.DEFINE {
				base = strLits(x.Rhs[0])
			}
		case *ast.IfStmt:
			for _, st := range x.Body.List {
				if as, ok := st.(*ast.AssignStmt); ok && len(as.Lhs) == 1 && exprStr(as.Lhs[0]) == "methods" {
					l := strLits(as.Rhs[0])
					if l["Has"] && l["Clear"] {
						presenceCond = x.Cond
					}
				}
			}
		case *ast.RangeStmt:
			if cl, ok := unparen(x.X).(*ast.CompositeLit); ok {
				l := strLits(cl)
				if l["Which"] {
					oneofSet = l
				}
			}
		}
		return true
	})
	R.Check(base["Get"] && base["Set"], rule, hook.Key+" base methods", P.Pos(hook.Decl), "Get and Set considered for every field", "the clash check does not consider both Get and Set for every field")
	R.Check(oneofSet["Has"] && oneofSet["Clear"] && oneofSet["Which"], rule, hook.Key+" oneof methods", P.Pos(hook.Decl), "Has, Clear, Which considered for oneof unions", "the clash check of oneof unions does not consider Has, Clear and Which")
	if presenceCond == nil {
		R.Unk(rule, hook.Key+" Has/Clear condition", P.Pos(hook.Decl), "`if C { methods = append(methods, \"Has\", \"Clear\") }` not found")
		return
	}
	want := "!" + exprStr(presenceCond)
	for _, callee := range []string{"opaqueGenHas", "opaqueGenClear"} {
		n := 0
		for _, fi := range P.FuncsIn("cmd/protoc-gen-go/internal_gengo") {
			if fi.Decl.Body == nil {
				continue
			}
			ginfo := fi.Info()
			walkAll(fi.Decl.Body, func(m ast.Node) bool {
				rs, ok := m.(*ast.RangeStmt)
				if !ok {
					return true
				}
				var guards []string
				for _, st := range rs.Body.List {
					if is, ok := st.(*ast.IfStmt); ok && len(is.Body.List) == 1 {
						if br, ok := is.Body.List[0].(*ast.BranchStmt); ok && br.Tok == token.CONTINUE {
							guards = append(guards, exprStr(is.Cond))
						}
					}
					es, ok := st.(*ast.ExprStmt)
					if !ok {
						continue
					}
					call, ok := es.X.(*ast.CallExpr)
					if !ok || calleeKey(ginfo, call) != "cmd/protoc-gen-go/internal_gengo."+callee {
						continue
					}
					n++
					found := false
					for _, g := range guards {
						if g == want {
							found = true
						}
					}
					R.Check(found, rule, fi.Key+" emits "+callee, P.Pos(call), "under "+exprStr(presenceCond), "the generator emits "+callee+" under the guards {"+strings.Join(guards, "; ")+"} but the clash check adds Has/Clear only if `"+exprStr(presenceCond)+"`: a field for which the accessor is emitted without having been considered can get a Has/Clear method whose name equals another field's name or getter")
				}
				return true
			})
		}
		if n == 0 {
			R.Unk(rule, callee+" call sites", "", "no call of "+callee+" found in a field loop of internal_gengo")
		}
	}
}

// R-ACCESSOR-BASE-UNIQUE: in the Opaque/Hybrid API a field gets Get/Set/Has/
// Clear + base name and a oneof gets Has/Clear/Which + base name, where the
// base name is the camel-cased proto name. resolveCamelCaseConflicts makes the
// base names of fields pairwise distinct; because Has and Clear are shared
// prefixes, a oneof's base name also has to be told apart from every field's
// base name (by a test of one against the other that renames or sets the
// conflict marker). Without such a test `oneof foo` and `optional int32 Foo`
// both get HasFoo and ClearFoo.
func (c *Ctx) ruleAccessorBaseUnique(rule string) {
	R, P := c.R, c.P
	R.Rule(rule, "protogen's opaque naming hooks compare a oneof's camelCase with the fields' camelCase (an equality between the two, or a lookup of the oneof's unprefixed camelCase in a map keyed by field names that is not an insertion), since oneofs and fields share the Has and Clear prefixes", 1)
	found := ""
	n := 0
	for _, key := range []string{"compiler/protogen.opaqueNewMessageHook", "compiler/protogen.resolveCamelCaseConflicts", "compiler/protogen.resolveCamelCaseConflict"} {
		fi := c.need(rule, key)
		if fi == nil {
			continue
		}
		n++
		info := fi.Info()
		kindOf := func(e ast.Expr) string {
			se, ok := unparen(e).(*ast.SelectorExpr)
			if !ok || se.Sel.Name != "camelCase" {
				return ""
			}
			return namedTypeName(info.TypeOf(se.X))
		}
		lhs := map[ast.Expr]bool{}
		walkAll(fi.Decl.Body, func(m ast.Node) bool {
			if as, ok := m.(*ast.AssignStmt); ok {
				for _, l := range as.Lhs {
					lhs[unparen(l)] = true
				}
			}
			return true
		})
		walkAll(fi.Decl.Body, func(m ast.Node) bool {
			switch x := m.(type) {
			case *ast.BinaryExpr:
				if x.Op == token.EQL || x.Op == token.NEQ {
					a, b := kindOf(x.X), kindOf(x.Y)
					if (a == "compiler/protogen.Oneof" && b == "compiler/protogen.Field") || (b == "compiler/protogen.Oneof" && a == "compiler/protogen.Field") {
						found = P.Pos(x)
					}
				}
			case *ast.IndexExpr:
				if !lhs[x] && kindOf(x.Index) == "compiler/protogen.Oneof" {
					if _, isMap := info.TypeOf(x.X).Underlying().(*types.Map); isMap {
						found = P.Pos(x)
					}
				}
			}
			return true
		})
	}
	if n == 0 {
		return
	}
	key := "compiler/protogen.opaqueNewMessageHook oneof/field base names"
	if found != "" {
		R.OK(rule, key, found, "oneof base name tested against field base names")
	} else {
		R.Bad(rule, key, "", "no test relates a oneof's camelCase to the fields' camelCase: resolveCamelCaseConflicts compares fields with fields only and the clash check looks up prefix+name only, so a oneof and a field with presence whose names camel-case alike both get Has<Name> and Clear<Name> and the generated message does not compile")
	}
}

// R-UNIQUE-NAME-GETTER / R-ONEOF-WRAPPER-UNIQUE: the Open-API name allocation
// in protogen.newMessage. (1) makeNameUnique(name, hasGetter) reserves
// Get<name> only if hasGetter; the generator emits Get<Oneof>() for every
// oneof, so the oneof has to be registered with hasGetter = true. (2) The
// wrapper type of a oneof member (M_Field) is renamed until it differs from
// every nested message and enum; it also has to differ from the wrapper types
// of the other members.
func (c *Ctx) ruleOpenAPINameAllocation(ruleGetter, ruleWrapper string) {
	R, P := c.R, c.P
	R.Rule(ruleGetter, "every makeNameUnique call in protogen.newMessage that names an entity for which the generator emits a Get method (fields, oneofs) passes hasGetter = true", 2)
	R.Rule(ruleWrapper, "the loop in protogen.newMessage that makes the wrapper type name of a oneof member unique compares it with nested messages, nested enums and the wrapper types of the message's other oneof members", 1)
	fi := c.need(ruleGetter, "compiler/protogen.newMessage")
	if fi == nil {
		return
	}
	info := fi.Info()
	n := 0
	walkAll(fi.Decl.Body, func(m ast.Node) bool {
		call, ok := m.(*ast.CallExpr)
		if !ok || len(call.Args) != 2 {
			return true
		}
		if id, ok := call.Fun.(*ast.Ident); !ok || id.Name != "makeNameUnique" {
			return true
		}
		n++
		what := "field"
		if strings.Contains(exprStr(call.Args[0]), "Oneof") {
			what = "oneof"
		}
		tv := info.Types[call.Args[1]]
		isTrue := tv.Value != nil && tv.Value.String() == "true"
		R.Check(isTrue, ruleGetter, fi.Key+" makeNameUnique("+what+")", P.Pos(call), "hasGetter = true", "the "+what+" is registered with hasGetter = "+exprStr(call.Args[1])+" although the generator emits Get<"+what+" name>(): a field named get_<"+what+"> becomes a struct field with the name of that method, and the generated message does not compile")
		return true
	})
	if n == 0 {
		R.Unk(ruleGetter, fi.Key, P.Pos(fi.Decl), "no makeNameUnique call found")
	}
	// wrapper types
	var loop *ast.RangeStmt
	walkAll(fi.Decl.Body, func(m ast.Node) bool {
		rs, ok := m.(*ast.RangeStmt)
		if !ok || loop != nil || !strings.HasSuffix(exprStr(rs.X), ".Fields") {
			return true
		}
		renames := false
		walk(rs.Body, func(k ast.Node) bool {
			if as, ok := k.(*ast.AssignStmt); ok && as.Tok == token.ADD_ASSIGN && strings.HasSuffix(exprStr(as.Lhs[0]), ".GoIdent.GoName") {
				renames = true
			}
			return true
		})
		if renames {
			loop = rs
		}
		return true
	})
	if loop == nil {
		R.Unk(ruleWrapper, fi.Key+" wrapper types", P.Pos(fi.Decl), "wrapper type renaming loop not found")
		return
	}
	against := map[string]bool{}
	walk(loop.Body, func(k ast.Node) bool {
		if rs, ok := k.(*ast.RangeStmt); ok {
			s := exprStr(rs.X)
			against[s[strings.LastIndex(s, ".")+1:]] = true
		}
		return true
	})
	R.Check(against["Messages"] && against["Enums"] && against["Fields"], ruleWrapper, fi.Key+" wrapper types", P.Pos(loop), "compared with nested messages, enums and other wrappers", "the wrapper type name of a oneof member is compared with {"+strings.Join(sortedSet(against), ", ")+"} only, not with the wrapper types of the other members: `oneof o { int32 foo = 1; int32 foo_ = 2; } message Foo {}` yields two types named E_Foo_")
}
