package main

import (
	"go/ast"
	"go/token"
	"sort"
)

// R-LAZY-PASSTHROUGH: raw pass-through of still-lazy bytes in Size/Marshal
// ((*ExtensionField).lazyBuffer, XXX_lazyUnmarshalInfo.SizeField/AppendField)
// happens only under lazyFields(opts)/fullyLazyExtensions(opts), and those
// predicates are exactly `flags & MarshalDeterministic == 0`.
func (c *Ctx) ruleLazyPassthrough(rule string) {
	R, P := c.R, c.P
	R.Rule(rule, "every use of lazyBuffer()/SizeField/AppendField on a size or marshal path is dominated by the true edge of lazyFields(opts)/fullyLazyExtensions(opts); both predicates return `opts.flags & MarshalDeterministic == 0`", 8)
	for _, k := range []string{"internal/impl.lazyFields", "internal/impl.fullyLazyExtensions"} {
		fi := c.need(rule, k)
		if fi == nil {
			continue
		}
		info := fi.Info()
		ok := false
		if len(fi.Decl.Body.List) == 1 {
			if rs, isRet := fi.Decl.Body.List[0].(*ast.ReturnStmt); isRet && len(rs.Results) == 1 {
				if be, isBE := unparen(rs.Results[0]).(*ast.BinaryExpr); isBE && be.Op == token.EQL {
					if v, isC := constInt(info, be.Y); isC && v == 0 {
						if and, isAnd := unparen(be.X).(*ast.BinaryExpr); isAnd && and.Op == token.AND {
							if qualObj(objOf(info, and.Y)) == "runtime/protoiface.MarshalDeterministic" || qualObj(objOf(info, and.X)) == "runtime/protoiface.MarshalDeterministic" {
								ok = true
							}
						}
					}
				}
			}
		}
		R.Check(ok, rule, k, P.Pos(fi.Decl), "returns flags&MarshalDeterministic == 0", "predicate no longer returns exactly `opts.flags & MarshalDeterministic == 0`: raw lazy bytes may be passed through under deterministic marshaling")
	}
	// lazyBuffer and the helpers that hand its result on to their callers
	sources, _ := c.lazyBufferSources()
	keys := []string{"internal/protolazy.(*XXX_lazyUnmarshalInfo).SizeField", "internal/protolazy.(*XXX_lazyUnmarshalInfo).AppendField"}
	for k := range sources {
		keys = append(keys, k)
	}
	sort.Strings(keys)
	for _, fi := range P.FuncsIn("internal/impl") {
		if fi.Decl.Body == nil {
			continue
		}
		info := fi.Info()
		calls := allCalls(info, fi.Decl.Body, keys...)
		if len(calls) == 0 {
			continue
		}
		if _, isWrapper := sources[fi.Key]; isWrapper && fi.Key != lazyBufKey {
			R.Exempt(rule, fi.Key+" wrapper", P.Pos(fi.Decl), "returns the lazy buffer (or its single payload) to its callers without emitting it; every call of this helper is checked as a pass-through site")
			continue
		}
		g := fi.CFG()
		for i, call := range calls {
			dom := g.DominatedByCond(call, func(core ast.Expr, val bool) bool {
				cc, ok := core.(*ast.CallExpr)
				if !ok || !val {
					return false
				}
				k := calleeKey(info, cc)
				return k == "internal/impl.lazyFields" || k == "internal/impl.fullyLazyExtensions"
			})
			R.Check(dom, rule, fi.Key+" passthrough#"+itoa(i+1), P.Pos(call), "under lazyFields/fullyLazyExtensions", "raw lazy bytes are used without testing lazyFields(opts)/fullyLazyExtensions(opts): deterministic marshaling would emit the sender's (possibly non-canonical) encoding")
		}
	}
}
