package main

import (
	"go/ast"
	"go/token"
	"go/types"
	"sort"
	"strings"
)

// R-LAZY-PASSTHROUGH: raw pass-through of still-lazy bytes in Size/Marshal
// ((*ExtensionField).lazyBuffer, XXX_lazyUnmarshalInfo.SizeField/AppendField)
// happens only under lazyFields(opts)/fullyLazyExtensions(opts), and those
// predicates are exactly `flags & MarshalDeterministic == 0`.
func (c *Ctx) ruleLazyPassthrough(rule string) {
	R, P := c.R, c.P
	R.Rule(rule, "every use of lazyBuffer()/SizeField/AppendField on a size or marshal path is dominated by the true edge of lazyFields(opts)/fullyLazyExtensions(opts); both predicates return `opts.flags & MarshalDeterministic == 0`", 8)
	for _, k := range []string{"internal/impl.lazyFields", "internal/impl.fullyLazyExtensions"} {
		fi := c.need(rule, k)
		if fi == nil {
			continue
		}
		info := fi.Info()
		ok := false
		if len(fi.Decl.Body.List) == 1 {
			if rs, isRet := fi.Decl.Body.List[0].(*ast.ReturnStmt); isRet && len(rs.Results) == 1 {
				if be, isBE := unparen(rs.Results[0]).(*ast.BinaryExpr); isBE && be.Op == token.EQL {
					if v, isC := constInt(info, be.Y); isC && v == 0 {
						if and, isAnd := unparen(be.X).(*ast.BinaryExpr); isAnd && and.Op == token.AND {
							if qualObj(objOf(info, and.Y)) == "runtime/protoiface.MarshalDeterministic" || qualObj(objOf(info, and.X)) == "runtime/protoiface.MarshalDeterministic" {
								ok = true
							}
						}
					}
				}
			}
		}
		R.Check(ok, rule, k, P.Pos(fi.Decl), "returns flags&MarshalDeterministic == 0", "predicate no longer returns exactly `opts.flags & MarshalDeterministic == 0`: raw lazy bytes may be passed through under deterministic marshaling")
	}
	// lazyBuffer and the helpers that hand its result on to their callers
	sources, _ := c.lazyBufferSources()
	keys := []string{"internal/protolazy.(*XXX_lazyUnmarshalInfo).SizeField", "internal/protolazy.(*XXX_lazyUnmarshalInfo).AppendField"}
	for k := range sources {
		keys = append(keys, k)
	}
	sort.Strings(keys)
	for _, fi := range P.FuncsIn("internal/impl") {
		if fi.Decl.Body == nil {
			continue
		}
		info := fi.Info()
		calls := allCalls(info, fi.Decl.Body, keys...)
		if len(calls) == 0 {
			continue
		}
		if _, isWrapper := sources[fi.Key]; isWrapper && fi.Key != lazyBufKey {
			R.Exempt(rule, fi.Key+" wrapper", P.Pos(fi.Decl), "returns the lazy buffer (or its single payload) to its callers without emitting it; every call of this helper is checked as a pass-through site")
			continue
		}
		g := fi.CFG()
		for i, call := range calls {
			dom := g.DominatedByCond(call, func(core ast.Expr, val bool) bool {
				cc, ok := core.(*ast.CallExpr)
				if !ok || !val {
					return false
				}
				k := calleeKey(info, cc)
				return k == "internal/impl.lazyFields" || k == "internal/impl.fullyLazyExtensions"
			})
			R.Check(dom, rule, fi.Key+" passthrough#"+itoa(i+1), P.Pos(call), "under lazyFields/fullyLazyExtensions", "raw lazy bytes are used without testing lazyFields(opts)/fullyLazyExtensions(opts): deterministic marshaling would emit the sender's (possibly non-canonical) encoding")
		}
	}
}

// R-LAZY-FLAG-GATE: a message may be left in lazy (undecoded) form only if no
// option of the Unmarshal call would have changed what decoding it produces.
// UnmarshalDiscardUnknown is such an option: bytes kept undecoded still contain
// the unknown fields and Size/Marshal re-emit them until the field happens to
// be accessed. CanBeLazy tolerates a fixed set of flags; DiscardUnknown must
// not be among them.
func (c *Ctx) ruleLazyFlagGate(rule string) {
	R, P := c.R, c.P
	R.Rule(rule, "unmarshalOptions.CanBeLazy tolerates only flags that do not change the decoded content (the tolerated mask contains neither UnmarshalDiscardUnknown nor UnmarshalNoLazyDecoding) and refuses lazy decoding for a non-global resolver, since the deferred decode uses the global one", 1)
	fi := c.need(rule, "internal/impl.unmarshalOptions.CanBeLazy")
	if fi == nil {
		return
	}
	info := fi.Info()
	pk := P.Pkg("runtime/protoiface")
	if pk == nil {
		R.Unk(rule, fi.Key, P.Pos(fi.Decl), "runtime/protoiface not loaded")
		return
	}
	dc, _ := pk.Types.Scope().Lookup("UnmarshalDiscardUnknown").(*types.Const)
	if dc == nil {
		R.Unk(rule, fi.Key, P.Pos(fi.Decl), "UnmarshalDiscardUnknown not found")
		return
	}
	discard, _ := constantInt64(dc.Val())
	var tolerated int64 = -1
	walk(fi.Decl.Body, func(n ast.Node) bool {
		un, ok := n.(*ast.UnaryExpr)
		if !ok || un.Op != token.XOR {
			return true
		}
		if v, ok := constInt(info, un.X); ok {
			tolerated = v
		}
		return true
	})
	// NoLazyDecoding is a flag bit: it must not be tolerated either
	noLazyBit := int64(0)
	if nc, _ := pk.Types.Scope().Lookup("UnmarshalNoLazyDecoding").(*types.Const); nc != nil {
		noLazyBit, _ = constantInt64(nc.Val())
	}
	// the deferred decode resolves extensions with the global registry: lazy only if the caller's resolver is that registry
	resolverGate := false
	walk(fi.Decl.Body, func(n ast.Node) bool {
		if is, ok := n.(*ast.IfStmt); ok {
			if be, ok := unparen(is.Cond).(*ast.BinaryExpr); ok && be.Op == token.NEQ && strings.Contains(exprStr(be), "resolver") && strings.Contains(exprStr(be), "GlobalTypes") {
				for _, st := range is.Body.List {
					if rs, ok := st.(*ast.ReturnStmt); ok && len(rs.Results) == 1 {
						if v, ok := constBool(info, rs.Results[0]); ok && !v {
							resolverGate = true
						}
					}
				}
			}
		}
		return true
	})
	switch {
	case tolerated < 0:
		R.Unk(rule, fi.Key, P.Pos(fi.Decl), "tolerated-flags mask `o.flags & ^(…) == 0` not found")
	case tolerated&discard != 0:
		R.Bad(rule, fi.Key, P.Pos(fi.Decl), "the flags tolerated for lazy decoding include UnmarshalDiscardUnknown: a lazily kept submessage retains its unknown fields, and Size/Marshal re-emit them until the field is first accessed, although the caller asked to discard them")
	case noLazyBit != 0 && tolerated&noLazyBit != 0:
		R.Bad(rule, fi.Key, P.Pos(fi.Decl), "the flags tolerated for lazy decoding include UnmarshalNoLazyDecoding: the option is ignored")
	case !resolverGate:
		R.Bad(rule, fi.Key, P.Pos(fi.Decl), "CanBeLazy does not refuse lazy decoding for a resolver other than the global registry although the deferred decode (lazyUnmarshalOptions) resolves extensions with protoregistry.GlobalTypes: extensions known only to the caller's resolver would become unknown fields when the lazy field is expanded")
	default:
		R.OK(rule, fi.Key, P.Pos(fi.Decl), "tolerated mask excludes UnmarshalDiscardUnknown and UnmarshalNoLazyDecoding; lazy only with the global resolver")
	}
}
