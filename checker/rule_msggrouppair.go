package main

import (
	"go/ast"
	"go/types"
	"strings"
)

// R-MSG-GROUP-PAIR: in the reflection-based algorithms (package proto, the
// JSON and text codecs, dynamicpb) a field holds a submessage when its Kind is
// MessageKind *or* GroupKind (proto2 groups, editions DELIMITED fields). Every
// condition or case that tests MessageKind must cover GroupKind too (or use
// the kind-agnostic fd.Message() != nil); a bare MessageKind test silently
// skips groups — required fields inside a group are not checked, a group is
// not merged/cleared/validated like a message.
func (c *Ctx) ruleMsgGroupPair(rule string, pkgs []string, floor int) {
	R, P := c.R, c.P
	R.Rule(rule, "in the reflection-based algorithms every condition or switch case that mentions protoreflect.MessageKind also covers protoreflect.GroupKind", floor)
	isKind := func(info *types.Info, n ast.Node, name string) bool {
		found := false
		walk(n, func(x ast.Node) bool {
			if id, ok := x.(*ast.Ident); ok && id.Name == name {
				if cst, ok := info.Uses[id].(*types.Const); ok && cst.Pkg() != nil && strings.HasSuffix(cst.Pkg().Path(), "/reflect/protoreflect") {
					found = true
				}
			}
			return true
		})
		return found
	}
	for _, pkg := range pkgs {
		for _, fi := range P.FuncsIn(pkg) {
			if fi.Decl.Body == nil {
				continue
			}
			info := fi.Info()
			i := 0
			report := func(n ast.Node, what string) {
				i++
				construct := fi.Key + " kind test#" + itoa(i)
				if isKind(info, n, "GroupKind") {
					R.OK(rule, construct, P.Pos(n), what+" covers both kinds")
				} else {
					R.Bad(rule, construct, P.Pos(n), what+" tests MessageKind without GroupKind: group-encoded submessages (proto2 groups, editions DELIMITED fields, group extensions) take the scalar path here — e.g. required fields inside a populated group are never checked")
				}
			}
			walkAll(fi.Decl.Body, func(n ast.Node) bool {
				switch x := n.(type) {
				case *ast.IfStmt:
					if isKind(info, x.Cond, "MessageKind") {
						report(x.Cond, "condition")
					}
				case *ast.CaseClause:
					for _, l := range x.List {
						if isKind(info, l, "MessageKind") {
							// the whole label list of the clause counts
							grp := false
							for _, l2 := range x.List {
								if isKind(info, l2, "GroupKind") {
									grp = true
								}
							}
							i++
							construct := fi.Key + " kind test#" + itoa(i)
							// a separate `case GroupKind:` clause in the same switch also covers groups
							if !grp {
								if sw, ok := c.enclosingSwitch(fi, x); ok {
									for _, s := range sw.Body.List {
										for _, l3 := range s.(*ast.CaseClause).List {
											if isKind(info, l3, "GroupKind") {
												grp = true
											}
										}
									}
								}
							}
							if grp {
								R.OK(rule, construct, P.Pos(x), "switch covers both kinds")
							} else {
								R.Bad(rule, construct, P.Pos(x), "a switch case tests MessageKind and no case of the switch covers GroupKind: group-encoded submessages fall into the default/scalar handling")
							}
							break
						}
					}
				}
				return true
			})
		}
	}
}

func (c *Ctx) enclosingSwitch(fi *FuncInfo, cc *ast.CaseClause) (*ast.SwitchStmt, bool) {
	var found *ast.SwitchStmt
	walkAll(fi.Decl.Body, func(n ast.Node) bool {
		if sw, ok := n.(*ast.SwitchStmt); ok {
			for _, s := range sw.Body.List {
				if s == ast.Stmt(cc) {
					found = sw
				}
			}
		}
		return true
	})
	return found, found != nil
}

// R-ENFORCE-UTF8-IMPL: strs.EnforceUTF8 decides whether a string field of an
// editions file is validated by asking the descriptor for an EnforceUTF8()
// method (the resolved utf8_validation feature); a descriptor type without
// that method falls through to `Syntax() == Proto3`, which is false for
// editions — the field is then never validated, whatever its feature says.
// Every concrete FieldDescriptor implementation that can describe an editions
// field must therefore implement EnforceUTF8.
func (c *Ctx) ruleEnforceUTF8Impl(rule string, floor int) {
	R, P := c.R, c.P
	R.Rule(rule, "every concrete type of the module that implements protoreflect.FieldDescriptor and can describe an editions field has an EnforceUTF8() bool method, which strs.EnforceUTF8 consults (placeholder descriptors excepted: they describe unresolved references, never a field with a value)", floor)
	fdIface := descIfaceNamed(P, "FieldDescriptor")
	if fdIface == nil || c.need(rule, "internal/strs.EnforceUTF8") == nil {
		if fdIface == nil {
			R.Unk(rule, "protoreflect.FieldDescriptor", "", "interface not found")
		}
		return
	}
	for _, pk := range P.Pkgs {
		if strings.Contains(pk.PkgPath, "/testprotos") || strings.Contains(pk.PkgPath, "/cmd/") {
			continue
		}
		scope := pk.Types.Scope()
		for _, nm := range scope.Names() {
			tn, ok := scope.Lookup(nm).(*types.TypeName)
			if !ok || tn.IsAlias() {
				continue
			}
			if _, isStruct := tn.Type().Underlying().(*types.Struct); !isStruct {
				continue
			}
			pt := types.NewPointer(tn.Type())
			if !types.Implements(pt, fdIface) && !types.Implements(tn.Type(), fdIface) {
				continue
			}
			construct := pk.PkgPath[len(modPath)+1:] + "." + nm
			if strings.HasPrefix(nm, "Placeholder") || strings.HasPrefix(nm, "placeholder") {
				R.Exempt(rule, construct, P.PosOf(tn.Pos()), "placeholder for an unresolved reference; never the descriptor of a field holding a value")
				continue
			}
			ms := types.NewMethodSet(pt)
			has := false
			for i := 0; i < ms.Len(); i++ {
				if ms.At(i).Obj().Name() == "EnforceUTF8" {
					has = true
				}
			}
			R.Check(has, rule, construct, P.PosOf(tn.Pos()), "implements EnforceUTF8()", "this FieldDescriptor implementation has no EnforceUTF8() method: for a field of an editions file strs.EnforceUTF8 falls back to `Syntax() == Proto3` and reports false, so string values described through this type are never UTF-8 validated even with utf8_validation = VERIFY")
		}
	}
}

func descIfaceNamed(P *Program, name string) *types.Interface {
	pk := P.Pkg("reflect/protoreflect")
	if pk == nil {
		return nil
	}
	tn, ok := pk.Types.Scope().Lookup(name).(*types.TypeName)
	if !ok {
		return nil
	}
	it, _ := tn.Type().Underlying().(*types.Interface)
	return it
}
