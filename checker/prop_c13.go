package main

import (
	"go/types"
	"strings"
)

var codecPkgs = []string{"proto", "internal/impl", "encoding/protojson", "encoding/prototext", "internal/encoding/json", "internal/encoding/text", "encoding/protodelim", "internal/encoding/messageset", "internal/encoding/defval", "internal/encoding/tag", "reflect/protodesc", "types/dynamicpb"}

func init() {
	register(&Property{
		ID:         "C13",
		Level:      "other",
		Technique:  "forward CFG search for dead error stores + RuneError/size conjunction rule + coder-table UTF-8 conformance (static)",
		Explain:    "Decides structural necessary conditions of C13: (1) no error produced by a codec function (in particular errInvalidUTF8 from a validating coder) is overwritten or dropped before being read; (2) every `r == utf8.RuneError` test on a DecodeRune* result is conjoined with size == 1, so valid U+FFFD is not confused with invalid UTF-8; (3) in fieldCoder UTF-8 validating coders are installed exactly where strs.EnforceUTF8(fd) holds and plain string coders of StringKind fields only where it does not; every coder literal validates UTF-8 on both the marshal and the unmarshal side or on neither; (4) every StringKind branch of the reflection codec and of prototext rejects invalid UTF-8 under strs.EnforceUTF8(fd). Also decided: the reflection decoder skips a record only on `err == errUnknown` and returns every other field-decoder error (so an InvalidUTF8 error in a map key or value is not swallowed); the errors of the JSON writer's WriteString/WriteName (which carry the UTF-8 verdict for values and map keys) are never dropped in protojson outside the reviewed table. Also: in the wire validator's map table the key validation type is decided from fd.MapKey() and the value type from fd.MapValue(); the UTF-8 validity test appears only in case clauses labelled StringKind (never shared with BytesKind).",
		NotCovered: "the validator's per-field validation types (validate.go) and map key/value coders of encoderFuncsForValue; protojson's string path (the JSON tokenizer rejects invalid UTF-8 unconditionally, C21); that utf8.Valid is the right predicate (trusted std); acceptance of all valid UTF-8 on concrete values.",
		Quick:      all("./proto", "./internal/impl", "./encoding/protojson", "./encoding/prototext", "./types/dynamicpb"),
		Thorough:   allAndLegacy("./proto", "./internal/impl", "./encoding/protojson", "./encoding/prototext", "./types/dynamicpb"),
		Run: func(c *Ctx) {
			c.ruleValidateMapKeyVal("R-VALIDATE-MAP-KEYVAL")
			c.ruleUTF8StringOnly("R-UTF8-STRING-ONLY", []string{"encoding/prototext", "encoding/protojson", "proto"}, 3)
			c.ruleErrDeadStore("R-ERR-DEAD-STORE", codecPkgs, nil, 100)
			c.ruleCoderRow("R-CODER-ROW", 100)
			c.ruleCoderSelect("R-CODER-SELECT", 60)
			c.ruleUTF8Slow("R-UTF8-SLOW", 3)
			c.ruleReflErrSkip("R-REFL-ERR-SKIP", 3)
			c.ruleEnforceUTF8Impl("R-ENFORCE-UTF8-IMPL", 3)
			// the JSON writer validates UTF-8 in WriteString/WriteName: their errors must reach the caller
			c.ruleErrDrop("R-ERR-DROP", []string{"encoding/protojson"},
				func(key string, f *types.Func) bool {
					return key == "internal/encoding/json.(*Encoder).WriteString" || key == "internal/encoding/json.(*Encoder).WriteName" || strings.HasPrefix(key, "encoding/protojson.encoder.")
				}, jsonWriteDropOK, 10)
			c.ruleRuneErrorSize("R-RUNEERROR-SIZE", []string{"internal/encoding/json", "internal/encoding/text", "internal/strs", "encoding/protojson", "encoding/prototext"}, 4)
		},
	})
}
