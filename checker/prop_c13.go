package main

var codecPkgs = []string{"proto", "internal/impl", "encoding/protojson", "encoding/prototext", "internal/encoding/json", "internal/encoding/text", "encoding/protodelim", "internal/encoding/messageset", "internal/encoding/defval", "internal/encoding/tag", "reflect/protodesc", "types/dynamicpb"}

func init() {
	register(&Property{
		ID:         "C13",
		Level:      "other",
		Technique:  "forward CFG search for dead error stores + RuneError/size conjunction rule + coder-table UTF-8 conformance (static)",
		Explain:    "Decides structural necessary conditions of C13: (1) no error produced by a codec function (in particular errInvalidUTF8 from a validating coder) is overwritten or dropped before being read; (2) every `r == utf8.RuneError` test on a DecodeRune* result is conjoined with size == 1, so valid U+FFFD is not confused with invalid UTF-8; (3) coder selection and validation-type selection use strs.EnforceUTF8 consistently and every ValidateUTF8 coder tests validity on both the append and the consume side.",
		NotCovered: "that utf8.Valid is the right predicate (trusted std); acceptance of all valid UTF-8 on concrete values.",
		Quick:      all("./proto", "./internal/impl", "./encoding/protojson", "./encoding/prototext"),
		Thorough:   all("./..."),
		Run: func(c *Ctx) {
			c.ruleErrDeadStore("R-ERR-DEAD-STORE", codecPkgs, nil, 100)
			c.ruleRuneErrorSize("R-RUNEERROR-SIZE", []string{"internal/encoding/json", "internal/encoding/text", "internal/strs", "encoding/protojson", "encoding/prototext"}, 4)
		},
	})
}
