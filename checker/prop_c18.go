package main

import (
	"go/ast"
	"go/token"
	"go/types"
	"strings"
)

func init() {
	register(&Property{
		ID:         "C18",
		Level:      "other",
		Technique:  "atomic-only access discipline on lazily published locations (runtime and all generated lazy getters), publish-by-CAS of a freshly built object, atomic index publication (static)",
		Explain:    "Decides structural necessary conditions of race-free concurrent readers of a lazily decoded message: (1) wherever the fast-path code tests whether a lazy field is still undecoded (conditions conjoined with f.isLazy) the field's pointer slot is read atomically; (2) lazyUnmarshal decodes into a fresh object and publishes it into the message only with the compare-and-swap AtomicSetPointerIfNil, after all decoding, and never stores into the message otherwise (so all readers load the single winning instance); (3) the lazy index pointer of protolazy is read and written only through atomicLoadIndex/atomicStoreIndex and a loaded (published) index is never sorted or written in place; lazyUnmarshal never returns its private decoded object (readers re-load the winner); (4) every generated getter of a lazy field (identified by its UnmarshalField call) follows Present → AtomicCheckPointerIsNil → UnmarshalField → AtomicLoadPointer and no generated read-only method reads such a hidden field directly; (5) the runtime helpers behind those calls (Export.AtomicCheckPointerIsNil/AtomicLoadPointer/AtomicSetPointerIfNil, pointer.Atomic*) are implemented with sync/atomic operations only.",
		NotCovered: "races on non-lazy state, presence-bit word updates by writers, the race-detector shadow hooks (-race build), equality of concurrent and sequential results on values; memory-model subtleties beyond all accesses being atomic.",
		Quick:      all("./internal/impl", "./internal/protolazy", "./internal/testprotos/lazy/...", "./internal/testprotos/testeditions/testeditions_opaque", "./internal/testprotos/mixed"),
		Thorough:   all("./..."),
		Run: func(c *Ctx) {
			c.ruleLazyAtomic("R-LAZY-ATOMIC")
			c.ruleGenLazyGetter("R-GEN-LAZY-GETTER", 1)
		},
	})
}

// atomicRecv: the receiver of an IsNil() call was obtained by an Atomic*
// accessor, directly or through a local variable all of whose definitions are
// Atomic* accessor calls.
func atomicRecv(info *types.Info, body ast.Node, recv ast.Expr) bool {
	recv = unparen(recv)
	if rc, ok := recv.(*ast.CallExpr); ok {
		return strings.HasPrefix(calleeKey(info, rc), "internal/impl.pointer.Atomic")
	}
	id, ok := recv.(*ast.Ident)
	if !ok {
		return false
	}
	defs := localDefs(body, info)[objOf(info, id)]
	n := 0
	inLoop := insideLoop(body, id)
	for _, d := range defs {
		if d.rhs.Pos() > id.Pos() && !inLoop {
			continue // assigned after the test and the test is not in a loop: cannot reach it
		}
		n++
		rc, ok := unparen(d.rhs).(*ast.CallExpr)
		if !ok || !strings.HasPrefix(calleeKey(info, rc), "internal/impl.pointer.Atomic") {
			return false
		}
	}
	return n > 0
}

func (c *Ctx) ruleLazyAtomic(rule string) {
	R, P := c.R, c.P
	R.Rule(rule, "runtime side of lazy fields: undecoded-tests conjoined with f.isLazy read the slot atomically; lazyUnmarshal publishes only by AtomicSetPointerIfNil after decoding into a fresh object; the protolazy index is accessed only through its atomic helpers; the Atomic* helpers use sync/atomic", 12)
	// (1) every pointer.IsNil() test made where f.isLazy is known to hold (same
	// condition or a dominating edge) reads the slot atomically; every
	// lazyUnmarshal call of the fast path is made under such an atomic nil test
	n1 := 0
	for _, fi := range P.FuncsIn("internal/impl") {
		if fi.Decl.Body == nil {
			continue
		}
		info := fi.Info()
		isLazyAtom := func(core ast.Expr, val bool) bool {
			_, f, ok := fieldSel(info, core)
			return ok && f == "isLazy" && val
		}
		var g *FCFG
		walk(fi.Decl.Body, func(x ast.Node) bool {
			is, ok := x.(*ast.IfStmt)
			if !ok {
				return true
			}
			var atoms []atomVal
			impliedAtoms(is.Cond, true, &atoms)
			same := false
			for _, a := range atoms {
				if isLazyAtom(a.E, a.Val) {
					same = true
				}
			}
			for _, a := range atoms {
				call, ok := unparen(a.E).(*ast.CallExpr)
				if !ok || calleeKey(info, call) != "internal/impl.pointer.IsNil" {
					continue
				}
				if g == nil {
					g = fi.CFG()
				}
				if !same && !g.DominatedByCond(is.Cond, isLazyAtom) {
					continue
				}
				n1++
				atomic := atomicRecv(info, fi.Decl.Body, call.Fun.(*ast.SelectorExpr).X)
				R.Check(atomic, rule, fi.Key+" undecoded-test #"+itoa(n1), P.Pos(call), "slot read with an Atomic* accessor", "a lazy field's pointer slot is tested with a plain read while another reader may be publishing the decoded submessage: data race")
			}
			return true
		})
		for i, lc := range allCalls(info, fi.Decl.Body, "internal/impl.(*MessageInfo).lazyUnmarshal") {
			if fi.Key == "internal/impl.UnmarshalField" {
				continue // entry used by generated getters, which perform the atomic test themselves (R-GEN-LAZY-GETTER)
			}
			if g == nil {
				g = fi.CFG()
			}
			site := ast.Node(lc)
			if _, ok := g.posOf(site); !ok {
				continue // inside an accessor closure: checked with that closure's own condition below
			}
			ok := g.DominatedByCond(site, func(core ast.Expr, val bool) bool {
				call, isCall := unparen(core).(*ast.CallExpr)
				if !isCall || !val || calleeKey(info, call) != "internal/impl.pointer.IsNil" {
					return false
				}
				return atomicRecv(info, fi.Decl.Body, call.Fun.(*ast.SelectorExpr).X)
			})
			R.Check(ok, rule, fi.Key+" lazyUnmarshal #"+itoa(i+1), P.Pos(lc), "under an atomic nil test of the slot", "lazyUnmarshal is invoked without first testing the slot atomically: an already decoded field is decoded again (wasted work and a second instance before the CAS loses)")
		}
	}
	// accessor closures (opaque reflection) that decode lazily
	for _, fi := range P.FuncsIn("internal/impl") {
		if fi.Decl.Body == nil {
			continue
		}
		info := fi.Info()
		for _, br := range bodiesOf(fi) {
			if br.Lit == nil {
				continue
			}
			calls := allCalls(info, br.Body, "internal/impl.(*MessageInfo).lazyUnmarshal")
			if len(calls) == 0 {
				continue
			}
			g := newCFG(br.Body, info)
			for i, lc := range calls {
				ok := g.DominatedByCond(lc, func(core ast.Expr, val bool) bool {
					call, isCall := unparen(core).(*ast.CallExpr)
					if !isCall || !val || calleeKey(info, call) != "internal/impl.pointer.IsNil" {
						return false
					}
					return atomicRecv(info, br.Body, call.Fun.(*ast.SelectorExpr).X)
				})
				R.Check(ok, rule, br.Name+" lazyUnmarshal #"+itoa(i+1), P.Pos(lc), "under an atomic nil test of the slot", "a reflection accessor decodes a lazy field without first testing the slot atomically")
			}
		}
	}
	if n1 < 5 {
		R.Unk(rule, "undecoded tests", "", "fewer than 5 atomic undecoded-tests of lazy fields found: idiom drifted")
	}
	// (2) lazyUnmarshal
	if fi := c.need(rule, "internal/impl.(*MessageInfo).lazyUnmarshal"); fi != nil {
		info := fi.Info()
		g := fi.CFG()
		var pObj types.Object
		for _, f := range fi.Decl.Type.Params.List {
			for _, nm := range f.Names {
				if namedTypeName(info.TypeOf(f.Type)) == "internal/impl.pointer" {
					pObj = info.Defs[nm]
				}
			}
		}
		var cas []*ast.CallExpr
		badStore := ""
		walkAll(fi.Decl.Body, func(x ast.Node) bool {
			call, ok := x.(*ast.CallExpr)
			if !ok {
				return true
			}
			k := calleeKey(info, call)
			if !strings.HasPrefix(k, "internal/impl.pointer.") {
				return true
			}
			se := call.Fun.(*ast.SelectorExpr)
			if rid := rootIdentThroughCalls(se.X); rid == nil || objOf(info, rid) != pObj {
				return true
			}
			name := strings.TrimPrefix(k, "internal/impl.pointer.")
			switch {
			case name == "AtomicSetPointerIfNil":
				cas = append(cas, call)
			case strings.HasPrefix(name, "Set") || strings.HasPrefix(name, "AtomicSet") || strings.HasPrefix(name, "Append"):
				badStore = P.Pos(call) + " " + name
			}
			return true
		})
		// plain stores through *p.…() = …
		walkAll(fi.Decl.Body, func(x ast.Node) bool {
			if as, ok := x.(*ast.AssignStmt); ok {
				for _, l := range as.Lhs {
					if st, ok := unparen(l).(*ast.StarExpr); ok {
						if rid := rootIdentThroughCalls(st.X); rid != nil && objOf(info, rid) == pObj {
							badStore = P.Pos(as) + " plain store"
						}
					}
				}
			}
			return true
		})
		R.Check(len(cas) == 1 && badStore == "", rule, fi.Key+" publish", P.Pos(fi.Decl), "the message is written only by one AtomicSetPointerIfNil", "lazyUnmarshal writes into the shared message other than by a single compare-and-swap ("+badStore+"): concurrent readers can observe different instances or a torn pointer")
		if len(cas) == 1 {
			// fresh object: CAS argument derives from a variable defined by pointerOfValue(reflect.New(..))
			defs := localDefs(fi.Decl.Body, info)
			fresh := false
			var fpObj types.Object
			derived := map[types.Object]bool{} // locals that denote (part of) the freshly allocated object
			if len(cas[0].Args) == 1 {
				rid := rootIdentThroughCalls(cas[0].Args[0])
				for depth := 0; rid != nil && depth < 4; depth++ {
					o := objOf(info, rid)
					derived[o] = true
					ds := defs[o]
					if len(ds) != 1 {
						break
					}
					if containsCall(info, ds[0].rhs, "reflect.New") != nil {
						fresh = true
						fpObj = o
						break
					}
					rid = rootIdentThroughCalls(ds[0].rhs)
				}
			}
			// the private copy must not be handed to callers: only the published (winning) pointer may be used,
			// and that is obtained by an atomic re-load
			leak := ""
			walk(fi.Decl.Body, func(x ast.Node) bool {
				if rs, ok := x.(*ast.ReturnStmt); ok {
					for _, r := range rs.Results {
						if rid := rootIdentThroughCalls(r); rid != nil && derived[objOf(info, rid)] {
							leak = P.Pos(rs)
						}
					}
				}
				return true
			})
			R.Check(leak == "", rule, fi.Key+" no private copy escapes", P.Pos(fi.Decl), "the locally decoded object is never returned", "lazyUnmarshal returns its own decoded object at "+leak+": a reader that lost the compare-and-swap would use an unpublished private copy instead of the shared instance")
			R.Check(fresh, rule, fi.Key+" fresh object", P.Pos(cas[0]), "publishes an object allocated in this call", "the published pointer is not a freshly allocated object: two readers decoding concurrently would write the same memory")
			// decode calls target the fresh object and precede the CAS
			sp, _ := g.posOf(cas[0])
			after, _ := g.Forward(cfgPos{sp.B, sp.I + 1}, Search{Target: func(x ast.Node) bool {
				return containsCall(info, x, "internal/impl.(*MessageInfo).unmarshalField") != nil
			}})
			intoFresh := true
			for _, uc := range allCalls(info, fi.Decl.Body, "internal/impl.(*MessageInfo).unmarshalField") {
				if len(uc.Args) < 2 || objOf(info, uc.Args[1]) != fpObj {
					intoFresh = false
				}
			}
			R.Check(!after && intoFresh, rule, fi.Key+" decode-then-publish", P.Pos(cas[0]), "all decoding targets the fresh object and precedes the publication", "decoding continues after (or outside) the fresh object was published: readers can see a partially decoded submessage")
		}
	}
	// (3) protolazy index
	if P.Pkg("internal/protolazy") != nil {
		k := 0
		for _, fi := range P.FuncsIn("internal/protolazy") {
			if fi.Decl.Body == nil {
				continue
			}
			info := fi.Info()
			var stack []ast.Node
			ast.Inspect(fi.Decl.Body, func(x ast.Node) bool {
				if x == nil {
					stack = stack[:len(stack)-1]
					return false
				}
				stack = append(stack, x)
				se, ok := x.(*ast.SelectorExpr)
				if !ok || se.Sel.Name != "index" {
					return true
				}
				if v, ok := info.Uses[se.Sel].(*types.Var); !ok || !v.IsField() {
					return true
				}
				k++
				good := false
				if len(stack) >= 3 {
					if ue, ok := stack[len(stack)-2].(*ast.UnaryExpr); ok && ue.Op == token.AND {
						if call, ok := stack[len(stack)-3].(*ast.CallExpr); ok {
							ck := calleeKey(info, call)
							good = ck == "internal/protolazy.atomicLoadIndex" || ck == "internal/protolazy.atomicStoreIndex"
						}
					}
				}
				R.Check(good, rule, fi.Key+" index access #"+itoa(k), P.Pos(se), "through atomicLoadIndex/atomicStoreIndex", "the lazily built field index is accessed without the atomic helpers: concurrent readers race on building it")
				return true
			})
		}
		if k == 0 {
			R.Unk(rule, "protolazy index", "", "no access to the lazy index found")
		}
		// readers never modify a published index in place
		for _, fi := range P.FuncsIn("internal/protolazy") {
			if fi.Decl.Body == nil || containsCall(fi.Info(), fi.Decl.Body, "internal/protolazy.atomicLoadIndex") == nil {
				continue
			}
			info := fi.Info()
			defs := localDefs(fi.Decl.Body, info)
			loaded := map[types.Object]bool{}
			for o, ds := range defs {
				for _, d := range ds {
					if containsCall(info, d.rhs, "internal/protolazy.atomicLoadIndex") != nil {
						loaded[o] = true
					}
				}
			}
			// one more hop: x := *index / entries := (*index)[…]
			for o, ds := range defs {
				for _, d := range ds {
					if rid := rootIdentThroughCalls(d.rhs); rid != nil && loaded[objOf(info, rid)] {
						if _, isSlice := o.Type().Underlying().(*types.Slice); isSlice {
							loaded[o] = true
						}
					}
				}
			}
			bad := ""
			walkAll(fi.Decl.Body, func(x ast.Node) bool {
				switch v := x.(type) {
				case *ast.CallExpr:
					if f := calleeFunc(info, v); f != nil && f.Pkg() != nil && (f.Pkg().Path() == "sort" || f.Pkg().Path() == "slices") && len(v.Args) > 0 {
						if rid := rootIdentThroughCalls(v.Args[0]); rid != nil && loaded[objOf(info, rid)] {
							bad = P.Pos(v) + " (in-place sort)"
						}
					}
					// a helper that sorts or writes its slice parameter
					if cf := P.Func(calleeKey(info, v)); cf != nil && cf.Decl.Body != nil && cf != fi {
						for ai, a := range v.Args {
							rid := rootIdentThroughCalls(a)
							if rid == nil || !loaded[objOf(info, rid)] {
								continue
							}
							if c.paramMutated(cf, ai) {
								bad = P.Pos(v) + " (" + cf.Obj.Name() + " modifies its argument in place)"
							}
						}
					}
				case *ast.AssignStmt:
					for _, l := range v.Lhs {
						if _, isIdent := unparen(l).(*ast.Ident); isIdent {
							continue
						}
						if rid := rootIdentThroughCalls(l); rid != nil && loaded[objOf(info, rid)] {
							bad = P.Pos(v) + " (element write)"
						}
					}
				}
				return true
			})
			R.Check(bad == "", rule, fi.Key+" published index immutable", P.Pos(fi.Decl), "a loaded index is only read", "a published lazy index is modified in place at "+bad+": concurrent readers scan it while it changes")
		}
		for _, key := range []string{"internal/protolazy.atomicLoadIndex", "internal/protolazy.atomicStoreIndex"} {
			if fi := c.need(rule, key); fi != nil {
				R.Check(containsCall(fi.Info(), fi.Decl.Body, "sync/atomic.LoadPointer", "sync/atomic.StorePointer") != nil, rule, key, P.Pos(fi.Decl), "sync/atomic", "helper does not use sync/atomic")
			}
		}
	}
	// (5) helpers
	for _, e := range []struct {
		key string
		ops []string
	}{
		{"internal/impl.pointer.AtomicGetPointer", []string{"sync/atomic.LoadPointer"}},
		{"internal/impl.pointer.AtomicSetPointerIfNil", []string{"sync/atomic.CompareAndSwapPointer"}},
		{"internal/impl.Export.AtomicCheckPointerIsNil", []string{"sync/atomic.LoadPointer"}},
		{"internal/impl.Export.AtomicLoadPointer", []string{"sync/atomic.LoadPointer"}},
		{"internal/impl.Export.AtomicSetPointer", []string{"sync/atomic.StorePointer"}},
		{"internal/impl.Export.AtomicInitializePointer", []string{"sync/atomic.CompareAndSwapPointer"}},
	} {
		fi := c.need(rule, e.key)
		if fi == nil {
			continue
		}
		has := c.usesOpWithin(fi, e.ops, 2)
		R.Check(has, rule, e.key, P.Pos(fi.Decl), "implemented with "+strings.Join(e.ops, "/"), "the atomic helper is not implemented with "+strings.Join(e.ops, "/"))
	}
	if fi := c.need(rule, "internal/impl.pointer.AtomicSetPointerIfNil"); fi != nil {
		// on CAS failure the loaded (winning) pointer is returned, not the argument
		info := fi.Info()
		R.Check(containsCall(info, fi.Decl.Body, "sync/atomic.LoadPointer") != nil, rule, fi.Key+" loser reloads", P.Pos(fi.Decl), "reloads the winner after a failed CAS", "after losing the CAS the caller is not given the winning pointer: readers would use different instances")
	}
}

// usesOpWithin: fi's body, or a same-package function it calls (to the given
// depth), contains a call to one of ops.
func (c *Ctx) usesOpWithin(fi *FuncInfo, ops []string, depth int) bool {
	info := fi.Info()
	if containsCall(info, fi.Decl.Body, ops...) != nil {
		return true
	}
	if depth == 0 {
		return false
	}
	found := false
	walk(fi.Decl.Body, func(n ast.Node) bool {
		if call, ok := n.(*ast.CallExpr); ok && !found {
			if k := calleeKey(info, call); strings.HasPrefix(k, "internal/impl.") {
				if cf := c.P.Func(k); cf != nil && cf.Decl.Body != nil && cf != fi && c.usesOpWithin(cf, ops, depth-1) {
					found = true
				}
			}
		}
		return true
	})
	return found
}

func rootIdentThroughCalls(e ast.Expr) *ast.Ident {
	for {
		switch x := unparen(e).(type) {
		case *ast.Ident:
			return x
		case *ast.SelectorExpr:
			e = x.X
		case *ast.CallExpr:
			e = x.Fun
		case *ast.StarExpr:
			e = x.X
		case *ast.IndexExpr:
			e = x.X
		default:
			return nil
		}
	}
}

func (c *Ctx) ruleGenLazyGetter(rule string, floor int) {
	R, P := c.R, c.P
	R.Rule(rule, "every generated getter that calls protoimpl.X.UnmarshalField does so only under Present(…) and AtomicCheckPointerIsNil(&x.F), returns a value loaded by AtomicLoadPointer(&x.F) after it, and no generated Get*/Has* method reads such a field F other than by passing &x.F to a protoimpl.X.Atomic* helper", floor)
	isX := func(info *types.Info, call *ast.CallExpr, name string) bool {
		se, ok := call.Fun.(*ast.SelectorExpr)
		if !ok || se.Sel.Name != name {
			return false
		}
		return strings.HasSuffix(calleeKey(info, call), "internal/impl.Export."+name)
	}
	for _, pk := range P.Pkgs {
		for _, f := range pk.Syntax {
			fn := P.Fset.Position(f.Pos()).Filename
			if !strings.HasSuffix(fn, ".pb.go") {
				continue
			}
			info := pk.TypesInfo
			lazyFields := map[types.Object]bool{}
			// pass 1: lazy getters
			for _, d := range f.Decls {
				fd, ok := d.(*ast.FuncDecl)
				if !ok || fd.Body == nil || fd.Recv == nil {
					continue
				}
				var um *ast.CallExpr
				walk(fd.Body, func(x ast.Node) bool {
					if call, ok := x.(*ast.CallExpr); ok && isX(info, call, "UnmarshalField") {
						um = call
					}
					return true
				})
				if um == nil {
					continue
				}
				obj, _ := info.Defs[fd.Name].(*types.Func)
				key := funcKey(obj)
				g := newCFG(fd.Body, info)
				var field types.Object
				present := g.DominatedByCond(um, func(core ast.Expr, val bool) bool {
					call, ok := unparen(core).(*ast.CallExpr)
					return ok && val && isX(info, call, "Present")
				})
				checked := g.DominatedByCond(um, func(core ast.Expr, val bool) bool {
					call, ok := unparen(core).(*ast.CallExpr)
					if !ok || !val || !isX(info, call, "AtomicCheckPointerIsNil") || len(call.Args) != 1 {
						return false
					}
					if ue, ok := unparen(call.Args[0]).(*ast.UnaryExpr); ok && ue.Op == token.AND {
						if se, ok := unparen(ue.X).(*ast.SelectorExpr); ok {
							field = info.Uses[se.Sel]
						}
					}
					return true
				})
				loads := 0
				walk(fd.Body, func(x ast.Node) bool {
					if call, ok := x.(*ast.CallExpr); ok && isX(info, call, "AtomicLoadPointer") && field != nil && usesObj(info, call, field) {
						loads++
					}
					return true
				})
				if field != nil {
					lazyFields[field] = true
				}
				switch {
				case !present:
					R.Bad(rule, key, P.Pos(um), "UnmarshalField is reached without the Present test: an absent lazy field would be decoded from a missing index entry (panic)")
				case !checked || field == nil:
					R.Bad(rule, key, P.Pos(um), "UnmarshalField is not guarded by AtomicCheckPointerIsNil on the hidden field: every call re-decodes, and the slot is read non-atomically")
				case loads == 0:
					R.Bad(rule, key, P.Pos(fd), "the getter does not load the published pointer with AtomicLoadPointer: readers race with the publisher")
				default:
					R.OK(rule, key, P.Pos(fd), "Present → AtomicCheckPointerIsNil → UnmarshalField → AtomicLoadPointer")
				}
			}
			if len(lazyFields) == 0 {
				continue
			}
			// pass 2: no direct reads of lazy hidden fields in Get*/Has*
			for _, d := range f.Decls {
				fd, ok := d.(*ast.FuncDecl)
				if !ok || fd.Body == nil || fd.Recv == nil || !(strings.HasPrefix(fd.Name.Name, "Get") || strings.HasPrefix(fd.Name.Name, "Has")) {
					continue
				}
				var stack []ast.Node
				bad := ""
				ast.Inspect(fd.Body, func(x ast.Node) bool {
					if x == nil {
						stack = stack[:len(stack)-1]
						return false
					}
					stack = append(stack, x)
					se, ok := x.(*ast.SelectorExpr)
					if !ok || !lazyFields[info.Uses[se.Sel]] {
						return true
					}
					okUse := false
					if len(stack) >= 3 {
						if ue, ok := stack[len(stack)-2].(*ast.UnaryExpr); ok && ue.Op == token.AND {
							for i := len(stack) - 3; i >= 0 && i >= len(stack)-5; i-- {
								if call, ok := stack[i].(*ast.CallExpr); ok {
									if s2, ok := call.Fun.(*ast.SelectorExpr); ok && strings.HasPrefix(s2.Sel.Name, "Atomic") {
										okUse = true
									}
								}
							}
						}
					}
					if !okUse {
						bad = P.Pos(se)
					}
					return true
				})
				if bad != "" {
					obj, _ := info.Defs[fd.Name].(*types.Func)
					R.Bad(rule, funcKey(obj)+" direct read", bad, "a read-only generated method reads a lazy field's hidden pointer directly at "+bad+" instead of through the atomic helpers")
				}
			}
		}
	}
}

// paramMutated: the function sorts, or assigns to elements of, its i-th parameter.
func (c *Ctx) paramMutated(fi *FuncInfo, idx int) bool {
	info := fi.Info()
	var po types.Object
	i := 0
	for _, f := range fi.Decl.Type.Params.List {
		for _, nm := range f.Names {
			if i == idx {
				po = info.Defs[nm]
			}
			i++
		}
	}
	if po == nil {
		return false
	}
	mut := false
	walkAll(fi.Decl.Body, func(x ast.Node) bool {
		switch v := x.(type) {
		case *ast.CallExpr:
			if f := calleeFunc(info, v); f != nil && f.Pkg() != nil && (f.Pkg().Path() == "sort" || f.Pkg().Path() == "slices") && len(v.Args) > 0 {
				if rid := rootIdentThroughCalls(v.Args[0]); rid != nil && objOf(info, rid) == po {
					mut = true
				}
			}
		case *ast.AssignStmt:
			for _, l := range v.Lhs {
				if _, isIdent := unparen(l).(*ast.Ident); isIdent {
					continue
				}
				if rid := rootIdentThroughCalls(l); rid != nil && objOf(info, rid) == po {
					mut = true
				}
			}
		}
		return true
	})
	return mut
}
