package main

import (
	"go/ast"
	"go/token"
	"go/types"
	"strings"
)

func init() {
	register(&Property{
		ID:         "C07",
		Level:      "other",
		Technique:  "effect-class rule over every merge function wired into a coder literal (overwrite / overwrite-if-set / copy-on-merge / append), accessor agreement with the codec siblings, shape rule over the reflection merge (static)",
		Explain:    "Decides structural necessary conditions of `Merge equals concatenated decoding`: (1) in every coder literal the merge function uses the same Go accessor as the marshal/unmarshal functions and has the effect class of the field's cardinality, matching what decoding a second occurrence does: repeated coders append to the destination (never overwrite), singular coders assign through the destination accessor, zero-skipping coders assign exactly for the values their append sibling encodes (zero test including the sign of -0.0), byte strings are copied (never shared with the source), pointer scalars are copied into a fresh variable; (2) the reflection merge appends list elements, upserts map entries, merges singular messages into the existing (Mutable) submessage, clones byte strings, and appends the source's unknown fields after the destination's; the fast-path mergePointer appends unknown fields the same way; (3) the oneof merge replaces the destination's wrapper unless it holds the identical member; (4) decoded and merged map entries replace existing entries (values are built with NewValue and Set, never obtained with Mutable). Also decided: the merge slot of every value coder (extensions, map values) has the effect class of the value it encodes (R-VALUE-MERGE-CLASS); the reflection merge tests a single descriptor per copy decision, the map value descriptor for map values (R-MERGE-DESC); singular message coders decode a repeated occurrence into the existing child (R-SINGULAR-MSG-REUSE). The fast-path merge loop is evaluated for every field state (R-MERGE-LOOP): a populated source field is merged, lazy operands are decoded first on both sides. Also: the reflective decoder's decode targets come from Message.Mutable (merge), List.NewElement or Map.NewValue, never from NewField+Set (replace).",
		NotCovered: "the three-way equivalence on values (Merge vs. decode of concatenation vs. UnmarshalOptions{Merge}); extension merging through lazily decoded values.",
		Quick:      all("./internal/impl", "./proto", "./encoding/protojson", "./encoding/prototext"),
		Thorough:   allAndLegacy("./internal/impl", "./proto", "./encoding/protojson", "./encoding/prototext"),
		Run: func(c *Ctx) {
			c.ruleNestedMerge("R-NESTED-MERGE")
			c.ruleMergeLoop("R-MERGE-LOOP")
			c.ruleMergeClass("R-MERGE-CLASS", 60)
			c.ruleValueMergeClass("R-VALUE-MERGE-CLASS", 30)
			c.ruleMergeDesc("R-MERGE-DESC")
			c.ruleMergeReflect("R-MERGE-REFLECT")
			c.ruleOneofMerge("R-ONEOF-MERGE")
			c.ruleReflMsgMerge("R-REFL-MSG-MERGE", 5)
			c.ruleMapReplace("R-MAP-REPLACE")
			c.ruleSingularMsgReuse("R-SINGULAR-MSG-REUSE", 4)
		},
	})
}

func (c *Ctx) ruleMergeClass(rule string, floor int) {
	R, P := c.R, c.P
	R.Rule(rule, "for every coder literal with named marshal and merge functions: repeated coders' merge appends to the destination; singular coders' merge assigns through the destination accessor; zero-skipping coders assign only under a test of the source value; Bytes/BytesSlice accessors are written only with freshly copied bytes (append(emptyBuf[:], …)); pointer-scalar coders store the address of a fresh local copy", floor)
	pk := P.Pkg("internal/impl")
	if pk == nil {
		return
	}
	info := pk.TypesInfo
	for _, f := range pk.Syntax {
		ast.Inspect(f, func(x ast.Node) bool {
			cl, ok := x.(*ast.CompositeLit)
			if !ok || namedTypeName(info.TypeOf(cl)) != "internal/impl.pointerCoderFuncs" {
				return true
			}
			slots := map[string]ast.Expr{}
			for _, el := range cl.Elts {
				if kv, ok := el.(*ast.KeyValueExpr); ok {
					if id, ok := kv.Key.(*ast.Ident); ok {
						slots[id.Name] = kv.Value
					}
				}
			}
			fo, ok1 := objOf(info, slots["marshal"]).(*types.Func)
			mo, ok2 := objOf(info, slots["merge"]).(*types.Func)
			if !ok1 || !ok2 {
				return true
			}
			fm, fg := P.Func(funcKey(fo)), P.Func(funcKey(mo))
			if fm == nil || fg == nil || fm.Decl.Body == nil || fg.Decl.Body == nil {
				return true
			}
			w := c.wireSummary(fm, true)
			if w.problem != "" {
				return true
			}
			facts := c.coderFacts(fm)
			isMsg := false
			for _, op := range w.ops {
				if strings.Contains(op, "N(") {
					isMsg = true
				}
			}
			if isMsg {
				return true // message coders: recursive merge, checked by shape in R-MERGE-REFLECT / accessor rule
			}
			repeated, noZero := false, false
			for _, op := range w.ops {
				if strings.HasPrefix(op, "range ") || strings.HasPrefix(op, "VL[range ") {
					repeated = true
				}
			}
			for _, g := range w.guards {
				if !repeated {
					noZero = true
				}
				_ = g
			}
			isPtr, isBytes := false, false
			for a := range facts.accessors {
				if strings.HasSuffix(a, "Ptr") {
					isPtr = true
				}
				if a == "Bytes" || a == "BytesSlice" {
					isBytes = true
				}
			}
			ginfo := fg.Info()
			var dstObj, srcObj types.Object
			i := 0
			for _, fl := range fg.Decl.Type.Params.List {
				for _, nm := range fl.Names {
					if i == 0 {
						dstObj = ginfo.Defs[nm]
					} else if i == 1 {
						srcObj = ginfo.Defs[nm]
					}
					i++
				}
			}
			defs := localDefs(fg.Decl.Body, ginfo)
			rootsAt := func(e ast.Expr, target types.Object) bool {
				id := rootIdentThroughCalls(e)
				for depth := 0; id != nil && depth < 4; depth++ {
					o := objOf(ginfo, id)
					if o == target {
						return true
					}
					ds := defs[o]
					if len(ds) != 1 {
						return false
					}
					id = rootIdentThroughCalls(ds[0].rhs)
				}
				return false
			}
			var dstAssigns []*ast.AssignStmt
			walkAll(fg.Decl.Body, func(y ast.Node) bool {
				if as, ok := y.(*ast.AssignStmt); ok && as.Tok == token.ASSIGN {
					for _, l := range as.Lhs {
						if _, isStar := unparen(l).(*ast.StarExpr); isStar && rootsAt(l, dstObj) {
							dstAssigns = append(dstAssigns, as)
						}
					}
				}
				return true
			})
			construct := "coder{" + fm.Obj.Name() + "}.merge=" + fg.Obj.Name()
			var bad []string
			if len(dstAssigns) == 0 {
				bad = append(bad, "the merge function never assigns through the destination accessor")
			}
			isAppendTo := func(rhs ast.Expr, target types.Object) bool {
				call, ok := unparen(rhs).(*ast.CallExpr)
				if !ok || len(call.Args) == 0 {
					return false
				}
				id, ok := call.Fun.(*ast.Ident)
				return ok && id.Name == "append" && rootsAt(call.Args[0], target)
			}
			isFreshBytes := func(rhs ast.Expr) bool {
				call, ok := unparen(rhs).(*ast.CallExpr)
				if !ok || len(call.Args) == 0 {
					return false
				}
				id, ok := call.Fun.(*ast.Ident)
				if !ok || id.Name != "append" {
					return false
				}
				s := exprStr(unparen(call.Args[0]))
				return strings.HasPrefix(s, "emptyBuf[") || s == "[]byte{}" || s == "[]byte(nil)" || s == "([]byte)(nil)"
			}
			g := fg.CFG()
			for _, as := range dstAssigns {
				rhs := as.Rhs[0]
				switch {
				case repeated:
					if !isAppendTo(rhs, dstObj) {
						bad = append(bad, "a repeated field is merged by assignment instead of appending to the destination: the destination's elements are lost")
					}
					if isBytes {
						// the appended element(s) must be fresh copies
						call := unparen(rhs).(*ast.CallExpr)
						for _, a := range call.Args[1:] {
							if !isFreshBytes(a) {
								bad = append(bad, "a bytes element of the source is appended without copying: destination and source share memory")
							}
						}
					}
				default:
					if isAppendTo(rhs, dstObj) {
						bad = append(bad, "a singular field is merged by appending to the destination")
					}
					if isBytes && !isFreshBytes(rhs) {
						bad = append(bad, "singular bytes are assigned without copying: destination and source share memory")
					}
					if isPtr {
						ue, ok := unparen(rhs).(*ast.UnaryExpr)
						fresh := false
						if ok && ue.Op == token.AND {
							if id, ok := unparen(ue.X).(*ast.Ident); ok {
								if o := objOf(ginfo, id); o != nil && o != srcObj && o != dstObj && o.Parent() != nil {
									fresh = true
								}
							}
						}
						if !fresh {
							bad = append(bad, "a pointer scalar is merged by sharing the source's pointer instead of copying the value")
						}
					}
					if noZero {
						guarded := g.DominatedByCond(as, func(core ast.Expr, val bool) bool { return usesAny(ginfo, core, srcObj, defs) })
						if !guarded {
							bad = append(bad, "an implicit-presence field is overwritten unconditionally: merging an unset (zero) source clears the destination")
						} else if msg := c.mergeGuardAgrees(fm, fg, as); msg != "" {
							bad = append(bad, msg)
						}
					}
				}
			}
			if len(bad) > 0 {
				R.Bad(rule, construct, P.Pos(fg.Decl), strings.Join(dedupe(bad), "; "))
			} else {
				R.OK(rule, construct, P.Pos(fg.Decl), "class {repeated="+boolStr(repeated)+", noZero="+boolStr(noZero)+", ptr="+boolStr(isPtr)+", bytes="+boolStr(isBytes)+"}")
			}
			return true
		})
	}
}

// usesAny: e mentions the source parameter or a local derived from it.
func usesAny(info *types.Info, e ast.Node, src types.Object, defs map[types.Object][]defSite) bool {
	found := false
	walk(e, func(n ast.Node) bool {
		id, ok := n.(*ast.Ident)
		if !ok {
			return true
		}
		o := info.Uses[id]
		if o == src {
			found = true
		}
		for _, d := range defs[o] {
			if usesObj(info, d.rhs, src) {
				found = true
			}
		}
		return true
	})
	return found
}

func (c *Ctx) ruleMergeReflect(rule string) {
	R, P := c.R, c.P
	R.Rule(rule, "reflection merge shape: lists are merged with List.Append (messages into NewElement, bytes cloned), maps with Map.Set (messages into NewValue, bytes cloned), singular messages with Mutable(fd) and a recursive merge, bytes fields with a clone, unknown fields with SetUnknown(append(dst.GetUnknown(), src.GetUnknown()...)); the fast path appends unknown bytes to the destination's", 8)
	has := func(fi *FuncInfo, keys ...string) bool {
		found := false
		info := fi.Info()
		walkAll(fi.Decl.Body, func(n ast.Node) bool {
			if call, ok := n.(*ast.CallExpr); ok {
				if _, ok := isCall(info, call, keys...); ok {
					found = true
				}
			}
			return true
		})
		return found
	}
	if fi := c.need(rule, "proto.mergeOptions.mergeMessage"); fi != nil {
		info := fi.Info()
		R.Check(has(fi, "reflect/protoreflect.Message.Mutable") && has(fi, "proto.mergeOptions.mergeMessage"), rule, fi.Key+" submessages", P.Pos(fi.Decl), "Mutable + recursive merge", "singular submessages are not merged into the existing (Mutable) destination submessage")
		R.Check(has(fi, "proto.mergeOptions.cloneBytes"), rule, fi.Key+" bytes", P.Pos(fi.Decl), "bytes cloned", "bytes fields are set without cloning: destination and source share memory")
		okUnk := false
		for _, call := range allCalls(info, fi.Decl.Body, "reflect/protoreflect.Message.SetUnknown") {
			if len(call.Args) == 1 {
				if ap, ok := unparen(call.Args[0]).(*ast.CallExpr); ok && len(ap.Args) == 2 && ap.Ellipsis.IsValid() {
					a0, a1 := exprStr(ap.Args[0]), exprStr(ap.Args[1])
					if strings.HasPrefix(a0, "dst.") && strings.Contains(a0, "GetUnknown") && strings.HasPrefix(a1, "src.") && strings.Contains(a1, "GetUnknown") && exprStr(call.Fun) == "dst.SetUnknown" {
						okUnk = true
					}
				}
			}
		}
		R.Check(okUnk, rule, fi.Key+" unknown", P.Pos(fi.Decl), "dst unknown ++ src unknown", "unknown fields of the source are not appended after the destination's")
	}
	if fi := c.need(rule, "proto.mergeOptions.mergeList"); fi != nil {
		R.Check(has(fi, "reflect/protoreflect.List.Append") && !has(fi, "reflect/protoreflect.List.Set", "reflect/protoreflect.List.Truncate"), rule, fi.Key+" append", P.Pos(fi.Decl), "appends", "list merge does not append (or overwrites/truncates existing elements)")
		R.Check(has(fi, "reflect/protoreflect.List.NewElement") && has(fi, "proto.mergeOptions.cloneBytes"), rule, fi.Key+" elements", P.Pos(fi.Decl), "messages into NewElement, bytes cloned", "message or bytes elements are appended without a deep copy")
	}
	if fi := c.need(rule, "proto.mergeOptions.mergeMap"); fi != nil {
		R.Check(has(fi, "reflect/protoreflect.Map.Set") && !has(fi, "reflect/protoreflect.Map.Clear"), rule, fi.Key+" upsert", P.Pos(fi.Decl), "Set per entry", "map merge does not upsert entries")
		R.Check(has(fi, "reflect/protoreflect.Map.NewValue") && has(fi, "proto.mergeOptions.cloneBytes"), rule, fi.Key+" values", P.Pos(fi.Decl), "messages into NewValue, bytes cloned", "message or bytes values are stored without a deep copy")
	}
	if fi := c.need(rule, "proto.mergeOptions.cloneBytes"); fi != nil {
		info := fi.Info()
		fresh := false
		walk(fi.Decl.Body, func(n ast.Node) bool {
			if call, ok := n.(*ast.CallExpr); ok {
				if id, ok := call.Fun.(*ast.Ident); ok && id.Name == "append" && len(call.Args) == 2 && call.Ellipsis.IsValid() {
					if cl, ok := unparen(call.Args[0]).(*ast.CompositeLit); ok && len(cl.Elts) == 0 {
						fresh = true
					}
					_ = info
				}
			}
			return true
		})
		R.Check(fresh, rule, fi.Key, P.Pos(fi.Decl), "append([]byte{}, v...)", "cloneBytes does not copy into a fresh slice")
	}
	if fi := c.need(rule, "internal/impl.(*MessageInfo).mergePointer"); fi != nil {
		info := fi.Info()
		ok := false
		walk(fi.Decl.Body, func(n ast.Node) bool {
			as, isAs := n.(*ast.AssignStmt)
			if !isAs || len(as.Rhs) != 1 {
				return true
			}
			call, isCall := unparen(as.Rhs[0]).(*ast.CallExpr)
			if !isCall || len(call.Args) != 2 || !call.Ellipsis.IsValid() {
				return true
			}
			if id, isID := call.Fun.(*ast.Ident); isID && id.Name == "append" {
				defs := localDefs(fi.Decl.Body, info)
				d0 := rootIdentThroughCalls(call.Args[0])
				d1 := rootIdentThroughCalls(call.Args[1])
				if d0 != nil && d1 != nil {
					r0, r1 := defs[objOf(info, d0)], defs[objOf(info, d1)]
					if len(r0) == 1 && len(r1) == 1 && containsCall(info, r0[0].rhs, "internal/impl.(*MessageInfo).mutableUnknownBytes") != nil && containsCall(info, r1[0].rhs, "internal/impl.(*MessageInfo).getUnknownBytes") != nil && exprStr(as.Lhs[0]) == exprStr(call.Args[0]) {
						ok = true
					}
				}
			}
			return true
		})
		R.Check(ok, rule, fi.Key+" unknown", P.Pos(fi.Decl), "*du = append(*du, *su...)", "the fast-path merge does not append the source's unknown bytes to the destination's")
	}
}

// zero-test evaluation over value classes: "z" (+0 / "" / empty), "nz", and for floats "-0".
func evalZeroCond(info *types.Info, e ast.Expr, class string) (bool, bool) {
	e = unparen(e)
	switch x := e.(type) {
	case *ast.UnaryExpr:
		if x.Op == token.NOT {
			v, ok := evalZeroCond(info, x.X, class)
			return !v, ok
		}
	case *ast.BinaryExpr:
		switch x.Op {
		case token.LAND, token.LOR:
			a, okA := evalZeroCond(info, x.X, class)
			b, okB := evalZeroCond(info, x.Y, class)
			if !okA || !okB {
				return false, false
			}
			if x.Op == token.LAND {
				return a && b, true
			}
			return a || b, true
		case token.EQL, token.NEQ, token.GTR:
			// v == 0, v != 0, v == "", len(v) == 0, len(v) > 0, v == false
			isZeroConst := false
			if c, ok := constInt(info, x.Y); ok && c == 0 {
				isZeroConst = true
			}
			if tv, ok := info.Types[x.Y]; ok && tv.Value != nil && (tv.Value.ExactString() == `""` || tv.Value.ExactString() == "false" || tv.Value.ExactString() == "0") {
				isZeroConst = true
			}
			if !isZeroConst {
				return false, false
			}
			valueIsZero := class == "z" || class == "-0" // -0.0 == 0 in Go; an empty/zero value compares equal to the zero constant
			switch x.Op {
			case token.EQL:
				return valueIsZero, true
			case token.NEQ, token.GTR:
				return !valueIsZero, true
			}
		}
	case *ast.CallExpr:
		if calleeKey(info, x) == "math.Signbit" {
			return class == "-0", true // nz taken as positive: sign only matters for the zero classes here
		}
	case *ast.Ident:
		// bool value `v` used directly: if v { … }
		if b, ok := info.TypeOf(x).Underlying().(*types.Basic); ok && b.Kind() == types.Bool {
			return class == "nz", true
		}
	}
	return false, false
}

// mergeGuardAgrees: the merge function assigns exactly for the value classes
// the append function encodes (a value the encoder treats as populated must be
// merged, and vice versa).
func (c *Ctx) mergeGuardAgrees(fm, fg *FuncInfo, assign *ast.AssignStmt) string {
	minfo, ginfo := fm.Info(), fg.Info()
	// append's skip guard: `if COND { return b, nil }`
	var skip ast.Expr
	for _, st := range fm.Decl.Body.List {
		if is, ok := st.(*ast.IfStmt); ok && is.Else == nil && len(is.Body.List) == 1 {
			if rs, ok := is.Body.List[0].(*ast.ReturnStmt); ok && len(rs.Results) == 2 && isNilIdent(minfo, rs.Results[1]) {
				skip = is.Cond
			}
		}
	}
	// merge's assign guard: the innermost enclosing if of the assignment
	var guard ast.Expr
	walk(fg.Decl.Body, func(n ast.Node) bool {
		if is, ok := n.(*ast.IfStmt); ok && containsNode(is.Body, assign) {
			guard = is.Cond
		}
		return true
	})
	if skip == nil || guard == nil {
		return ""
	}
	classes := []string{"z", "nz"}
	isFloat := false
	walk(skip, func(n ast.Node) bool {
		if call, ok := n.(*ast.CallExpr); ok && calleeKey(minfo, call) == "math.Signbit" {
			isFloat = true
		}
		return true
	})
	if !isFloat {
		// float accessor without a sign test on the append side is judged by R-SIZE-APPEND; here use the accessor type
		for a := range c.coderFacts(fm).accessors {
			if strings.HasPrefix(a, "Float") {
				isFloat = true
			}
		}
	}
	if isFloat {
		classes = append(classes, "-0")
	}
	for _, cl := range classes {
		sk, ok1 := evalZeroCond(minfo, skip, cl)
		gd, ok2 := evalZeroCond(ginfo, guard, cl)
		if !ok1 || !ok2 {
			return ""
		}
		if gd == sk {
			what := map[string]string{"z": "the zero value", "nz": "a non-zero value", "-0": "negative zero (-0.0)"}[cl]
			if sk {
				return "for " + what + " the encoder skips the field but merge assigns it"
			}
			return "for " + what + " the encoder treats the field as populated (it is marshaled) but merge does not copy it: Merge(dst, src) differs from decoding Marshal(dst)||Marshal(src)"
		}
	}
	return ""
}

// R-ONEOF-MERGE: merging a oneof calls the source member's merge function on a
// destination wrapper of that same member: either the destination already
// holds the identical member (identity of the per-member coder info) or a new
// wrapper is allocated first.
func (c *Ctx) ruleOneofMerge(rule string) {
	R, P := c.R, c.P
	R.Rule(rule, "in the oneof merge closure of initOneofFieldCoders the call of the source member's merge function is dominated by the establishment that destination and source hold the identical member (`dstinfo == srcinfo` on the member coder infos returned by getInfo) or by the allocation of a new wrapper of the source's member", 1)
	fi := c.need(rule, "internal/impl.(*MessageInfo).initOneofFieldCoders")
	if fi == nil {
		return
	}
	info := fi.Info()
	n := 0
	for _, br := range bodiesOf(fi) {
		if br.Lit == nil {
			continue
		}
		// the merge closure: signature (dst, src pointer, _ *coderFieldInfo, opts mergeOptions)
		sig, ok := info.TypeOf(br.Lit).(*types.Signature)
		if !ok || sig.Params().Len() != 4 || namedTypeName(sig.Params().At(3).Type()) != "internal/impl.mergeOptions" {
			continue
		}
		defs := localDefs(br.Body, info)
		isInfoVar := func(e ast.Expr) bool {
			o := objOf(info, e)
			for _, d := range defs[o] {
				if d.idx == 1 {
					if call, ok := unparen(d.rhs).(*ast.CallExpr); ok {
						if id, ok := call.Fun.(*ast.Ident); ok && id.Name == "getInfo" {
							return true
						}
					}
				}
			}
			return false
		}
		g := newCFG(br.Body, info)
		walk(br.Body, func(x ast.Node) bool {
			call, ok := x.(*ast.CallExpr)
			if !ok {
				return true
			}
			se, ok := call.Fun.(*ast.SelectorExpr)
			if !ok || se.Sel.Name != "merge" || len(call.Args) != 4 {
				return true
			}
			n++
			good := g.DominatedByCondOrNode(call, func(core ast.Expr, val bool) bool {
				be, ok := unparen(core).(*ast.BinaryExpr)
				if !ok || !isInfoVar(be.X) || !isInfoVar(be.Y) {
					return false
				}
				return (be.Op == token.NEQ && !val) || (be.Op == token.EQL && val)
			}, func(nd ast.Node) bool {
				return containsCall(info, nd, "reflect.New") != nil && containsCall(info, nd, "reflect.Value.Set") != nil
			})
			R.Check(good, rule, br.Name+" member merge", P.Pos(call), "same member established or new wrapper allocated", "the source member's merge function can run on a destination wrapper of a different member (the test does not compare member identity): merging replaces neither the active member nor its field number")
			return true
		})
	}
	if n == 0 {
		R.Unk(rule, fi.Key, P.Pos(fi.Decl), "oneof merge closure not found")
	}
}

// R-MAP-REPLACE: a decoded or merged map entry replaces the existing entry
// (protobuf map semantics: last entry wins, values are not merged).
func (c *Ctx) ruleMapReplace(rule string) {
	R, P := c.R, c.P
	R.Rule(rule, "every function that stores map entries with protoreflect.Map.Set while decoding or merging builds message values with Map.NewValue and never obtains them with Map.Mutable(key): an entry with a repeated key replaces the previous value instead of being merged into it", 4)
	for _, pkg := range []string{"proto", "internal/impl", "encoding/protojson", "encoding/prototext"} {
		for _, fi := range P.FuncsIn(pkg) {
			if fi.Decl.Body == nil {
				continue
			}
			info := fi.Info()
			has := func(key string) *ast.CallExpr {
				var out *ast.CallExpr
				walkAll(fi.Decl.Body, func(n ast.Node) bool {
					if call, ok := n.(*ast.CallExpr); ok && calleeKey(info, call) == key {
						out = call
					}
					return true
				})
				return out
			}
			if has("reflect/protoreflect.Map.Set") == nil {
				continue
			}
			mut := has("reflect/protoreflect.Map.Mutable")
			R.Check(mut == nil, rule, fi.Key, P.Pos(fi.Decl), "entries are built fresh and Set", "a map entry's message value is obtained with Map.Mutable(key): a repeated key is merged into the existing entry instead of replacing it")
		}
	}
}
