package main

import (
	"go/ast"
	"go/token"
	"go/types"
	"strings"
)

func init() {
	register(&Property{
		ID:         "C07",
		Level:      "other",
		Technique:  "effect-class rule over every merge function wired into a coder literal (overwrite / overwrite-if-set / copy-on-merge / append), accessor agreement with the codec siblings, shape rule over the reflection merge (static)",
		Explain:    "Decides structural necessary conditions of `Merge equals concatenated decoding`: (1) in every coder literal the merge function uses the same Go accessor as the marshal/unmarshal functions and has the effect class of the field's cardinality, matching what decoding a second occurrence does: repeated coders append to the destination (never overwrite), singular coders assign through the destination accessor, zero-skipping coders assign only under a test of the source value, byte strings are copied (never shared with the source), pointer scalars are copied into a fresh variable; (2) the reflection merge appends list elements, upserts map entries, merges singular messages into the existing (Mutable) submessage, clones byte strings, and appends the source's unknown fields after the destination's; the fast-path mergePointer appends unknown fields the same way.",
		NotCovered: "the three-way equivalence on values (Merge vs. decode of concatenation vs. UnmarshalOptions{Merge}); oneof replacement order; extension merging through lazily decoded values.",
		Quick:      all("./internal/impl", "./proto"),
		Thorough:   all("./..."),
		Run: func(c *Ctx) {
			c.ruleMergeClass("R-MERGE-CLASS", 60)
			c.ruleMergeReflect("R-MERGE-REFLECT")
		},
	})
}

func (c *Ctx) ruleMergeClass(rule string, floor int) {
	R, P := c.R, c.P
	R.Rule(rule, "for every coder literal with named marshal and merge functions: repeated coders' merge appends to the destination; singular coders' merge assigns through the destination accessor; zero-skipping coders assign only under a test of the source value; Bytes/BytesSlice accessors are written only with freshly copied bytes (append(emptyBuf[:], …)); pointer-scalar coders store the address of a fresh local copy", floor)
	pk := P.Pkg("internal/impl")
	if pk == nil {
		return
	}
	info := pk.TypesInfo
	for _, f := range pk.Syntax {
		ast.Inspect(f, func(x ast.Node) bool {
			cl, ok := x.(*ast.CompositeLit)
			if !ok || namedTypeName(info.TypeOf(cl)) != "internal/impl.pointerCoderFuncs" {
				return true
			}
			slots := map[string]ast.Expr{}
			for _, el := range cl.Elts {
				if kv, ok := el.(*ast.KeyValueExpr); ok {
					if id, ok := kv.Key.(*ast.Ident); ok {
						slots[id.Name] = kv.Value
					}
				}
			}
			fo, ok1 := objOf(info, slots["marshal"]).(*types.Func)
			mo, ok2 := objOf(info, slots["merge"]).(*types.Func)
			if !ok1 || !ok2 {
				return true
			}
			fm, fg := P.Func(funcKey(fo)), P.Func(funcKey(mo))
			if fm == nil || fg == nil || fm.Decl.Body == nil || fg.Decl.Body == nil {
				return true
			}
			w := c.wireSummary(fm, true)
			if w.problem != "" {
				return true
			}
			facts := c.coderFacts(fm)
			isMsg := false
			for _, op := range w.ops {
				if strings.Contains(op, "N(") {
					isMsg = true
				}
			}
			if isMsg {
				return true // message coders: recursive merge, checked by shape in R-MERGE-REFLECT / accessor rule
			}
			repeated, noZero := false, false
			for _, op := range w.ops {
				if strings.HasPrefix(op, "range ") || strings.HasPrefix(op, "VL[range ") {
					repeated = true
				}
			}
			for _, g := range w.guards {
				if !repeated {
					noZero = true
				}
				_ = g
			}
			isPtr, isBytes := false, false
			for a := range facts.accessors {
				if strings.HasSuffix(a, "Ptr") {
					isPtr = true
				}
				if a == "Bytes" || a == "BytesSlice" {
					isBytes = true
				}
			}
			ginfo := fg.Info()
			var dstObj, srcObj types.Object
			i := 0
			for _, fl := range fg.Decl.Type.Params.List {
				for _, nm := range fl.Names {
					if i == 0 {
						dstObj = ginfo.Defs[nm]
					} else if i == 1 {
						srcObj = ginfo.Defs[nm]
					}
					i++
				}
			}
			defs := localDefs(fg.Decl.Body, ginfo)
			rootsAt := func(e ast.Expr, target types.Object) bool {
				id := rootIdentThroughCalls(e)
				for depth := 0; id != nil && depth < 4; depth++ {
					o := objOf(ginfo, id)
					if o == target {
						return true
					}
					ds := defs[o]
					if len(ds) != 1 {
						return false
					}
					id = rootIdentThroughCalls(ds[0].rhs)
				}
				return false
			}
			var dstAssigns []*ast.AssignStmt
			walkAll(fg.Decl.Body, func(y ast.Node) bool {
				if as, ok := y.(*ast.AssignStmt); ok && as.Tok == token.ASSIGN {
					for _, l := range as.Lhs {
						if _, isStar := unparen(l).(*ast.StarExpr); isStar && rootsAt(l, dstObj) {
							dstAssigns = append(dstAssigns, as)
						}
					}
				}
				return true
			})
			construct := "coder{" + fm.Obj.Name() + "}.merge=" + fg.Obj.Name()
			var bad []string
			if len(dstAssigns) == 0 {
				bad = append(bad, "the merge function never assigns through the destination accessor")
			}
			isAppendTo := func(rhs ast.Expr, target types.Object) bool {
				call, ok := unparen(rhs).(*ast.CallExpr)
				if !ok || len(call.Args) == 0 {
					return false
				}
				id, ok := call.Fun.(*ast.Ident)
				return ok && id.Name == "append" && rootsAt(call.Args[0], target)
			}
			isFreshBytes := func(rhs ast.Expr) bool {
				call, ok := unparen(rhs).(*ast.CallExpr)
				if !ok || len(call.Args) == 0 {
					return false
				}
				id, ok := call.Fun.(*ast.Ident)
				if !ok || id.Name != "append" {
					return false
				}
				s := exprStr(unparen(call.Args[0]))
				return strings.HasPrefix(s, "emptyBuf[") || s == "[]byte{}" || s == "[]byte(nil)" || s == "([]byte)(nil)"
			}
			g := fg.CFG()
			for _, as := range dstAssigns {
				rhs := as.Rhs[0]
				switch {
				case repeated:
					if !isAppendTo(rhs, dstObj) {
						bad = append(bad, "a repeated field is merged by assignment instead of appending to the destination: the destination's elements are lost")
					}
					if isBytes {
						// the appended element(s) must be fresh copies
						call := unparen(rhs).(*ast.CallExpr)
						for _, a := range call.Args[1:] {
							if !isFreshBytes(a) {
								bad = append(bad, "a bytes element of the source is appended without copying: destination and source share memory")
							}
						}
					}
				default:
					if isAppendTo(rhs, dstObj) {
						bad = append(bad, "a singular field is merged by appending to the destination")
					}
					if isBytes && !isFreshBytes(rhs) {
						bad = append(bad, "singular bytes are assigned without copying: destination and source share memory")
					}
					if isPtr {
						ue, ok := unparen(rhs).(*ast.UnaryExpr)
						fresh := false
						if ok && ue.Op == token.AND {
							if id, ok := unparen(ue.X).(*ast.Ident); ok {
								if o := objOf(ginfo, id); o != nil && o != srcObj && o != dstObj && o.Parent() != nil {
									fresh = true
								}
							}
						}
						if !fresh {
							bad = append(bad, "a pointer scalar is merged by sharing the source's pointer instead of copying the value")
						}
					}
					if noZero {
						sp, _ := g.posOf(as)
						_ = sp
						guarded := g.DominatedByCond(as, func(core ast.Expr, val bool) bool { return usesAny(ginfo, core, srcObj, defs) })
						if !guarded {
							bad = append(bad, "an implicit-presence field is overwritten unconditionally: merging an unset (zero) source clears the destination")
						}
					}
				}
			}
			if len(bad) > 0 {
				R.Bad(rule, construct, P.Pos(fg.Decl), strings.Join(dedupe(bad), "; "))
			} else {
				R.OK(rule, construct, P.Pos(fg.Decl), "class {repeated="+boolStr(repeated)+", noZero="+boolStr(noZero)+", ptr="+boolStr(isPtr)+", bytes="+boolStr(isBytes)+"}")
			}
			return true
		})
	}
}

// usesAny: e mentions the source parameter or a local derived from it.
func usesAny(info *types.Info, e ast.Node, src types.Object, defs map[types.Object][]defSite) bool {
	found := false
	walk(e, func(n ast.Node) bool {
		id, ok := n.(*ast.Ident)
		if !ok {
			return true
		}
		o := info.Uses[id]
		if o == src {
			found = true
		}
		for _, d := range defs[o] {
			if usesObj(info, d.rhs, src) {
				found = true
			}
		}
		return true
	})
	return found
}

func (c *Ctx) ruleMergeReflect(rule string) {
	R, P := c.R, c.P
	R.Rule(rule, "reflection merge shape: lists are merged with List.Append (messages into NewElement, bytes cloned), maps with Map.Set (messages into NewValue, bytes cloned), singular messages with Mutable(fd) and a recursive merge, bytes fields with a clone, unknown fields with SetUnknown(append(dst.GetUnknown(), src.GetUnknown()...)); the fast path appends unknown bytes to the destination's", 8)
	has := func(fi *FuncInfo, keys ...string) bool {
		found := false
		info := fi.Info()
		walkAll(fi.Decl.Body, func(n ast.Node) bool {
			if call, ok := n.(*ast.CallExpr); ok {
				if _, ok := isCall(info, call, keys...); ok {
					found = true
				}
			}
			return true
		})
		return found
	}
	if fi := c.need(rule, "proto.mergeOptions.mergeMessage"); fi != nil {
		info := fi.Info()
		R.Check(has(fi, "reflect/protoreflect.Message.Mutable") && has(fi, "proto.mergeOptions.mergeMessage"), rule, fi.Key+" submessages", P.Pos(fi.Decl), "Mutable + recursive merge", "singular submessages are not merged into the existing (Mutable) destination submessage")
		R.Check(has(fi, "proto.mergeOptions.cloneBytes"), rule, fi.Key+" bytes", P.Pos(fi.Decl), "bytes cloned", "bytes fields are set without cloning: destination and source share memory")
		okUnk := false
		for _, call := range allCalls(info, fi.Decl.Body, "reflect/protoreflect.Message.SetUnknown") {
			if len(call.Args) == 1 {
				if ap, ok := unparen(call.Args[0]).(*ast.CallExpr); ok && len(ap.Args) == 2 && ap.Ellipsis.IsValid() {
					a0, a1 := exprStr(ap.Args[0]), exprStr(ap.Args[1])
					if strings.HasPrefix(a0, "dst.") && strings.Contains(a0, "GetUnknown") && strings.HasPrefix(a1, "src.") && strings.Contains(a1, "GetUnknown") && exprStr(call.Fun) == "dst.SetUnknown" {
						okUnk = true
					}
				}
			}
		}
		R.Check(okUnk, rule, fi.Key+" unknown", P.Pos(fi.Decl), "dst unknown ++ src unknown", "unknown fields of the source are not appended after the destination's")
	}
	if fi := c.need(rule, "proto.mergeOptions.mergeList"); fi != nil {
		R.Check(has(fi, "reflect/protoreflect.List.Append") && !has(fi, "reflect/protoreflect.List.Set", "reflect/protoreflect.List.Truncate"), rule, fi.Key+" append", P.Pos(fi.Decl), "appends", "list merge does not append (or overwrites/truncates existing elements)")
		R.Check(has(fi, "reflect/protoreflect.List.NewElement") && has(fi, "proto.mergeOptions.cloneBytes"), rule, fi.Key+" elements", P.Pos(fi.Decl), "messages into NewElement, bytes cloned", "message or bytes elements are appended without a deep copy")
	}
	if fi := c.need(rule, "proto.mergeOptions.mergeMap"); fi != nil {
		R.Check(has(fi, "reflect/protoreflect.Map.Set") && !has(fi, "reflect/protoreflect.Map.Clear"), rule, fi.Key+" upsert", P.Pos(fi.Decl), "Set per entry", "map merge does not upsert entries")
		R.Check(has(fi, "reflect/protoreflect.Map.NewValue") && has(fi, "proto.mergeOptions.cloneBytes"), rule, fi.Key+" values", P.Pos(fi.Decl), "messages into NewValue, bytes cloned", "message or bytes values are stored without a deep copy")
	}
	if fi := c.need(rule, "proto.mergeOptions.cloneBytes"); fi != nil {
		info := fi.Info()
		fresh := false
		walk(fi.Decl.Body, func(n ast.Node) bool {
			if call, ok := n.(*ast.CallExpr); ok {
				if id, ok := call.Fun.(*ast.Ident); ok && id.Name == "append" && len(call.Args) == 2 && call.Ellipsis.IsValid() {
					if cl, ok := unparen(call.Args[0]).(*ast.CompositeLit); ok && len(cl.Elts) == 0 {
						fresh = true
					}
					_ = info
				}
			}
			return true
		})
		R.Check(fresh, rule, fi.Key, P.Pos(fi.Decl), "append([]byte{}, v...)", "cloneBytes does not copy into a fresh slice")
	}
	if fi := c.need(rule, "internal/impl.(*MessageInfo).mergePointer"); fi != nil {
		info := fi.Info()
		ok := false
		walk(fi.Decl.Body, func(n ast.Node) bool {
			as, isAs := n.(*ast.AssignStmt)
			if !isAs || len(as.Rhs) != 1 {
				return true
			}
			call, isCall := unparen(as.Rhs[0]).(*ast.CallExpr)
			if !isCall || len(call.Args) != 2 || !call.Ellipsis.IsValid() {
				return true
			}
			if id, isID := call.Fun.(*ast.Ident); isID && id.Name == "append" {
				defs := localDefs(fi.Decl.Body, info)
				d0 := rootIdentThroughCalls(call.Args[0])
				d1 := rootIdentThroughCalls(call.Args[1])
				if d0 != nil && d1 != nil {
					r0, r1 := defs[objOf(info, d0)], defs[objOf(info, d1)]
					if len(r0) == 1 && len(r1) == 1 && containsCall(info, r0[0].rhs, "internal/impl.(*MessageInfo).mutableUnknownBytes") != nil && containsCall(info, r1[0].rhs, "internal/impl.(*MessageInfo).getUnknownBytes") != nil && exprStr(as.Lhs[0]) == exprStr(call.Args[0]) {
						ok = true
					}
				}
			}
			return true
		})
		R.Check(ok, rule, fi.Key+" unknown", P.Pos(fi.Decl), "*du = append(*du, *su...)", "the fast-path merge does not append the source's unknown bytes to the destination's")
	}
}
