package main

import (
	"fmt"
	"go/ast"
	"go/constant"
	"go/token"
	"go/types"
	"sort"
	"strings"
)

// E2 bitaffine: an abstract interpreter for loop-free integer code in which
// every bit of every value is an affine form over GF(2) in the bits of the
// inputs (c ⊕ x_i ⊕ x_j …) or unknown (⊤). Shifts, masks and conversions are
// exact on this domain; `|` and `+` are exact when no bit position has two
// possibly-set operands (no carries); `-c` is exact when the subtracted bits
// are known to be set. Branch conditions of the form `x < 2^k` refine single
// input bits. Nothing is executed and no value is sampled: a result holds for
// every 64-bit input.

type bform struct {
	top  bool
	c    uint8
	vars []int // sorted, XOR of these input bits
}

func bconst(c uint8) bform    { return bform{c: c & 1} }
func bvar(id int) bform       { return bform{vars: []int{id}} }
func (a bform) isConst() bool { return !a.top && len(a.vars) == 0 }
func (a bform) eq(b bform) bool {
	if a.top || b.top || a.c != b.c || len(a.vars) != len(b.vars) {
		return false
	}
	for i := range a.vars {
		if a.vars[i] != b.vars[i] {
			return false
		}
	}
	return true
}
func bxor(a, b bform) bform {
	if a.top || b.top {
		return bform{top: true}
	}
	m := map[int]bool{}
	for _, v := range a.vars {
		m[v] = !m[v]
	}
	for _, v := range b.vars {
		m[v] = !m[v]
	}
	var vs []int
	for v, on := range m {
		if on {
			vs = append(vs, v)
		}
	}
	sort.Ints(vs)
	return bform{c: a.c ^ b.c, vars: vs}
}

type bvec struct {
	signed bool
	b      []bform // LSB first; len = width
}

func constVec(v uint64, w int, signed bool) *bvec {
	r := &bvec{signed: signed, b: make([]bform, w)}
	for i := 0; i < w; i++ {
		r.b[i] = bconst(uint8(v >> uint(i) & 1))
	}
	return r
}
func varVec(base, w int, signed bool) *bvec {
	r := &bvec{signed: signed, b: make([]bform, w)}
	for i := 0; i < w; i++ {
		r.b[i] = bvar(base + i)
	}
	return r
}
func (v *bvec) constVal() (uint64, bool) {
	var x uint64
	for i, f := range v.b {
		if !f.isConst() {
			return 0, false
		}
		x |= uint64(f.c) << uint(i)
	}
	return x, true
}
func (v *bvec) resize(w int, signed bool) *bvec {
	r := &bvec{signed: signed, b: make([]bform, w)}
	for i := 0; i < w; i++ {
		switch {
		case i < len(v.b):
			r.b[i] = v.b[i]
		case v.signed:
			r.b[i] = v.b[len(v.b)-1]
		default:
			r.b[i] = bconst(0)
		}
	}
	return r
}
func (v *bvec) String() string {
	var parts []string
	for i := len(v.b) - 1; i >= 0; i-- {
		f := v.b[i]
		switch {
		case f.top:
			parts = append(parts, "?")
		case f.isConst():
			parts = append(parts, fmt.Sprint(f.c))
		default:
			s := ""
			for _, x := range f.vars {
				s += fmt.Sprintf("x%d", x)
			}
			if f.c == 1 {
				s = "~" + s
			}
			parts = append(parts, "("+s+")")
		}
	}
	return strings.Join(parts, "")
}

type blist struct {
	elems []*bvec // bytes
}

// bstate: one path of the symbolic execution.
type bstate struct {
	vars  map[types.Object]any // *bvec or *blist
	subst map[int]uint8        // input bits fixed by path conditions
	notes []string             // path condition text
}

func (s *bstate) clone() *bstate {
	n := &bstate{vars: map[types.Object]any{}, subst: map[int]uint8{}, notes: append([]string{}, s.notes...)}
	for k, v := range s.vars {
		n.vars[k] = v
	}
	for k, v := range s.subst {
		n.subst[k] = v
	}
	return n
}

func (s *bstate) apply(f bform) bform {
	if f.top || len(f.vars) == 0 {
		return f
	}
	out := bform{c: f.c}
	for _, v := range f.vars {
		if c, ok := s.subst[v]; ok {
			out.c ^= c
		} else {
			out.vars = append(out.vars, v)
		}
	}
	return out
}
func (s *bstate) applyVec(v *bvec) *bvec {
	r := &bvec{signed: v.signed, b: make([]bform, len(v.b))}
	for i, f := range v.b {
		r.b[i] = s.apply(f)
	}
	return r
}

type bleaf struct {
	st   *bstate
	rets []any
}

type bitInterp struct {
	P       *Program
	info    *types.Info
	problem string
	depth   int
}

func (bi *bitInterp) fail(format string, a ...any) {
	if bi.problem == "" {
		bi.problem = fmt.Sprintf(format, a...)
	}
}

func intWidth(t types.Type) (int, bool, bool) {
	if t == nil {
		return 0, false, false
	}
	b, ok := t.Underlying().(*types.Basic)
	if !ok {
		return 0, false, false
	}
	switch b.Kind() {
	case types.Uint8:
		return 8, false, true
	case types.Int8:
		return 8, true, true
	case types.Uint16:
		return 16, false, true
	case types.Int16:
		return 16, true, true
	case types.Uint32:
		return 32, false, true
	case types.Int32:
		return 32, true, true
	case types.Uint64, types.Uint, types.Uintptr:
		return 64, false, true
	case types.Int64, types.Int:
		return 64, true, true
	case types.UntypedInt, types.UntypedRune:
		return 64, true, true
	}
	return 0, false, false
}

func (bi *bitInterp) eval(e ast.Expr, st *bstate) any {
	e = unparen(e)
	if tv, ok := bi.info.Types[e]; ok && tv.Value != nil && tv.Value.Kind() == constant.Int {
		w, sg, ok := intWidth(tv.Type)
		if !ok {
			w, sg = 64, true
		}
		if u, ok := constant.Uint64Val(tv.Value); ok {
			return constVec(u, w, sg)
		}
		if i, ok := constant.Int64Val(tv.Value); ok {
			return constVec(uint64(i), w, sg)
		}
	}
	switch x := e.(type) {
	case *ast.Ident:
		if o := bi.info.Uses[x]; o != nil {
			if v, ok := st.vars[o]; ok {
				if bv, ok := v.(*bvec); ok {
					return st.applyVec(bv)
				}
				return v
			}
		}
		bi.fail("unbound identifier %s", x.Name)
		return nil
	case *ast.IndexExpr:
		l, ok := bi.eval(x.X, st).(*blist)
		if !ok {
			bi.fail("index of a non-list %s", exprStr(x))
			return nil
		}
		k, ok := constInt(bi.info, x.Index)
		if !ok || int(k) >= len(l.elems) {
			bi.fail("index %s not provably within the established length %d", exprStr(x), len(l.elems))
			return nil
		}
		return st.applyVec(l.elems[k])
	case *ast.CallExpr:
		// conversion
		if tv, ok := bi.info.Types[x.Fun]; ok && tv.IsType() && len(x.Args) == 1 {
			w, sg, ok := intWidth(tv.Type)
			a, isVec := bi.eval(x.Args[0], st).(*bvec)
			if !ok || !isVec {
				bi.fail("unsupported conversion %s", exprStr(x))
				return nil
			}
			return a.resize(w, sg)
		}
		if id, ok := x.Fun.(*ast.Ident); ok && id.Name == "append" && len(x.Args) >= 1 && !x.Ellipsis.IsValid() {
			base, _ := bi.eval(x.Args[0], st).(*blist)
			if base == nil {
				bi.fail("append to an untracked slice")
				return nil
			}
			nl := &blist{elems: append([]*bvec{}, base.elems...)}
			for _, a := range x.Args[1:] {
				bv, ok := bi.eval(a, st).(*bvec)
				if !ok {
					bi.fail("unsupported append operand %s", exprStr(a))
					return nil
				}
				nl.elems = append(nl.elems, bv.resize(8, false))
			}
			return nl
		}
		if id, ok := x.Fun.(*ast.Ident); ok && id.Name == "len" && len(x.Args) == 1 {
			if l, ok := bi.eval(x.Args[0], st).(*blist); ok {
				return constVec(uint64(len(l.elems)), 64, true)
			}
		}
		// inline single-expression repo functions
		if fi := bi.P.Func(calleeKey(bi.info, x)); fi != nil && fi.Decl.Body != nil && bi.depth < 4 {
			var args []any
			for _, a := range x.Args {
				args = append(args, bi.eval(a, st))
			}
			sub := &bitInterp{P: bi.P, info: fi.Info(), depth: bi.depth + 1}
			leaves := sub.run(fi, args, st.subst)
			if sub.problem != "" || len(leaves) != 1 || len(leaves[0].rets) != 1 {
				bi.fail("cannot inline %s: %s", fi.Key, sub.problem)
				return nil
			}
			return leaves[0].rets[0]
		}
		bi.fail("unsupported call %s", exprStr(x))
		return nil
	case *ast.BinaryExpr:
		a, okA := bi.eval(x.X, st).(*bvec)
		b, okB := bi.eval(x.Y, st).(*bvec)
		if !okA || !okB {
			bi.fail("unsupported operands in %s", exprStr(x))
			return nil
		}
		w, sg, ok := intWidth(bi.info.TypeOf(x))
		if !ok {
			w, sg = len(a.b), a.signed
		}
		switch x.Op {
		case token.SHL, token.SHR:
			k, isC := b.constVal()
			if !isC {
				bi.fail("non-constant shift in %s", exprStr(x))
				return nil
			}
			a = a.resize(w, sg)
			r := &bvec{signed: sg, b: make([]bform, w)}
			for i := 0; i < w; i++ {
				var src int
				if x.Op == token.SHL {
					src = i - int(k)
				} else {
					src = i + int(k)
				}
				switch {
				case src < 0:
					r.b[i] = bconst(0)
				case src >= w:
					if sg {
						r.b[i] = a.b[w-1]
					} else {
						r.b[i] = bconst(0)
					}
				default:
					r.b[i] = a.b[src]
				}
			}
			return r
		}
		a, b = a.resize(w, sg), b.resize(w, sg)
		r := &bvec{signed: sg, b: make([]bform, w)}
		switch x.Op {
		case token.XOR:
			for i := range r.b {
				r.b[i] = bxor(a.b[i], b.b[i])
			}
		case token.AND, token.AND_NOT:
			for i := range r.b {
				p, q := a.b[i], b.b[i]
				if x.Op == token.AND_NOT {
					q = bxor(q, bconst(1))
				}
				switch {
				case p.isConst() && p.c == 0, q.isConst() && q.c == 0:
					r.b[i] = bconst(0)
				case p.isConst() && p.c == 1:
					r.b[i] = q
				case q.isConst() && q.c == 1:
					r.b[i] = p
				case p.eq(q):
					r.b[i] = p
				default:
					r.b[i] = bform{top: true}
				}
			}
		case token.OR, token.ADD:
			carry := false
			for i := range r.b {
				p, q := a.b[i], b.b[i]
				switch {
				case carry:
					r.b[i] = bform{top: true}
				case p.isConst() && p.c == 0:
					r.b[i] = q
				case q.isConst() && q.c == 0:
					r.b[i] = p
				case x.Op == token.OR && ((p.isConst() && p.c == 1) || (q.isConst() && q.c == 1)):
					r.b[i] = bconst(1)
				case x.Op == token.OR && p.eq(q):
					r.b[i] = p
				default:
					r.b[i] = bform{top: true}
					if x.Op == token.ADD {
						carry = true
					}
				}
			}
		case token.SUB:
			c, isC := b.constVal()
			if !isC {
				bi.fail("subtraction of a non-constant in %s", exprStr(x))
				return nil
			}
			borrow := false
			for i := range r.b {
				bit := uint8(c >> uint(i) & 1)
				switch {
				case borrow:
					r.b[i] = bform{top: true}
				case bit == 0:
					r.b[i] = a.b[i]
				case a.b[i].isConst() && a.b[i].c == 1:
					r.b[i] = bconst(0)
				default:
					r.b[i] = bform{top: true}
					borrow = true
				}
			}
		default:
			bi.fail("unsupported operator in %s", exprStr(x))
			return nil
		}
		return r
	}
	bi.fail("unsupported expression %s", exprStr(e))
	return nil
}

// cond evaluates a branch condition: returns states for the true and false
// outcomes (nil when impossible).
func (bi *bitInterp) cond(e ast.Expr, st *bstate) (t, f *bstate) {
	e = unparen(e)
	be, ok := e.(*ast.BinaryExpr)
	if !ok {
		bi.fail("unsupported condition %s", exprStr(e))
		return nil, nil
	}
	a, okA := bi.eval(be.X, st).(*bvec)
	b, okB := bi.eval(be.Y, st).(*bvec)
	if !okA || !okB {
		bi.fail("unsupported condition %s", exprStr(e))
		return nil, nil
	}
	av, aC := a.constVal()
	bv, bC := b.constVal()
	if aC && bC {
		r := false
		if a.signed {
			r = cmpHolds(be.Op, int64(av), int64(bv))
		} else {
			switch be.Op {
			case token.LSS:
				r = av < bv
			case token.LEQ:
				r = av <= bv
			case token.GTR:
				r = av > bv
			case token.GEQ:
				r = av >= bv
			case token.EQL:
				r = av == bv
			case token.NEQ:
				r = av != bv
			}
		}
		if r {
			return st, nil
		}
		return nil, st
	}
	if (be.Op == token.GTR || be.Op == token.GEQ) && bC && !a.signed {
		lim := bv
		if be.Op == token.GTR {
			lim = bv + 1
		}
		if lim != 0 && lim&(lim-1) == 0 {
			// a > 2^m-1  ⇔  a >= 2^m  ⇔  !(a < 2^m)
			t2, f2 := bi.condLessPow2(a, lim, exprStr(e), st)
			return f2, t2
		}
	}
	// x < 2^m (unsigned or known non-negative)
	if be.Op == token.LSS && bC && bv != 0 && bv&(bv-1) == 0 && !a.signed {
		return bi.condLessPow2(a, bv, exprStr(e), st)
	}
	ts, fs := st.clone(), st.clone()
	ts.notes = append(ts.notes, exprStr(e))
	fs.notes = append(fs.notes, "!("+exprStr(e)+")")
	return ts, fs
}

// condLessPow2: a < bv where bv = 2^m; returns (true-state, false-state).
func (bi *bitInterp) condLessPow2(a *bvec, bv uint64, text string, st *bstate) (*bstate, *bstate) {
	{
		e := text
		m := 0
		for bv>>uint(m) != 1 {
			m++
		}
		anyOne := false
		var unknown []int
		topSeen := false
		for i := m; i < len(a.b); i++ {
			fb := a.b[i]
			switch {
			case fb.top:
				topSeen = true
			case fb.isConst():
				if fb.c == 1 {
					anyOne = true
				}
			case len(fb.vars) == 1 && fb.c == 0:
				unknown = append(unknown, fb.vars[0])
			default:
				topSeen = true
			}
		}
		if anyOne {
			return nil, st
		}
		if !topSeen && len(unknown) == 0 {
			return st, nil
		}
		ts, fs := st.clone(), st.clone()
		ts.notes = append(ts.notes, e)
		fs.notes = append(fs.notes, "!("+e+")")
		if !topSeen {
			for _, v := range unknown {
				ts.subst[v] = 0
			}
			if len(unknown) == 1 {
				fs.subst[unknown[0]] = 1
			}
		}
		return ts, fs
	}
}

func (bi *bitInterp) run(fi *FuncInfo, args []any, subst map[int]uint8) []bleaf {
	st := &bstate{vars: map[types.Object]any{}, subst: map[int]uint8{}}
	for k, v := range subst {
		st.subst[k] = v
	}
	i := 0
	for _, f := range fi.Decl.Type.Params.List {
		for _, nm := range f.Names {
			if i < len(args) {
				st.vars[bi.info.Defs[nm]] = args[i]
			}
			i++
		}
	}
	if fi.Decl.Type.Results != nil {
		for _, f := range fi.Decl.Type.Results.List {
			for _, nm := range f.Names {
				if w, sg, ok := intWidth(bi.info.TypeOf(f.Type)); ok {
					st.vars[bi.info.Defs[nm]] = constVec(0, w, sg)
				}
			}
		}
	}
	leaves, _ := bi.block(fi.Decl.Body.List, st)
	return leaves
}

// block executes statements; returns the leaves that returned and the states
// that fall through.
func (bi *bitInterp) block(stmts []ast.Stmt, st *bstate) ([]bleaf, []*bstate) {
	live := []*bstate{st}
	var leaves []bleaf
	for _, s := range stmts {
		var next []*bstate
		for _, cur := range live {
			if bi.problem != "" {
				return leaves, nil
			}
			l, n := bi.stmt(s, cur)
			leaves = append(leaves, l...)
			next = append(next, n...)
		}
		live = next
	}
	return leaves, live
}

func (bi *bitInterp) assign(lhs ast.Expr, v any, st *bstate, define bool) {
	id, ok := unparen(lhs).(*ast.Ident)
	if !ok {
		bi.fail("unsupported assignment target %s", exprStr(lhs))
		return
	}
	if id.Name == "_" {
		return
	}
	o := bi.info.Defs[id]
	if o == nil {
		o = bi.info.Uses[id]
	}
	if bv, ok := v.(*bvec); ok {
		if w, sg, ok := intWidth(o.Type()); ok {
			v = bv.resize(w, sg)
		}
	}
	st.vars[o] = v
}

func (bi *bitInterp) stmt(s ast.Stmt, st *bstate) ([]bleaf, []*bstate) {
	switch x := s.(type) {
	case *ast.DeclStmt:
		if gd, ok := x.Decl.(*ast.GenDecl); ok {
			for _, sp := range gd.Specs {
				vs := sp.(*ast.ValueSpec)
				for i, nm := range vs.Names {
					if i < len(vs.Values) {
						bi.assign(nm, bi.eval(vs.Values[i], st), st, true)
					} else if w, sg, ok := intWidth(bi.info.Defs[nm].Type()); ok {
						st.vars[bi.info.Defs[nm]] = constVec(0, w, sg)
					}
				}
			}
		}
		return nil, []*bstate{st}
	case *ast.AssignStmt:
		if len(x.Lhs) != len(x.Rhs) {
			bi.fail("unsupported multi-value assignment %s", firstLine(exprOrStmt(x)))
			return nil, nil
		}
		st = st.clone()
		for i := range x.Lhs {
			var v any
			switch x.Tok {
			case token.ASSIGN, token.DEFINE:
				// b = append(b, e...)
				if call, ok := unparen(x.Rhs[i]).(*ast.CallExpr); ok {
					if id, ok := call.Fun.(*ast.Ident); ok && id.Name == "append" {
						base, _ := bi.eval(call.Args[0], st).(*blist)
						if base == nil {
							bi.fail("append to an untracked slice")
							return nil, nil
						}
						nl := &blist{elems: append([]*bvec{}, base.elems...)}
						for _, a := range call.Args[1:] {
							bv, ok := bi.eval(a, st).(*bvec)
							if !ok {
								bi.fail("unsupported append operand %s", exprStr(a))
								return nil, nil
							}
							nl.elems = append(nl.elems, bv.resize(8, false))
						}
						v = nl
						break
					}
				}
				v = bi.eval(x.Rhs[i], st)
			default:
				op := map[token.Token]token.Token{token.ADD_ASSIGN: token.ADD, token.SUB_ASSIGN: token.SUB, token.OR_ASSIGN: token.OR, token.AND_ASSIGN: token.AND, token.XOR_ASSIGN: token.XOR, token.SHL_ASSIGN: token.SHL, token.SHR_ASSIGN: token.SHR}[x.Tok]
				be := &ast.BinaryExpr{X: x.Lhs[i], Op: op, Y: x.Rhs[i]}
				// evaluate without type info for the synthetic node: widths from the lhs
				a, okA := bi.eval(x.Lhs[i], st).(*bvec)
				b, okB := bi.eval(x.Rhs[i], st).(*bvec)
				if !okA || !okB {
					bi.fail("unsupported compound assignment %s", firstLine(exprOrStmt(x)))
					return nil, nil
				}
				v = bi.binop(be, a, b)
			}
			if bi.problem != "" {
				return nil, nil
			}
			bi.assign(x.Lhs[i], v, st, x.Tok == token.DEFINE)
		}
		return nil, []*bstate{st}
	case *ast.ReturnStmt:
		var rets []any
		for _, r := range x.Results {
			rets = append(rets, bi.eval(r, st))
		}
		return []bleaf{{st, rets}}, nil
	case *ast.IfStmt:
		if x.Init != nil {
			_, n := bi.stmt(x.Init, st)
			if len(n) != 1 {
				return nil, nil
			}
			st = n[0]
		}
		t, f := bi.cond(x.Cond, st)
		var leaves []bleaf
		var live []*bstate
		if t != nil {
			l, n := bi.block(x.Body.List, t)
			leaves = append(leaves, l...)
			live = append(live, n...)
		}
		if f != nil {
			switch el := x.Else.(type) {
			case nil:
				live = append(live, f)
			case *ast.BlockStmt:
				l, n := bi.block(el.List, f)
				leaves = append(leaves, l...)
				live = append(live, n...)
			case *ast.IfStmt:
				l, n := bi.stmt(el, f)
				leaves = append(leaves, l...)
				live = append(live, n...)
			}
		}
		return leaves, live
	case *ast.SwitchStmt:
		if x.Tag != nil || x.Init != nil {
			bi.fail("unsupported tagged switch")
			return nil, nil
		}
		var leaves []bleaf
		var live []*bstate
		cur := st
		var def *ast.CaseClause
		for _, c := range x.Body.List {
			cc := c.(*ast.CaseClause)
			if cc.List == nil {
				def = cc
				continue
			}
			if len(cc.List) != 1 {
				bi.fail("unsupported multi-expression case")
				return nil, nil
			}
			if cur == nil {
				break
			}
			t, f := bi.cond(cc.List[0], cur)
			if t != nil {
				l, n := bi.block(cc.Body, t)
				leaves = append(leaves, l...)
				live = append(live, n...)
			}
			cur = f
		}
		if cur != nil {
			if def != nil {
				l, n := bi.block(def.Body, cur)
				leaves = append(leaves, l...)
				live = append(live, n...)
			} else {
				live = append(live, cur)
			}
		}
		return leaves, live
	}
	bi.fail("unsupported statement %s", firstLine(exprOrStmt(s)))
	return nil, nil
}

// binop applies a binary operator to already evaluated operands (widths taken from a).
func (bi *bitInterp) binop(be *ast.BinaryExpr, a, b *bvec) any {
	// reuse eval's logic by building constant-free temporary bindings
	tmpA, tmpB := types.NewVar(token.NoPos, nil, "·a", types.Typ[types.Uint64]), types.NewVar(token.NoPos, nil, "·b", types.Typ[types.Uint64])
	ia, ib := &ast.Ident{Name: "·a"}, &ast.Ident{Name: "·b"}
	bi.info.Uses[ia], bi.info.Uses[ib] = tmpA, tmpB
	defer delete(bi.info.Uses, ia)
	defer delete(bi.info.Uses, ib)
	st := &bstate{vars: map[types.Object]any{tmpA: a, tmpB: b}, subst: map[int]uint8{}}
	res := bi.eval(&ast.BinaryExpr{X: ia, Op: be.Op, Y: ib}, st)
	if r, ok := res.(*bvec); ok {
		return r.resize(len(a.b), a.signed)
	}
	return res
}
