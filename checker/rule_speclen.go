package main

import (
	"go/ast"
	"go/constant"
	"go/token"
	"go/types"
	"sort"
	"strings"
)

// R-SPEC-LEN. The reflection encoder writes length-delimited content by
// reserving speculativeLength bytes for the prefix, appending the payload, and
// then calling finishSpeculativeLength, which makes room for the real varint
// prefix, moves the payload and writes the prefix. The rule decides by
// linear-form normalisation (no values, no solver) that for every payload
// length the result is  b[:pos] ++ varint(mlen) ++ payload:
//
//	payload  mlen = len(b) - pos - speculativeLength
//	prefix   msiz = SizeVarint(uint64(mlen))
//	room     the grow loop appends N bytes with N - (msiz - speculativeLength) ≥ 0 for every msiz in 1..10
//	move     copy(b[pos+msiz:], b[pos+speculativeLength:])
//	trim     b = b[:pos+msiz+mlen]
//	write    AppendVarint(b[:pos], uint64(mlen))
//
// Integer expressions are normalised to Σ coeff·term + const over the terms
// len(b) (on entry), the parameters, and opaque locals (msiz); constants such
// as speculativeLength are folded, so algebraically equivalent rewrites pass.

type linForm struct {
	c int64
	t map[string]int64
}

func linConst(c int64) linForm { return linForm{c: c, t: map[string]int64{}} }
func linTerm(s string) linForm { return linForm{t: map[string]int64{s: 1}} }
func (a linForm) add(b linForm, k int64) linForm {
	r := linForm{c: a.c + k*b.c, t: map[string]int64{}}
	for s, v := range a.t {
		r.t[s] = v
	}
	for s, v := range b.t {
		r.t[s] += k * v
		if r.t[s] == 0 {
			delete(r.t, s)
		}
	}
	return r
}
func (a linForm) isConst() bool { return len(a.t) == 0 }
func (a linForm) String() string {
	var ks []string
	for s := range a.t {
		ks = append(ks, s)
	}
	sort.Strings(ks)
	var sb strings.Builder
	for _, s := range ks {
		v := a.t[s]
		switch {
		case v == 1:
			sb.WriteString(" + " + s)
		case v == -1:
			sb.WriteString(" - " + s)
		case v < 0:
			sb.WriteString(" - " + itoa64(-v) + "·" + s)
		default:
			sb.WriteString(" + " + itoa64(v) + "·" + s)
		}
	}
	if a.c != 0 || sb.Len() == 0 {
		if a.c < 0 {
			sb.WriteString(" - " + itoa64(-a.c))
		} else {
			sb.WriteString(" + " + itoa64(a.c))
		}
	}
	return strings.TrimPrefix(strings.TrimPrefix(sb.String(), " + "), " ")
}

// nonNegOver decides d ≥ 0 when d's only term is the varint size msiz, which
// ranges over 1..10; witness is a size for which d < 0.
func (a linForm) nonNegOver(term string) (ok bool, witness int64) {
	if a.isConst() {
		return a.c >= 0, 0
	}
	if len(a.t) != 1 {
		return false, 0
	}
	k, has := a.t[term]
	if !has {
		return false, 0
	}
	for m := int64(1); m <= 10; m++ {
		if a.c+k*m < 0 {
			return false, m
		}
	}
	return true, 0
}

type linEnv struct {
	info *types.Info
	vars map[types.Object]linForm
	lenB map[types.Object]linForm // current length of slice variables
	bad  string
}

func (e *linEnv) eval(x ast.Expr) (linForm, bool) {
	x = unparen(x)
	if v, ok := constInt(e.info, x); ok {
		return linConst(v), true
	}
	switch n := x.(type) {
	case *ast.Ident:
		o := e.info.Uses[n]
		if f, ok := e.vars[o]; ok {
			return f, true
		}
		if o != nil {
			return linTerm(n.Name), true
		}
	case *ast.BinaryExpr:
		a, ok1 := e.eval(n.X)
		b, ok2 := e.eval(n.Y)
		if !ok1 || !ok2 {
			return linForm{}, false
		}
		switch n.Op {
		case token.ADD:
			return a.add(b, 1), true
		case token.SUB:
			return a.add(b, -1), true
		case token.MUL:
			if a.isConst() {
				return linConst(0).add(b, a.c), true
			}
			if b.isConst() {
				return linConst(0).add(a, b.c), true
			}
		}
	case *ast.CallExpr:
		if calleeKey(e.info, n) == "builtin.len" && len(n.Args) == 1 {
			if id, ok := unparen(n.Args[0]).(*ast.Ident); ok {
				if f, ok := e.lenB[e.info.Uses[id]]; ok {
					return f, true
				}
			}
		}
		// integer conversion
		if tv, ok := e.info.Types[n.Fun]; ok && tv.IsType() && len(n.Args) == 1 {
			return e.eval(n.Args[0])
		}
	}
	return linForm{}, false
}

func (c *Ctx) ruleSpecLen(rule string) {
	R, P := c.R, c.P
	R.Rule(rule, "finishSpeculativeLength turns  b[:pos] ++ <speculativeLength placeholder bytes> ++ payload  into  b[:pos] ++ varint(len(payload)) ++ payload  for every payload length: payload length, prefix size, grow-loop count, copy bounds, final length and prefix write are checked as linear forms over len(b), pos and msiz; appendSpeculativeLength reserves exactly speculativeLength bytes and returns their position", 8)
	for _, pkg := range []string{"proto"} {
		fa := c.need(rule, pkg+".appendSpeculativeLength")
		ff := c.need(rule, pkg+".finishSpeculativeLength")
		if fa == nil || ff == nil {
			continue
		}
		specObj, _ := ff.Pkg.Types.Scope().Lookup("speculativeLength").(*types.Const)
		if specObj == nil {
			R.Unk(rule, pkg+".speculativeLength", "", "constant not found")
			continue
		}
		spec, _ := constInt64Of(specObj)
		c.specLenFinish(rule, ff, spec)
		c.specLenAppend(rule, fa, spec)
	}
	_ = P
}

func constInt64Of(c *types.Const) (int64, bool) {
	v, ok := constantInt64(c.Val())
	return v, ok
}

func (c *Ctx) specLenAppend(rule string, fi *FuncInfo, spec int64) {
	R, P := c.R, c.P
	info := fi.Info()
	// pos := len(b); b = append(b, <spec bytes>...); return b, pos
	var bObj types.Object
	if ps := fi.Decl.Type.Params.List; len(ps) == 1 && len(ps[0].Names) == 1 {
		bObj = info.Defs[ps[0].Names[0]]
	}
	okPos, okApp, okRet := false, false, false
	var posObj types.Object
	appended := false
	for _, st := range fi.Decl.Body.List {
		switch s := st.(type) {
		case *ast.AssignStmt:
			if len(s.Lhs) == 1 && len(s.Rhs) == 1 {
				if call, ok := unparen(s.Rhs[0]).(*ast.CallExpr); ok {
					switch calleeKey(info, call) {
					case "builtin.len":
						if id, ok := unparen(call.Args[0]).(*ast.Ident); ok && info.Uses[id] == bObj && !appended {
							if l, ok := s.Lhs[0].(*ast.Ident); ok {
								posObj = info.Defs[l]
								okPos = posObj != nil
							}
						}
					case "builtin.append":
						appended = true
						n := int64(-1)
						if call.Ellipsis.IsValid() && len(call.Args) == 2 {
							if se, ok := unparen(call.Args[1]).(*ast.SliceExpr); ok && se.Low == nil && se.High != nil {
								if hv, ok := constInt(info, se.High); ok {
									if tv, ok := info.Types[se.X]; ok && tv.Value != nil && int64(len(constantString(tv.Value))) >= hv {
										n = hv
									}
								}
							}
						} else if !call.Ellipsis.IsValid() {
							n = int64(len(call.Args) - 1)
						}
						okApp = n == spec
					}
				}
			}
		case *ast.ReturnStmt:
			if len(s.Results) == 2 {
				if id, ok := unparen(s.Results[1]).(*ast.Ident); ok && info.Uses[id] == posObj {
					okRet = true
				}
			}
		}
	}
	R.Check(okPos, rule, fi.Key+" position", P.Pos(fi.Decl), "pos = len(b) before the placeholder", "the returned position is not len(b) taken before the placeholder bytes are appended")
	R.Check(okApp, rule, fi.Key+" placeholder", P.Pos(fi.Decl), "exactly speculativeLength bytes reserved", "the number of placeholder bytes appended is not speculativeLength ("+itoa64(spec)+")")
	R.Check(okRet, rule, fi.Key+" result", P.Pos(fi.Decl), "returns (b, pos)", "the position returned is not the recorded one")
}

func (c *Ctx) specLenFinish(rule string, fi *FuncInfo, spec int64) {
	R, P := c.R, c.P
	info := fi.Info()
	ps := fi.Decl.Type.Params.List
	var bObj, posObj types.Object
	var names []*ast.Ident
	for _, p := range ps {
		names = append(names, p.Names...)
	}
	if len(names) != 2 {
		R.Unk(rule, fi.Key, P.Pos(fi.Decl), "unexpected parameter list")
		return
	}
	bObj, posObj = info.Defs[names[0]], info.Defs[names[1]]
	env := &linEnv{info: info, vars: map[types.Object]linForm{}, lenB: map[types.Object]linForm{bObj: linTerm("len(b)")}}
	L0 := linTerm("len(b)")
	pos := linTerm(posObj.Name())
	payload := L0.add(pos, -1).add(linConst(spec), -1) // len(b) - pos - spec
	var mlenObj, msizObj types.Object
	var msiz linForm
	msizName := ""
	construct := func(s string) string { return fi.Key + " " + s }
	got := map[string]bool{}
	check := func(name string, ok bool, pos ast.Node, good, bad string) {
		got[name] = true
		R.Check(ok, rule, construct(name), P.Pos(pos), good, bad)
	}
	var doStmts func(list []ast.Stmt, inIf bool)
	doStmts = func(list []ast.Stmt, inIf bool) {
		for _, st := range list {
			switch s := st.(type) {
			case *ast.AssignStmt:
				if len(s.Lhs) != 1 || len(s.Rhs) != 1 {
					R.Unk(rule, construct("statement"), P.Pos(s), "unrecognised assignment")
					continue
				}
				lid, _ := s.Lhs[0].(*ast.Ident)
				if lid == nil {
					R.Unk(rule, construct("statement"), P.Pos(s), "unrecognised assignment target")
					continue
				}
				lo := info.Defs[lid]
				if lo == nil {
					lo = info.Uses[lid]
				}
				rhs := unparen(s.Rhs[0])
				// b = b[:hi]
				if se, ok := rhs.(*ast.SliceExpr); ok && lo == bObj {
					hi, okh := env.eval(se.High)
					if id, ok := unparen(se.X).(*ast.Ident); !ok || info.Uses[id] != bObj || se.Low != nil || !okh {
						R.Unk(rule, construct("trim"), P.Pos(s), "unrecognised reslice of b")
						continue
					}
					want := pos.add(msiz, 1).add(payload, 1)
					d := hi.add(want, -1)
					check("trim", d.isConst() && d.c == 0, s, "b = b[:pos + msiz + payload]", "the final length is "+hi.String()+" instead of pos + prefix size + payload length ("+want.String()+"): the result is truncated or carries stale bytes")
					// the new length must not exceed the current one
					over := env.lenB[bObj].add(hi, -1)
					overOK, _ := over.nonNegOver(msizName)
					check("trim within length", overOK, s, "within the grown length", "the reslice bound exceeds the length established by the grow loop by "+linConst(0).add(over, -1).String()+": bytes beyond the copied payload (whatever the spare capacity holds) become part of the output, or the reslice panics")
					env.lenB[bObj] = hi
					continue
				}
				if call, ok := rhs.(*ast.CallExpr); ok {
					switch calleeKey(info, call) {
					case "encoding/protowire.SizeVarint":
						a, oka := env.eval(call.Args[0])
						d := a.add(payload, -1)
						check("prefix size", oka && d.isConst() && d.c == 0, s, lid.Name+" = SizeVarint(payload length)", "the prefix size is computed from "+a.String()+" instead of the payload length "+payload.String())
						msizObj = lo
						msiz = linTerm(lid.Name)
						msizName = lid.Name
						continue
					}
				}
				if f, ok := env.eval(rhs); ok && lo != bObj {
					env.vars[lo] = f
					if mlenObj == nil {
						d := f.add(payload, -1)
						if d.isConst() && d.c == 0 {
							mlenObj = lo
							check("payload length", true, s, lid.Name+" = len(b) - pos - speculativeLength", "")
						}
					}
					continue
				}
				R.Unk(rule, construct("statement"), P.Pos(s), "unrecognised assignment "+exprStr(s.Lhs[0])+" = "+exprStr(rhs))
			case *ast.IfStmt:
				// if msiz != speculativeLength { … }: on the other path msiz == spec
				be, ok := unparen(s.Cond).(*ast.BinaryExpr)
				okc := false
				if ok && be.Op == token.NEQ && s.Else == nil && s.Init == nil {
					a, ok1 := env.eval(be.X)
					b, ok2 := env.eval(be.Y)
					if ok1 && ok2 && msizObj != nil {
						d := a.add(b, -1).add(msiz, -1).add(linConst(spec), 1)
						d2 := b.add(a, -1).add(msiz, -1).add(linConst(spec), 1)
						okc = (d.isConst() && d.c == 0) || (d2.isConst() && d2.c == 0)
					}
				}
				check("fast path", okc, s, "the move is skipped exactly when msiz == speculativeLength", "the condition that skips the move is not `msiz != speculativeLength`: when the prefix size differs from the placeholder the payload must be moved")
				doStmts(s.Body.List, true)
			case *ast.ForStmt:
				// for i := 0; i < N; i++ { b = append(b, x) }
				okLoop := false
				var N linForm
				if as, ok := s.Init.(*ast.AssignStmt); ok && len(as.Lhs) == 1 && len(as.Rhs) == 1 {
					if z, ok := constInt(info, as.Rhs[0]); ok && z == 0 {
						if be, ok := unparen(s.Cond).(*ast.BinaryExpr); ok && be.Op == token.LSS {
							if inc, ok := s.Post.(*ast.IncDecStmt); ok && inc.Tok == token.INC && len(s.Body.List) == 1 {
								if ba, ok := s.Body.List[0].(*ast.AssignStmt); ok && len(ba.Rhs) == 1 {
									if call, ok := unparen(ba.Rhs[0]).(*ast.CallExpr); ok && calleeKey(info, call) == "builtin.append" && len(call.Args) == 2 && !call.Ellipsis.IsValid() {
										if n, ok := env.eval(be.Y); ok {
											N, okLoop = n, true
										}
									}
								}
							}
						}
					}
				}
				if !okLoop {
					R.Unk(rule, construct("room"), P.Pos(s), "grow loop not of the form `for i := 0; i < N; i++ { b = append(b, x) }`")
					continue
				}
				need := msiz.add(linConst(spec), -1)
				d := N.add(need, -1)
				roomOK, _ := d.nonNegOver(msizName)
				check("room", roomOK, s, "the loop appends "+N.String()+" ≥ msiz - speculativeLength bytes", "the grow loop appends "+N.String()+" bytes but the prefix needs "+need.String()+" more than the placeholder: for payloads whose length needs a longer varint the move runs out of room (truncated copy, stale bytes in the output)")
				// the loop adds max(0, N); with N ≥ need this is at least need: track the guaranteed growth
				env.lenB[bObj] = env.lenB[bObj].add(N, 1)
			case *ast.ExprStmt:
				call, ok := s.X.(*ast.CallExpr)
				if !ok {
					R.Unk(rule, construct("statement"), P.Pos(s), "unrecognised statement")
					continue
				}
				switch calleeKey(info, call) {
				case "builtin.copy":
					dst, ok1 := unparen(call.Args[0]).(*ast.SliceExpr)
					src, ok2 := unparen(call.Args[1]).(*ast.SliceExpr)
					good := false
					detail := "copy is not of the form copy(b[pos+msiz:], b[pos+speculativeLength:])"
					if ok1 && ok2 && dst.High == nil && src.High == nil && dst.Low != nil && src.Low != nil {
						dl, okd := env.eval(dst.Low)
						sl, oks := env.eval(src.Low)
						if okd && oks {
							d1 := dl.add(pos, -1).add(msiz, -1)
							d2 := sl.add(pos, -1).add(linConst(spec), -1)
							room := env.lenB[bObj].add(dl, -1).add(payload, -1)
							switch {
							case !(d1.isConst() && d1.c == 0):
								detail = "the payload is moved to offset " + dl.String() + " instead of pos + msiz: it does not follow the prefix"
							case !(d2.isConst() && d2.c == 0):
								detail = "the payload is read from offset " + sl.String() + " instead of pos + speculativeLength"
							case !func() bool { ok, _ := room.nonNegOver(msizName); return ok }():
								detail = "the destination b[" + dl.String() + ":] is " + linConst(0).add(room, -1).String() + " bytes shorter than the payload: copy truncates it"
							default:
								good = true
							}
						}
					}
					check("move", good, s, "copy(b[pos+msiz:], b[pos+speculativeLength:]) with room for the payload", detail)
				case "encoding/protowire.AppendVarint":
					good := false
					if se, ok := unparen(call.Args[0]).(*ast.SliceExpr); ok && se.Low == nil && se.High != nil {
						hi, okh := env.eval(se.High)
						v, okv := env.eval(call.Args[1])
						if okh && okv {
							d1 := hi.add(pos, -1)
							d2 := v.add(payload, -1)
							good = d1.isConst() && d1.c == 0 && d2.isConst() && d2.c == 0
						}
					}
					check("write", good && !inIf, s, "AppendVarint(b[:pos], payload length) on every path", "the prefix written is not the varint of the payload length at b[pos:], or it is not written on every path")
				default:
					R.Unk(rule, construct("statement"), P.Pos(s), "unrecognised call "+exprStr(call.Fun))
				}
			case *ast.ReturnStmt:
				good := false
				if len(s.Results) == 1 {
					if id, ok := unparen(s.Results[0]).(*ast.Ident); ok && info.Uses[id] == bObj {
						good = true
					}
				}
				check("result", good, s, "returns b", "does not return the adjusted buffer")
			default:
				R.Unk(rule, construct("statement"), P.Pos(st), "unrecognised statement kind")
			}
		}
	}
	doStmts(fi.Decl.Body.List, false)
	for _, need := range []string{"payload length", "prefix size", "fast path", "room", "move", "trim", "write", "result"} {
		if !got[need] {
			R.Bad(rule, construct(need), P.Pos(fi.Decl), "step `"+need+"` of the speculative-length protocol was not found in the function")
		}
	}
}

func constantInt64(v constant.Value) (int64, bool) {
	if v == nil || v.Kind() != constant.Int {
		return 0, false
	}
	return constant.Int64Val(v)
}

func constantString(v constant.Value) string {
	if v == nil || v.Kind() != constant.String {
		return ""
	}
	return constant.StringVal(v)
}
