package main

import (
	"go/ast"
	"go/types"
)

// nondetGuardImpl: facts establishing that deterministic output was not requested.
func nondetGuard(info *types.Info, core ast.Expr, val bool) bool {
	switch x := unparen(core).(type) {
	case *ast.CallExpr:
		switch calleeKey(info, x) {
		case "internal/impl.marshalOptions.Deterministic":
			return !val
		case "internal/impl.lazyFields", "internal/impl.fullyLazyExtensions":
			return val
		}
	case *ast.SelectorExpr:
		if _, f, ok := fieldSel(info, x); ok && f == "Deterministic" {
			return !val
		}
	case *ast.BinaryExpr:
		// order package: `less == nil` means the caller did not ask for an order
		if x.Op.String() == "==" && isNilIdent(info, x.Y) {
			if tv, ok := info.Types[x.X]; ok {
				n := namedTypeName(tv.Type)
				if n == "internal/order.FieldOrder" || n == "internal/order.KeyOrder" {
					return val
				}
			}
		}
	}
	return false
}

func init() {
	register(&Property{
		ID:         "C05",
		Level:      "other",
		Technique:  "unordered-iteration classification (commutative / collect-then-sort / non-deterministic-only / single-entry) + option-bridge rule (static)",
		Explain:    "Decides structural necessary conditions of `deterministic marshaling is a function of content`: (1) every iteration over a Go map / reflect map / direct Message.Range / Map.Range in the binary marshal and ordering packages is commutative, sorted before use, single-entry, or control-dependent on determinism being off; (2) the Deterministic option survives every conversion between proto.MarshalOptions, protoiface flags and impl.marshalOptions (so nested re-entries keep it); (3) raw lazy pass-through is taken only when determinism is off; (4) both deterministic map-key comparators order keys by the direct comparison of the key kind's own value. Also: the options rebuilt for messages without a MessageInfo (impl.marshalOptions.Options / unmarshalOptions.Options) carry every option of the proto package from the flag of the same name (Deterministic reaches legacy and dynamic children).",
		NotCovered: "the converse direction (identical deterministic bytes imply Equal) and cross-version stability; only iteration-order and option-propagation clauses are decided.",
		Quick:      all("./proto", "./internal/impl", "./internal/order"),
		Thorough:   allAndLegacy("./proto", "./internal/impl", "./internal/order"),
		Run: func(c *Ctx) {
			c.ruleOptionsForward("R-OPTIONS-FORWARD")
			c.ruleEqualExtSymmetry("R-EQUAL-EXT-SYMMETRY")
			c.ruleMergeClass("R-MERGE-CLASS", 60)
			c.ruleOrder("R-ORDER", []string{"proto", "internal/impl", "internal/order", "internal/encoding/messageset"}, orderOpts{NondetGuard: nondetGuard, Floor: 6, Exempt: orderExemptCore, Filter: marshalPathFunc})
			c.ruleOrderArg("R-ORDER-ARG", []string{"proto"}, false, 3)
			c.ruleOptsBridge("R-OPTS-BRIDGE", "marshal")
			c.ruleLazyPassthrough("R-LAZY-PASSTHROUGH")
			c.ruleMapKeyOrder("R-MAPKEY-ORDER")
		},
	})
}

var orderExemptCore = map[string]string{}

// marshalPathFunc: functions that produce output bytes (append-style: first
// result is []byte or a MarshalOutput) and everything in internal/order.
func marshalPathFunc(fi *FuncInfo) bool {
	if shortPkg(fi.Pkg.PkgPath) == "internal/order" {
		return true
	}
	sig := fi.Obj.Type().(*types.Signature)
	return sig.Results().Len() > 0 && isAppendResult(sig.Results().At(0).Type())
}
