package main

import (
	"go/ast"
	"go/token"
	"go/types"
)

func init() {
	register(&Property{
		ID:         "C27",
		Level:      "other",
		Technique:  "CFG dominance: size bound before allocation/peek, sign test before use of the decoded size, error-identity conditions on every return of the reader, prefix/body agreement in the writer (static)",
		Explain:    "Decides structural necessary conditions of size-delimited framing: (1) in UnmarshalFrom every allocation, Peek or Discard sized by the decoded length is dominated by the rejection of lengths above MaxSize (or above MaxInt when unlimited) and by the `n < 0` rejection of a malformed/truncated size varint; (2) a raw read error can be returned from the size loop only when it is not io.EOF or no size byte was read yet (clean boundary), and after the body read io.EOF is converted to io.ErrUnexpectedEOF before any error return, with Unmarshal reached only when the body was read completely; (3) in MarshalTo the varint prefix is the length of exactly the byte slice written after it, prefix first. Also: every path of UnmarshalFrom to `return nil` passes through o.Unmarshal (an empty frame still resets the destination).",
		NotCovered: "order and equality of messages on concrete streams, behaviour of third-party Reader implementations, and that ParseError maps a truncated varint to io.ErrUnexpectedEOF (protowire, C02).",
		Quick:      all("./encoding/protodelim"),
		Thorough:   all("./..."),
		Run: func(c *Ctx) {
			c.ruleDelim("R-DELIM")
		},
	})
}

func isIOEOF(info *types.Info, e ast.Expr) bool {
	o := objOf(info, e)
	return o != nil && o.Pkg() != nil && o.Pkg().Path() == "io" && o.Name() == "EOF"
}

func (c *Ctx) ruleDelim(rule string) {
	R, P := c.R, c.P
	R.Rule(rule, "protodelim framing discipline (size bound and sign test dominate every use of the decoded size; error identity on every return; prefix is the length of the bytes written after it; success only through o.Unmarshal)", 9)
	fi := c.need(rule, "encoding/protodelim.UnmarshalOptions.UnmarshalFrom")
	if fi != nil {
		info := fi.Info()
		g := fi.CFG()
		// the decoded size and count: size, n := protowire.ConsumeVarint(...)
		var sizeObj, nObj types.Object
		walk(fi.Decl.Body, func(x ast.Node) bool {
			if as, ok := x.(*ast.AssignStmt); ok && len(as.Lhs) == 2 && len(as.Rhs) == 1 {
				if _, ok := isCall(info, unparen(as.Rhs[0]), "encoding/protowire.ConsumeVarint"); ok {
					sizeObj, nObj = objOf(info, as.Lhs[0]), objOf(info, as.Lhs[1])
				}
			}
			return true
		})
		if sizeObj == nil {
			R.Unk(rule, fi.Key, P.Pos(fi.Decl), "`size, n := protowire.ConsumeVarint(...)` not found")
		} else {
			// sinks: make([]byte, size...), Peek(int(size)), Discard(int(size))
			k := 0
			walkAll(fi.Decl.Body, func(x ast.Node) bool {
				call, ok := x.(*ast.CallExpr)
				if !ok {
					return true
				}
				isSink := false
				if id, ok := call.Fun.(*ast.Ident); ok && id.Name == "make" {
					isSink = true
				}
				switch calleeKey(info, call) {
				case "bufio.(*Reader).Peek", "bufio.(*Reader).Discard", "io.ReadFull", "io.ReadAtLeast", "io.CopyN":
					isSink = true
				}
				if !isSink {
					return true
				}
				uses := false
				for _, a := range call.Args {
					if usesObj(info, a, sizeObj) {
						uses = true
					}
				}
				if !uses {
					return true
				}
				k++
				construct := fi.Key + " sized use #" + itoa(k)
				bound := g.DominatedByCond(call, func(core ast.Expr, val bool) bool {
					be, ok := unparen(core).(*ast.BinaryExpr)
					if !ok || val {
						return false
					}
					if be.Op == token.GTR && objOf(info, be.X) == sizeObj {
						return true
					}
					return be.Op == token.LSS && objOf(info, be.Y) == sizeObj
				})
				sign := g.DominatedByCond(call, func(core ast.Expr, val bool) bool {
					be, ok := unparen(core).(*ast.BinaryExpr)
					if !ok || val || be.Op != token.LSS || objOf(info, be.X) != nObj {
						return false
					}
					v, ok := constInt(info, be.Y)
					return ok && v == 0
				})
				switch {
				case !bound:
					R.Bad(rule, construct, P.Pos(call), "the decoded size reaches an allocation/peek on a path that did not reject sizes above the limit: a hostile prefix allocates up to 2^64 bytes or panics in make")
				case !sign:
					R.Bad(rule, construct, P.Pos(call), "the decoded size is used although ConsumeVarint's error result (n < 0) was not rejected first")
				default:
					R.OK(rule, construct, P.Pos(call), "dominated by the size limit test and by n < 0 rejection")
				}
				return true
			})
			if k == 0 {
				R.Unk(rule, fi.Key+" sized uses", P.Pos(fi.Decl), "no allocation/peek sized by the decoded length found")
			}
		}
		// returns of a raw error variable
		var loop *ast.RangeStmt
		walk(fi.Decl.Body, func(x ast.Node) bool {
			if rs, ok := x.(*ast.RangeStmt); ok && loop == nil && containsCall(info, rs.Body, "io.ByteReader.ReadByte", "encoding/protodelim.Reader.ReadByte") != nil {
				loop = rs
			}
			return true
		})
		if loop == nil {
			R.Unk(rule, fi.Key+" size loop", P.Pos(fi.Decl), "byte-wise size loop not found")
		}
		iObj := types.Object(nil)
		if loop != nil && loop.Key != nil {
			iObj = objOf(info, loop.Key)
		}
		r := 0
		readerDefs := localDefs(fi.Decl.Body, info)
		walk(fi.Decl.Body, func(x ast.Node) bool {
			rs, ok := x.(*ast.ReturnStmt)
			if !ok || len(rs.Results) != 1 {
				return true
			}
			id, ok := unparen(rs.Results[0]).(*ast.Ident)
			if !ok || id.Name == "nil" {
				return true
			}
			ev := info.Uses[id]
			if ev == nil || !types.Identical(ev.Type(), types.Universe.Lookup("error").Type()) {
				return true
			}
			fromReader := false
			for _, d := range readerDefs[ev] {
				if containsCall(info, d.rhs, "io.ByteReader.ReadByte", "encoding/protodelim.Reader.ReadByte", "bufio.(*Reader).Peek", "io.ReadFull", "io.Reader.Read", "bufio.(*Reader).Read", "bufio.(*Reader).ReadByte") != nil {
					fromReader = true
				}
			}
			if !fromReader {
				return true // not an error produced by reading the stream (e.g. Unmarshal's own error)
			}
			r++
			construct := fi.Key + " raw error return #" + itoa(r)
			if loop != nil && containsNode(loop, rs) {
				// inside the size loop: allowed iff not (err == io.EOF && i != 0)
				ok := g.DominatedByCond(rs, func(core ast.Expr, val bool) bool {
					be, isBE := unparen(core).(*ast.BinaryExpr)
					if !isBE || val {
						return false
					}
					if be.Op == token.EQL && objOf(info, be.X) == ev && isIOEOF(info, be.Y) {
						return true
					}
					if be.Op == token.NEQ && iObj != nil && objOf(info, be.X) == iObj {
						v, isC := constInt(info, be.Y)
						return isC && v == 0
					}
					return false
				})
				R.Check(ok, rule, construct, P.Pos(rs), "returned only when err != io.EOF or no size byte was read", "io.EOF can be returned from inside a partially read size prefix: a truncated stream would look like a clean end")
			} else {
				ok := g.DominatedByCond(rs, func(core ast.Expr, val bool) bool {
					be, isBE := unparen(core).(*ast.BinaryExpr)
					return isBE && !val && be.Op == token.EQL && objOf(info, be.X) == ev && isIOEOF(info, be.Y)
				})
				R.Check(ok, rule, construct, P.Pos(rs), "io.EOF was converted to io.ErrUnexpectedEOF before this return", "after the size was read a raw io.EOF can be returned: truncation inside a body would look like a clean end")
			}
			return true
		})
		if r < 2 {
			R.Unk(rule, fi.Key+" raw error returns", P.Pos(fi.Decl), "expected a raw error return in the size loop and one after the body read")
		}
		// Unmarshal reached only when the body read reported no error
		for i, call := range allCalls(info, fi.Decl.Body, "proto.UnmarshalOptions.Unmarshal") {
			ok := g.DominatedByCond(call, func(core ast.Expr, val bool) bool {
				be, isBE := unparen(core).(*ast.BinaryExpr)
				return isBE && !val && be.Op == token.NEQ && isNilIdent(info, be.Y) && objOf(info, be.X) != nil && objOf(info, be.X).Name() == "err"
			})
			R.Check(ok, rule, fi.Key+" unmarshal #"+itoa(i+1), P.Pos(call), "decodes only a completely read body", "Unmarshal is reached although the body read may have failed: a short body would be decoded")
		}
	}
	if fi := c.need(rule, "encoding/protodelim.UnmarshalOptions.UnmarshalFrom"); fi != nil {
		// success only through Unmarshal: an empty frame still has to reset the
		// destination and check required fields
		info := fi.Info()
		g := fi.CFG()
		k := 0
		walk(fi.Decl.Body, func(x ast.Node) bool {
			rs, ok := x.(*ast.ReturnStmt)
			if !ok || len(rs.Results) != 1 || !isNilIdent(info, rs.Results[0]) {
				return true
			}
			k++
			ok = g.DominatedByNode(rs, func(n ast.Node) bool {
				return containsCall(info, n, "proto.UnmarshalOptions.Unmarshal") != nil
			})
			R.Check(ok, rule, fi.Key+" success return #"+itoa(k), P.Pos(rs), "every path to `return nil` passes through o.Unmarshal", "UnmarshalFrom can report success without calling o.Unmarshal: for such a frame (e.g. an empty message) the destination keeps its previous content and required fields are not checked, so a reused destination does not read back the written sequence")
			return true
		})
		if k == 0 {
			R.Unk(rule, fi.Key+" success return", P.Pos(fi.Decl), "no `return nil` found")
		}
	}
	if fi := c.need(rule, "encoding/protodelim.MarshalOptions.MarshalTo"); fi != nil {
		info := fi.Info()
		g := fi.CFG()
		defs := localDefs(fi.Decl.Body, info)
		var writes []*ast.CallExpr
		walk(fi.Decl.Body, func(x ast.Node) bool {
			if call, ok := x.(*ast.CallExpr); ok && calleeKey(info, call) == "io.Writer.Write" {
				writes = append(writes, call)
			}
			return true
		})
		if len(writes) != 2 {
			R.Unk(rule, fi.Key, P.Pos(fi.Decl), "expected exactly two Write calls (prefix, body)")
		} else {
			prefObj, bodyObj := objOf(info, writes[0].Args[0]), objOf(info, writes[1].Args[0])
			good := false
			if prefObj != nil && bodyObj != nil && len(defs[prefObj]) == 1 {
				if call, ok := isCall(info, unparen(defs[prefObj][0].rhs), "encoding/protowire.AppendVarint"); ok && len(call.Args) == 2 {
					// uint64(len(body))
					if conv, ok := unparen(call.Args[1]).(*ast.CallExpr); ok && len(conv.Args) == 1 {
						if ln, ok := unparen(conv.Args[0]).(*ast.CallExpr); ok && len(ln.Args) == 1 {
							if id, ok := ln.Fun.(*ast.Ident); ok && id.Name == "len" && objOf(info, ln.Args[0]) == bodyObj && isNilIdent(info, call.Args[0]) {
								good = true
							}
						}
					}
				}
			}
			R.Check(good, rule, fi.Key+" prefix", P.Pos(writes[0]), "prefix = AppendVarint(nil, uint64(len(body))) of the slice written next", "the size prefix is not the varint length of exactly the bytes written after it")
			order := g.DominatedByNode(writes[1], func(n ast.Node) bool { return containsNode(n, writes[0]) })
			R.Check(order, rule, fi.Key+" order", P.Pos(writes[1]), "prefix written before body", "the body can be written without the prefix having been written first")
		}
	}
}
