package main

import (
	"go/ast"
	"go/token"
	"go/types"
	"strings"
)

// R-BYTES-PREFIX: AppendBytes/AppendString write varint(len(v)) followed by v,
// and SizeBytes(n) is SizeVarint(n)+n. A single-byte fast path for the prefix
// is a varint only for lengths below 0x80 (0x80 itself is a continuation byte).
func (c *Ctx) ruleBytesPrefix(rule string) {
	R, P := c.R, c.P
	R.Rule(rule, "every return of protowire.AppendBytes/AppendString is append(prefix, v...) where prefix is AppendVarint(b, uint64(len(v))) or, under a guard that implies len(v) < 0x80, append(b, byte(len(v))); SizeBytes(n) returns SizeVarint(uint64(n)) + n", 3)
	for _, name := range []string{"AppendBytes", "AppendString"} {
		fi := c.need(rule, "encoding/protowire."+name)
		if fi == nil {
			continue
		}
		info := fi.Info()
		var bObj, vObj types.Object
		i := 0
		for _, f := range fi.Decl.Type.Params.List {
			for _, nm := range f.Names {
				if i == 0 {
					bObj = info.Defs[nm]
				} else {
					vObj = info.Defs[nm]
				}
				i++
			}
		}
		isObj := func(e ast.Expr, o types.Object) bool {
			id, ok := unparen(e).(*ast.Ident)
			return ok && info.Uses[id] == o
		}
		isLenV := func(e ast.Expr) bool {
			call, ok := unparen(e).(*ast.CallExpr)
			if !ok || len(call.Args) != 1 {
				return false
			}
			if tv, ok := info.Types[call.Fun]; ok && tv.IsType() { // conversion
				call, ok = unparen(call.Args[0]).(*ast.CallExpr)
				if !ok || len(call.Args) != 1 {
					return false
				}
			}
			return calleeKey(info, call) == "builtin.len" && isObj(call.Args[0], vObj)
		}
		nret := 0
		var problems []string
		walk(fi.Decl.Body, func(n ast.Node) bool {
			rs, ok := n.(*ast.ReturnStmt)
			if !ok || len(rs.Results) != 1 {
				return true
			}
			nret++
			outer, ok := unparen(rs.Results[0]).(*ast.CallExpr)
			if !ok || calleeKey(info, outer) != "builtin.append" || len(outer.Args) != 2 || !outer.Ellipsis.IsValid() || !isObj(outer.Args[1], vObj) {
				problems = append(problems, "returns `"+exprStr(rs.Results[0])+"`, which is not append(prefix, v...)")
				return true
			}
			pre, ok := unparen(outer.Args[0]).(*ast.CallExpr)
			if !ok {
				problems = append(problems, "prefix `"+exprStr(outer.Args[0])+"` not recognised")
				return true
			}
			switch calleeKey(info, pre) {
			case "encoding/protowire.AppendVarint":
				if len(pre.Args) != 2 || !isObj(pre.Args[0], bObj) || !isLenV(pre.Args[1]) {
					problems = append(problems, "the varint prefix is `"+exprStr(pre)+"`, not AppendVarint(b, uint64(len(v)))")
				}
			case "builtin.append":
				if len(pre.Args) != 2 || !isObj(pre.Args[0], bObj) || !isLenV(pre.Args[1]) {
					problems = append(problems, "the one-byte prefix is `"+exprStr(pre)+"`, not append(b, byte(len(v)))")
					break
				}
				// the guard has to imply len(v) < 0x80
				implied := false
				pm := parentMap(fi.Decl.Body)
				var cur ast.Node = rs
				for p := pm[cur]; p != nil; cur, p = p, pm[p] {
					is, ok := p.(*ast.IfStmt)
					if !ok || cur != ast.Node(is.Body) {
						continue
					}
					for _, cj := range conjuncts(is.Cond) {
						be, ok := cj.(*ast.BinaryExpr)
						if !ok {
							continue
						}
						x, y, op := be.X, be.Y, be.Op
						if !isLenV(x) && isLenV(y) {
							x, y, op = y, x, flipCmp(op)
						}
						k, isC := constInt(info, y)
						if !isLenV(x) || !isC {
							continue
						}
						if (op == token.LSS && k <= 0x80) || (op == token.LEQ && k <= 0x7f) {
							implied = true
						}
					}
				}
				if !implied {
					problems = append(problems, "the one-byte prefix append(b, byte(len(v))) is used without a guard implying len(v) < 0x80: for len(v) = 128 the byte 0x80 is a varint continuation byte, so the written length differs from SizeBytes and ConsumeBytes does not return v")
				}
			default:
				problems = append(problems, "prefix `"+exprStr(pre)+"` not recognised")
			}
			return true
		})
		if nret == 0 {
			problems = append(problems, "no return found")
		}
		R.Check(len(problems) == 0, rule, fi.Key, P.Pos(fi.Decl), "varint(len(v)) ++ v on every return", strings.Join(uniqStrings(problems), "; "))
	}
	if fi := c.need(rule, "encoding/protowire.SizeBytes"); fi != nil {
		info := fi.Info()
		good := false
		walk(fi.Decl.Body, func(n ast.Node) bool {
			rs, ok := n.(*ast.ReturnStmt)
			if !ok || len(rs.Results) != 1 {
				return true
			}
			be, ok := unparen(rs.Results[0]).(*ast.BinaryExpr)
			if !ok || be.Op != token.ADD {
				return true
			}
			for _, pair := range [][2]ast.Expr{{be.X, be.Y}, {be.Y, be.X}} {
				call, ok := unparen(pair[0]).(*ast.CallExpr)
				if ok && calleeKey(info, call) == "encoding/protowire.SizeVarint" && len(call.Args) == 1 {
					if conv, ok := unparen(call.Args[0]).(*ast.CallExpr); ok && len(conv.Args) == 1 && exprStr(conv.Args[0]) == exprStr(pair[1]) {
						if _, isId := unparen(pair[1]).(*ast.Ident); isId {
							good = true
						}
					}
				}
			}
			return true
		})
		R.Check(good, rule, fi.Key, P.Pos(fi.Decl), "SizeVarint(uint64(n)) + n", "SizeBytes does not return SizeVarint(uint64(n)) + n")
	}
}

func conjuncts(e ast.Expr) []ast.Expr {
	if be, ok := unparen(e).(*ast.BinaryExpr); ok && be.Op == token.LAND {
		return append(conjuncts(be.X), conjuncts(be.Y)...)
	}
	return []ast.Expr{unparen(e)}
}

// R-DEPTH-PER-LEVEL: the recursion budget of protowire.consumeFieldValueD is a
// budget of nesting depth. The parameter is passed down decremented and never
// assigned, so the members of one group all see the same remaining depth.
func (c *Ctx) ruleDepthPerLevel(rule string) {
	R, P := c.R, c.P
	R.Rule(rule, "protowire.consumeFieldValueD never assigns its depth parameter (no depth--, depth -= k, depth = …) and every recursive call passes depth - k with a constant k >= 1", 2)
	fi := c.need(rule, "encoding/protowire.consumeFieldValueD")
	if fi == nil {
		return
	}
	info := fi.Info()
	var depth types.Object
	for _, f := range fi.Decl.Type.Params.List {
		for _, nm := range f.Names {
			if nm.Name == "depth" {
				depth = info.Defs[nm]
			}
		}
	}
	if depth == nil {
		R.Unk(rule, fi.Key, P.Pos(fi.Decl), "parameter depth not found")
		return
	}
	var assigned ast.Node
	walkAll(fi.Decl.Body, func(n ast.Node) bool {
		switch x := n.(type) {
		case *ast.IncDecStmt:
			if id, ok := unparen(x.X).(*ast.Ident); ok && info.Uses[id] == depth {
				assigned = x
			}
		case *ast.AssignStmt:
			for _, l := range x.Lhs {
				if id, ok := unparen(l).(*ast.Ident); ok && info.Uses[id] == depth {
					assigned = x
				}
			}
		}
		return true
	})
	if assigned != nil {
		R.Bad(rule, fi.Key+" depth parameter", P.Pos(assigned), "the depth parameter is modified inside the function: inside the group loop the decrement is carried over to the following members, so a group with many sibling sub-groups exhausts the recursion limit although its nesting depth is small, and ConsumeGroup rejects what AppendGroup wrote")
	} else {
		R.OK(rule, fi.Key+" depth parameter", P.Pos(fi.Decl), "never assigned")
	}
	n := 0
	walkAll(fi.Decl.Body, func(x ast.Node) bool {
		call, ok := x.(*ast.CallExpr)
		if !ok || calleeKey(info, call) != "encoding/protowire.consumeFieldValueD" || len(call.Args) != 4 {
			return true
		}
		n++
		good := false
		if be, ok := unparen(call.Args[3]).(*ast.BinaryExpr); ok && be.Op == token.SUB {
			if id, ok := unparen(be.X).(*ast.Ident); ok && info.Uses[id] == depth {
				if k, ok := constInt(info, be.Y); ok && k >= 1 {
					good = true
				}
			}
		}
		R.Check(good, rule, fi.Key+" recursive call#"+itoa(n), P.Pos(call), "passes depth-1", "the recursive call passes `"+exprStr(call.Args[3])+"` as remaining depth, which is not the parameter decremented by a positive constant")
		return true
	})
	if n == 0 {
		R.Unk(rule, fi.Key+" recursive call", P.Pos(fi.Decl), "no recursive call found")
	}
}

// R-LEN-NARROW-GUARDED: a length decoded by ConsumeVarint is a uint64. It may
// be narrowed to int only after it was compared, as a uint64, with the number
// of bytes that remain; narrowing first turns lengths of 2^63 and above into
// negative ints that pass a signed bound test, and the slice expression that
// follows panics.
func (c *Ctx) ruleLenNarrowGuarded(rule string, pkg string, floor int) {
	R, P := c.R, c.P
	R.Rule(rule, "in "+pkg+" every conversion to a signed integer type of a value that ConsumeVarint decoded is dominated by the failing edge of `v > uint64(len(…))` (or the passing edge of `v <= uint64(len(…))`)", floor)
	for _, fi := range P.FuncsIn(pkg) {
		if fi.Decl.Body == nil {
			continue
		}
		info := fi.Info()
		decoded := map[types.Object]bool{}
		walkAll(fi.Decl.Body, func(n ast.Node) bool {
			as, ok := n.(*ast.AssignStmt)
			if !ok || len(as.Rhs) != 1 || len(as.Lhs) != 2 {
				return true
			}
			if call, ok := unparen(as.Rhs[0]).(*ast.CallExpr); ok && calleeKey(info, call) == "encoding/protowire.ConsumeVarint" {
				if o := objOf(info, as.Lhs[0]); o != nil {
					decoded[o] = true
				}
			}
			return true
		})
		if len(decoded) == 0 {
			continue
		}
		var g *FCFG
		k := 0
		walkAll(fi.Decl.Body, func(n ast.Node) bool {
			call, ok := n.(*ast.CallExpr)
			if !ok || len(call.Args) != 1 {
				return true
			}
			tv, ok := info.Types[call.Fun]
			if !ok || !tv.IsType() {
				return true
			}
			bt, ok := tv.Type.Underlying().(*types.Basic)
			if !ok || bt.Info()&types.IsInteger == 0 || bt.Info()&types.IsUnsigned != 0 {
				return true
			}
			o := objOf(info, call.Args[0])
			if o == nil || !decoded[o] {
				return true
			}
			k++
			if g == nil {
				g = fi.CFG()
			}
			bounded := g.DominatedByCond(call, func(core ast.Expr, val bool) bool {
				be, ok := unparen(core).(*ast.BinaryExpr)
				if !ok {
					return false
				}
				x, y, op := be.X, be.Y, be.Op
				if objOf(info, x) != o && objOf(info, y) == o {
					x, y, op = y, x, flipCmp(op)
				}
				if objOf(info, x) != o {
					return false
				}
				// the other side: uint64(len(...))
				conv, ok := unparen(y).(*ast.CallExpr)
				if !ok || len(conv.Args) != 1 {
					return false
				}
				if ln, ok := unparen(conv.Args[0]).(*ast.CallExpr); !ok || calleeKey(info, ln) != "builtin.len" {
					return false
				}
				return (op == token.GTR && !val) || (op == token.LEQ && val)
			})
			R.Check(bounded, rule, fi.Key+" narrows "+o.Name()+" #"+itoa(k), P.Pos(call), "after the unsigned bound test", "the decoded length `"+o.Name()+"` is converted to "+bt.Name()+" before it was compared as a uint64 with the remaining input: a length of 2^63 or more becomes negative (or the sum overflows), the signed bound test passes and the slice expression panics instead of reporting truncated input")
			return true
		})
	}
}

// R-CONSUMETAG-EXACT: ConsumeTag fails for exactly two reasons: ConsumeVarint
// failed (its code is forwarded) or the field number is below MinValidNumber.
// Any other rejection refuses a well-formed tag (e.g. one whose varint is padded
// to more than five bytes, which the wire grammar allows up to ten).
func (c *Ctx) ruleConsumeTagExact(rule string) {
	R, P := c.R, c.P
	R.Rule(rule, "every error return of protowire.ConsumeTag is guarded by `n < 0` (forwarding ConsumeVarint's code) or by `num < MinValidNumber`; there is no other reason to reject", 2)
	fi := c.need(rule, "encoding/protowire.ConsumeTag")
	if fi == nil {
		return
	}
	info := fi.Info()
	k := 0
	walk(fi.Decl.Body, func(n ast.Node) bool {
		rs, ok := n.(*ast.ReturnStmt)
		if !ok || len(rs.Results) != 3 {
			return true
		}
		g := enclosingGuards(fi.Decl.Body, rs)
		if g == "" {
			return true // the success return
		}
		k++
		allowed := false
		for _, want := range []string{"n < 0", "0 > n", "num < MinValidNumber", "MinValidNumber > num", "num <= 0", "num < 1"} {
			if g == want {
				allowed = true
			}
		}
		_ = info
		R.Check(allowed, rule, fi.Key+" error return under `"+g+"`", P.Pos(rs), "a rejection the wire grammar asks for", "ConsumeTag rejects input under `"+g+"`, which is neither a malformed varint nor an invalid field number: well-formed tags (the grammar allows tag varints of up to ten bytes) are refused by ConsumeTag, ConsumeField, ConsumeFieldValue and ConsumeGroup")
		return true
	})
	if k < 2 {
		R.Unk(rule, fi.Key, P.Pos(fi.Decl), "expected the two error returns (varint error, field number)")
	}
}

// R-PARSE-WIDTH: json.Token.Int(bitSize)/Uint(bitSize) range-check the number
// for bitSize bits and return a 64-bit value. Narrowing that value to a type of
// fewer bits is exact only if the parse was asked for at most that many bits:
// a constant bitSize no larger than the target, or a variable bitSize tested
// equal to the target width on the path.
func (c *Ctx) ruleParseWidth(rule string, pkg string, floor int) {
	R, P := c.R, c.P
	R.Rule(rule, "in "+pkg+" every conversion of a value parsed by json.Token.Int(k)/Uint(k) to an integer type of w < 64 bits has k <= w: k constant, or the conversion dominated by `k == w`", floor)
	width := func(t types.Type) int {
		b, ok := t.Underlying().(*types.Basic)
		if !ok {
			return 0
		}
		switch b.Kind() {
		case types.Int8, types.Uint8:
			return 8
		case types.Int16, types.Uint16:
			return 16
		case types.Int32, types.Uint32:
			return 32
		case types.Int64, types.Uint64, types.Int, types.Uint:
			return 64
		}
		return 0
	}
	for _, fi := range P.FuncsIn(pkg) {
		if fi.Decl.Body == nil {
			continue
		}
		info := fi.Info()
		parsed := map[types.Object]ast.Expr{} // value → bitSize argument
		walkAll(fi.Decl.Body, func(n ast.Node) bool {
			as, ok := n.(*ast.AssignStmt)
			if !ok || len(as.Rhs) != 1 || len(as.Lhs) != 2 {
				return true
			}
			call, ok := unparen(as.Rhs[0]).(*ast.CallExpr)
			if !ok || len(call.Args) != 1 {
				return true
			}
			k := calleeKey(info, call)
			if k == "internal/encoding/json.Token.Int" || k == "internal/encoding/json.Token.Uint" {
				if o := objOf(info, as.Lhs[0]); o != nil {
					parsed[o] = call.Args[0]
				}
			}
			return true
		})
		if len(parsed) == 0 {
			continue
		}
		var g *FCFG
		i := 0
		walkAll(fi.Decl.Body, func(n ast.Node) bool {
			call, ok := n.(*ast.CallExpr)
			if !ok || len(call.Args) != 1 {
				return true
			}
			tv, ok := info.Types[call.Fun]
			if !ok || !tv.IsType() {
				return true
			}
			w := width(tv.Type)
			o := objOf(info, call.Args[0])
			bits, isParsed := parsed[o]
			if !isParsed || w == 0 || w >= 64 {
				return true
			}
			i++
			key := fi.Key + " narrows " + o.Name() + " to " + types.TypeString(tv.Type, func(p *types.Package) string { return p.Name() }) + " #" + itoa(i)
			if k, ok := constInt(info, bits); ok {
				R.Check(int(k) <= w, rule, key, P.Pos(call), "parsed for "+itoa(int(k))+" bits", "the number was range-checked for "+itoa(int(k))+" bits but is converted to a "+itoa(w)+"-bit type: values outside the "+itoa(w)+"-bit range wrap around instead of being rejected (4294967297 becomes 1)")
				return true
			}
			if g == nil {
				g = fi.CFG()
			}
			bo := objOf(info, bits)
			ok = bo != nil && g.DominatedByCond(call, func(core ast.Expr, val bool) bool {
				be, isBE := unparen(core).(*ast.BinaryExpr)
				if !isBE || be.Op != token.EQL || !val {
					return false
				}
				x, y := be.X, be.Y
				if objOf(info, x) != bo {
					x, y = y, x
				}
				v, isC := constInt(info, y)
				return objOf(info, x) == bo && isC && int(v) <= w
			})
			R.Check(ok, rule, key, P.Pos(call), "under `"+exprStr(bits)+" == "+itoa(w)+"`", "the number was range-checked for `"+exprStr(bits)+"` bits, which is not established to be at most "+itoa(w)+" where it is converted to a "+itoa(w)+"-bit type: out-of-range values wrap around")
			return true
		})
	}
}

// R-BASE64-SELECT: protojson accepts standard and URL-safe base64, each with
// or without padding. The alphabet and the padding are independent decisions;
// the selection is evaluated for the four combinations of "contains - or _"
// and "length is not a multiple of four".
func (c *Ctx) ruleBase64Select(rule string) {
	R, P := c.R, c.P
	R.Rule(rule, "protojson.unmarshalBytes, evaluated over the atoms `ContainsAny(s, \"-_\")` and `len(s)%4 != 0`, decodes with the URL alphabet iff the first holds and without padding iff the second holds (four combinations)", 1)
	fi := c.need(rule, "encoding/protojson.unmarshalBytes")
	if fi == nil {
		return
	}
	info := fi.Info()
	type encv struct {
		url, raw bool
		ok       bool
	}
	var encObj types.Object
	atom := func(e ast.Expr) (string, bool) {
		s := strings.ReplaceAll(exprStr(unparen(e)), " ", "")
		switch {
		case strings.HasPrefix(s, "strings.ContainsAny(") && (strings.HasSuffix(s, `,"-_")`) || strings.HasSuffix(s, `,"_-")`)):
			return "A", true
		case s == "len(s)%4!=0" || s == "len(s)%4>0":
			return "B", true
		case s == "len(s)%4==0":
			return "!B", true
		}
		return "", false
	}
	constEnc := func(e ast.Expr, cur encv) (encv, bool) {
		s := exprStr(unparen(e))
		switch s {
		case "base64.StdEncoding":
			return encv{false, false, true}, true
		case "base64.URLEncoding":
			return encv{true, false, true}, true
		case "base64.RawStdEncoding":
			return encv{false, true, true}, true
		case "base64.RawURLEncoding":
			return encv{true, true, true}, true
		}
		if call, ok := unparen(e).(*ast.CallExpr); ok && len(call.Args) == 1 {
			if se, ok := call.Fun.(*ast.SelectorExpr); ok && se.Sel.Name == "WithPadding" {
				base, ok := unparen(se.X).(*ast.Ident)
				if ok && info.Uses[base] == encObj && cur.ok {
					switch exprStr(call.Args[0]) {
					case "base64.NoPadding":
						return encv{cur.url, true, true}, true
					case "base64.StdPadding":
						return encv{cur.url, false, true}, true
					}
				}
			}
		}
		return encv{}, false
	}
	var wrong []string
	undec := ""
	for _, A := range []bool{false, true} {
		for _, B := range []bool{false, true} {
			truth := func(e ast.Expr) (bool, bool) {
				a, ok := atom(e)
				switch a {
				case "A":
					return A, ok
				case "B":
					return B, ok
				case "!B":
					return !B, ok
				}
				return false, false
			}
			var cur encv
			var run func(list []ast.Stmt) bool // false: stop (decode reached)
			run = func(list []ast.Stmt) bool {
				for _, st := range list {
					switch x := st.(type) {
					case *ast.AssignStmt:
						if len(x.Lhs) == 1 && len(x.Rhs) == 1 {
							if id, ok := x.Lhs[0].(*ast.Ident); ok {
								o := info.Defs[id]
								if o == nil {
									o = info.Uses[id]
								}
								if v, ok := constEnc(x.Rhs[0], cur); ok {
									encObj, cur = o, v
									continue
								}
								if o == encObj && encObj != nil {
									undec = "assignment `" + exprStr(x.Rhs[0]) + "` to the encoding"
								}
							}
							if strings.Contains(exprStr(x.Rhs[0]), "DecodeString(") {
								return false
							}
						} else if len(x.Rhs) == 1 && strings.Contains(exprStr(x.Rhs[0]), "DecodeString(") {
							return false
						}
					case *ast.IfStmt:
						if _, isAtom := atom(x.Cond); !isAtom {
							continue // tests on the token kind etc.
						}
						t, _ := truth(x.Cond)
						if t {
							if !run(x.Body.List) {
								return false
							}
						} else if x.Else != nil {
							if blk, ok := x.Else.(*ast.BlockStmt); ok {
								if !run(blk.List) {
									return false
								}
							} else if !run([]ast.Stmt{x.Else}) {
								return false
							}
						}
					case *ast.SwitchStmt:
						if x.Tag != nil {
							continue
						}
						taken := false
						var deflt *ast.CaseClause
						for _, cl := range x.Body.List {
							cc := cl.(*ast.CaseClause)
							if cc.List == nil {
								deflt = cc
								continue
							}
							for _, e := range cc.List {
								t, ok := truth(e)
								if !ok {
									undec = "case `" + exprStr(e) + "`"
								}
								if t && !taken {
									taken = true
									if !run(cc.Body) {
										return false
									}
								}
							}
						}
						if !taken && deflt != nil {
							if !run(deflt.Body) {
								return false
							}
						}
					}
				}
				return true
			}
			encObj = nil
			run(fi.Decl.Body.List)
			if !cur.ok {
				undec = "encoding not determined"
				continue
			}
			if cur.url != A || cur.raw != B {
				name := func(v encv) string {
					s := "Std"
					if v.url {
						s = "URL"
					}
					if v.raw {
						return "Raw" + s + "Encoding"
					}
					return s + "Encoding"
				}
				in := "standard alphabet"
				if A {
					in = "URL-safe alphabet"
				}
				if B {
					in += ", unpadded length"
				} else {
					in += ", length a multiple of four"
				}
				wrong = append(wrong, in+": decoded with "+name(cur)+" instead of "+name(encv{A, B, true}))
			}
		}
	}
	switch {
	case undec != "":
		R.Unk(rule, fi.Key, P.Pos(fi.Decl), "cannot evaluate the encoding selection: "+undec)
	case len(wrong) > 0:
		R.Bad(rule, fi.Key, P.Pos(fi.Decl), strings.Join(wrong, "; ")+": valid base64 of that shape is rejected (or decoded with the wrong alphabet)")
	default:
		R.OK(rule, fi.Key, P.Pos(fi.Decl), "alphabet and padding chosen independently; 4 combinations correct")
	}
}
