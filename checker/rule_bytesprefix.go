package main

import (
	"go/ast"
	"go/token"
	"go/types"
	"strings"
)

// R-BYTES-PREFIX: AppendBytes/AppendString write varint(len(v)) followed by v,
// and SizeBytes(n) is SizeVarint(n)+n. A single-byte fast path for the prefix
// is a varint only for lengths below 0x80 (0x80 itself is a continuation byte).
func (c *Ctx) ruleBytesPrefix(rule string) {
	R, P := c.R, c.P
	R.Rule(rule, "every return of protowire.AppendBytes/AppendString is append(prefix, v...) where prefix is AppendVarint(b, uint64(len(v))) or, under a guard that implies len(v) < 0x80, append(b, byte(len(v))); SizeBytes(n) returns SizeVarint(uint64(n)) + n", 3)
	for _, name := range []string{"AppendBytes", "AppendString"} {
		fi := c.need(rule, "encoding/protowire."+name)
		if fi == nil {
			continue
		}
		info := fi.Info()
		var bObj, vObj types.Object
		i := 0
		for _, f := range fi.Decl.Type.Params.List {
			for _, nm := range f.Names {
				if i == 0 {
					bObj = info.Defs[nm]
				} else {
					vObj = info.Defs[nm]
				}
				i++
			}
		}
		isObj := func(e ast.Expr, o types.Object) bool {
			id, ok := unparen(e).(*ast.Ident)
			return ok && info.Uses[id] == o
		}
		isLenV := func(e ast.Expr) bool {
			call, ok := unparen(e).(*ast.CallExpr)
			if !ok || len(call.Args) != 1 {
				return false
			}
			if tv, ok := info.Types[call.Fun]; ok && tv.IsType() { // conversion
				call, ok = unparen(call.Args[0]).(*ast.CallExpr)
				if !ok || len(call.Args) != 1 {
					return false
				}
			}
			return calleeKey(info, call) == "builtin.len" && isObj(call.Args[0], vObj)
		}
		nret := 0
		var problems []string
		walk(fi.Decl.Body, func(n ast.Node) bool {
			rs, ok := n.(*ast.ReturnStmt)
			if !ok || len(rs.Results) != 1 {
				return true
			}
			nret++
			outer, ok := unparen(rs.Results[0]).(*ast.CallExpr)
			if !ok || calleeKey(info, outer) != "builtin.append" || len(outer.Args) != 2 || !outer.Ellipsis.IsValid() || !isObj(outer.Args[1], vObj) {
				problems = append(problems, "returns `"+exprStr(rs.Results[0])+"`, which is not append(prefix, v...)")
				return true
			}
			pre, ok := unparen(outer.Args[0]).(*ast.CallExpr)
			if !ok {
				problems = append(problems, "prefix `"+exprStr(outer.Args[0])+"` not recognised")
				return true
			}
			switch calleeKey(info, pre) {
			case "encoding/protowire.AppendVarint":
				if len(pre.Args) != 2 || !isObj(pre.Args[0], bObj) || !isLenV(pre.Args[1]) {
					problems = append(problems, "the varint prefix is `"+exprStr(pre)+"`, not AppendVarint(b, uint64(len(v)))")
				}
			case "builtin.append":
				if len(pre.Args) != 2 || !isObj(pre.Args[0], bObj) || !isLenV(pre.Args[1]) {
					problems = append(problems, "the one-byte prefix is `"+exprStr(pre)+"`, not append(b, byte(len(v)))")
					break
				}
				// the guard has to imply len(v) < 0x80
				implied := false
				pm := parentMap(fi.Decl.Body)
				var cur ast.Node = rs
				for p := pm[cur]; p != nil; cur, p = p, pm[p] {
					is, ok := p.(*ast.IfStmt)
					if !ok || cur != ast.Node(is.Body) {
						continue
					}
					for _, cj := range conjuncts(is.Cond) {
						be, ok := cj.(*ast.BinaryExpr)
						if !ok {
							continue
						}
						x, y, op := be.X, be.Y, be.Op
						if !isLenV(x) && isLenV(y) {
							x, y, op = y, x, flipCmp(op)
						}
						k, isC := constInt(info, y)
						if !isLenV(x) || !isC {
							continue
						}
						if (op == token.LSS && k <= 0x80) || (op == token.LEQ && k <= 0x7f) {
							implied = true
						}
					}
				}
				if !implied {
					problems = append(problems, "the one-byte prefix append(b, byte(len(v))) is used without a guard implying len(v) < 0x80: for len(v) = 128 the byte 0x80 is a varint continuation byte, so the written length differs from SizeBytes and ConsumeBytes does not return v")
				}
			default:
				problems = append(problems, "prefix `"+exprStr(pre)+"` not recognised")
			}
			return true
		})
		if nret == 0 {
			problems = append(problems, "no return found")
		}
		R.Check(len(problems) == 0, rule, fi.Key, P.Pos(fi.Decl), "varint(len(v)) ++ v on every return", strings.Join(uniqStrings(problems), "; "))
	}
	if fi := c.need(rule, "encoding/protowire.SizeBytes"); fi != nil {
		info := fi.Info()
		good := false
		walk(fi.Decl.Body, func(n ast.Node) bool {
			rs, ok := n.(*ast.ReturnStmt)
			if !ok || len(rs.Results) != 1 {
				return true
			}
			be, ok := unparen(rs.Results[0]).(*ast.BinaryExpr)
			if !ok || be.Op != token.ADD {
				return true
			}
			for _, pair := range [][2]ast.Expr{{be.X, be.Y}, {be.Y, be.X}} {
				call, ok := unparen(pair[0]).(*ast.CallExpr)
				if ok && calleeKey(info, call) == "encoding/protowire.SizeVarint" && len(call.Args) == 1 {
					if conv, ok := unparen(call.Args[0]).(*ast.CallExpr); ok && len(conv.Args) == 1 && exprStr(conv.Args[0]) == exprStr(pair[1]) {
						if _, isId := unparen(pair[1]).(*ast.Ident); isId {
							good = true
						}
					}
				}
			}
			return true
		})
		R.Check(good, rule, fi.Key, P.Pos(fi.Decl), "SizeVarint(uint64(n)) + n", "SizeBytes does not return SizeVarint(uint64(n)) + n")
	}
}

func conjuncts(e ast.Expr) []ast.Expr {
	if be, ok := unparen(e).(*ast.BinaryExpr); ok && be.Op == token.LAND {
		return append(conjuncts(be.X), conjuncts(be.Y)...)
	}
	return []ast.Expr{unparen(e)}
}

// R-DEPTH-PER-LEVEL: the recursion budget of protowire.consumeFieldValueD is a
// budget of nesting depth. The parameter is passed down decremented and never
// assigned, so the members of one group all see the same remaining depth.
func (c *Ctx) ruleDepthPerLevel(rule string) {
	R, P := c.R, c.P
	R.Rule(rule, "protowire.consumeFieldValueD never assigns its depth parameter (no depth--, depth -= k, depth = …) and every recursive call passes depth - k with a constant k >= 1", 2)
	fi := c.need(rule, "encoding/protowire.consumeFieldValueD")
	if fi == nil {
		return
	}
	info := fi.Info()
	var depth types.Object
	for _, f := range fi.Decl.Type.Params.List {
		for _, nm := range f.Names {
			if nm.Name == "depth" {
				depth = info.Defs[nm]
			}
		}
	}
	if depth == nil {
		R.Unk(rule, fi.Key, P.Pos(fi.Decl), "parameter depth not found")
		return
	}
	var assigned ast.Node
	walkAll(fi.Decl.Body, func(n ast.Node) bool {
		switch x := n.(type) {
		case *ast.IncDecStmt:
			if id, ok := unparen(x.X).(*ast.Ident); ok && info.Uses[id] == depth {
				assigned = x
			}
		case *ast.AssignStmt:
			for _, l := range x.Lhs {
				if id, ok := unparen(l).(*ast.Ident); ok && info.Uses[id] == depth {
					assigned = x
				}
			}
		}
		return true
	})
	if assigned != nil {
		R.Bad(rule, fi.Key+" depth parameter", P.Pos(assigned), "the depth parameter is modified inside the function: inside the group loop the decrement is carried over to the following members, so a group with many sibling sub-groups exhausts the recursion limit although its nesting depth is small, and ConsumeGroup rejects what AppendGroup wrote")
	} else {
		R.OK(rule, fi.Key+" depth parameter", P.Pos(fi.Decl), "never assigned")
	}
	n := 0
	walkAll(fi.Decl.Body, func(x ast.Node) bool {
		call, ok := x.(*ast.CallExpr)
		if !ok || calleeKey(info, call) != "encoding/protowire.consumeFieldValueD" || len(call.Args) != 4 {
			return true
		}
		n++
		good := false
		if be, ok := unparen(call.Args[3]).(*ast.BinaryExpr); ok && be.Op == token.SUB {
			if id, ok := unparen(be.X).(*ast.Ident); ok && info.Uses[id] == depth {
				if k, ok := constInt(info, be.Y); ok && k >= 1 {
					good = true
				}
			}
		}
		R.Check(good, rule, fi.Key+" recursive call#"+itoa(n), P.Pos(call), "passes depth-1", "the recursive call passes `"+exprStr(call.Args[3])+"` as remaining depth, which is not the parameter decremented by a positive constant")
		return true
	})
	if n == 0 {
		R.Unk(rule, fi.Key+" recursive call", P.Pos(fi.Decl), "no recursive call found")
	}
}

// R-LEN-NARROW-GUARDED: a length decoded by ConsumeVarint is a uint64. It may
// be narrowed to int only after it was compared, as a uint64, with the number
// of bytes that remain; narrowing first turns lengths of 2^63 and above into
// negative ints that pass a signed bound test, and the slice expression that
// follows panics.
func (c *Ctx) ruleLenNarrowGuarded(rule string, pkg string, floor int) {
	R, P := c.R, c.P
	R.Rule(rule, "in "+pkg+" every conversion to a signed integer type of a value that ConsumeVarint decoded is dominated by the failing edge of `v > uint64(len(…))` (or the passing edge of `v <= uint64(len(…))`)", floor)
	for _, fi := range P.FuncsIn(pkg) {
		if fi.Decl.Body == nil {
			continue
		}
		info := fi.Info()
		decoded := map[types.Object]bool{}
		walkAll(fi.Decl.Body, func(n ast.Node) bool {
			as, ok := n.(*ast.AssignStmt)
			if !ok || len(as.Rhs) != 1 || len(as.Lhs) != 2 {
				return true
			}
			if call, ok := unparen(as.Rhs[0]).(*ast.CallExpr); ok && calleeKey(info, call) == "encoding/protowire.ConsumeVarint" {
				if o := objOf(info, as.Lhs[0]); o != nil {
					decoded[o] = true
				}
			}
			return true
		})
		if len(decoded) == 0 {
			continue
		}
		var g *FCFG
		k := 0
		walkAll(fi.Decl.Body, func(n ast.Node) bool {
			call, ok := n.(*ast.CallExpr)
			if !ok || len(call.Args) != 1 {
				return true
			}
			tv, ok := info.Types[call.Fun]
			if !ok || !tv.IsType() {
				return true
			}
			bt, ok := tv.Type.Underlying().(*types.Basic)
			if !ok || bt.Info()&types.IsInteger == 0 || bt.Info()&types.IsUnsigned != 0 {
				return true
			}
			o := objOf(info, call.Args[0])
			if o == nil || !decoded[o] {
				return true
			}
			k++
			if g == nil {
				g = fi.CFG()
			}
			bounded := g.DominatedByCond(call, func(core ast.Expr, val bool) bool {
				be, ok := unparen(core).(*ast.BinaryExpr)
				if !ok {
					return false
				}
				x, y, op := be.X, be.Y, be.Op
				if objOf(info, x) != o && objOf(info, y) == o {
					x, y, op = y, x, flipCmp(op)
				}
				if objOf(info, x) != o {
					return false
				}
				// the other side: uint64(len(...))
				conv, ok := unparen(y).(*ast.CallExpr)
				if !ok || len(conv.Args) != 1 {
					return false
				}
				if ln, ok := unparen(conv.Args[0]).(*ast.CallExpr); !ok || calleeKey(info, ln) != "builtin.len" {
					return false
				}
				return (op == token.GTR && !val) || (op == token.LEQ && val)
			})
			R.Check(bounded, rule, fi.Key+" narrows "+o.Name()+" #"+itoa(k), P.Pos(call), "after the unsigned bound test", "the decoded length `"+o.Name()+"` is converted to "+bt.Name()+" before it was compared as a uint64 with the remaining input: a length of 2^63 or more becomes negative (or the sum overflows), the signed bound test passes and the slice expression panics instead of reporting truncated input")
			return true
		})
	}
}

// R-CONSUMETAG-EXACT: ConsumeTag fails for exactly two reasons: ConsumeVarint
// failed (its code is forwarded) or the field number is below MinValidNumber.
// Any other rejection refuses a well-formed tag (e.g. one whose varint is padded
// to more than five bytes, which the wire grammar allows up to ten).
func (c *Ctx) ruleConsumeTagExact(rule string) {
	R, P := c.R, c.P
	R.Rule(rule, "every error return of protowire.ConsumeTag is guarded by `n < 0` (forwarding ConsumeVarint's code) or by `num < MinValidNumber`; there is no other reason to reject", 2)
	fi := c.need(rule, "encoding/protowire.ConsumeTag")
	if fi == nil {
		return
	}
	info := fi.Info()
	k := 0
	walk(fi.Decl.Body, func(n ast.Node) bool {
		rs, ok := n.(*ast.ReturnStmt)
		if !ok || len(rs.Results) != 3 {
			return true
		}
		g := enclosingGuards(fi.Decl.Body, rs)
		if g == "" {
			return true // the success return
		}
		k++
		allowed := false
		for _, want := range []string{"n < 0", "0 > n", "num < MinValidNumber", "MinValidNumber > num", "num <= 0", "num < 1"} {
			if g == want {
				allowed = true
			}
		}
		_ = info
		R.Check(allowed, rule, fi.Key+" error return under `"+g+"`", P.Pos(rs), "a rejection the wire grammar asks for", "ConsumeTag rejects input under `"+g+"`, which is neither a malformed varint nor an invalid field number: well-formed tags (the grammar allows tag varints of up to ten bytes) are refused by ConsumeTag, ConsumeField, ConsumeFieldValue and ConsumeGroup")
		return true
	})
	if k < 2 {
		R.Unk(rule, fi.Key, P.Pos(fi.Decl), "expected the two error returns (varint error, field number)")
	}
}
