package main

import (
	"go/ast"
	"go/token"
	"go/types"
)

// R-RUNEERROR-SIZE: utf8.DecodeRune* return (RuneError, 1) for invalid UTF-8
// but (RuneError, 3) for a validly encoded U+FFFD. Any condition that treats
// `r == utf8.RuneError` (r from a DecodeRune* call) as "invalid" must be
// conjoined with the size result being 1; otherwise valid U+FFFD is rejected
// (or invalid bytes accepted, for the negated form).
func (c *Ctx) ruleRuneErrorSize(rule string, pkgs []string, floor int) {
	R, P := c.R, c.P
	R.Rule(rule, "every condition comparing a rune obtained from utf8.DecodeRune*/DecodeLastRune* with utf8.RuneError also constrains that call's size result to 1 in the same conjunction", floor)
	decodeFns := map[string]bool{"unicode/utf8.DecodeRune": true, "unicode/utf8.DecodeRuneInString": true, "unicode/utf8.DecodeLastRune": true, "unicode/utf8.DecodeLastRuneInString": true}
	for _, pkg := range pkgs {
		for _, fi := range P.FuncsIn(pkg) {
			if fi.Decl.Body == nil {
				continue
			}
			info := fi.Info()
			// map rune var -> size var for `r, n := utf8.DecodeRune*(...)`
			sizeOf := map[types.Object]types.Object{}
			walkAll(fi.Decl.Body, func(n ast.Node) bool {
				as, ok := n.(*ast.AssignStmt)
				if !ok || len(as.Lhs) != 2 || len(as.Rhs) != 1 {
					return true
				}
				call, ok := unparen(as.Rhs[0]).(*ast.CallExpr)
				if !ok {
					return true
				}
				f := calleeFunc(info, call)
				if f == nil || f.Pkg() == nil || !decodeFns[f.Pkg().Path()+"."+f.Name()] {
					return true
				}
				r, _ := as.Lhs[0].(*ast.Ident)
				sz, _ := as.Lhs[1].(*ast.Ident)
				if r != nil && sz != nil && r.Name != "_" {
					if sz.Name == "_" {
						sizeOf[objOf(info, r)] = nil
					} else {
						sizeOf[objOf(info, r)] = objOf(info, sz)
					}
				}
				return true
			})
			if len(sizeOf) == 0 {
				continue
			}
			isRuneErr := func(e ast.Expr) bool {
				o := objOf(info, e)
				return o != nil && o.Pkg() != nil && o.Pkg().Path() == "unicode/utf8" && o.Name() == "RuneError"
			}
			cnt := 0
			checkCond := func(cond ast.Expr) {
				for _, val := range []bool{true, false} {
					var atoms []atomVal
					impliedAtoms(cond, val, &atoms)
					for _, a := range atoms {
						be, ok := a.E.(*ast.BinaryExpr)
						if !ok || (be.Op != token.EQL && be.Op != token.NEQ) {
							continue
						}
						var rv ast.Expr
						if isRuneErr(be.Y) {
							rv = be.X
						} else if isRuneErr(be.X) {
							rv = be.Y
						} else {
							continue
						}
						robj := objOf(info, rv)
						szObj, tracked := sizeOf[robj]
						if !tracked {
							continue
						}
						isErrFact := (be.Op == token.EQL) == a.Val // fact "r == RuneError"
						if !isErrFact {
							continue
						}
						cnt++
						name := fi.Key + " RuneError test #" + itoa(cnt)
						okSize := false
						for _, b := range atoms {
							sb, ok := b.E.(*ast.BinaryExpr)
							if !ok || szObj == nil {
								continue
							}
							xid, ok := unparen(sb.X).(*ast.Ident)
							if !ok || objOf(info, xid) != szObj {
								continue
							}
							v, isC := constInt(info, sb.Y)
							if !isC {
								continue
							}
							if (sb.Op == token.EQL && v == 1 && b.Val) || (sb.Op == token.NEQ && v == 1 && !b.Val) ||
								(sb.Op == token.LEQ && v == 1 && b.Val) || (sb.Op == token.LSS && v == 2 && b.Val) {
								okSize = true
							}
						}
						R.Check(okSize, rule, name, P.Pos(be), "conjoined with size == 1",
							"`r == utf8.RuneError` decides invalidity without requiring the decoded size to be 1: a validly encoded U+FFFD (EF BF BD) is treated as invalid UTF-8")
					}
				}
			}
			seenDisj := 0
			walkAll(fi.Decl.Body, func(n ast.Node) bool {
				switch s := n.(type) {
				case *ast.IfStmt:
					checkCond(s.Cond)
				case *ast.ForStmt:
					if s.Cond != nil {
						checkCond(s.Cond)
					}
				case *ast.CaseClause:
					for _, e := range s.List {
						if tv, ok := info.Types[e]; ok && tv.Type != nil {
							if b, ok := tv.Type.Underlying().(*types.Basic); ok && b.Info()&types.IsBoolean != 0 {
								checkCond(e)
							}
						}
					}
				}
				return true
			})
			// any RuneError comparison on a tracked rune that was not seen as an implied fact (e.g. a disjunct)
			walkAll(fi.Decl.Body, func(n ast.Node) bool {
				be, ok := n.(*ast.BinaryExpr)
				if !ok || be.Op != token.EQL {
					return true
				}
				var rv ast.Expr
				if isRuneErr(be.Y) {
					rv = be.X
				} else if isRuneErr(be.X) {
					rv = be.Y
				} else {
					return true
				}
				if _, tracked := sizeOf[objOf(info, rv)]; tracked {
					seenDisj++
				}
				return true
			})
			if seenDisj > cnt {
				R.Bad(rule, fi.Key+" RuneError disjunct", P.Pos(fi.Decl), "a `r == utf8.RuneError` comparison on a DecodeRune* result appears outside a conjunction with the size test (e.g. as a disjunct): U+FFFD and invalid bytes are conflated")
			}
		}
	}
}
