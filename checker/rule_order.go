package main

import (
	"go/ast"
	"go/token"
	"go/types"
	"strings"
)

// E5 / R-ORDER: every iteration over an unordered collection (Go map range,
// reflect MapRange/MapKeys, direct protoreflect Message.Range / Map.Range,
// sync.Map.Range) on a path that must be deterministic is classified:
//   (a) commutative body: only sums/counters, map/set inserts, deletes,
//       boolean folds, min/max folds, per-element mutation of the element;
//   (b) keys/values are collected into a slice that is sorted (sort.*,
//       slices.Sort*) before the next statement that reads it;
//   (c) the site is control-dependent on the deterministic option being OFF;
//   (d) the map is statically known to hold at most one entry (switch len(m) case 1);
//   (e) the only order-dependent effect is choosing which error to return.
// Anything else is a violation (an order-sensitive sink reached in map order).

type orderSite struct {
	fi                 *FuncInfo
	br                 bodyRef
	node               ast.Node // RangeStmt or CallExpr
	what               string
	body               *ast.BlockStmt // loop body or callback body (nil if callback not a literal)
	rangeKey, rangeVal types.Object
	keysObj            types.Object // MapKeys() result variable (must be sorted before use)
}

func (c *Ctx) collectOrderSites(pkgs []string) []orderSite {
	P := c.P
	var out []orderSite
	for _, pkg := range pkgs {
		for _, fi := range P.FuncsIn(pkg) {
			if fi.Decl.Body == nil {
				continue
			}
			info := fi.Info()
			for _, br := range bodiesOf(fi) {
				br := br
				walk(br.Body, func(n ast.Node) bool {
					switch s := n.(type) {
					case *ast.RangeStmt:
						tv, ok := info.Types[s.X]
						if !ok {
							return true
						}
						if _, isMap := tv.Type.Underlying().(*types.Map); isMap {
							site := orderSite{fi: fi, br: br, node: s, what: "range over map " + exprStr(s.X), body: s.Body}
							if id, ok := s.Key.(*ast.Ident); ok {
								site.rangeKey = objOf(info, id)
							}
							if id, ok := s.Value.(*ast.Ident); ok {
								site.rangeVal = objOf(info, id)
							}
							out = append(out, site)
						}
						// range over reflect MapKeys() result is unordered too
						if call, ok := unparen(s.X).(*ast.CallExpr); ok {
							if f := calleeFunc(info, call); f != nil && f.Pkg() != nil && f.Pkg().Path() == "reflect" && f.Name() == "MapKeys" {
								out = append(out, orderSite{fi: fi, br: br, node: s, what: "range over reflect MapKeys()", body: s.Body})
							}
						}
					case *ast.AssignStmt:
						if len(s.Rhs) != 1 || len(s.Lhs) != 1 {
							return true
						}
						call, ok := unparen(s.Rhs[0]).(*ast.CallExpr)
						if !ok {
							return true
						}
						f := calleeFunc(info, call)
						if f == nil || f.Pkg() == nil || f.Pkg().Path() != "reflect" {
							return true
						}
						lid, _ := s.Lhs[0].(*ast.Ident)
						if lid == nil {
							return true
						}
						lobj := objOf(info, lid)
						switch f.Name() {
						case "MapRange":
							// find the `for iter.Next() {…}` loop driven by this iterator
							var loop *ast.ForStmt
							walk(br.Body, func(x ast.Node) bool {
								if fs, ok := x.(*ast.ForStmt); ok && fs.Cond != nil && loop == nil {
									if c2, ok := unparen(fs.Cond).(*ast.CallExpr); ok {
										if rid := recvIdent(c2); rid != nil && objOf(info, rid) == lobj {
											loop = fs
										}
									}
								}
								return true
							})
							if loop != nil {
								out = append(out, orderSite{fi: fi, br: br, node: loop, what: "reflect MapRange loop", body: loop.Body})
							} else {
								out = append(out, orderSite{fi: fi, br: br, node: s, what: "reflect MapRange (loop not found)"})
							}
						case "MapKeys":
							out = append(out, orderSite{fi: fi, br: br, node: s, what: "reflect MapKeys() into " + lid.Name, body: &ast.BlockStmt{}, keysObj: lobj})
						}
					case *ast.CallExpr:
						k := calleeKey(info, s)
						switch k {
						case "reflect/protoreflect.Message.Range", "reflect/protoreflect.Map.Range", "internal/order.FieldRanger.Range", "internal/order.EntryRanger.Range":
							site := orderSite{fi: fi, br: br, node: s, what: "direct " + k}
							if len(s.Args) == 1 {
								if fl, ok := unparen(s.Args[0]).(*ast.FuncLit); ok {
									site.body = fl.Body
									if ps := fl.Type.Params; ps != nil && len(ps.List) > 0 && len(ps.List[0].Names) > 0 {
										site.rangeKey = info.Defs[ps.List[0].Names[0]] // each key is visited once
									}
								}
							}
							out = append(out, site)
						}
						if f := calleeFunc(info, s); f != nil && f.Pkg() != nil && f.Pkg().Path() == "sync" && f.Name() == "Range" {
							site := orderSite{fi: fi, br: br, node: s, what: "sync.Map.Range"}
							if len(s.Args) == 1 {
								if fl, ok := unparen(s.Args[0]).(*ast.FuncLit); ok {
									site.body = fl.Body
								}
							}
							out = append(out, site)
						}
					}
					return true
				})
			}
		}
	}
	return out
}

// commutativeBody reports whether every statement of the body is an
// order-insensitive effect; otherwise returns the first offending statement.
func commutativeBody(info *types.Info, body *ast.BlockStmt, collected map[types.Object]ast.Node) (bool, ast.Node) {
	var bad ast.Node
	var stmt func(s ast.Stmt) bool
	exprPure := func(e ast.Expr) bool { return true }
	_ = exprPure
	var block func(b []ast.Stmt) bool
	block = func(b []ast.Stmt) bool {
		for _, s := range b {
			if !stmt(s) {
				return false
			}
		}
		return true
	}
	stmt = func(s ast.Stmt) bool {
		switch x := s.(type) {
		case nil:
			return true
		case *ast.EmptyStmt:
			return true
		case *ast.IncDecStmt:
			return true
		case *ast.BranchStmt:
			return x.Tok == token.CONTINUE || x.Tok == token.BREAK
		case *ast.DeclStmt:
			return true
		case *ast.AssignStmt:
			switch x.Tok {
			case token.ADD_ASSIGN, token.OR_ASSIGN, token.AND_ASSIGN, token.XOR_ASSIGN, token.MUL_ASSIGN:
				// commutative accumulation on numbers (strings: += is concatenation → order-sensitive)
				if tv, ok := info.Types[x.Lhs[0]]; ok {
					if b, ok := tv.Type.Underlying().(*types.Basic); ok && b.Info()&types.IsString != 0 {
						bad = s
						return false
					}
				}
				return true
			case token.DEFINE:
				return true // fresh locals
			case token.ASSIGN:
				for i, l := range x.Lhs {
					l = unparen(l)
					// map/set insert, element mutation
					if ix, ok := l.(*ast.IndexExpr); ok {
						if tv, ok := info.Types[ix.X]; ok {
							if _, isMap := tv.Type.Underlying().(*types.Map); isMap {
								continue
							}
						}
					}
					if id, ok := l.(*ast.Ident); ok {
						if id.Name == "_" {
							continue
						}
						// slice collection: keys = append(keys, k)
						if i < len(x.Rhs) || len(x.Rhs) == 1 {
							r := x.Rhs[0]
							if len(x.Rhs) == len(x.Lhs) {
								r = x.Rhs[i]
							}
							if call, ok := unparen(r).(*ast.CallExpr); ok && calleeKey(info, call) == "builtin.append" && len(call.Args) >= 1 {
								if a0, ok := unparen(call.Args[0]).(*ast.Ident); ok && objOf(info, a0) == objOf(info, id) {
									if tv, ok := info.Types[id]; ok && !isByteSlice(tv.Type) {
										collected[objOf(info, id)] = s
										continue
									}
								}
							}
						}
						// boolean / scalar fold into a variable: allowed only for bool, or same value
						if tv, ok := info.Types[id]; ok {
							if b, ok := tv.Type.Underlying().(*types.Basic); ok && b.Info()&types.IsBoolean != 0 {
								continue
							}
						}
					}
					if se, ok := l.(*ast.SelectorExpr); ok {
						// field mutation of the element or of a bool/flag field
						if tv, ok := info.Types[se]; ok {
							if b, ok := tv.Type.Underlying().(*types.Basic); ok && b.Info()&(types.IsBoolean) != 0 {
								continue
							}
						}
					}
					bad = s
					return false
				}
				return true
			}
			bad = s
			return false
		case *ast.ExprStmt:
			if call, ok := unparen(x.X).(*ast.CallExpr); ok {
				k := calleeKey(info, call)
				switch k {
				case "builtin.delete", "builtin.panic":
					return true
				}
				// method mutating the map-like receiver with key (Set/Clear/Delete/Store) is commutative per key
				if se, ok := unparen(call.Fun).(*ast.SelectorExpr); ok {
					switch se.Sel.Name {
					case "Set", "Clear", "Delete", "Store", "Add", "add", "insert", "Insert", "Register", "register":
						return true
					}
				}
			}
			bad = s
			return false
		case *ast.IfStmt:
			if x.Init != nil && !stmt(x.Init) {
				return false
			}
			if !block(x.Body.List) {
				return false
			}
			if x.Else != nil {
				switch e := x.Else.(type) {
				case *ast.BlockStmt:
					return block(e.List)
				case *ast.IfStmt:
					return stmt(e)
				}
			}
			return true
		case *ast.BlockStmt:
			return block(x.List)
		case *ast.SwitchStmt:
			for _, cc := range x.Body.List {
				if !block(cc.(*ast.CaseClause).Body) {
					return false
				}
			}
			return true
		case *ast.ReturnStmt:
			// boolean fold (callbacks: return true/false) or early exit with constants/nil
			for _, r := range x.Results {
				r = unparen(r)
				if tv, ok := info.Types[r]; ok {
					if tv.Value != nil || tv.IsNil() {
						continue
					}
					if b, ok := tv.Type.Underlying().(*types.Basic); ok && b.Info()&types.IsBoolean != 0 {
						continue
					}
				}
				bad = s
				return false
			}
			return true
		case *ast.ForStmt:
			return block(x.Body.List)
		case *ast.RangeStmt:
			return block(x.Body.List)
		}
		bad = s
		return false
	}
	ok := block(body.List)
	return ok, bad
}

type orderOpts struct {
	// NondetGuard: atom establishing that deterministic output is NOT required
	NondetGuard func(info *types.Info, core ast.Expr, val bool) bool
	// Exempt: reviewed sites (construct name → reason)
	Exempt map[string]string
	// Filter: restrict to functions for which it returns true (nil = all)
	Filter func(fi *FuncInfo) bool
	Floor  int
}

func (c *Ctx) ruleOrder(rule string, pkgs []string, o orderOpts) {
	R, P := c.R, c.P
	R.Rule(rule, "every iteration over an unordered collection in the scope packages is (a) commutative, (b) collect-then-sort, (c) control-dependent on determinism being off, (d) over a provably single-entry map, or (e) only selects an error; otherwise output order depends on map order", o.Floor)
	sites := c.collectOrderSites(pkgs)
	perFn := map[string]int{}
	for _, s := range sites {
		if o.Filter != nil && !o.Filter(s.fi) {
			continue
		}
		info := s.fi.Info()
		perFn[s.br.Name]++
		name := s.br.Name + " iter#" + itoa(perFn[s.br.Name]) + " (" + s.what + ")"
		pos := P.Pos(s.node)
		if why, ok := o.Exempt[s.br.Name+" #"+itoa(perFn[s.br.Name])]; ok {
			R.Exempt(rule, name, pos, why)
			continue
		}
		g := newCFG(s.br.Body, info)
		// (c)
		if o.NondetGuard != nil && g.DominatedByCond(s.node, func(core ast.Expr, val bool) bool { return o.NondetGuard(info, core, val) }) {
			R.OK(rule, name, pos, "(c) control-dependent on deterministic output not being requested")
			continue
		}
		// (d) inside `switch len(m) { case 1: ... }`
		if singleEntryCase(info, s.br.Body, s.node) {
			R.OK(rule, name, pos, "(d) inside `case 1` of a switch on the map's length: at most one entry")
			continue
		}
		if s.body == nil {
			R.Bad(rule, name, pos, "unordered iteration with a callback that is not a function literal: effect order cannot be classified")
			continue
		}
		collected := map[types.Object]ast.Node{}
		if s.keysObj != nil {
			collected[s.keysObj] = s.node
		}
		noteUniqueKeyFields(info, s.body, s.rangeKey)
		ok, bad := commutativeBody(info, s.body, collected)
		if !ok {
			// (e) the offending statement is `return <error>`-only?
			if rs, isRet := bad.(*ast.ReturnStmt); isRet && returnsOnlyError(info, rs) {
				R.OK(rule, name, pos, "(e) order only selects which error is returned")
				continue
			}
			R.Bad(rule, name, pos, "order-sensitive effect inside unordered iteration at "+P.Pos(bad)+" (`"+firstLine(exprOrStmt(bad))+"`): the result depends on map iteration order")
			continue
		}
		// (b) every collected slice must be sorted before being read
		allSorted := true
		var unsorted string
		for obj := range collected {
			if !sortedAfter(info, g, s.node, obj) {
				allSorted = false
				unsorted = obj.Name()
			}
		}
		if !allSorted {
			R.Bad(rule, name, pos, "elements are collected into `"+unsorted+"` in map order and read without an intervening sort")
			continue
		}
		partial := ""
		for obj := range collected {
			if why, ok := partialCmp[obj]; ok {
				partial = "`" + obj.Name() + "`: " + why
			}
		}
		if partial != "" {
			if why, ok := o.Exempt[s.br.Name+" #"+itoa(perFn[s.br.Name])+" comparator"]; ok {
				R.Exempt(rule, name, pos, why)
			} else {
				R.Bad(rule, name, pos, "elements collected in map order are sorted by a comparator that looks only at part of each element ("+partial+"): elements that tie under it keep their map-iteration order, so the result is not a function of the content")
			}
			continue
		}
		if len(collected) > 0 {
			R.OK(rule, name, pos, "(b) collected then sorted before use")
		} else {
			R.OK(rule, name, pos, "(a) commutative body")
		}
	}
}

func exprOrStmt(n ast.Node) string {
	switch x := n.(type) {
	case ast.Expr:
		return exprStr(x)
	case *ast.AssignStmt:
		var l, r []string
		for _, e := range x.Lhs {
			l = append(l, exprStr(e))
		}
		for _, e := range x.Rhs {
			r = append(r, exprStr(e))
		}
		return strings.Join(l, ", ") + " " + x.Tok.String() + " " + strings.Join(r, ", ")
	case *ast.ExprStmt:
		return exprStr(x.X)
	case *ast.ReturnStmt:
		var r []string
		for _, e := range x.Results {
			r = append(r, exprStr(e))
		}
		return "return " + strings.Join(r, ", ")
	}
	return "statement"
}

func firstLine(s string) string {
	if i := strings.IndexByte(s, '\n'); i >= 0 {
		s = s[:i]
	}
	if len(s) > 100 {
		s = s[:100] + "…"
	}
	return s
}

func returnsOnlyError(info *types.Info, rs *ast.ReturnStmt) bool {
	errType := types.Universe.Lookup("error").Type()
	nonConst := 0
	for _, r := range rs.Results {
		tv, ok := info.Types[r]
		if !ok {
			return false
		}
		if tv.Value != nil || tv.IsNil() {
			continue
		}
		nonConst++
		if !types.Identical(tv.Type, errType) && !types.Implements(tv.Type, errType.Underlying().(*types.Interface)) {
			// allow zero-valued composite (e.g. out) identifiers? be strict
			if id, ok := unparen(r).(*ast.Ident); ok {
				_ = id
			}
			return false
		}
	}
	return nonConst > 0
}

// singleEntryCase: node lies in the `case 1:` clause of `switch len(X) {…}`.
func singleEntryCase(info *types.Info, root ast.Node, target ast.Node) bool {
	res := false
	var stack []ast.Node
	ast.Inspect(root, func(n ast.Node) bool {
		if n == nil {
			stack = stack[:len(stack)-1]
			return false
		}
		if n == target {
			for i := len(stack) - 1; i >= 1; i-- {
				cc, ok := stack[i].(*ast.CaseClause)
				if !ok || len(cc.List) != 1 {
					continue
				}
				if v, ok := constInt(info, cc.List[0]); !ok || v != 1 {
					continue
				}
				// parent chain: BlockStmt, SwitchStmt
				for j := i - 1; j >= 0; j-- {
					if sw, ok := stack[j].(*ast.SwitchStmt); ok {
						if call, ok := unparen(sw.Tag).(*ast.CallExpr); ok && calleeKey(info, call) == "builtin.len" {
							res = true
						}
						break
					}
				}
			}
			return false
		}
		stack = append(stack, n)
		return true
	})
	return res
}

// sortedAfter: every path from the iteration site to a read of obj passes a
// sort call on obj.
func sortedAfter(info *types.Info, g *FCFG, site ast.Node, obj types.Object) bool {
	sp, ok := g.posOf(site)
	if !ok {
		return false
	}
	isSort := func(n ast.Node) bool {
		found := false
		walk(n, func(x ast.Node) bool {
			call, ok := x.(*ast.CallExpr)
			if !ok {
				return true
			}
			f := calleeFunc(info, call)
			if f == nil || f.Pkg() == nil {
				return true
			}
			if p := f.Pkg().Path(); p != "sort" && p != "slices" {
				return true
			}
			if !strings.Contains(f.Name(), "Sort") && f.Name() != "Slice" && f.Name() != "SliceStable" && f.Name() != "Strings" && f.Name() != "Ints" && f.Name() != "Stable" {
				return true
			}
			if len(call.Args) >= 1 && usesObj(info, call.Args[0], obj) {
				found = true
				if why := partialKeyComparator(info, call, obj); why != "" {
					partialCmp[obj] = why
				}
			}
			return true
		})
		return found
	}
	// start after the loop: find successor positions by searching forward from site end
	found, _ := g.Forward(cfgPos{sp.B, sp.I + 1}, Search{
		Target: func(n ast.Node) bool {
			if n.Pos() < site.End() && n.Pos() >= site.Pos() {
				return false // still inside the loop
			}
			if isSort(n) {
				return false
			}
			if isSelfAppend(info, n, obj) {
				return false // a later loop accumulating into the same slice: still unordered, still unread
			}
			return readsObj(info, n, obj)
		},
		Barrier: isSort,
	})
	return !found
}

// R-ORDER-ARG: every call of order.RangeFields / order.RangeEntries made by an
// output-producing function passes an order that is non-nil whenever
// deterministic output is requested: the argument is either a non-nil order
// value directly, or a variable that is assigned a non-nil order under the
// true edge of `o.Deterministic` with no later reassignment before the call.
func (c *Ctx) ruleOrderArg(rule string, pkgs []string, always bool, floor int) {
	R, P := c.R, c.P
	R.Rule(rule, "every order.RangeFields/RangeEntries call on an output path passes a non-nil order (always, for text/JSON; whenever o.Deterministic, for binary): either a named non-nil order value or a variable assigned one under the true edge of o.Deterministic and not reassigned before the call", floor)
	isNilOrder := func(info *types.Info, e ast.Expr) bool {
		o := objOf(info, e)
		if o == nil {
			return isNilIdent(info, e)
		}
		n := qualObj(o)
		return n == "internal/order.AnyFieldOrder" || n == "internal/order.AnyKeyOrder" || (o.Pkg() == nil && o.Name() == "nil")
	}
	isNamedOrder := func(info *types.Info, e ast.Expr) bool {
		o := objOf(info, e)
		return o != nil && o.Pkg() != nil && shortPkg(o.Pkg().Path()) == "internal/order" && !isNilOrder(info, e)
	}
	for _, pkg := range pkgs {
		for _, fi := range P.FuncsIn(pkg) {
			if fi.Decl.Body == nil {
				continue
			}
			info := fi.Info()
			calls := allCalls(info, fi.Decl.Body, "internal/order.RangeFields", "internal/order.RangeEntries")
			if len(calls) == 0 {
				continue
			}
			g := fi.CFG()
			for i, call := range calls {
				name := fi.Key + " order arg #" + itoa(i+1)
				arg := unparen(call.Args[1])
				if isNamedOrder(info, arg) {
					R.OK(rule, name, P.Pos(call), "passes "+exprStr(arg))
					continue
				}
				id, ok := arg.(*ast.Ident)
				if !ok || always {
					R.Bad(rule, name, P.Pos(call), "passes `"+exprStr(arg)+"` which is not a named non-nil order: iteration order of fields/map entries is Go map order")
					continue
				}
				obj := objOf(info, id)
				// assignment of a non-nil order under Deterministic, reaching the call un-overwritten
				good := false
				walk(fi.Decl.Body, func(n ast.Node) bool {
					as, ok := n.(*ast.AssignStmt)
					if !ok || len(as.Lhs) != 1 || len(as.Rhs) != 1 {
						return true
					}
					lid, ok := as.Lhs[0].(*ast.Ident)
					if !ok || objOf(info, lid) != obj || !isNamedOrder(info, as.Rhs[0]) {
						return true
					}
					underDet := g.DominatedByCond(as, func(core ast.Expr, val bool) bool {
						_, f, ok := fieldSel(info, core)
						return ok && f == "Deterministic" && val
					})
					if !underDet {
						return true
					}
					// the if-statement containing the assignment must dominate the call, and no other assignment intervenes
					ap, _ := g.posOf(as)
					reach, _ := g.Forward(cfgPos{ap.B, ap.I + 1}, Search{
						Target:  func(x ast.Node) bool { return containsNode(x, call) },
						Barrier: func(x ast.Node) bool { return x != ast.Node(as) && pureOverwrite(info, x, obj) },
					})
					// and: on the Deterministic-true edge every path to the call passes this assignment
					viaOther, _ := g.Forward(g.Entry(), Search{
						Target:  func(x ast.Node) bool { return containsNode(x, call) },
						Barrier: func(x ast.Node) bool { return x == ast.Node(as) },
						EdgeBarrier: func(b *cfgBlock, succ int) bool {
							for _, a := range edgeAtoms(b, succ) {
								if _, f, ok := fieldSel(info, a.E); ok && f == "Deterministic" && !a.Val {
									return true // paths on which Deterministic is false are irrelevant
								}
							}
							return false
						},
					})
					if reach && !viaOther {
						good = true
					}
					return true
				})
				R.Check(good, rule, name, P.Pos(call), "variable `"+id.Name+"` holds a non-nil order whenever o.Deterministic",
					"with Deterministic set, `"+id.Name+"` can still be the nil (any) order at this call: fields/map entries are emitted in Go map order")
			}
		}
	}
}

func containsNode(outer ast.Node, inner ast.Node) bool {
	found := false
	walkAll(outer, func(x ast.Node) bool {
		if x == inner {
			found = true
		}
		return !found
	})
	return found
}

// isSelfAppend: n is `obj = append(obj, e...)` where no e reads obj.
func isSelfAppend(info *types.Info, n ast.Node, obj types.Object) bool {
	as, ok := n.(*ast.AssignStmt)
	if !ok || len(as.Lhs) != 1 || len(as.Rhs) != 1 {
		return false
	}
	if id, ok := unparen(as.Lhs[0]).(*ast.Ident); !ok || objOf(info, id) != obj {
		return false
	}
	call, ok := unparen(as.Rhs[0]).(*ast.CallExpr)
	if !ok || len(call.Args) < 1 {
		return false
	}
	if id, ok := call.Fun.(*ast.Ident); !ok || id.Name != "append" {
		return false
	}
	if id, ok := unparen(call.Args[0]).(*ast.Ident); !ok || objOf(info, id) != obj {
		return false
	}
	for _, a := range call.Args[1:] {
		if usesObj(info, a, obj) {
			return false
		}
	}
	return true
}

// partialCmp records, per collected slice, why its sort comparator is not a
// total order on the element type (filled by sortedAfter).
var partialCmp = map[types.Object]string{}

// partialKeyComparator inspects sort.Slice/SliceStable(xs, func(i, j int) bool {...}):
// if every use of xs[i]/xs[j] in the comparator is a field selection or a
// constant index, and the selected fields/indices are a proper subset of the
// element's fields/indices, distinct elements can tie. Comparators that use a
// whole element, call methods on it or delegate to another function are not
// judged here.
func partialKeyComparator(info *types.Info, call *ast.CallExpr, obj types.Object) string {
	f := calleeFunc(info, call)
	if f == nil || (f.Name() != "Slice" && f.Name() != "SliceStable") || len(call.Args) != 2 {
		return ""
	}
	fl, ok := unparen(call.Args[1]).(*ast.FuncLit)
	if !ok {
		return ""
	}
	et := info.TypeOf(call.Args[0])
	sl, ok := et.Underlying().(*types.Slice)
	if !ok {
		return ""
	}
	elem := sl.Elem()
	if pt, ok := elem.Underlying().(*types.Pointer); ok {
		elem = pt.Elem()
	}
	used := map[string]bool{}
	opaque := false
	var stack []ast.Node
	ast.Inspect(fl.Body, func(n ast.Node) bool {
		if n == nil {
			stack = stack[:len(stack)-1]
			return false
		}
		stack = append(stack, n)
		ie, ok := n.(*ast.IndexExpr)
		if !ok || len(stack) < 2 {
			return true
		}
		if id, isID := unparen(ie.X).(*ast.Ident); !isID || objOf(info, id) != obj {
			return true
		}
		// xs[k]: what is done with it?
		switch par := stack[len(stack)-2].(type) {
		case *ast.SelectorExpr:
			if sel := info.Selections[par]; sel != nil && sel.Kind() == types.FieldVal && par.X == ast.Expr(ie) {
				used[par.Sel.Name] = true
				return true
			}
			opaque = true
		case *ast.IndexExpr:
			if par.X == ast.Expr(ie) {
				if v, ok := constInt(info, par.Index); ok {
					used["["+itoa(int(v))+"]"] = true
					return true
				}
			}
			opaque = true
		default:
			opaque = true
		}
		return true
	})
	if opaque || len(used) == 0 {
		return ""
	}
	for f := range used {
		if uniqueKeyFields[obj][f] {
			return "" // compares the unique iteration key: no two collected elements tie
		}
	}
	switch t := elem.Underlying().(type) {
	case *types.Struct:
		var missing []string
		for i := 0; i < t.NumFields(); i++ {
			if !used[t.Field(i).Name()] {
				missing = append(missing, t.Field(i).Name())
			}
		}
		if len(missing) > 0 {
			return "compares " + strings.Join(sortedSet(used), ",") + " but not " + strings.Join(missing, ",")
		}
	case *types.Array:
		var missing []string
		for i := int64(0); i < t.Len(); i++ {
			if !used["["+itoa(int(i))+"]"] {
				missing = append(missing, "["+itoa(int(i))+"]")
			}
		}
		if len(missing) > 0 {
			return "compares " + strings.Join(sortedSet(used), ",") + " but not " + strings.Join(missing, ",")
		}
	}
	return ""
}

// uniqueKeyFields[obj][field]: elements appended to obj inside an unordered
// iteration carry, in this field, the iteration key itself (map range key or
// first parameter of the Range callback), which is unique per iteration.
var uniqueKeyFields = map[types.Object]map[string]bool{}

func noteUniqueKeyFields(info *types.Info, body ast.Node, keyObj types.Object) {
	if keyObj == nil || body == nil {
		return
	}
	walk(body, func(n ast.Node) bool {
		as, ok := n.(*ast.AssignStmt)
		if !ok || len(as.Lhs) != 1 || len(as.Rhs) != 1 {
			return true
		}
		call, ok := unparen(as.Rhs[0]).(*ast.CallExpr)
		if !ok || len(call.Args) < 2 {
			return true
		}
		if id, ok := call.Fun.(*ast.Ident); !ok || id.Name != "append" {
			return true
		}
		dst := objOf(info, as.Lhs[0])
		if dst == nil {
			return true
		}
		for _, a := range call.Args[1:] {
			cl, ok := unparen(a).(*ast.CompositeLit)
			if !ok {
				continue
			}
			var st *types.Struct
			if t := info.TypeOf(cl); t != nil {
				st, _ = t.Underlying().(*types.Struct)
			}
			for i, el := range cl.Elts {
				name, val := "", el
				if kv, ok := el.(*ast.KeyValueExpr); ok {
					if kid, ok := kv.Key.(*ast.Ident); ok {
						name = kid.Name
					}
					val = kv.Value
				} else if st != nil && i < st.NumFields() {
					name = st.Field(i).Name()
				} else {
					name = "[" + itoa(i) + "]"
				}
				if id, ok := unparen(val).(*ast.Ident); ok && objOf(info, id) == keyObj {
					if uniqueKeyFields[dst] == nil {
						uniqueKeyFields[dst] = map[string]bool{}
					}
					uniqueKeyFields[dst][name] = true
				}
			}
		}
		return true
	})
}
