package main

import (
	"go/ast"
	"go/types"
	"strings"
)

// R-CODER-SELECT: the coder tables install a coder whose behaviour class
// (skips zero values / validates UTF-8 / packed / repeated) is exactly the
// class the descriptor predicates of the enclosing branch call for.

type coderClass struct {
	noZero, utf8, packed, repeated bool
}

func (c *Ctx) coderClassOf(v *types.Var) (coderClass, bool) {
	pk := c.P.Pkg("internal/impl")
	if pk == nil {
		return coderClass{}, false
	}
	info := pk.TypesInfo
	var lit *ast.CompositeLit
	for _, f := range pk.Syntax {
		for _, d := range f.Decls {
			if gd, ok := d.(*ast.GenDecl); ok {
				for _, sp := range gd.Specs {
					if vs, ok := sp.(*ast.ValueSpec); ok && len(vs.Names) == 1 && len(vs.Values) == 1 && info.Defs[vs.Names[0]] == types.Object(v) {
						lit, _ = unparen(vs.Values[0]).(*ast.CompositeLit)
					}
				}
			}
		}
	}
	if lit == nil {
		return coderClass{}, false
	}
	var cc coderClass
	found := false
	for _, el := range lit.Elts {
		kv, ok := el.(*ast.KeyValueExpr)
		if !ok {
			continue
		}
		id, _ := kv.Key.(*ast.Ident)
		if id == nil || id.Name != "marshal" {
			continue
		}
		fo, ok := objOf(info, kv.Value).(*types.Func)
		if !ok {
			continue
		}
		fx := c.P.Func(funcKey(fo))
		if fx == nil || fx.Decl.Body == nil {
			continue
		}
		w := c.wireSummary(fx, true)
		if w.problem != "" {
			return coderClass{}, false
		}
		found = true
		for _, g := range w.guards {
			if !strings.Contains(g, "len(") && !strings.Contains(g, ".Len()") {
				cc.noZero = true // a value test (v == 0, len(v) == 0 on a scalar string/bytes is also a zero test)
			}
			if strings.Contains(g, "len(*p.String())") || strings.Contains(g, "len(*p.Bytes())") {
				cc.noZero = true
			}
		}
		for _, op := range w.ops {
			if strings.HasPrefix(op, "range ") {
				cc.repeated = true
			}
			if strings.HasPrefix(op, "VL[range ") {
				cc.packed = true
			}
		}
		facts := c.coderFacts(fx)
		cc.utf8 = facts.calls["unicode/utf8.ValidString"] || facts.calls["unicode/utf8.Valid"]
	}
	return cc, found
}

func (c *Ctx) ruleCoderSelect(rule string, floor int) {
	R, P := c.R, c.P
	R.Rule(rule, "in fieldCoder every returned package-level coder has the behaviour class its branch calls for: zero-skipping (NoZero) coders exactly under `!fd.HasPresence()` (implicit presence), packed coders exactly under fd.IsPacked(), repeated coders exactly under Cardinality()==Repeated, UTF-8-validating coders exactly where strs.EnforceUTF8(fd) holds (and plain string coders of a StringKind field only where it does not)", floor)
	fi := c.need(rule, "internal/impl.fieldCoder")
	if fi == nil {
		return
	}
	info := fi.Info()
	g := fi.CFG()
	callAtom := func(name string, want bool) func(core ast.Expr, val bool) bool {
		return func(core ast.Expr, val bool) bool {
			call, ok := unparen(core).(*ast.CallExpr)
			if !ok {
				return false
			}
			k := calleeKey(info, call)
			return strings.HasSuffix(k, name) && val == want
		}
	}
	repeatedAtom := func(want bool) func(core ast.Expr, val bool) bool {
		return func(core ast.Expr, val bool) bool {
			be, ok := unparen(core).(*ast.BinaryExpr)
			if !ok {
				return false
			}
			o := objOf(info, be.Y)
			if o == nil || o.Name() != "Repeated" {
				return false
			}
			eq := be.Op.String() == "=="
			return (eq && val == want) || (!eq && val != want)
		}
	}
	n := 0
	walk(fi.Decl.Body, func(x ast.Node) bool {
		rs, ok := x.(*ast.ReturnStmt)
		if !ok || len(rs.Results) != 2 {
			return true
		}
		v, ok := objOf(info, rs.Results[1]).(*types.Var)
		if !ok || v.Pkg() == nil || v.Parent() != v.Pkg().Scope() {
			return true
		}
		cc, ok := c.coderClassOf(v)
		if !ok {
			return true
		}
		n++
		construct := fi.Key + " return " + v.Name() + " #" + itoa(n)
		var bad []string
		implicit := g.DominatedByCond(rs, callAtom("FieldDescriptor.HasPresence", false))
		explicitOrOther := !implicit
		if cc.noZero && !implicit {
			bad = append(bad, "a zero-skipping coder is installed outside the `!fd.HasPresence()` branch: an explicitly set zero value would not be encoded")
		}
		if !cc.noZero && implicit && !cc.repeated {
			bad = append(bad, "a coder that always encodes is installed for an implicit-presence field: zero values would be emitted")
		}
		_ = explicitOrOther
		packed := g.DominatedByCond(rs, callAtom("FieldDescriptor.IsPacked", true))
		if cc.packed != packed {
			bad = append(bad, "packed="+boolStr(cc.packed)+" coder under a branch with IsPacked()="+boolStr(packed))
		}
		rep := g.DominatedByCond(rs, repeatedAtom(true))
		if cc.repeated != rep {
			bad = append(bad, "repeated="+boolStr(cc.repeated)+" coder under a branch with Cardinality()==Repeated "+boolStr(rep))
		}
		enf := g.DominatedByCond(rs, callAtom("internal/strs.EnforceUTF8", true))
		if cc.utf8 && !enf {
			bad = append(bad, "a UTF-8 validating coder is installed where strs.EnforceUTF8(fd) was not established")
		}
		// plain coder in a StringKind clause must be reached only when EnforceUTF8 is false
		inStringKind := false
		walk(fi.Decl.Body, func(y ast.Node) bool {
			if cl, ok := y.(*ast.CaseClause); ok && containsNode(cl, rs) {
				for _, e := range cl.List {
					if k, ok := kindOfExpr(info, e); ok && k == "StringKind" {
						inStringKind = true
					}
				}
			}
			return true
		})
		if inStringKind && !cc.utf8 {
			facts := c.coderPrimitives(v)
			isStr := false
			for _, p := range facts {
				if strings.HasSuffix(p, "AppendString") || strings.HasSuffix(p, "AppendBytes") {
					isStr = true
				}
			}
			notEnf := g.DominatedByCond(rs, callAtom("internal/strs.EnforceUTF8", false))
			if !notEnf {
				// `if X && EnforceUTF8(fd) { return validating }; if X { return plain }`:
				// reaching the second return means X holds, so the first test failed on EnforceUTF8
				walk(fi.Decl.Body, func(y ast.Node) bool {
					cl, ok := y.(*ast.CaseClause)
					if !ok || !containsNode(cl, rs) {
						return true
					}
					for i, st := range cl.Body {
						is, ok := st.(*ast.IfStmt)
						if !ok || !containsNode(is, rs) || is.Else != nil {
							continue
						}
						for _, prev := range cl.Body[:i] {
							pis, ok := prev.(*ast.IfStmt)
							if !ok || pis.Else != nil || len(pis.Body.List) == 0 {
								continue
							}
							if _, isRet := pis.Body.List[len(pis.Body.List)-1].(*ast.ReturnStmt); !isRet {
								continue
							}
							be, ok := unparen(pis.Cond).(*ast.BinaryExpr)
							if !ok || be.Op.String() != "&&" {
								continue
							}
							if call, ok := unparen(be.Y).(*ast.CallExpr); ok && strings.HasSuffix(calleeKey(info, call), "internal/strs.EnforceUTF8") && exprStr(unparen(be.X)) == exprStr(unparen(is.Cond)) {
								notEnf = true
							}
						}
					}
					return true
				})
			}
			if isStr && !notEnf {
				if why, ok := coderSelectExempt[v.Name()]; ok {
					R.Exempt(rule, construct, P.Pos(rs), why)
					return true
				}
				bad = append(bad, "a non-validating string coder is installed for a StringKind field on a path where strs.EnforceUTF8(fd) may hold: invalid UTF-8 would be accepted")
			}
		}
		if len(bad) > 0 {
			R.Bad(rule, construct, P.Pos(rs), strings.Join(bad, "; "))
		} else {
			R.OK(rule, construct, P.Pos(rs), "class {noZero="+boolStr(cc.noZero)+", packed="+boolStr(cc.packed)+", repeated="+boolStr(cc.repeated)+", utf8="+boolStr(cc.utf8)+"} matches the branch")
		}
		return true
	})
}

var coderSelectExempt = map[string]string{}

// R-UTF8-SLOW: every StringKind branch of the reflection codec and of the text
// codec that moves a string between the wire/text form and the message
// rejects invalid UTF-8 exactly under strs.EnforceUTF8(fd).
func (c *Ctx) ruleUTF8Slow(rule string, floor int) {
	R, P := c.R, c.P
	R.Rule(rule, "in every function of the reflection codec (package proto) and of prototext that has a `case protoreflect.StringKind` clause handling field values, that clause contains a test `strs.EnforceUTF8(fd) && !utf8.Valid…(v)` (possibly with further conjuncts) whose branch returns a non-nil error", floor)
	for _, pkg := range []string{"proto", "encoding/prototext"} {
		for _, fi := range P.FuncsIn(pkg) {
			if fi.Decl.Body == nil {
				continue
			}
			if rs := fi.Obj.Type().(*types.Signature).Results(); rs.Len() == 1 && isIntType(rs.At(0).Type()) {
				continue // size functions measure, they do not move the string
			}
			info := fi.Info()
			k := 0
			walkAll(fi.Decl.Body, func(n ast.Node) bool {
				cl, ok := n.(*ast.CaseClause)
				if !ok {
					return true
				}
				isString := false
				for _, e := range cl.List {
					if kd, ok := kindOfExpr(info, e); ok && kd == "StringKind" {
						isString = true
					}
				}
				if !isString || len(cl.List) != 1 {
					return true
				}
				// only clauses that produce or consume the string value
				touches := false
				for _, st := range cl.Body {
					if containsCall(info, st, "reflect/protoreflect.ValueOfString", "reflect/protoreflect.Value.String", "encoding/protowire.AppendString", "internal/encoding/text.(*Encoder).WriteString") != nil {
						touches = true
					}
				}
				if !touches {
					return true
				}
				k++
				good := false
				for _, st := range cl.Body {
					walk(st, func(y ast.Node) bool {
						is, ok := y.(*ast.IfStmt)
						if !ok {
							return true
						}
						var atoms []atomVal
						impliedAtoms(is.Cond, true, &atoms)
						enf, inval := false, false
						for _, a := range atoms {
							if call, ok := unparen(a.E).(*ast.CallExpr); ok {
								ck := calleeKey(info, call)
								if strings.HasSuffix(ck, "internal/strs.EnforceUTF8") && a.Val {
									enf = true
								}
								if strings.HasPrefix(ck, "unicode/utf8.Valid") && !a.Val {
									inval = true
								}
							}
						}
						if enf && inval {
							ret := false
							walk(is.Body, func(z ast.Node) bool {
								if rs, ok := z.(*ast.ReturnStmt); ok && len(rs.Results) > 0 && !isNilIdent(info, rs.Results[len(rs.Results)-1]) {
									ret = true
								}
								return true
							})
							if ret {
								good = true
							}
						}
						return true
					})
				}
				R.Check(good, rule, fi.Key+" StringKind clause #"+itoa(k), P.Pos(cl), "rejects invalid UTF-8 under strs.EnforceUTF8(fd)", "a StringKind branch moves a string without the `strs.EnforceUTF8(fd) && !utf8.Valid(v)` rejection: invalid UTF-8 in a proto3/editions string field would be accepted or emitted")
				return true
			})
		}
	}
}
