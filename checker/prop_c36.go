package main

func init() {
	register(&Property{
		ID:         "C36",
		Level:      "other",
		Technique:  "sibling-agreement rule over all keyed-view insertions in lazyInit closures + CFG dominance (static)",
		Explain:    "Decides a structural necessary condition of C36's `ByName/ByNumber/ByJSONName/ByTextName return the first element with that key`: every keyed-view map insertion performed while ranging over the element list in a once.Do lazyInit closure of internal/filedesc is dominated by the key-absent test on the same map and key. Also decides that Get(i) of every list type returns the i-th element of the backing list, and that every By*/Has lookup answers only from the lazily built index (never from the backing list directly), so lookups cannot disagree with the first-wins / sorted index. Also: every Has method answers from a linear scan, a map filled from the whole list, or a sorted copy of it (never by indexing the declaration-order list), and MapKey/MapValue are the entry's fields numbered 1 and 2.",
		NotCovered: "FullName/Parent chains, RequiredNumbers contents, oneof link mutuality on concrete descriptors; those are value-level.",
		Quick:      all("./internal/filedesc"),
		Thorough:   all("./..."),
		Run: func(c *Ctx) {
			c.ruleFirstWins("R-FIRST-WINS", "internal/filedesc", 18)
			c.ruleListGet("R-LIST-GET", "internal/filedesc")
			c.ruleLookupViaIndex("R-LOOKUP-VIA-INDEX", "internal/filedesc", 20)
			c.ruleHasMembership("R-HAS-MEMBERSHIP", "internal/filedesc", 4)
			c.ruleMapEntryLinks("R-MAP-ENTRY-LINKS")
		},
	})
}
