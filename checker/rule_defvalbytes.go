package main

import (
	"go/ast"
	"go/constant"
	"go/token"
	"go/types"
	"regexp"
	"strings"
)

// R-DEFVAL-BYTES-ESCAPE: finite case analysis of defval.marshalBytes over all
// 256 byte values. The formatted default is parsed back by the text-format
// string scanner inside double quotes (unmarshalBytes), which reads `\` + up
// to three octal digits (or `\x` + up to two hex digits) greedily. So for
// every byte the writer must emit one of
//
//	the byte itself             only if printable ASCII other than `"` and `\`
//	a two-character C escape    whose letter denotes that byte
//	a numeric escape            of the maximal width the reader consumes
//	                            (3 octal / 2 hex digits, zero padded),
//
// otherwise a following digit character is absorbed into the escape and the
// default does not round-trip ({0x00,'1'} → `\01` → {0x01}).

var cEscapeValue = map[byte]int64{'n': '\n', 'r': '\r', 't': '\t', '"': '"', '\'': '\'', '\\': '\\', 'a': 7, 'b': 8, 'f': 12, 'v': 11}

var fmtNumEscRE = regexp.MustCompile(`^\\(x?)%(0?)(\d*)([oxX])$`)

func (c *Ctx) ruleDefvalBytesEscape(rule string) {
	R, P := c.R, c.P
	R.Rule(rule, "defval.marshalBytes, evaluated for every byte value 0..255: a byte is emitted raw only if printable ASCII other than `\"` and `\\`, as a two-character escape only if the letter denotes that byte, and otherwise as a numeric escape of fixed maximal width (3 octal or 2 hex digits, zero padded), so that the greedy text-format reader recovers exactly that byte whatever follows", 256)
	fi := c.need(rule, "internal/encoding/defval.marshalBytes")
	if fi == nil {
		return
	}
	info := fi.Info()
	// for _, c := range b { switch c { … } }
	var sw *ast.SwitchStmt
	var cObj types.Object
	walk(fi.Decl.Body, func(n ast.Node) bool {
		if rs, ok := n.(*ast.RangeStmt); ok && sw == nil {
			if v, ok := rs.Value.(*ast.Ident); ok {
				cObj = info.Defs[v]
			}
			for _, st := range rs.Body.List {
				if s, ok := st.(*ast.SwitchStmt); ok && s.Tag != nil {
					if id, ok := unparen(s.Tag).(*ast.Ident); ok && info.Uses[id] == cObj {
						sw = s
					}
				}
			}
		}
		return true
	})
	if sw == nil || cObj == nil {
		R.Unk(rule, fi.Key, P.Pos(fi.Decl), "`for _, c := range b { switch c {…} }` not found")
		return
	}
	for ch := int64(0); ch < 256; ch++ {
		construct := fi.Key + " byte 0x" + hex2(ch)
		env := map[types.Object]int64{cObj: ch}
		cc, ok := selectClause(info, sw, sw.Tag, env)
		if !ok || cc == nil {
			R.Unk(rule, construct, P.Pos(sw), "cannot decide which clause handles this byte")
			continue
		}
		stmts, ok := resolveBranches(info, cc.Body, env)
		if !ok {
			R.Unk(rule, construct, P.Pos(cc), "a condition in the clause cannot be evaluated for this byte")
			continue
		}
		// emitted pieces in order
		var pieces []string // "raw", "const:<s>", "fmt:<format>", "uint:<base>"
		undecided := ""
		for _, st := range stmts {
			walk(st, func(n ast.Node) bool {
				call, ok := n.(*ast.CallExpr)
				if !ok {
					return true
				}
				switch calleeKey(info, call) {
				case "builtin.append":
					if len(call.Args) < 2 {
						return true
					}
					for _, a := range call.Args[1:] {
						a = unparen(a)
						if tv, ok := info.Types[a]; ok && tv.Value != nil {
							switch tv.Value.Kind() {
							case constant.String:
								pieces = append(pieces, "const:"+constant.StringVal(tv.Value))
							case constant.Int:
								v, _ := constant.Int64Val(tv.Value)
								pieces = append(pieces, "const:"+string(rune(v)))
							}
							continue
						}
						if id, ok := a.(*ast.Ident); ok && info.Uses[id] == cObj {
							pieces = append(pieces, "raw")
							continue
						}
						if inner, ok := a.(*ast.CallExpr); ok && calleeKey(info, inner) == "fmt.Sprintf" && len(inner.Args) == 2 {
							if tv, ok := info.Types[inner.Args[0]]; ok && tv.Value != nil && tv.Value.Kind() == constant.String {
								if v, ok := evalInt(info, inner.Args[1], env); ok && v == ch {
									pieces = append(pieces, "fmt:"+constant.StringVal(tv.Value))
									return false
								}
							}
						}
						undecided = "unrecognised appended expression " + exprStr(a)
					}
					return false
				case "strconv.AppendUint", "strconv.AppendInt":
					if len(call.Args) == 3 {
						v, ok1 := evalInt(info, call.Args[1], env)
						b, ok2 := evalInt(info, call.Args[2], nil)
						if ok1 && ok2 && v == ch {
							pieces = append(pieces, "uint:"+itoa64(b))
							return false
						}
					}
					undecided = "unrecognised strconv call"
					return false
				}
				return true
			})
		}
		if undecided != "" {
			R.Unk(rule, construct, P.Pos(cc), undecided)
			continue
		}
		good, detail := classifyBytesEscape(ch, pieces)
		if good {
			R.OK(rule, construct, P.Pos(cc), detail)
		} else {
			R.Bad(rule, construct, P.Pos(cc), detail)
		}
	}
}

// resolveBranches flattens if statements whose conditions can be evaluated under env.
func resolveBranches(info *types.Info, stmts []ast.Stmt, env map[types.Object]int64) ([]ast.Stmt, bool) {
	var out []ast.Stmt
	for _, st := range stmts {
		is, ok := st.(*ast.IfStmt)
		if !ok {
			out = append(out, st)
			continue
		}
		local := env
		if is.Init != nil {
			as, ok := is.Init.(*ast.AssignStmt)
			if !ok || len(as.Lhs) != 1 || len(as.Rhs) != 1 || as.Tok != token.DEFINE {
				return nil, false
			}
			id, _ := as.Lhs[0].(*ast.Ident)
			if id == nil {
				return nil, false
			}
			local = map[types.Object]int64{}
			for k, v := range env {
				local[k] = v
			}
			if b, ok := evalBool(info, as.Rhs[0], env); ok {
				if b {
					local[info.Defs[id]] = 1
				} else {
					local[info.Defs[id]] = 0
				}
			} else if v, ok := evalInt(info, as.Rhs[0], env); ok {
				local[info.Defs[id]] = v
			} else {
				return nil, false
			}
		}
		b, ok := evalBool(info, is.Cond, local)
		if !ok {
			return nil, false
		}
		var chosen []ast.Stmt
		if b {
			chosen = is.Body.List
		} else if is.Else != nil {
			switch e := is.Else.(type) {
			case *ast.BlockStmt:
				chosen = e.List
			case *ast.IfStmt:
				chosen = []ast.Stmt{e}
			}
		}
		sub, ok := resolveBranches(info, chosen, local)
		if !ok {
			return nil, false
		}
		out = append(out, sub...)
	}
	return out, true
}

func digitsIn(v int64, base int64) int64 {
	n := int64(1)
	for v >= base {
		v /= base
		n++
	}
	return n
}

func classifyBytesEscape(ch int64, pieces []string) (bool, string) {
	if len(pieces) == 0 {
		return false, "nothing is emitted for this byte: it is dropped from the default"
	}
	if len(pieces) == 1 && pieces[0] == "raw" {
		if ch >= 0x20 && ch <= 0x7e && ch != '"' && ch != '\\' {
			return true, "emitted raw (printable)"
		}
		return false, "emitted raw although it is not printable ASCII or is a quote/backslash: the quoted text-format string does not parse back to this byte"
	}
	// assemble constant prefix
	prefix := ""
	rest := pieces
	for len(rest) > 0 && len(rest[0]) > 6 && rest[0][:6] == "const:" {
		prefix += rest[0][6:]
		rest = rest[1:]
	}
	if len(rest) == 0 {
		if len(prefix) == 2 && prefix[0] == '\\' {
			if v, ok := cEscapeValue[prefix[1]]; ok && v == ch {
				return true, "escape `" + prefix + "`"
			}
		}
		return false, "emits `" + prefix + "`, which the text-format reader does not decode to this byte"
	}
	if len(rest) != 1 {
		return false, "unrecognised emission sequence"
	}
	kind := rest[0]
	switch {
	case len(kind) > 4 && kind[:4] == "fmt:":
		f := prefix + kind[4:]
		m := fmtNumEscRE.FindStringSubmatch(f)
		if m == nil {
			return false, "format `" + f + "` is not a numeric escape of the form \\%03o or \\x%02x"
		}
		base, want := int64(8), "3"
		if m[4] != "o" {
			base, want = 16, "2"
			if m[1] != "x" {
				return false, "hex digits without the \\x introducer"
			}
		} else if m[1] == "x" {
			return false, "octal digits after \\x"
		}
		if m[2] != "0" || m[3] != want {
			return false, "numeric escape `" + f + "` is not zero padded to " + want + " digits: for this byte " + itoa64(digitsIn(ch, base)) + " digit(s) are written and a following digit character is absorbed into the escape by the reader"
		}
		return true, "numeric escape `" + f + "` (fixed width)"
	case len(kind) > 5 && kind[:5] == "uint:":
		var base int64
		switch kind[5:] {
		case "8":
			base = 8
		case "16":
			base = 16
		default:
			return false, "numeric escape in base " + kind[5:]
		}
		want := int64(3)
		intro := "\\"
		if base == 16 {
			want, intro = 2, "\\x"
		}
		if prefix != intro {
			return false, "numeric escape introduced by `" + prefix + "` instead of `" + intro + "`"
		}
		if d := digitsIn(ch, base); d != want {
			return false, "numeric escape written without padding: " + itoa64(d) + " digit(s) for this byte instead of " + itoa64(want) + ", so a following digit character is absorbed into the escape by the reader ({0x" + hex2(ch) + ",'1'} does not round-trip)"
		}
		return true, "numeric escape of maximal width for this byte"
	}
	return false, "unrecognised emission"
}

// R-DEFVAL-ENUM-NUMBER: the GoTag form of an enum default is the number.
// Marshal writes v.Enum(); Unmarshal has to return that very number. It may
// not take the number from the enum value it looked up, because for
// struct-tag-only messages the lookup yields a placeholder value that does not
// know its number (Number() is 0).
//
// R-DEFVAL-BYTES-READER: marshalBytes writes protoc's C-escape language
// (including \' and three-digit octal escapes); unmarshalBytes has to read it
// with the text-format string decoder, which is the reader of that language.
// Go's strconv.Unquote rejects \' inside a double-quoted literal.
func (c *Ctx) ruleDefvalReaders(ruleEnum, ruleBytes string) {
	R, P := c.R, c.P
	R.Rule(ruleEnum, "defval.Unmarshal's GoTag enum branch returns ValueOfEnum of the number it parsed from the string, not of <looked-up value>.Number()", 1)
	R.Rule(ruleBytes, "defval.unmarshalBytes decodes the quoted default with the text-format string decoder (internal/encoding/text.UnmarshalString), the reader of the escape language marshalBytes writes", 1)
	if fi := c.need(ruleEnum, "internal/encoding/defval.Unmarshal"); fi != nil {
		info := fi.Info()
		n := 0
		walkAll(fi.Decl.Body, func(x ast.Node) bool {
			is, ok := x.(*ast.IfStmt)
			if !ok || !strings.Contains(exprStr(is.Cond), "GoTag") {
				return true
			}
			parsed := map[types.Object]bool{}
			walk(is.Body, func(m ast.Node) bool {
				switch y := m.(type) {
				case *ast.AssignStmt:
					if len(y.Rhs) == 1 && strings.Contains(exprStr(y.Rhs[0]), "strconv.Parse") {
						if o := objOf(info, y.Lhs[0]); o != nil {
							parsed[o] = true
						}
					}
				case *ast.ReturnStmt:
					if len(y.Results) == 0 {
						return true
					}
					call, ok := unparen(y.Results[0]).(*ast.CallExpr)
					if !ok || !strings.HasSuffix(exprStr(call.Fun), "ValueOfEnum") || len(call.Args) != 1 {
						return true
					}
					n++
					fromParsed, fromLookup := false, false
					walk(call.Args[0], func(k ast.Node) bool {
						if id, ok := k.(*ast.Ident); ok && parsed[info.Uses[id]] {
							fromParsed = true
						}
						if se, ok := k.(*ast.SelectorExpr); ok && se.Sel.Name == "Number" {
							fromLookup = true
						}
						return true
					})
					R.Check(fromParsed && !fromLookup, ruleEnum, fi.Key+" GoTag enum", P.Pos(y), "the parsed number", "the GoTag enum default returns `"+exprStr(call.Args[0])+"`: for a struct-tag-only message the looked-up enum value is a placeholder whose Number() is 0, so `def=2` yields Default().Enum() == 0")
				}
				return true
			})
			return true
		})
		if n == 0 {
			R.Unk(ruleEnum, fi.Key, P.Pos(fi.Decl), "GoTag enum branch with a ValueOfEnum return not found")
		}
	}
	if fi := c.need(ruleBytes, "internal/encoding/defval.unmarshalBytes"); fi != nil {
		info := fi.Info()
		viaText, other := false, ""
		walkAll(fi.Decl.Body, func(x ast.Node) bool {
			call, ok := x.(*ast.CallExpr)
			if !ok {
				return true
			}
			switch k := calleeKey(info, call); {
			case k == "internal/encoding/text.UnmarshalString":
				viaText = true
			case strings.HasPrefix(k, "strconv.Unquote"):
				other = k
			}
			return true
		})
		switch {
		case viaText && other == "":
			R.OK(ruleBytes, fi.Key, P.Pos(fi.Decl), "text.UnmarshalString")
		case other != "":
			R.Bad(ruleBytes, fi.Key, P.Pos(fi.Decl), "the bytes default is decoded with "+other+", Go's quoting rules: `\\'` (which marshalBytes writes for an apostrophe, as protoc does) is rejected inside a double-quoted literal, so a default containing 0x27 does not survive Marshal/Unmarshal or ToFileDescriptorProto/NewFile")
		default:
			R.Unk(ruleBytes, fi.Key, P.Pos(fi.Decl), "decoder of the quoted default not recognised")
		}
	}
}
