package main

import (
	"go/ast"
	"go/token"
	"go/types"
	"strings"
)

func init() {
	register(&Property{
		ID:         "C08",
		Level:      "other",
		Technique:  "one scalar table for both paths (kind-context conformance of the table-driven fast path and of the reflection codec), fast-path gate rule (every use of protoiface.Methods is obtained from protoMethods and nil-guarded, with a reflection fallback), size/append agreement on both paths, option-flag bridges (static)",
		Explain:    "Decides structural necessary conditions of `fast path and reflection path are indistinguishable`: (1) both paths are checked against the same protobuf scalar table: in every Kind-dependent branch of internal/impl and of package proto the wire primitives, value transforms, Go types and bit sizes are those the Kind prescribes, so the two paths cannot disagree on a field's wire form; (2) every fast-path method used by package proto (Marshal, Unmarshal, Size, Merge, CheckInitialized, Equal) is read from the value returned by protoMethods(m), is called only after `methods != nil` and `methods.F != nil` were established, and each caller contains the reflection fallback; with the protoreflect build tag protoMethods returns nil; (3) the fast path is bypassed when it does not support a requested option (Deterministic, DiscardUnknown); (4) the two deterministic map-key comparators (fast path and reflection path) order every key kind by the direct comparison of the kind's own value; the reflection map decoder allocates an entry's message value once per entry (merging split values like the fast path) and replaces entries with a repeated key; (5) size and append agree on both paths (R-SIZE-APPEND), unknown-field handling and required-field checking are decided for both paths under C09 and C10. Also decided on both paths: every ConsumeTag loop rejects numbers above MaxValidNumber before using them (R-CONSUMETAG-RANGE, so both paths fail on the same tags); the reflection encoder's size and write functions describe the same wire shape (R-REFL-ENC-PARITY) and the fast path's map entry sizer and writers agree (R-MAP-ENTRY-PARITY); the reflection merge clones exactly what the fast path clones (R-MERGE-DESC). Also: the reflective decoder merges into Message.Mutable like the table-driven one, and both MessageSet decoders store an unknown item canonically (found D26).",
		NotCovered: "equality of observable results on concrete messages; dynamicpb and legacy wrappers; the list/map loops of the reflection encoder.",
		Quick:      all("./proto", "./internal/impl", "./internal/order", "./encoding/protojson", "./encoding/prototext"),
		Thorough:   []ConfigLoad{{"default", []string{"./..."}}, {"reflect", []string{"./proto"}}},
		Run: func(c *Ctx) {
			c.ruleNestedMerge("R-NESTED-MERGE")
			if c.P.Config == "reflect" {
				c.ruleFastPathGateReflect("R-FASTPATH-GATE")
				return
			}
			c.ruleEqualExtSymmetry("R-EQUAL-EXT-SYMMETRY")
			c.ruleInitFlagScope("R-INIT-FLAG-SCOPE")
			c.ruleReflErrSkip("R-REFL-ERR-SKIP", 3)
			c.ruleMergeDesc("R-MERGE-DESC")
			c.ruleConsumeTagRange("R-CONSUMETAG-RANGE", []string{"internal/impl", "proto"}, 4)
			c.ruleReflEncParity("R-REFL-ENC-PARITY")
			c.ruleMapEntryParity("R-MAP-ENTRY-PARITY")
			c.ruleKindContext("R-KIND-CONTEXT", []string{"proto", "internal/impl"}, 100)
			c.ruleFastPathGate("R-FASTPATH-GATE")
			c.ruleSizeAppend("R-SIZE-APPEND", []string{"internal/impl", "proto"}, sizeAppendNotAnalysed, 130)
			c.ruleMapKeyOrder("R-MAPKEY-ORDER")
			c.ruleMapEntryOnce("R-MAP-ENTRY-ONCE")
			c.ruleMsetUnknownCanon("R-MSET-UNKNOWN-CANON")
			c.ruleReflMsgMerge("R-REFL-MSG-MERGE", 5)
			c.ruleMapReplace("R-MAP-REPLACE")
		},
	})
}

func (c *Ctx) ruleFastPathGateReflect(rule string) {
	R, P := c.R, c.P
	R.Rule(rule, "(protoreflect build tag) protoMethods returns nil unconditionally, so no fast-path method can be reached", 0)
	fi := c.need(rule, "proto.protoMethods")
	if fi == nil {
		return
	}
	ok := len(fi.Decl.Body.List) == 1
	if ok {
		rs, isRet := fi.Decl.Body.List[0].(*ast.ReturnStmt)
		ok = isRet && len(rs.Results) == 1 && isNilIdent(fi.Info(), rs.Results[0])
	}
	R.Check(ok, rule, fi.Key+" [reflect]", P.Pos(fi.Decl), "returns nil", "with the protoreflect tag protoMethods can return fast-path methods")
}

func (c *Ctx) ruleFastPathGate(rule string) {
	R, P := c.R, c.P
	R.Rule(rule, "in package proto every value of type *protoiface.Methods comes from protoMethods(m); every call through one of its function fields is dominated by `methods != nil` and `methods.F != nil`; each function that consults the fast path also contains its reflection fallback; the fast path is skipped when a requested option is not supported by the methods' Flags", 6)
	fallback := map[string][]string{
		"proto.MarshalOptions.marshal":     {"proto.MarshalOptions.marshalMessageSlow"},
		"proto.UnmarshalOptions.unmarshal": {"proto.UnmarshalOptions.unmarshalMessageSlow"},
		"proto.MarshalOptions.size":        {"proto.MarshalOptions.sizeMessageSlow"},
		"proto.mergeOptions.mergeMessage":  {"reflect/protoreflect.Message.Range"},
		"proto.checkInitialized":           {"proto.checkInitializedSlow"},
		"proto.Equal":                      {"reflect/protoreflect.Value.Equal", "proto.equalMessage"},
	}
	n := 0
	var methodsType types.Type
	if pm := c.need(rule, "proto.protoMethods"); pm != nil {
		methodsType = pm.Obj.Type().(*types.Signature).Results().At(0).Type()
	} else {
		return
	}
	for _, fi := range P.FuncsIn("proto") {
		if fi.Decl.Body == nil {
			continue
		}
		info := fi.Info()
		var g *FCFG
		defs := localDefs(fi.Decl.Body, info)
		walkAll(fi.Decl.Body, func(x ast.Node) bool {
			call, ok := x.(*ast.CallExpr)
			if !ok {
				return true
			}
			se, ok := call.Fun.(*ast.SelectorExpr)
			if !ok {
				return true
			}
			if t := info.TypeOf(se.X); t == nil || !types.Identical(t, methodsType) {
				return true
			}
			sel := info.Selections[se]
			if sel == nil || sel.Kind() != types.FieldVal {
				return true
			}
			n++
			construct := fi.Key + " fast-path call ." + se.Sel.Name
			if g == nil {
				g = fi.CFG()
			}
			mobj := objOf(info, se.X)
			var bad []string
			fromGate := false
			for _, d := range defs[mobj] {
				if _, ok := isCall(info, unparen(d.rhs), "proto.protoMethods"); ok {
					fromGate = true
				}
			}
			if !fromGate {
				bad = append(bad, "the methods value does not come from protoMethods(m)")
			}
			notNil := g.DominatedByCond(call, func(core ast.Expr, val bool) bool {
				be, ok := unparen(core).(*ast.BinaryExpr)
				if !ok || !isNilIdent(info, be.Y) || objOf(info, be.X) != mobj {
					return false
				}
				return (be.Op == token.NEQ && val) || (be.Op == token.EQL && !val)
			})
			fieldNotNil := g.DominatedByCond(call, func(core ast.Expr, val bool) bool {
				be, ok := unparen(core).(*ast.BinaryExpr)
				if !ok || !isNilIdent(info, be.Y) {
					return false
				}
				s2, ok := unparen(be.X).(*ast.SelectorExpr)
				if !ok || s2.Sel.Name != se.Sel.Name || objOf(info, s2.X) != mobj {
					return false
				}
				return (be.Op == token.NEQ && val) || (be.Op == token.EQL && !val)
			})
			if !notNil {
				bad = append(bad, "not dominated by `methods != nil`")
			}
			if !fieldNotNil {
				bad = append(bad, "not dominated by `methods."+se.Sel.Name+" != nil`")
			}
			if fb, ok := fallback[fi.Key]; ok {
				has := false
				walkAll(fi.Decl.Body, func(y ast.Node) bool {
					if cc, ok := y.(*ast.CallExpr); ok {
						if _, ok := isCall(info, cc, fb...); ok {
							has = true
						}
					}
					return true
				})
				if !has {
					bad = append(bad, "the reflection fallback ("+strings.Join(fb, " / ")+") is not called in this function")
				}
			} else if se.Sel.Name != "Size" {
				bad = append(bad, "fast-path method used in a function with no registered reflection fallback")
			}
			// option support flags
			switch se.Sel.Name {
			case "Marshal":
				if fi.Key != "proto.MarshalOptions.marshal" {
					break // used only to measure a length: the ordering option is irrelevant
				}
				if !mentionsConst(info, fi.Decl.Body, "SupportMarshalDeterministic") {
					bad = append(bad, "Marshal fast path is taken without testing SupportMarshalDeterministic")
				}
			case "Unmarshal":
				if !mentionsConst(info, fi.Decl.Body, "SupportUnmarshalDiscardUnknown") {
					bad = append(bad, "Unmarshal fast path is taken without testing SupportUnmarshalDiscardUnknown")
				}
			}
			if len(bad) > 0 {
				R.Bad(rule, construct, P.Pos(call), strings.Join(bad, "; "))
			} else {
				R.OK(rule, construct, P.Pos(call), "gated by protoMethods, nil-guarded, with fallback")
			}
			return true
		})
	}
	if n == 0 {
		R.Unk(rule, "fast-path calls", "", "no call through protoiface.Methods found in package proto")
	}
}

func mentionsConst(info *types.Info, n ast.Node, name string) bool {
	found := false
	walkAll(n, func(x ast.Node) bool {
		if id, ok := x.(*ast.Ident); ok {
			if o := info.Uses[id]; o != nil && o.Name() == name {
				if _, isC := o.(*types.Const); isC {
					found = true
				}
			}
		}
		return true
	})
	return found
}
