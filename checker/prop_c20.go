package main

import (
	"go/ast"
	"go/types"
	"strings"
)

func init() {
	register(&Property{
		ID:         "C20",
		Level:      "other",
		Technique:  "dispatch-table agreement of the JSON well-known-type codec, kind-context table conformance of the JSON scalar encoder/decoder, float width provenance, error-drop discipline on the JSON writer, structural pairing of object/array delimiters (static)",
		Explain:    "Decides structural necessary conditions of the protojson round trip: (1) encoder and decoder dispatch tables for well-known types cover the same message names with marshalX/unmarshalX pairs; (2) in every Kind-dependent branch of the JSON encoder and decoder the representation class (number, quoted 64-bit integer, string, base64 bytes, enum) and the bit sizes match the Kind per the proto3 JSON mapping, so what the encoder writes for a Kind is what the decoder reads for it; (3) float32 values are formatted and parsed at width 32 (no double rounding); (4) no error of the JSON writer (invalid UTF-8 in WriteString/WriteName) is dropped except where the written text is produced by the library itself (reviewed table); (5) the JSON string scanner never writes into its input buffer (Any decoding scans the same bytes twice: once with a look-ahead clone to find @type, once for real); (6) every StartObject/StartArray is closed by the matching End call on all paths (immediately or deferred). Also decided: field names are written only from JSONName()/TextName(), the inverses of the reader's lookups (R-NAME-ACCESSOR-PAIR); the codec uses one resolver throughout (R-RESOLVER-PROP); the JSON string writer and reader agree on every escape, including four-digit \\u escapes for every control character (R-JSON-ESCAPES, shared with C21). Also: the value of an Any rebuilt from its expanded JSON form is marshaled with Deterministic: true. Also: map keys are parsed with the strconv function and bit size of the key kind; the exponent clean-up of the float writer drops a byte only where it is established to be the padding '0'.",
		NotCovered: "the round trip on concrete messages and option combinations (EmitUnpopulated, UseProtoNames, UseEnumNumbers, …); Any expansion; FieldMask and Struct/Value conversions (value-level).",
		Quick:      all("./encoding/protojson"),
		Thorough:   all("./..."),
		Run: func(c *Ctx) {
			c.ruleGenDetMarshal("R-ANY-DET-MARSHAL", []string{"encoding/protojson"}, map[string]string{}, 1)
			c.ruleMapKeyParse("R-MAPKEY-PARSE")
			c.ruleFloatExpCleanup("R-FLOAT-EXP-CLEANUP")
			c.ruleWKTTable("R-WKT-TABLE")
			c.ruleResolverProp("R-RESOLVER-PROP", []string{"encoding/protojson"}, 3)
			c.ruleNameAccessorPair("R-NAME-ACCESSOR-PAIR", "encoding/protojson", "encoding/protojson.encoder.marshalMessage", 1)
			c.ruleJSONEscapes("R-JSON-ESCAPES")
			c.ruleKindContext("R-KIND-CONTEXT", []string{"encoding/protojson", "internal/encoding/json"}, 10)
			c.ruleFloatBits("R-FLOATBITS", inPkgs("internal/encoding/json", "encoding/protojson"), 1)
			c.ruleErrDrop("R-ERR-DROP", []string{"encoding/protojson"},
				func(key string, f *types.Func) bool {
					return key == "internal/encoding/json.(*Encoder).WriteString" || key == "internal/encoding/json.(*Encoder).WriteName" || strings.HasPrefix(key, "encoding/protojson.encoder.")
				}, jsonWriteDropOK, 10)
			c.ruleInputNotMutated("R-INPUT-NOT-MUTATED", []string{"internal/encoding/json.(*Decoder).parseString"})
			c.ruleDelimPairs("R-JSON-PAIRS", "encoding/protojson", map[string]string{
				"internal/encoding/json.(*Encoder).StartObject": "internal/encoding/json.(*Encoder).EndObject",
				"internal/encoding/json.(*Encoder).StartArray":  "internal/encoding/json.(*Encoder).EndArray",
			}, 5)
		},
	})
}

const jw = "internal/encoding/json.(*Encoder)."

// Writes whose text is produced by the library itself and is ASCII by
// construction, so the writer's only error (invalid UTF-8) cannot occur.
var jsonWriteDropOK = map[string]string{
	"encoding/protojson.encoder.marshalAny -> " + jw + "WriteName (\"@type\")":                                             "constant ASCII name",
	"encoding/protojson.encoder.marshalAny -> " + jw + "WriteName (\"value\")":                                             "constant ASCII name",
	"encoding/protojson.encoder.marshalDuration -> " + jw + "WriteString (x + \"s\")":                                      "x is fmt.Sprintf of a sign and two integers with a constant format: ASCII digits, '-' and '.'",
	"encoding/protojson.encoder.marshalTimestamp -> " + jw + "WriteString (x + \"Z\")":                                     "x is time.Time.Format with a constant numeric layout: ASCII",
	"encoding/protojson.encoder.marshalFieldMask -> " + jw + "WriteString (strings.Join(paths, \",\"))":                    "every path passed protoreflect.FullName.IsValid (ASCII identifiers and dots) before being appended",
	"encoding/protojson.encoder.marshalSingular -> " + jw + "WriteString (val.String())":                                   "in the case clause of the 64-bit integer kinds: Value.String() is the decimal text of the integer",
	"encoding/protojson.encoder.marshalSingular -> " + jw + "WriteString (base64.StdEncoding.EncodeToString(val.Bytes()))": "base64 alphabet: ASCII",
	"encoding/protojson.encoder.marshalSingular -> " + jw + "WriteString (string(desc.Name()))":                            "an enum value name from a descriptor: a protobuf identifier (ASCII)",
}

// R-JSON-PAIRS: every opening delimiter call is directly followed, in the same
// statement list, by its matching closing call or by a defer of it.
func (c *Ctx) ruleDelimPairs(rule, pkg string, pairs map[string]string, floor int) {
	R, P := c.R, c.P
	R.Rule(rule, "every call that opens a delimiter (StartObject/StartArray) is directly followed in its statement list by the matching closing call or by a `defer` of it: delimiters are balanced on every path, including error returns", floor)
	for _, fi := range P.FuncsIn(pkg) {
		if fi.Decl.Body == nil {
			continue
		}
		info := fi.Info()
		k := 0
		walkAll(fi.Decl.Body, func(n ast.Node) bool {
			blk, ok := n.(*ast.BlockStmt)
			var list []ast.Stmt
			if ok {
				list = blk.List
			} else if cc, ok := n.(*ast.CaseClause); ok {
				list = cc.Body
			} else {
				return true
			}
			for i, st := range list {
				es, ok := st.(*ast.ExprStmt)
				if !ok {
					continue
				}
				call, ok := es.X.(*ast.CallExpr)
				if !ok {
					continue
				}
				closer, ok := pairs[calleeKey(info, call)]
				if !ok {
					continue
				}
				k++
				good := false
				if i+1 < len(list) {
					switch nx := list[i+1].(type) {
					case *ast.DeferStmt:
						good = calleeKey(info, nx.Call) == closer
					case *ast.ExprStmt:
						if c2, ok := nx.X.(*ast.CallExpr); ok {
							good = calleeKey(info, c2) == closer
						}
					}
				}
				R.Check(good, rule, fi.Key+" open #"+itoa(k), P.Pos(call), "closed immediately or by defer", "an opened object/array is not closed by the next statement (directly or deferred): some path can leave the output unbalanced")
			}
			return true
		})
	}
}
