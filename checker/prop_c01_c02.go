package main

import (
	"go/ast"
	"go/token"
	"go/types"
	"strings"
)

func init() {
	register(&Property{
		ID:         "C01",
		Level:      "proof",
		Technique:  "GF(2)-affine bit-level abstract interpretation of the loop-free wire primitives (exact for all 64-bit inputs) + value-set evaluation of the size closed forms over the complete log2 domain; shape and linear-form rules for the length-prefixed byte strings (static)",
		Explain:    "For the integer wire primitives the abstract domain (each bit an affine form over the input bits, refined by the `v < 2^k` path conditions) is exact, so the following hold for every 64-bit input, not for a sample: (1) for each of AppendVarint's ten cases the emitted bytes drive ConsumeVarint down a single path that returns exactly the input value and the emitted length; case k emits k bytes under thresholds 2^(7k), so the encoding is the shortest one; (2) SizeVarint equals the emitted length for every magnitude class (value-set evaluation over log2 = 0..63), and SizeTag equals the length AppendTag emits for every valid field number and wire type; (3) Fixed32/Fixed64 append/consume are mutually inverse and consume their full width; (4) ZigZag encode/decode are mutually inverse bijections on 64 bits; (5) EncodeTag/DecodeTag are mutually inverse on field numbers 1..2^29-1 and wire types 0..7. Byte strings: every return of AppendBytes/AppendString is varint(len(v)) followed by v (a one-byte prefix only under a guard implying len(v) < 0x80), SizeBytes(n) is SizeVarint(n)+n, a varint length prefix followed by raw appends declares the sum of the appended lengths (linear forms), and consumeFieldValueD's depth parameter is a per-level budget (never assigned, passed down decremented).",
		NotCovered: "ConsumeBytes/ConsumeString (their length handling is checked under C02), DecodeBool/EncodeBool, and ConsumeGroup's stripping of non-minimal end tags.",
		Trusted:    []string{"the transfer functions of the bit-level interpreter in /verif/checker/e2_bitaffine.go and Go's integer semantics as modelled there"},
		Quick:      all("./encoding/protowire"),
		Thorough:   all("./..."),
		Run: func(c *Ctx) {
			c.ruleVarintRT("R-VARINT-RT")
			c.ruleSizeVarint("R-SIZEVARINT")
			c.ruleFixedRT("R-FIXED-RT")
			c.ruleZigZag("R-ZIGZAG-BIJ")
			c.ruleTagBij("R-TAG-BIJ")
			c.ruleBytesPrefix("R-BYTES-PREFIX")
			c.ruleLenPrefixConsistent("R-LENPREFIX-CONSISTENT", []string{"encoding/protowire"}, 2)
			c.ruleDepthPerLevel("R-DEPTH-PER-LEVEL")
		},
	})
	register(&Property{
		ID:         "C02",
		Level:      "other",
		Technique:  "bit-level abstract interpretation with length tracking (no overread, error codes per input length), CFG sign-test dominance on consumed lengths, call-graph recursion guard, range analysis of DecodeTag; dominance of narrowing conversions by the unsigned bound test; exact-exit rule for ConsumeTag (static)",
		Explain:    "Decides structural necessary conditions of `the wire field parser accepts exactly the wire grammar and never overreads`: (1) ConsumeVarint, ConsumeFixed32 and ConsumeFixed64 never index beyond the established length for any input length 0..11, return a positive count only after reading that many bytes, report truncation exactly when the input ends inside the value, and ConsumeVarint reports overflow for a tenth byte >= 2; (2) every length returned by a Consume* function inside protowire is sign-tested before it is used to slice; (3) the recursive group scanner consumeFieldValueD is cut by a depth test on every recursive edge; (4) DecodeTag returns a valid number only when the 61-bit field number fits in 31 bits (no silent wrap-around), and ConsumeTag rejects numbers below MinValidNumber. Further: a length decoded by ConsumeVarint is narrowed to int only after the unsigned bound test against the remaining input; ConsumeTag rejects for exactly two reasons (malformed varint, field number below 1); the recursion budget is per nesting level.",
		NotCovered: "acceptance of every well-formed nested group as a whole (the loop in consumeFieldValueD is decided per element only) and ParseError's text.",
		Quick:      all("./encoding/protowire"),
		Thorough:   all("./..."),
		Run: func(c *Ctx) {
			c.ruleConsumeGrammar("R-CONSUME-GRAMMAR")
			c.ruleNegLen("R-NEG-LEN", []string{"encoding/protowire"}, map[string]string{}, 8)
			c.ruleRecursionGuard(recScope{Rule: "R-RECURSION-GUARD", Pkgs: []string{"encoding/protowire"}, Floor: 1})
			c.ruleDecodeTagRange("R-DECODETAG-RANGE")
			c.ruleLenNarrowGuarded("R-LEN-NARROW-GUARDED", "encoding/protowire", 1)
			c.ruleConsumeTagExact("R-CONSUMETAG-EXACT")
			c.ruleDepthPerLevel("R-DEPTH-PER-LEVEL")
		},
	})
}

const pw = "encoding/protowire."

type varintCase struct {
	n     int // bytes emitted
	zero  int // lowest input bit forced to 0 by the case guard (64 if none)
	subst map[int]uint8
	bytes *blist
}

func (c *Ctx) appendVarintCases(rule string) []varintCase {
	R, P := c.R, c.P
	fi := c.need(rule, pw+"AppendVarint")
	if fi == nil {
		return nil
	}
	bi := &bitInterp{P: P, info: fi.Info()}
	leaves := bi.run(fi, []any{&blist{}, varVec(0, 64, false)}, nil)
	if bi.problem != "" {
		R.Unk(rule, fi.Key, P.Pos(fi.Decl), "outside the analysed subset: "+bi.problem)
		return nil
	}
	var out []varintCase
	for _, l := range leaves {
		bl, ok := l.rets[0].(*blist)
		if !ok {
			R.Unk(rule, fi.Key, P.Pos(fi.Decl), "a path does not return the appended buffer")
			return nil
		}
		vc := varintCase{n: len(bl.elems), zero: 64, subst: l.st.subst, bytes: bl}
		for i := 63; i >= 0; i-- {
			if v, ok := l.st.subst[i]; ok && v == 0 {
				vc.zero = i
			} else {
				break
			}
		}
		out = append(out, vc)
	}
	return out
}

func (c *Ctx) ruleVarintRT(rule string) {
	R, P := c.R, c.P
	R.Rule(rule, "for every case of AppendVarint (path condition v < 2^(7k) refining the input bits) the emitted bytes, fed to ConsumeVarint, select exactly one path whose result is the identity on all 64 input bits and whose count is the emitted length; case k emits k bytes under the threshold 2^(7k), k = 1..9, and ten bytes otherwise (shortest encoding)", 20)
	cases := c.appendVarintCases(rule)
	fc := c.need(rule, pw+"ConsumeVarint")
	if cases == nil || fc == nil {
		return
	}
	R.Check(len(cases) == 10, rule, pw+"AppendVarint case count", P.Pos(fc.Decl), "ten cases", "AppendVarint does not have exactly ten byte-length cases")
	for i, vc := range cases {
		construct := pw + "AppendVarint case " + itoa(i+1)
		wantZero := 7 * (i + 1)
		if i == 9 {
			wantZero = 64
		}
		R.Check(vc.n == i+1 && vc.zero == wantZero, rule, construct+" length/threshold", P.Pos(fc.Decl),
			itoa(vc.n)+" bytes for v < 2^"+itoa(vc.zero), "case "+itoa(i+1)+" emits "+itoa(vc.n)+" bytes under the guard v < 2^"+itoa(vc.zero)+": not the base-128 shortest encoding (expected "+itoa(i+1)+" bytes for v < 2^"+itoa(wantZero)+")")
		bi := &bitInterp{P: P, info: fc.Info()}
		leaves := bi.run(fc, []any{vc.bytes}, vc.subst)
		if bi.problem != "" {
			R.Bad(rule, construct+" round trip", P.Pos(fc.Decl), "ConsumeVarint on the emitted bytes: "+bi.problem)
			continue
		}
		if len(leaves) != 1 {
			R.Bad(rule, construct+" round trip", P.Pos(fc.Decl), "ConsumeVarint does not follow a single determined path on the bytes emitted by this case ("+itoa(len(leaves))+" paths)")
			continue
		}
		v, okV := leaves[0].rets[0].(*bvec)
		n, okN := leaves[0].rets[1].(*bvec)
		bad := ""
		if !okV || !okN {
			bad = "unexpected result shape"
		} else {
			if nv, ok := n.constVal(); !ok || int64(nv) != int64(vc.n) {
				bad = "consumed count is not " + itoa(vc.n)
			}
			st := &bstate{subst: vc.subst}
			for b := 0; b < 64 && bad == ""; b++ {
				want := st.apply(bvar(b))
				got := leaves[0].st.apply(v.b[b])
				if !want.eq(got) {
					bad = "bit " + itoa(b) + " of the decoded value is " + (&bvec{b: []bform{got}}).String() + ", expected input bit " + itoa(b)
				}
			}
		}
		R.Check(bad == "", rule, construct+" round trip", P.Pos(fc.Decl), "ConsumeVarint(AppendVarint(v)) = (v, "+itoa(vc.n)+") for all v of this case", "ConsumeVarint(AppendVarint(v)) != v for values of this case: "+bad)
	}
}

// concExec: concrete evaluation of a small integer function (straight-line
// code, if/switch ladders, calls to other module functions) on one argument
// vector; used only on representatives of finite abstract classes.
func (c *Ctx) concExec(fi *FuncInfo, args []int64, depth int) (int64, bool) {
	info := fi.Info()
	env := map[types.Object]int64{}
	i := 0
	for _, f := range fi.Decl.Type.Params.List {
		for _, nm := range f.Names {
			if i < len(args) {
				env[info.Defs[nm]] = args[i]
			}
			i++
		}
	}
	var evalE func(e ast.Expr) (int64, bool)
	evalE = func(e ast.Expr) (int64, bool) {
		e = unparen(e)
		if call, ok := e.(*ast.CallExpr); ok {
			if cf := c.P.Func(calleeKey(info, call)); cf != nil && cf.Decl.Body != nil && depth < 4 {
				var as []int64
				for _, a := range call.Args {
					v, ok := evalE(a)
					if !ok {
						return 0, false
					}
					as = append(as, v)
				}
				return c.concExec(cf, as, depth+1)
			}
			if tv, ok := info.Types[call.Fun]; ok && tv.IsType() && len(call.Args) == 1 {
				v, ok := evalE(call.Args[0])
				if !ok {
					return 0, false
				}
				tmp := &ast.Ident{Name: "·t"}
				to := types.NewVar(token.NoPos, nil, "·t", info.TypeOf(call.Args[0]))
				info.Uses[tmp] = to
				defer delete(info.Uses, tmp)
				env[to] = v
				defer delete(env, to)
				return evalInt(info, &ast.CallExpr{Fun: call.Fun, Args: []ast.Expr{tmp}}, env)
			}
			if len(call.Args) == 1 {
				if v, ok := evalE(call.Args[0]); ok {
					tmp := &ast.Ident{Name: "·t"}
					to := types.NewVar(token.NoPos, nil, "·t", info.TypeOf(call.Args[0]))
					info.Uses[tmp] = to
					defer delete(info.Uses, tmp)
					env[to] = v
					defer delete(env, to)
					return evalInt(info, &ast.CallExpr{Fun: call.Fun, Args: []ast.Expr{tmp}}, env)
				}
			}
		}
		if be, ok := e.(*ast.BinaryExpr); ok {
			a, okA := evalE(be.X)
			b, okB := evalE(be.Y)
			if okA && okB {
				ta, tb := &ast.Ident{Name: "·a"}, &ast.Ident{Name: "·b"}
				oa := types.NewVar(token.NoPos, nil, "·a", info.TypeOf(be.X))
				ob := types.NewVar(token.NoPos, nil, "·b", info.TypeOf(be.Y))
				info.Uses[ta], info.Uses[tb] = oa, ob
				info.Types[ta] = types.TypeAndValue{Type: info.TypeOf(be.X)}
				defer delete(info.Uses, ta)
				defer delete(info.Uses, tb)
				defer delete(info.Types, ta)
				env[oa], env[ob] = a, b
				defer delete(env, oa)
				defer delete(env, ob)
				return evalInt(info, &ast.BinaryExpr{X: ta, Op: be.Op, Y: tb}, env)
			}
			return 0, false
		}
		return evalInt(info, e, env)
	}
	var exec func(stmts []ast.Stmt) (int64, bool, bool) // value, returned, ok
	exec = func(stmts []ast.Stmt) (int64, bool, bool) {
		for _, s := range stmts {
			switch x := s.(type) {
			case *ast.AssignStmt:
				if len(x.Lhs) != 1 || len(x.Rhs) != 1 {
					return 0, false, false
				}
				id, ok := x.Lhs[0].(*ast.Ident)
				if !ok {
					return 0, false, false
				}
				o := info.Defs[id]
				if o == nil {
					o = info.Uses[id]
				}
				rhs := x.Rhs[0]
				if x.Tok != token.ASSIGN && x.Tok != token.DEFINE {
					op := map[token.Token]token.Token{token.ADD_ASSIGN: token.ADD, token.SUB_ASSIGN: token.SUB, token.OR_ASSIGN: token.OR, token.AND_ASSIGN: token.AND, token.XOR_ASSIGN: token.XOR, token.SHL_ASSIGN: token.SHL, token.SHR_ASSIGN: token.SHR}[x.Tok]
					rhs = &ast.BinaryExpr{X: x.Lhs[0], Op: op, Y: x.Rhs[0]}
				}
				v, ok := evalE(rhs)
				if !ok {
					return 0, false, false
				}
				env[o] = v
			case *ast.ReturnStmt:
				if len(x.Results) != 1 {
					return 0, false, false
				}
				v, ok := evalE(x.Results[0])
				return v, true, ok
			case *ast.IfStmt:
				if x.Init != nil {
					if _, _, ok := exec([]ast.Stmt{x.Init}); !ok {
						return 0, false, false
					}
				}
				b, ok := c.concBool(info, x.Cond, evalE)
				if !ok {
					return 0, false, false
				}
				var body []ast.Stmt
				if b {
					body = x.Body.List
				} else if x.Else != nil {
					if bl, ok := x.Else.(*ast.BlockStmt); ok {
						body = bl.List
					} else {
						body = []ast.Stmt{x.Else}
					}
				}
				if v, ret, ok := exec(body); !ok || ret {
					return v, ret, ok
				}
			case *ast.SwitchStmt:
				if x.Tag != nil {
					return 0, false, false
				}
				if x.Init != nil {
					if _, _, ok := exec([]ast.Stmt{x.Init}); !ok {
						return 0, false, false
					}
				}
				var chosen *ast.CaseClause
				var def *ast.CaseClause
				for _, cs := range x.Body.List {
					cc := cs.(*ast.CaseClause)
					if cc.List == nil {
						def = cc
						continue
					}
					if chosen != nil {
						continue
					}
					for _, l := range cc.List {
						b, ok := c.concBool(info, l, evalE)
						if !ok {
							return 0, false, false
						}
						if b {
							chosen = cc
						}
					}
				}
				if chosen == nil {
					chosen = def
				}
				if chosen != nil {
					if v, ret, ok := exec(chosen.Body); !ok || ret {
						return v, ret, ok
					}
				}
			default:
				return 0, false, false
			}
		}
		return 0, false, true
	}
	v, ret, ok := exec(fi.Decl.Body.List)
	return v, ok && ret
}

func (c *Ctx) concBool(info *types.Info, e ast.Expr, evalE func(ast.Expr) (int64, bool)) (bool, bool) {
	be, ok := unparen(e).(*ast.BinaryExpr)
	if !ok {
		return false, false
	}
	a, okA := evalE(be.X)
	b, okB := evalE(be.Y)
	if !okA || !okB {
		return false, false
	}
	if _, sg, ok := intWidth(info.TypeOf(be.X)); ok && !sg {
		ua, ub := uint64(a), uint64(b)
		switch be.Op {
		case token.LSS:
			return ua < ub, true
		case token.LEQ:
			return ua <= ub, true
		case token.GTR:
			return ua > ub, true
		case token.GEQ:
			return ua >= ub, true
		}
	}
	return cmpHolds(be.Op, a, b), true
}

// comparesOnlyPow2: every ordered comparison constant in the function (and the
// module functions it calls) is a power of two, so the function is constant on
// each magnitude class [2^l, 2^(l+1)) whenever it depends on its argument only
// through such comparisons and LeadingZeros.
func (c *Ctx) varintLenFromCases(cases []varintCase, x uint64) int {
	for _, vc := range cases {
		if vc.zero >= 64 || x < 1<<uint(vc.zero) {
			return vc.n
		}
	}
	return 10
}

func (c *Ctx) ruleSizeVarint(rule string) {
	R, P := c.R, c.P
	R.Rule(rule, "value-set evaluation over the complete magnitude domain: for every class [2^l, 2^(l+1)), l = 0..63 (both end points, and 0), SizeVarint equals the number of bytes AppendVarint's case for that class emits; for every valid field-number class and every wire type SizeTag equals the length AppendTag emits", 64)
	cases := c.appendVarintCases(rule)
	fs := c.need(rule, pw+"SizeVarint")
	ft := c.need(rule, pw+"SizeTag")
	fe := c.need(rule, pw+"EncodeTag")
	if cases == nil || fs == nil || ft == nil || fe == nil {
		return
	}
	check := func(construct string, fi *FuncInfo, arg uint64, want int) bool {
		got, ok := c.concExec(fi, []int64{int64(arg)}, 0)
		if !ok {
			R.Unk(rule, construct, P.Pos(fi.Decl), "function is outside the evaluated subset (straight-line integer code, power-of-two ladders, calls)")
			return false
		}
		if int(got) != want {
			R.Bad(rule, construct, P.Pos(fi.Decl), fi.Key+" returns "+itoa(int(got))+" for a value of this class but the encoder emits "+itoa(want)+" bytes")
			return false
		}
		return true
	}
	for l := 0; l < 64; l++ {
		lo := uint64(1) << uint(l)
		hi := lo<<1 - 1
		if l == 63 {
			hi = ^uint64(0)
		}
		construct := pw + "SizeVarint class 2^" + itoa(l)
		ok := check(construct, fs, lo, c.varintLenFromCases(cases, lo)) && check(construct, fs, hi, c.varintLenFromCases(cases, hi))
		if l == 0 {
			ok = ok && check(construct, fs, 0, c.varintLenFromCases(cases, 0))
		}
		if ok {
			R.OK(rule, construct, P.Pos(fs.Decl), itoa(c.varintLenFromCases(cases, lo))+" bytes")
		}
	}
	for l := 0; l < 29; l++ {
		lo := uint64(1) << uint(l)
		hi := lo<<1 - 1
		construct := pw + "SizeTag numbers 2^" + itoa(l)
		ok := true
		for _, num := range []uint64{lo, hi} {
			for typ := uint64(0); typ < 8 && ok; typ++ {
				enc, okE := c.concExec(fe, []int64{int64(num), int64(typ)}, 0)
				if !okE {
					R.Unk(rule, construct, P.Pos(fe.Decl), "EncodeTag outside the evaluated subset")
					ok = false
					break
				}
				ok = check(construct, ft, num, c.varintLenFromCases(cases, uint64(enc)))
			}
		}
		if ok {
			R.OK(rule, construct, P.Pos(ft.Decl), "equals the emitted tag length for all wire types")
		}
	}
}

func (c *Ctx) ruleFixedRT(rule string) {
	R, P := c.R, c.P
	R.Rule(rule, "AppendFixed32/64 emit exactly 4/8 bytes and ConsumeFixed32/64 on those bytes return the identity on every input bit and the full width; on shorter inputs they report truncation without indexing past the end", 4)
	for _, e := range []struct {
		app, con string
		w        int
	}{{"AppendFixed32", "ConsumeFixed32", 32}, {"AppendFixed64", "ConsumeFixed64", 64}} {
		fa, fc := c.need(rule, pw+e.app), c.need(rule, pw+e.con)
		if fa == nil || fc == nil {
			continue
		}
		bi := &bitInterp{P: P, info: fa.Info()}
		leaves := bi.run(fa, []any{&blist{}, varVec(0, e.w, false)}, nil)
		if bi.problem != "" || len(leaves) != 1 {
			R.Unk(rule, fa.Key, P.Pos(fa.Decl), "outside the analysed subset: "+bi.problem)
			continue
		}
		bl, _ := leaves[0].rets[0].(*blist)
		R.Check(bl != nil && len(bl.elems) == e.w/8, rule, fa.Key+" width", P.Pos(fa.Decl), itoa(e.w/8)+" bytes", "does not emit exactly "+itoa(e.w/8)+" bytes")
		if bl == nil {
			continue
		}
		bc := &bitInterp{P: P, info: fc.Info()}
		cl := bc.run(fc, []any{bl}, nil)
		bad := ""
		if bc.problem != "" || len(cl) != 1 {
			bad = "no single determined path: " + bc.problem
		} else {
			v, _ := cl[0].rets[0].(*bvec)
			n, _ := cl[0].rets[1].(*bvec)
			if nv, ok := n.constVal(); !ok || int(nv) != e.w/8 {
				bad = "consumed count is not " + itoa(e.w/8)
			}
			for b := 0; b < e.w && bad == "" && v != nil; b++ {
				if !v.b[b].eq(bvar(b)) {
					bad = "bit " + itoa(b) + " is not input bit " + itoa(b)
				}
			}
		}
		R.Check(bad == "", rule, fc.Key+" round trip", P.Pos(fc.Decl), "identity on all "+itoa(e.w)+" bits", "Consume(Append(v)) != v: "+bad)
	}
}

func (c *Ctx) ruleZigZag(rule string) {
	R, P := c.R, c.P
	R.Rule(rule, "DecodeZigZag∘EncodeZigZag and EncodeZigZag∘DecodeZigZag are the identity on all 64 bits (affine forms compose to the identity matrix)", 2)
	fe, fd := c.need(rule, pw+"EncodeZigZag"), c.need(rule, pw+"DecodeZigZag")
	if fe == nil || fd == nil {
		return
	}
	compose := func(f1, f2 *FuncInfo, signedIn bool) string {
		b1 := &bitInterp{P: P, info: f1.Info()}
		l1 := b1.run(f1, []any{varVec(0, 64, signedIn)}, nil)
		if b1.problem != "" || len(l1) != 1 {
			return "outside the analysed subset: " + b1.problem
		}
		b2 := &bitInterp{P: P, info: f2.Info()}
		l2 := b2.run(f2, []any{l1[0].rets[0]}, nil)
		if b2.problem != "" || len(l2) != 1 {
			return "outside the analysed subset: " + b2.problem
		}
		v, _ := l2[0].rets[0].(*bvec)
		for b := 0; b < 64; b++ {
			if v == nil || !v.b[b].eq(bvar(b)) {
				return "bit " + itoa(b) + " of the composition is not input bit " + itoa(b)
			}
		}
		return ""
	}
	bad := compose(fe, fd, true)
	R.Check(bad == "", rule, "Decode∘Encode", P.Pos(fd.Decl), "identity", "DecodeZigZag(EncodeZigZag(x)) != x: "+bad)
	bad = compose(fd, fe, false)
	R.Check(bad == "", rule, "Encode∘Decode", P.Pos(fe.Decl), "identity", "EncodeZigZag(DecodeZigZag(u)) != u: "+bad)
}

func (c *Ctx) ruleTagBij(rule string) {
	R, P := c.R, c.P
	R.Rule(rule, "on field numbers 1..2^29-1 (bits 29..31 zero) and wire types 0..7 (bits 3..7 zero) DecodeTag(EncodeTag(num, typ)) follows the non-error path and returns (num, typ) bit for bit", 1)
	fe, fd := c.need(rule, pw+"EncodeTag"), c.need(rule, pw+"DecodeTag")
	if fe == nil || fd == nil {
		return
	}
	subst := map[int]uint8{29: 0, 30: 0, 31: 0, 103: 0, 104: 0, 105: 0, 106: 0, 107: 0}
	b1 := &bitInterp{P: P, info: fe.Info()}
	l1 := b1.run(fe, []any{varVec(0, 32, true), varVec(100, 8, true)}, subst)
	if b1.problem != "" || len(l1) != 1 {
		R.Unk(rule, fe.Key, P.Pos(fe.Decl), "outside the analysed subset: "+b1.problem)
		return
	}
	b2 := &bitInterp{P: P, info: fd.Info()}
	l2 := b2.run(fd, []any{l1[0].rets[0]}, subst)
	bad := ""
	if b2.problem != "" {
		bad = "outside the analysed subset: " + b2.problem
	} else if len(l2) != 1 {
		bad = "DecodeTag does not follow a single determined path on valid tags"
	} else {
		num, _ := l2[0].rets[0].(*bvec)
		typ, _ := l2[0].rets[1].(*bvec)
		st := &bstate{subst: subst}
		for b := 0; b < 32 && bad == "" && num != nil; b++ {
			if !l2[0].st.apply(num.b[b]).eq(st.apply(bvar(b))) {
				bad = "number bit " + itoa(b)
			}
		}
		for b := 0; b < 8 && bad == "" && typ != nil; b++ {
			if !l2[0].st.apply(typ.b[b]).eq(st.apply(bvar(100 + b))) {
				bad = "type bit " + itoa(b)
			}
		}
		if num == nil || typ == nil {
			bad = "unexpected result shape"
		}
	}
	R.Check(bad == "", rule, "DecodeTag∘EncodeTag", P.Pos(fd.Decl), "identity on valid tags", "DecodeTag(EncodeTag(num, typ)) != (num, typ): "+bad)
}

// ---------------------------------------------------------------- C02

func (c *Ctx) ruleConsumeGrammar(rule string) {
	R, P := c.R, c.P
	R.Rule(rule, "for every input length L = 0..11 of fully unknown bytes: no path indexes at or beyond L; a path returning a positive count n has n <= L; a negative (error) count is returned exactly on the paths that run out of input (truncated) or, for varints, see a tenth byte >= 2 (overflow)", 30)
	for _, e := range []struct {
		name string
		max  int
	}{{"ConsumeVarint", 10}, {"ConsumeFixed32", 4}, {"ConsumeFixed64", 8}} {
		fi := c.need(rule, pw+e.name)
		if fi == nil {
			continue
		}
		for L := 0; L <= 11; L++ {
			construct := fi.Key + " input length " + itoa(L)
			bl := &blist{}
			for i := 0; i < L; i++ {
				bl.elems = append(bl.elems, varVec(1000+8*i, 8, false))
			}
			bi := &bitInterp{P: P, info: fi.Info()}
			leaves := bi.run(fi, []any{bl}, nil)
			if bi.problem != "" {
				if strings.Contains(bi.problem, "not provably within") {
					R.Bad(rule, construct, P.Pos(fi.Decl), "possible read past the end of the input: "+bi.problem)
				} else {
					R.Unk(rule, construct, P.Pos(fi.Decl), "outside the analysed subset: "+bi.problem)
				}
				continue
			}
			bad := ""
			pos, neg := 0, 0
			for _, l := range leaves {
				n, _ := l.rets[1].(*bvec)
				nv, ok := n.constVal()
				if !ok {
					bad = "a path returns a non-constant count"
					break
				}
				if int64(nv) > 0 {
					pos++
					if int(nv) > L {
						bad = "a path returns count " + itoa(int(nv)) + " on an input of " + itoa(L) + " bytes"
					}
				} else {
					neg++
				}
			}
			wantPos := L
			if wantPos > e.max {
				wantPos = e.max
			}
			if e.name != "ConsumeVarint" {
				wantPos = 0
				if L >= e.max {
					wantPos = 1
				}
			}
			if bad == "" && pos != wantPos {
				bad = itoa(pos) + " accepting paths, expected " + itoa(wantPos)
			}
			if bad == "" && neg == 0 && (L < e.max || e.name == "ConsumeVarint") {
				bad = "no error path although the value may not end within the input"
			}
			R.Check(bad == "", rule, construct, P.Pos(fi.Decl), itoa(pos)+" accepting and "+itoa(neg)+" error paths, all reads within bounds", bad)
		}
	}
	// ConsumeTag rejects small field numbers before returning a length
	if fi := c.need(rule, pw+"ConsumeTag"); fi != nil {
		info := fi.Info()
		g := fi.CFG()
		ok := false
		walk(fi.Decl.Body, func(n ast.Node) bool {
			rs, isRet := n.(*ast.ReturnStmt)
			if !isRet || len(rs.Results) != 3 {
				return true
			}
			// the success return: third result is not a constant error code
			if _, isConst := constInt(info, rs.Results[2]); isConst {
				return true
			}
			if g.DominatedByCond(rs, func(core ast.Expr, val bool) bool {
				be, isBE := unparen(core).(*ast.BinaryExpr)
				if !isBE || val || be.Op != token.LSS {
					return false
				}
				o := objOf(info, be.Y)
				return o != nil && o.Name() == "MinValidNumber"
			}) {
				ok = true
			}
			return true
		})
		R.Check(ok, rule, fi.Key+" field-number floor", P.Pos(fi.Decl), "num < MinValidNumber is rejected before the success return", "ConsumeTag can return success for a field number below MinValidNumber")
	}
}

func (c *Ctx) ruleDecodeTagRange(rule string) {
	R, P := c.R, c.P
	R.Rule(rule, "on a fully unknown 64-bit tag, every path of DecodeTag that returns a number other than the error constant has established that bits 34..63 of the tag are zero (the field number fits in 31 bits): no silent wrap-around of oversized field numbers", 1)
	fi := c.need(rule, pw+"DecodeTag")
	if fi == nil {
		return
	}
	bi := &bitInterp{P: P, info: fi.Info()}
	leaves := bi.run(fi, []any{varVec(0, 64, false)}, nil)
	if bi.problem != "" {
		R.Unk(rule, fi.Key, P.Pos(fi.Decl), "outside the analysed subset: "+bi.problem)
		return
	}
	bad := ""
	accepting := 0
	for _, l := range leaves {
		num, _ := l.rets[0].(*bvec)
		if num == nil {
			bad = "unexpected result shape"
			break
		}
		if v, ok := num.constVal(); ok && int32(v) == -1 {
			continue
		}
		accepting++
		for b := 34; b < 64; b++ {
			if v, ok := l.st.subst[b]; !ok || v != 0 {
				bad = "a non-error path does not establish that tag bit " + itoa(b) + " is zero (path: " + strings.Join(l.st.notes, " && ") + ")"
				break
			}
		}
	}
	if bad == "" && accepting == 0 {
		bad = "no accepting path"
	}
	R.Check(bad == "", rule, fi.Key, P.Pos(fi.Decl), "accepting paths imply field number < 2^31", "DecodeTag can return a valid-looking number for a tag whose field number does not fit: "+bad)
}
