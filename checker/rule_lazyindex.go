package main

import (
	"go/ast"
	"go/token"
	"go/types"
	"strings"
)

// R-LAZY-INDEX: bookkeeping of the lazy field index in unmarshalPointerLazy.
// The index entry of a lazy field must cover exactly the bytes of that field
// occurrence: [pos, end) where pos is the offset at which this field's tag
// started and end the offset after its value. That requires the loop-carried
// trackers to be updated on EVERY iteration (for every field, lazy or not):
//
//	end := start - len(b)   after the advance b = b[n:]
//	pos = end ; lastNum = num   unconditionally at the end of the loop body
//
// and the entry to be built from (num, pos, end), extended only when
// num == lastNum.
func (c *Ctx) ruleLazyIndex(rule string) {
	R, P := c.R, c.P
	R.Rule(rule, "lazy index bookkeeping: `end := start-len(b)`, `pos = end` and `lastNum = num` are direct statements of the tag-loop body (executed for every field), in that order after the advance `b = b[n:]`; IndexEntry is {FieldNum: num, Start: pos, End: end}; the extend branch is the else of a condition that holds whenever `num != lastNum`", 6)
	fi := c.need(rule, "internal/impl.(*MessageInfo).unmarshalPointerLazy")
	if fi == nil {
		return
	}
	info := fi.Info()
	// the tag loop: the outermost `for len(b) > 0`
	var loop *ast.ForStmt
	for _, st := range fi.Decl.Body.List {
		if fs, ok := st.(*ast.ForStmt); ok && fs.Cond != nil {
			loop = fs
			break
		}
	}
	if loop == nil {
		R.Unk(rule, fi.Key, P.Pos(fi.Decl), "tag loop not found")
		return
	}
	// find IndexEntry literal to learn pos/end/num objects
	var lit *ast.CompositeLit
	walk(loop.Body, func(n ast.Node) bool {
		if cl, ok := n.(*ast.CompositeLit); ok {
			if tv, ok := info.Types[cl]; ok && namedTypeName(tv.Type) == "internal/protolazy.IndexEntry" {
				lit = cl
			}
		}
		return true
	})
	if lit == nil {
		R.Unk(rule, fi.Key, P.Pos(loop), "IndexEntry literal not found")
		return
	}
	fieldObj := map[string]types.Object{}
	for _, el := range lit.Elts {
		kv, ok := el.(*ast.KeyValueExpr)
		if !ok {
			continue
		}
		k, _ := kv.Key.(*ast.Ident)
		v := unparen(kv.Value)
		if call, ok := v.(*ast.CallExpr); ok && len(call.Args) == 1 { // uint32(x)
			v = unparen(call.Args[0])
		}
		if id, ok := v.(*ast.Ident); ok && k != nil {
			fieldObj[k.Name] = objOf(info, id)
		}
	}
	numO, posO, endO := fieldObj["FieldNum"], fieldObj["Start"], fieldObj["End"]
	if numO == nil || posO == nil || endO == nil {
		R.Bad(rule, fi.Key+" entry literal", P.Pos(lit), "IndexEntry is not built from plain (num, pos, end) variables")
		return
	}
	R.OK(rule, fi.Key+" entry literal", P.Pos(lit), "IndexEntry{FieldNum: "+numO.Name()+", Start: "+posO.Name()+", End: "+endO.Name()+"}")
	// direct statements of the loop body
	idxAdvance, idxEnd, idxPos, idxLast := -1, -1, -1, -1
	var lastNumO types.Object
	var inputO types.Object
	for i, st := range loop.Body.List {
		as, ok := st.(*ast.AssignStmt)
		if !ok || len(as.Lhs) != 1 || len(as.Rhs) != 1 {
			continue
		}
		lid, _ := as.Lhs[0].(*ast.Ident)
		if lid == nil {
			continue
		}
		lo := objOf(info, lid)
		switch {
		case lo == endO && as.Tok == token.DEFINE:
			// end := start - len(b)
			if be, ok := unparen(as.Rhs[0]).(*ast.BinaryExpr); ok && be.Op == token.SUB {
				if call, ok := unparen(be.Y).(*ast.CallExpr); ok && calleeKey(info, call) == "builtin.len" && len(call.Args) == 1 {
					inputO = objOf(info, call.Args[0])
					idxEnd = i
				}
			}
		case lo == posO && as.Tok == token.ASSIGN:
			if rid, ok := unparen(as.Rhs[0]).(*ast.Ident); ok && objOf(info, rid) == endO {
				idxPos = i
			}
		case as.Tok == token.ASSIGN:
			if rid, ok := unparen(as.Rhs[0]).(*ast.Ident); ok && objOf(info, rid) == numO && lo != numO {
				idxLast = i
				lastNumO = lo
			}
			// advance: b = b[n:]
			if se, ok := unparen(as.Rhs[0]).(*ast.SliceExpr); ok && se.High == nil && se.Low != nil {
				if xid, ok := unparen(se.X).(*ast.Ident); ok && objOf(info, xid) == lo {
					idxAdvance = i
				}
			}
		}
	}
	// out-of-order detection: `if num < lastNum { outOfOrder = true }` for every record
	if lastNumO != nil && numO != nil {
		direct, anywhere := false, false
		isTest := func(st ast.Stmt) bool {
			is, ok := st.(*ast.IfStmt)
			if !ok {
				return false
			}
			be, ok := unparen(is.Cond).(*ast.BinaryExpr)
			if !ok {
				return false
			}
			x, y, op := be.X, be.Y, be.Op
			if objOf(info, x) == lastNumO {
				x, y, op = y, x, flipOp(op)
			}
			if op != token.LSS || objOf(info, x) != numO || objOf(info, y) != lastNumO {
				return false
			}
			for _, b := range is.Body.List {
				if as, ok := b.(*ast.AssignStmt); ok && len(as.Rhs) == 1 {
					if v, ok := constBool(info, as.Rhs[0]); ok && v {
						return true
					}
				}
			}
			return false
		}
		for _, st := range loop.Body.List {
			if isTest(st) {
				direct = true
			}
		}
		walk(loop.Body, func(n ast.Node) bool {
			if st, ok := n.(ast.Stmt); ok && isTest(st) {
				anywhere = true
			}
			return true
		})
		if anywhere || direct {
			R.Check(direct, rule, fi.Key+" out-of-order", P.Pos(loop), "`if num < lastNum { outOfOrder = true }` is a direct statement of the loop body", "the out-of-order test `num < lastNum` is not evaluated for every record although lastNum tracks every record: a descending pair of lazy fields separated by another record is not noticed, the lazy index stays unsorted, and the lookup of the later field fails (panic on first access, field dropped by Size/Marshal)")
		}
	}
	R.Check(idxEnd >= 0, rule, fi.Key+" end", P.Pos(loop), "`end := start - len(b)` is a direct statement of the loop body",
		"`end := start - len(b)` is not computed unconditionally on every iteration of the tag loop: index ranges of lazy fields no longer end at the field's own end")
	R.Check(idxPos >= 0, rule, fi.Key+" pos", P.Pos(loop), "`pos = end` is a direct statement of the loop body",
		"`pos = end` is not executed for every field (it is conditional or missing): a lazy field's index entry starts at a stale offset and covers preceding non-lazy/unknown fields, which are then emitted twice by lazy pass-through marshaling")
	R.Check(idxLast >= 0, rule, fi.Key+" lastNum", P.Pos(loop), "`lastNum = num` is a direct statement of the loop body",
		"`lastNum = num` is not executed for every field: two occurrences of a lazy field separated by other fields are treated as contiguous and the index entry swallows the fields in between")
	if idxEnd >= 0 && idxPos >= 0 && idxLast >= 0 {
		okOrder := idxAdvance >= 0 && idxAdvance < idxEnd && idxEnd < idxPos
		R.Check(okOrder, rule, fi.Key+" order", P.Pos(loop), "advance → end → pos", "the trackers are not updated in the order advance `b = b[n:]` → `end := start-len(b)` → `pos = end`")
		if inputO != nil && idxAdvance >= 0 {
			as := loop.Body.List[idxAdvance].(*ast.AssignStmt)
			R.Check(objOf(info, as.Lhs[0]) == inputO, rule, fi.Key+" end uses input", P.Pos(as), "end measured on the advanced input", "end is not measured on the same buffer the loop advances")
		}
	}
	// extension only when num == lastNum
	if lastNumO != nil {
		okBranch := false
		walk(loop.Body, func(n ast.Node) bool {
			is, ok := n.(*ast.IfStmt)
			if !ok {
				return true
			}
			cond := unparen(is.Cond)
			// `num != lastNum || <more reasons for a new entry>`: extension still requires num == lastNum
			for {
				or, ok := cond.(*ast.BinaryExpr)
				if !ok || or.Op != token.LOR {
					break
				}
				cond = unparen(or.X)
			}
			be, ok := cond.(*ast.BinaryExpr)
			if !ok || (be.Op != token.NEQ && be.Op != token.EQL) {
				return true
			}
			if be.Op == token.EQL && cond != unparen(is.Cond) {
				return true // `num == lastNum || …` would extend across different numbers
			}
			a, b := objOf(info, be.X), objOf(info, be.Y)
			if !((a == numO && b == lastNumO) || (a == lastNumO && b == numO)) {
				return true
			}
			newBranch, extBranch := ast.Node(is.Body), ast.Node(is.Else)
			if be.Op == token.EQL {
				newBranch, extBranch = extBranch, newBranch
			}
			hasLit := false
			if newBranch != nil {
				walk(newBranch, func(x ast.Node) bool {
					if x == ast.Node(lit) {
						hasLit = true
					}
					return true
				})
			}
			hasExt := false
			if extBranch != nil {
				walk(extBranch, func(x ast.Node) bool {
					if as, ok := x.(*ast.AssignStmt); ok && len(as.Lhs) == 1 {
						if se, ok := unparen(as.Lhs[0]).(*ast.SelectorExpr); ok && se.Sel.Name == "End" {
							hasExt = true
						}
					}
					return true
				})
			}
			if hasLit && hasExt {
				okBranch = true
			}
			return true
		})
		R.Check(okBranch, rule, fi.Key+" new/extend", P.Pos(loop), "new entry whenever num != lastNum (possibly for further reasons), extend End only when num == lastNum",
			"the choice between a new index entry and extending the previous one is not `num != lastNum`")
	}
}

// R-LAZY-INDEX-EXCLUSIVE: a record of a lazy field is either left in the
// retained buffer and covered by the lazy index (to be re-emitted from the
// buffer or decoded on first access), or it is an unknown record appended to
// the unknown-field bytes — never both. A record in both places is written
// twice by the non-deterministic Marshal (once from the buffer range, once
// from the unknown bytes).
func (c *Ctx) ruleLazyIndexExclusive(rule string) {
	R, P := c.R, c.P
	R.Rule(rule, "in unmarshalPointerLazy the lazy index is created/extended for a record only under a condition that excludes the record having been appended to the unknown-field bytes (a test of the record's error state or of discardUnknown)", 1)
	fi := c.need(rule, "internal/impl.(*MessageInfo).unmarshalPointerLazy")
	if fi == nil {
		return
	}
	info := fi.Info()
	pm := parentMap(fi.Decl.Body)
	defs := localDefs(fi.Decl.Body, info)
	// the unknown store: *u = append(*u, b[:n]...) — learn the variables its guard mentions
	guardVars := map[types.Object]bool{}
	walk(fi.Decl.Body, func(n ast.Node) bool {
		is, ok := n.(*ast.IfStmt)
		if !ok || containsCall(info, is.Body, "internal/impl.(*MessageInfo).mutableUnknownBytes") == nil {
			return true
		}
		walk(is.Cond, func(x ast.Node) bool {
			if id, ok := x.(*ast.Ident); ok {
				if v, ok := info.Uses[id].(*types.Var); ok && !v.IsField() && v.Pkg() != nil && v.Parent() != v.Pkg().Scope() {
					if b, ok := v.Type().Underlying().(*types.Basic); ok && b.Kind() == types.Bool {
						guardVars[v] = true
					}
				}
			}
			return true
		})
		return true
	})
	// err of the record
	var errObj types.Object
	walk(fi.Decl.Body, func(n ast.Node) bool {
		if as, ok := n.(*ast.AssignStmt); ok && as.Tok == token.DEFINE && len(as.Lhs) == 1 && len(as.Rhs) == 1 {
			if id, ok := unparen(as.Rhs[0]).(*ast.Ident); ok && id.Name == "errUnknown" {
				errObj = info.Defs[as.Lhs[0].(*ast.Ident)]
			}
		}
		return true
	})
	n := 0
	walk(fi.Decl.Body, func(x ast.Node) bool {
		as, ok := x.(*ast.AssignStmt)
		if !ok || len(as.Lhs) != 1 {
			return true
		}
		l := exprStr(as.Lhs[0])
		if !(l == "lazyIndex" || strings.HasPrefix(l, "lazyIndex[")) {
			return true
		}
		if as.Tok == token.DEFINE {
			return true
		}
		n++
		// control dependence: some enclosing if (then or else branch) tests the record's error state / discardUnknown
		good := false
		var cur ast.Node = as
		for p := pm[cur]; p != nil; cur, p = p, pm[p] {
			is, ok := p.(*ast.IfStmt)
			if !ok || (cur != ast.Node(is.Body) && cur != is.Else) {
				continue
			}
			var mentions func(e ast.Node, depth int)
			mentions = func(e ast.Node, depth int) {
				walk(e, func(y ast.Node) bool {
					if id, ok := y.(*ast.Ident); ok {
						o := info.Uses[id]
						if o != nil && (o == errObj || guardVars[o]) {
							good = true
						} else if o != nil && depth < 2 {
							// a boolean local computed from those variables
							for _, d := range defs[o] {
								mentions(d.rhs, depth+1)
							}
						}
					}
					return true
				})
			}
			mentions(is.Cond, 0)
		}
		R.Check(good, rule, fi.Key+" index update#"+itoa(n), P.Pos(as), "index update excluded for records stored as unknown", "the lazy index is created/extended for every record of a lazy field, including one that was just appended to the unknown-field bytes (a wrong-wire-type occurrence): the record then sits in the indexed buffer range and in the unknown bytes, and the non-deterministic Marshal writes it twice")
		return true
	})
	if n == 0 {
		R.Unk(rule, fi.Key, P.Pos(fi.Decl), "no lazy index update found")
	}
}

// R-LAZY-EXPAND-BEFORE-DECODE: a lazy field that is present but still held as
// undecoded bytes must be expanded before a further occurrence of the field is
// decoded into its slot; otherwise the slot is nil, the coder allocates a fresh
// child and the undecoded content is shadowed (lost). Both tag loops that
// decode eagerly into a message that may hold lazy fields need the step.
func (c *Ctx) ruleLazyExpandBeforeDecode(rule string) {
	R, P := c.R, c.P
	R.Rule(rule, "in unmarshalPointerEager and unmarshalPointerLazy the call of the field's unmarshal function is preceded, in the same clause, by `if f.isLazy && … presence.Present(f.presenceIndex) { if <slot>.IsNil() { mi.lazyUnmarshal(p, f.num) } }`", 2)
	for _, key := range []string{"internal/impl.(*MessageInfo).unmarshalPointerEager", "internal/impl.(*MessageInfo).unmarshalPointerLazy"} {
		fi := c.need(rule, key)
		if fi == nil {
			continue
		}
		info := fi.Info()
		pm := parentMap(fi.Decl.Body)
		n := 0
		walk(fi.Decl.Body, func(x ast.Node) bool {
			call, ok := x.(*ast.CallExpr)
			if !ok {
				return true
			}
			se, ok := call.Fun.(*ast.SelectorExpr)
			if !ok || se.Sel.Name != "unmarshal" || !strings.HasSuffix(exprStr(se.X), ".funcs") {
				return true
			}
			n++
			// enclosing case clause
			var clause *ast.CaseClause
			for p := pm[call]; p != nil; p = pm[p] {
				if cc, ok := p.(*ast.CaseClause); ok {
					clause = cc
					break
				}
			}
			good := false
			if clause != nil {
				for _, st := range clause.Body {
					if st.Pos() >= call.Pos() {
						break
					}
					is, ok := st.(*ast.IfStmt)
					if !ok {
						continue
					}
					cs := exprStr(is.Cond)
					if strings.Contains(cs, ".isLazy") && strings.Contains(cs, ".Present(") {
						nilTest, expand := false, false
						walk(is.Body, func(y ast.Node) bool {
							if in, ok := y.(*ast.IfStmt); ok && strings.Contains(exprStr(in.Cond), ".IsNil()") {
								nilTest = true
							}
							if cl, ok := y.(*ast.CallExpr); ok && calleeKey(info, cl) == "internal/impl.(*MessageInfo).lazyUnmarshal" {
								expand = true
							}
							return true
						})
						good = nilTest && expand
					}
				}
			}
			R.Check(good, rule, fi.Key+" decode#"+itoa(n), P.Pos(call), "undecoded lazy field expanded before the decode", "the field's unmarshal function is called without first expanding a present but still undecoded lazy field: a merging Unmarshal allocates a fresh child for the nil slot and the undecoded content of the field is lost")
			return true
		})
		if n == 0 {
			R.Unk(rule, fi.Key, P.Pos(fi.Decl), "call of the field's unmarshal function not found")
		}
	}
}

// R-LAZY-DEPTH-SCOPE: bytes retained for lazy decoding were validated under
// the recursion limit of the Unmarshal call that retained them (validate /
// skipField receive the caller's remaining depth). The deferred decoder runs
// with the package-level lazyUnmarshalOptions and drops its error, so its own
// depth budget must not be smaller than any limit a caller can have used:
// otherwise a message accepted under a larger RecursionLimit is silently
// truncated when the lazy field is first accessed.
func (c *Ctx) ruleLazyDepthScope(rule string) {
	R, P := c.R, c.P
	R.Rule(rule, "the depth budget of lazyUnmarshalOptions (used by the deferred decode, whose error is dropped) is at least math.MaxInt32, i.e. never below the RecursionLimit under which the retained bytes were validated", 1)
	pk := P.Pkg("internal/impl")
	if pk == nil {
		R.Unk(rule, "internal/impl", "", "package not loaded")
		return
	}
	info := pk.TypesInfo
	found := false
	for _, f := range pk.Syntax {
		ast.Inspect(f, func(n ast.Node) bool {
			vs, ok := n.(*ast.ValueSpec)
			if !ok || len(vs.Names) != 1 || vs.Names[0].Name != "lazyUnmarshalOptions" || len(vs.Values) != 1 {
				return true
			}
			cl, ok := vs.Values[0].(*ast.CompositeLit)
			if !ok {
				return true
			}
			found = true
			depth := int64(0)
			has := false
			for _, el := range cl.Elts {
				if kv, ok := el.(*ast.KeyValueExpr); ok {
					if k, ok := kv.Key.(*ast.Ident); ok && k.Name == "depth" {
						if v, ok := constInt(info, kv.Value); ok {
							depth, has = v, true
						}
					}
				}
			}
			R.Check(has && depth >= 2147483647, rule, "internal/impl.lazyUnmarshalOptions depth", P.Pos(cl), "depth budget "+itoa64(depth), "the deferred decoder's depth budget is "+itoa64(depth)+": a message unmarshaled with a larger UnmarshalOptions.RecursionLimit passes validation, but its lazy fields are decoded only down to this depth and the decode error is dropped — the lazily decoded tree is silently truncated, unlike the eager decode")
			return true
		})
	}
	if !found {
		R.Unk(rule, "internal/impl.lazyUnmarshalOptions", "", "variable not found")
	}
}
