package main

func inPkgs(pkgs ...string) func(string) bool {
	return func(p string) bool {
		for _, x := range pkgs {
			if p == x {
				return true
			}
		}
		return false
	}
}

func init() {
	register(&Property{
		ID:         "C24",
		Level:      "other",
		Technique:  "SSA width-provenance dataflow (ParseFloat width → float32 narrowing) + kind-context table conformance + resolver-propagation rule over options literals (static)",
		Explain:    "Decides structural necessary conditions of the prototext round trip: (1) no float32 field value is produced by parsing the decimal at width 64 and narrowing (double rounding breaks bit-for-bit round trip of floats); (2) in every Kind-dependent branch of the text encoder/decoder the token accessors, Value accessors/constructors and bitSize constants agree with the Kind per the protobuf scalar table; (3) the codec uses one resolver throughout: the global registry only as the default of a nil Resolver option, and the wire decoding of Any.value for expansion forwards the codec's Resolver (else extensions known only to that resolver are dropped from an expanded Any); (4) a bracketed name written from message content (the type URL of an expanded Any) is first validated by running the text reader on it, so the writer never emits a name outside the reader's grammar; bracketed names from descriptors need no guard. (5) field names are written only from TextName(), the inverse of the reader's ByTextName lookup and of the bracketed extension form. Also: the value of an Any rebuilt from its expanded text form is marshaled with Deterministic: true.",
		NotCovered: "the round trip on concrete values, extensions/groups/Any expansion, and whitespace/indent options; only the listed structural clauses are decided.",
		Quick:      all("./encoding/prototext"),
		Thorough:   all("./..."),
		Run: func(c *Ctx) {
			c.ruleGenDetMarshal("R-ANY-DET-MARSHAL", []string{"encoding/prototext"}, map[string]string{}, 1)
			c.ruleFloatBits("R-FLOATBITS", inPkgs("internal/encoding/text", "encoding/prototext"), 1)
			c.ruleKindContext("R-KIND-CONTEXT", []string{"encoding/prototext", "internal/encoding/text"}, 20)
			c.ruleResolverProp("R-RESOLVER-PROP", []string{"encoding/prototext"}, 3)
			c.ruleNameGrammar("R-NAME-GRAMMAR", 1)
			c.ruleNameAccessorPair("R-NAME-ACCESSOR-PAIR", "encoding/prototext", "encoding/prototext.encoder.marshalMessage", 1)
		},
	})
	register(&Property{
		ID:         "C39",
		Level:      "other",
		Technique:  "SSA width-provenance dataflow + kind-context table conformance + finite case analysis of the bytes escaper over all byte values (static)",
		Explain:    "Decides structural necessary conditions of default-value round trip: (1) a FloatKind default is never parsed at width 64 and narrowed (double rounding); (2) in every Kind-dependent branch of defval.Marshal/Unmarshal the parse/format width constants and Value constructors/accessors agree with the Kind; (3) for every byte value 0..255 (finite case analysis of marshalBytes) a bytes default is written raw only if printable and not a quote/backslash, as a C escape whose letter denotes the byte, or as a numeric escape of the fixed maximal width the text-format reader consumes, so the greedy reader recovers the byte whatever follows. Also: the GoTag enum default is the parsed number (not the looked-up value's Number(), which is 0 for placeholder values; found D31); unmarshalBytes reads the escape language marshalBytes writes with the text-format string decoder; protodesc tests default_value for presence, not for emptiness.",
		NotCovered: "value-level equality beyond the clauses named; the float formatting itself (strconv).",
		Quick:      all("./internal/encoding/defval", "./reflect/protodesc"),
		Thorough:   all("./..."),
		Run: func(c *Ctx) {
			c.ruleFloatBits("R-FLOATBITS", inPkgs("internal/encoding/defval", "internal/filedesc", "reflect/protodesc"), 1)
			c.ruleKindContext("R-KIND-CONTEXT", []string{"internal/encoding/defval"}, 10)
			c.ruleDefvalBytesEscape("R-DEFVAL-BYTES-ESCAPE")
			c.rulePresenceNotValue("R-PRESENCE-NOT-VALUE", 4)
			c.ruleDefvalReaders("R-DEFVAL-ENUM-NUMBER", "R-DEFVAL-BYTES-READER")
		},
	})
}
