package main

func inPkgs(pkgs ...string) func(string) bool {
	return func(p string) bool {
		for _, x := range pkgs {
			if p == x {
				return true
			}
		}
		return false
	}
}

func init() {
	register(&Property{
		ID:         "C24",
		Level:      "other",
		Technique:  "SSA width-provenance dataflow (ParseFloat width → float32 narrowing) + kind-context table conformance (static)",
		Explain:    "Decides structural necessary conditions of the prototext round trip: (1) no float32 field value is produced by parsing the decimal at width 64 and narrowing (double rounding breaks bit-for-bit round trip of floats); (2) in every Kind-dependent branch of the text encoder/decoder the token accessors, Value accessors/constructors and bitSize constants agree with the Kind per the protobuf scalar table.",
		NotCovered: "the round trip on concrete values, extensions/groups/Any expansion, and whitespace/indent options; only the listed structural clauses are decided.",
		Quick:      all("./encoding/prototext"),
		Thorough:   all("./..."),
		Run: func(c *Ctx) {
			c.ruleFloatBits("R-FLOATBITS", inPkgs("internal/encoding/text", "encoding/prototext"), 1)
			c.ruleKindContext("R-KIND-CONTEXT", []string{"encoding/prototext", "internal/encoding/text"}, 20)
		},
	})
	register(&Property{
		ID:         "C39",
		Level:      "other",
		Technique:  "SSA width-provenance dataflow + kind-context table conformance (static)",
		Explain:    "Decides structural necessary conditions of default-value round trip: (1) a FloatKind default is never parsed at width 64 and narrowed (double rounding); (2) in every Kind-dependent branch of defval.Marshal/Unmarshal the parse/format width constants and Value constructors/accessors agree with the Kind.",
		NotCovered: "C-escape round trip of bytes defaults and enum lookup; value-level equality.",
		Quick:      all("./internal/encoding/defval"),
		Thorough:   all("./..."),
		Run: func(c *Ctx) {
			c.ruleFloatBits("R-FLOATBITS", inPkgs("internal/encoding/defval", "internal/filedesc", "reflect/protodesc"), 1)
			c.ruleKindContext("R-KIND-CONTEXT", []string{"internal/encoding/defval"}, 10)
		},
	})
}
