package main

import (
	"encoding/json"
	"flag"
	"fmt"
	"go/types"
	"os"
	"runtime/debug"
	"sort"
	"strconv"
)

type Ctx struct {
	P    *Program
	R    *Report
	Tier string

	coderPrimCache map[*types.Var][]string
}

type ConfigLoad struct {
	Config   string
	Patterns []string
}

type Property struct {
	ID          string
	Level       string
	Technique   string
	Explain     string
	NotCovered  string
	Trusted     []string
	Assumptions []string
	Quick       []ConfigLoad
	Thorough    []ConfigLoad
	Run         func(c *Ctx)
}

var registry = map[string]*Property{}

func register(p *Property) {
	if _, dup := registry[p.ID]; dup {
		panic("duplicate property " + p.ID)
	}
	registry[p.ID] = p
}

func all(patterns ...string) []ConfigLoad { return []ConfigLoad{{"default", patterns}} }

// allAndLegacy: the whole module in the default configuration plus the given
// packages with the protolegacy build tag (MessageSet support, legacy UTF-8
// enforcement), where different code is compiled.
func allAndLegacy(patterns ...string) []ConfigLoad {
	return []ConfigLoad{{"default", []string{"./..."}}, {"legacy", patterns}}
}

func main() {
	repo := flag.String("repo", "/repo", "repository root")
	verif := flag.String("verif", "/verif", "verification directory (evidence, known findings)")
	prop := flag.String("property", "", "property id (Cnn)")
	tier := flag.String("tier", "quick", "quick|thorough")
	replay := flag.String("replay", "", "replay file: re-evaluate only the listed obligations")
	list := flag.Bool("list", false, "list registered properties")
	genMan := flag.Bool("gen-manifest", false, "print MANIFEST.json")
	listQuick := flag.Bool("list-quick", false, "list registered properties with their quick-tier package patterns")
	flag.Parse()
	if *genMan {
		b, _ := json.MarshalIndent(genManifest(), "", " ")
		fmt.Println(string(b))
		return
	}
	if *listQuick {
		var ids []string
		for id := range registry {
			ids = append(ids, id)
		}
		sort.Strings(ids)
		for _, id := range ids {
			fmt.Print(id)
			for _, cl := range registry[id].Quick {
				for _, p := range cl.Patterns {
					fmt.Print(" ", p)
				}
			}
			fmt.Println()
		}
		return
	}
	if *list {
		var ids []string
		for id := range registry {
			ids = append(ids, id)
		}
		sort.Strings(ids)
		for _, id := range ids {
			fmt.Println(id)
		}
		return
	}
	p, ok := registry[*prop]
	if !ok {
		fmt.Fprintf(os.Stderr, "unknown property %q\n", *prop)
		os.Exit(2)
	}
	if *tier != "quick" && *tier != "thorough" {
		fmt.Fprintf(os.Stderr, "unknown tier %q\n", *tier)
		os.Exit(2)
	}
	if t := os.Getenv("VERIF_TIER"); t == "quick" || t == "thorough" {
		// explicit flag wins; env only used when flag is default and env set by harness
		_ = t
	}
	seed := int64(1)
	if s := os.Getenv("VERIF_SEED"); s != "" {
		if v, err := strconv.ParseInt(s, 10, 64); err == nil {
			seed = v
		}
	}
	r := NewReport(p.ID, *tier, seed)
	r.Level = p.Level
	r.Explanation = p.Explain
	r.NotCovered = p.NotCovered
	r.Trusted = p.Trusted
	r.Assumptions = p.Assumptions

	loads := p.Quick
	if *tier == "thorough" && p.Thorough != nil {
		loads = p.Thorough
	}
	if fc := os.Getenv("VERIF_FORCE_CONFIG"); fc != "" { // development aid: run the property's rules in another build configuration
		loads = []ConfigLoad{{fc, []string{"./..."}}}
	}
	for _, cl := range loads {
		r.curConfig = cl.Config
		r.Configs = append(r.Configs, cl.Config)
		func() {
			defer func() {
				if e := recover(); e != nil {
					r.Unk("internal", "analysis panic", "", fmt.Sprintf("%v\n%s", e, debug.Stack()))
				}
			}()
			prog, err := LoadProgram(*repo, cl.Config, cl.Patterns)
			if err != nil {
				r.Unk("load", "packages.Load "+cl.Config, "", err.Error())
				return
			}
			for _, e := range prog.Errors {
				r.Unk("load", "type-check", "", e)
			}
			r.Packages += len(prog.Pkgs)
			r.Functions += len(prog.funcIdx)
			p.Run(&Ctx{P: prog, R: r, Tier: *tier})
		}()
	}
	var only map[string]bool
	if *replay != "" {
		only = map[string]bool{}
		b, err := os.ReadFile(*replay)
		if err != nil {
			fmt.Fprintln(os.Stderr, err)
			os.Exit(2)
		}
		var rf struct {
			Violations []Obligation `json:"violations"`
		}
		if err := json.Unmarshal(b, &rf); err != nil {
			fmt.Fprintln(os.Stderr, err)
			os.Exit(2)
		}
		for _, o := range rf.Violations {
			only[o.Rule+"|"+o.Construct] = true
		}
	}
	os.Exit(r.Finish(*verif, only))
}

// need fetches a function anchor or records an undecided obligation.
func (c *Ctx) need(rule, key string) *FuncInfo {
	fi := c.P.Func(key)
	if fi == nil {
		c.R.Unk(rule, key, "", "anchor function not found in the loaded program (renamed or removed): rule cannot be evaluated")
	}
	return fi
}
