package main

import (
	"fmt"
	"go/constant"
	"go/token"
	"go/types"
	"sort"
	"strings"

	"golang.org/x/tools/go/ssa"
)

// R-FLOATBITS: a float64 that came out of strconv.ParseFloat(s, w) may be
// narrowed to float32 only if w == 32 (otherwise the decimal is rounded twice:
// to the nearest double and then to the nearest float, which is not always the
// nearest float). Interprocedural over SSA def-use chains with width
// provenance {32, 64, parameter p, exact}.

type fwKind int

const (
	fw32 fwKind = iota
	fw64
	fwParam
	fwExact
	fwVar // width chosen at run time among {32, 64}
)

type fwidth struct {
	k    fwKind
	p    *ssa.Parameter // for fwParam
	site token.Pos      // ParseFloat call position
}

type floatAnalysis struct {
	c       *Ctx
	sumMemo map[*ssa.Function]map[int][]fwidth
	inProg  map[*ssa.Function]bool
}

func isFloat64(t types.Type) bool {
	b, ok := t.Underlying().(*types.Basic)
	return ok && b.Kind() == types.Float64
}
func isFloat32(t types.Type) bool {
	b, ok := t.Underlying().(*types.Basic)
	return ok && b.Kind() == types.Float32
}

func staticCalleeName(call *ssa.CallCommon) string {
	if f := call.StaticCallee(); f != nil {
		if f.Pkg != nil {
			return f.Pkg.Pkg.Path() + "." + f.Name()
		}
		return f.String()
	}
	return ""
}

func (a *floatAnalysis) widthFromArg(v ssa.Value, site token.Pos) []fwidth {
	switch x := v.(type) {
	case *ssa.Const:
		if x.Value != nil && x.Value.Kind() == constant.Int {
			n, _ := constant.Int64Val(x.Value)
			if n == 32 {
				return []fwidth{{k: fw32, site: site}}
			}
			return []fwidth{{k: fw64, site: site}}
		}
	case *ssa.Parameter:
		return []fwidth{{k: fwParam, p: x, site: site}}
	case *ssa.Phi:
		n32, n64, other := 0, 0, 0
		for _, e := range x.Edges {
			c, ok := e.(*ssa.Const)
			if !ok || c.Value == nil || c.Value.Kind() != constant.Int {
				other++
				continue
			}
			if n, _ := constant.Int64Val(c.Value); n == 32 {
				n32++
			} else {
				n64++
			}
		}
		switch {
		case other == 0 && n32 == 0 && n64 > 0:
			return []fwidth{{k: fw64, site: site}}
		case other == 0 && n64 == 0 && n32 > 0:
			return []fwidth{{k: fw32, site: site}}
		case other == 0:
			return []fwidth{{k: fwVar, site: site}}
		}
	}
	return nil // unknown
}

// widths returns the width provenance of a float64 value; nil = unknown.
func (a *floatAnalysis) widths(v ssa.Value, depth int, seen map[ssa.Value]bool) []fwidth {
	if depth > 12 || seen[v] {
		return nil
	}
	seen[v] = true
	switch x := v.(type) {
	case *ssa.Const:
		return []fwidth{{k: fwExact}}
	case *ssa.Phi:
		var out []fwidth
		for _, e := range x.Edges {
			out = append(out, a.widths(e, depth+1, seen)...)
		}
		return out
	case *ssa.Convert:
		if isFloat32(x.X.Type()) {
			return []fwidth{{k: fwExact}}
		}
		return nil
	case *ssa.ChangeType:
		return a.widths(x.X, depth+1, seen)
	case *ssa.UnOp:
		if x.Op == token.SUB {
			return a.widths(x.X, depth+1, seen)
		}
		return nil
	case *ssa.Extract:
		call, ok := x.Tuple.(*ssa.Call)
		if !ok {
			return nil
		}
		return a.callWidths(call, x.Index, depth, seen)
	case *ssa.Call:
		return a.callWidths(x, 0, depth, seen)
	case *ssa.Lookup:
		return []fwidth{{k: fwExact}}
	}
	return nil
}

func (a *floatAnalysis) callWidths(call *ssa.Call, idx int, depth int, seen map[ssa.Value]bool) []fwidth {
	name := staticCalleeName(&call.Call)
	switch name {
	case "strconv.ParseFloat":
		if idx != 0 || len(call.Call.Args) != 2 {
			return nil
		}
		return a.widthFromArg(call.Call.Args[1], call.Pos())
	case "math.Inf", "math.NaN":
		return []fwidth{{k: fwExact}}
	}
	f := call.Call.StaticCallee()
	if f == nil || !isModFunc(f) || f.Blocks == nil {
		return nil
	}
	sum := a.summary(f)
	var out []fwidth
	for _, w := range sum[idx] {
		if w.k == fwParam {
			// map callee parameter to actual argument
			pi := -1
			for i, p := range f.Params {
				if p == w.p {
					pi = i
				}
			}
			if pi < 0 || pi >= len(call.Call.Args) {
				continue
			}
			out = append(out, a.widthFromArg(call.Call.Args[pi], w.site)...)
			continue
		}
		out = append(out, w)
	}
	return out
}

func (a *floatAnalysis) summary(f *ssa.Function) map[int][]fwidth {
	if s, ok := a.sumMemo[f]; ok {
		return s
	}
	if a.inProg[f] {
		return nil
	}
	a.inProg[f] = true
	defer delete(a.inProg, f)
	sum := map[int][]fwidth{}
	for _, b := range f.Blocks {
		for _, ins := range b.Instrs {
			ret, ok := ins.(*ssa.Return)
			if !ok {
				continue
			}
			for i, r := range ret.Results {
				if isFloat64(r.Type()) {
					sum[i] = append(sum[i], a.widths(r, 0, map[ssa.Value]bool{})...)
				}
			}
		}
	}
	a.sumMemo[f] = sum
	return sum
}

// guardedByParamEq32: block b is dominated by the true edge of `p == 32`.
func guardedByParamEq32(b *ssa.BasicBlock, p *ssa.Parameter) bool {
	for d := b; d != nil; d = d.Idom() {
		id := d.Idom()
		if id == nil {
			break
		}
		ifi, ok := id.Instrs[len(id.Instrs)-1].(*ssa.If)
		if !ok {
			continue
		}
		bo, ok := ifi.Cond.(*ssa.BinOp)
		if !ok {
			continue
		}
		isP := func(v ssa.Value) bool { return v == ssa.Value(p) }
		is32 := func(v ssa.Value) bool {
			c, ok := v.(*ssa.Const)
			if !ok || c.Value == nil || c.Value.Kind() != constant.Int {
				return false
			}
			n, _ := constant.Int64Val(c.Value)
			return n == 32
		}
		if !((isP(bo.X) && is32(bo.Y)) || (isP(bo.Y) && is32(bo.X))) {
			continue
		}
		// d must be reached only via the matching successor
		if bo.Op == token.EQL && id.Succs[0] == d && len(d.Preds) == 1 {
			return true
		}
		if bo.Op == token.NEQ && id.Succs[1] == d && len(d.Preds) == 1 {
			return true
		}
	}
	return false
}

func (c *Ctx) ruleFloatBits(rule string, scope func(pkgShort string) bool, floor int) {
	R, P := c.R, c.P
	R.Rule(rule, "every float64→float32 conversion whose operand derives (SSA def-use, through returns of module functions) from strconv.ParseFloat(s, w) has w == 32, or w is a parameter p and the conversion is dominated by `p == 32` / every caller passes the constant 32; width 64 followed by narrowing double-rounds", floor)
	P.BuildSSA()
	a := &floatAnalysis{c: c, sumMemo: map[*ssa.Function]map[int][]fwidth{}, inProg: map[*ssa.Function]bool{}}
	var fns []*ssa.Function
	for _, fi := range P.AllFuncs() {
		if !scope(shortPkg(fi.Pkg.PkgPath)) {
			continue
		}
		if f := P.SSAFunc(fi); f != nil {
			fns = append(fns, f)
			fns = append(fns, f.AnonFuncs...)
		}
	}
	// callers index for unguarded-parameter obligations
	type pend struct {
		f    *ssa.Function
		p    *ssa.Parameter
		conv *ssa.Convert
	}
	var pending []pend
	for _, f := range fns {
		n := 0
		for _, b := range f.Blocks {
			for _, ins := range b.Instrs {
				cv, ok := ins.(*ssa.Convert)
				if !ok || !isFloat32(cv.Type()) || !isFloat64(cv.X.Type()) {
					continue
				}
				ws := a.widths(cv.X, 0, map[ssa.Value]bool{})
				parse := false
				for _, w := range ws {
					if w.k != fwExact {
						parse = true
					}
				}
				if !parse {
					continue
				}
				n++
				name := fmt.Sprintf("%s float32(...) #%d", ssaFuncName(f), n)
				pos := P.PosOf(cv.Pos())
				ok32 := true
				var det []string
				for _, w := range ws {
					switch w.k {
					case fw64:
						ok32 = false
						det = append(det, "operand comes from strconv.ParseFloat(…, 64) at "+P.PosOf(w.site))
					case fwParam:
						if guardedByParamEq32(b, w.p) {
							det = append(det, "width parameter "+w.p.Name()+" guarded by == 32")
						} else {
							pending = append(pending, pend{f, w.p, cv})
							det = append(det, "width parameter "+w.p.Name()+" (callers checked)")
						}
					case fw32:
						det = append(det, "ParseFloat(…, 32) at "+P.PosOf(w.site))
					case fwVar:
						det = append(det, "ParseFloat width at "+P.PosOf(w.site)+" is selected at run time from {32, 64}; correlation with the narrowing is not decided statically")
					}
				}
				if ok32 {
					R.OK(rule, name, pos, strings.Join(det, "; "))
				} else {
					R.Bad(rule, name, pos, strings.Join(det, "; ")+": the decimal is rounded to the nearest float64 and then to float32, which is not always the nearest float32 (e.g. 7.038531e-26)")
				}
			}
		}
	}
	if len(pending) > 0 {
		// every static caller must pass 32 for p
		all := []*ssa.Function{}
		for f := range ssautilAll(P) {
			all = append(all, f)
		}
		sort.Slice(all, func(i, j int) bool { return all[i].String() < all[j].String() })
		for _, pd := range pending {
			pi := -1
			for i, p := range pd.f.Params {
				if p == pd.p {
					pi = i
				}
			}
			n := 0
			for _, g := range all {
				for _, b := range g.Blocks {
					for _, ins := range b.Instrs {
						ci, ok := ins.(ssa.CallInstruction)
						if !ok || ci.Common().StaticCallee() != pd.f {
							continue
						}
						n++
						name := fmt.Sprintf("%s -> %s width arg #%d", ssaFuncName(g), ssaFuncName(pd.f), n)
						ws := a.widthFromArg(ci.Common().Args[pi], ci.Pos())
						if len(ws) == 1 && ws[0].k == fw32 {
							R.OK(rule, name, P.PosOf(ci.Pos()), "passes 32")
						} else {
							R.Bad(rule, name, P.PosOf(ci.Pos()), "callee narrows its ParseFloat result to float32 unguarded, but this caller does not pass the constant 32 as width")
						}
					}
				}
			}
		}
	}
}

func ssautilAll(P *Program) map[*ssa.Function]bool {
	out := map[*ssa.Function]bool{}
	for _, fi := range P.AllFuncs() {
		if f := P.SSAFunc(fi); f != nil {
			out[f] = true
			var add func(fs []*ssa.Function)
			add = func(fs []*ssa.Function) {
				for _, g := range fs {
					out[g] = true
					add(g.AnonFuncs)
				}
			}
			add(f.AnonFuncs)
		}
	}
	return out
}
