package main

import (
	"go/ast"
	"go/token"
	"go/types"
	"strings"
)

func init() {
	register(&Property{
		ID:         "C14",
		Level:      "other",
		Technique:  "ownership rules: every store of byte-slice data into a message made by a decoder or by merge/clone stores a fresh copy (idiom recognition on all sinks), who-may-set rule on the alias flag, copy-before-retain dominance for the lazy buffer, use-only-as-argument rule for the reader's peeked buffer (static)",
		Explain:    "Decides structural necessary conditions of `decoded and cloned messages never alias caller memory`: (1) every bytes-typed store performed by a fast-path unmarshal function (accessors Bytes/BytesSlice, ValueOfBytes results, list appends) and by the reflection decoder's BytesKind branches stores append(emptyBuf[:], v...) — a fresh copy of the consumed input — never the input slice itself; (2) unknown-field bytes are only appended to the message's own slice, never assigned from a slice of the input; (3) the lazy decoder retains the input buffer only after copying it unless the alias flag is set, and the alias flag is set only there (after the copy) and in the options used to decode from the message-owned lazy buffer; (4) merge and clone copy byte strings and pointer scalars and deep-copy list/map message elements (R-MERGE-CLASS, R-MERGE-REFLECT); (5) protodelim hands the reader's peeked buffer only to Unmarshal and does not retain it; (6) the JSON and text string scanners, which unescape into a slice of their input, clip that slice's capacity so that appending never writes into the caller's input. Value coders (extensions, map values) are covered as well: every valueCoderFuncs literal's merge function has the effect class required by what its marshal function encodes (messages merged or cloned, bytes copied, only scalars and strings shared), and the reflection merge tests one descriptor per copy decision — the map value descriptor for map values — and clones bytes. Also: the reflective decoder's SetUnknown argument is appended onto the message's own unknown bytes, never a sub-slice of the input parameter; the text decoder's unescape buffer is a three-index slice of the input.",
		NotCovered: "aliasing introduced by user-provided Methods or by reflection Set calls made by the caller; string data (immutable, conversion copies by language semantics); sharing of immutable descriptor/type data.",
		Quick:      all("./internal/impl", "./proto", "./encoding/protodelim", "./internal/encoding/json", "./internal/encoding/text"),
		Thorough:   allAndLegacy("./internal/impl", "./proto", "./encoding/protodelim", "./internal/encoding/json", "./internal/encoding/text"),
		Run: func(c *Ctx) {
			c.ruleSetUnknownOwn("R-SETUNKNOWN-OWN")
			c.ruleAppendCapped("R-APPEND-CAPPED", []string{"internal/encoding/text.(*Decoder).parseString"})
			c.ruleBytesCopy("R-BYTES-COPY")
			c.ruleAliasFlag("R-ALIAS-FLAG")
			c.ruleInputNotMutated("R-INPUT-NOT-MUTATED", []string{"internal/encoding/json.(*Decoder).parseString", "internal/encoding/text.(*Decoder).parseString"})
			c.ruleMergeClass("R-MERGE-CLASS", 60)
			c.ruleValueMergeClass("R-VALUE-MERGE-CLASS", 30)
			c.ruleMergeDesc("R-MERGE-DESC")
			c.ruleMergeReflect("R-MERGE-REFLECT")
		},
	})
}

func isFreshBytesExpr(e ast.Expr) bool {
	call, ok := unparen(e).(*ast.CallExpr)
	if !ok || len(call.Args) < 1 {
		return false
	}
	id, ok := call.Fun.(*ast.Ident)
	if !ok || id.Name != "append" {
		return false
	}
	s := exprStr(unparen(call.Args[0]))
	return strings.HasPrefix(s, "emptyBuf[") || s == "[]byte{}" || s == "[]byte(nil)" || s == "([]byte)(nil)"
}

func (c *Ctx) ruleBytesCopy(rule string) {
	R, P := c.R, c.P
	R.Rule(rule, "decoders store byte strings only as fresh copies: every assignment through a Bytes/BytesSlice accessor, every ValueOfBytes in a bytes-kind decoder and every bytes element appended to a list uses append(emptyBuf[:], v...); unknown-field storage is only appended to; the peeked protodelim buffer is used only as the argument of Unmarshal", 10)
	// (1) fast path: functions in unmarshal slots + any function named consumeBytes*
	for _, fi := range P.FuncsIn("internal/impl") {
		if fi.Decl.Body == nil || !strings.HasPrefix(fi.Obj.Name(), "consume") {
			continue
		}
		info := fi.Info()
		if containsCall(info, fi.Decl.Body, "encoding/protowire.ConsumeBytes") == nil {
			continue
		}
		defs := localDefs(fi.Decl.Body, info)
		k := 0
		// which locals alias a Bytes/BytesSlice accessor result
		isBytesAccessor := func(e ast.Expr) bool {
			found := false
			walk(e, func(n ast.Node) bool {
				if call, ok := n.(*ast.CallExpr); ok {
					switch calleeKey(info, call) {
					case "internal/impl.pointer.Bytes", "internal/impl.pointer.BytesSlice", "internal/impl.pointer.BytesPtr":
						found = true
					}
				}
				if id, ok := n.(*ast.Ident); ok {
					for _, d := range defs[objOf(info, id)] {
						if containsCall(info, d.rhs, "internal/impl.pointer.Bytes", "internal/impl.pointer.BytesSlice", "internal/impl.pointer.BytesPtr") != nil {
							found = true
						}
					}
				}
				return true
			})
			return found
		}
		check := func(construct string, pos ast.Node, val ast.Expr) {
			k++
			R.Check(isFreshBytesExpr(val), rule, construct+" #"+itoa(k), P.Pos(pos), "stores append(emptyBuf[:], v...)", "a byte string taken from the input buffer is stored in the message without copying: overwriting the input after Unmarshal changes the message")
		}
		walkAll(fi.Decl.Body, func(n ast.Node) bool {
			switch x := n.(type) {
			case *ast.AssignStmt:
				for i, l := range x.Lhs {
					st, ok := unparen(l).(*ast.StarExpr)
					if !ok || !isBytesAccessor(st.X) || i >= len(x.Rhs) {
						continue
					}
					rhs := x.Rhs[i]
					// slice accessor: *sp = append(*sp, ELEM)
					if call, ok := unparen(rhs).(*ast.CallExpr); ok {
						if id, ok := call.Fun.(*ast.Ident); ok && id.Name == "append" && len(call.Args) >= 2 && exprStr(unparen(call.Args[0])) == exprStr(unparen(l)) {
							for _, el := range call.Args[1:] {
								check(fi.Key+" slice element", x, el)
							}
							continue
						}
					}
					check(fi.Key+" store", x, rhs)
				}
			case *ast.CallExpr:
				if calleeKey(info, x) == "reflect/protoreflect.ValueOfBytes" && len(x.Args) == 1 {
					check(fi.Key+" ValueOfBytes", x, x.Args[0])
				}
			}
			return true
		})
	}
	// (1b) reflection decoder: BytesKind clauses
	for _, fi := range P.FuncsIn("proto") {
		if fi.Decl.Body == nil {
			continue
		}
		info := fi.Info()
		k := 0
		walkAll(fi.Decl.Body, func(n ast.Node) bool {
			cl, ok := n.(*ast.CaseClause)
			if !ok || len(cl.List) != 1 {
				return true
			}
			if kd, ok := kindOfExpr(info, cl.List[0]); !ok || kd != "BytesKind" {
				return true
			}
			for _, st := range cl.Body {
				walk(st, func(y ast.Node) bool {
					if call, ok := y.(*ast.CallExpr); ok && calleeKey(info, call) == "reflect/protoreflect.ValueOfBytes" && len(call.Args) == 1 {
						if containsCall(info, cl, "encoding/protowire.ConsumeBytes") != nil {
							k++
							R.Check(isFreshBytesExpr(call.Args[0]), rule, fi.Key+" BytesKind value #"+itoa(k), P.Pos(call), "stores append(emptyBuf[:], v...)", "the reflection decoder stores a bytes field as a slice of the input buffer")
						}
					}
					return true
				})
			}
			return true
		})
	}
	// (2) unknown-field storage: only appended to
	n2 := 0
	for _, pkg := range []string{"internal/impl", "proto"} {
		for _, fi := range P.FuncsIn(pkg) {
			if fi.Decl.Body == nil {
				continue
			}
			info := fi.Info()
			defs := localDefs(fi.Decl.Body, info)
			walkAll(fi.Decl.Body, func(n ast.Node) bool {
				as, ok := n.(*ast.AssignStmt)
				if !ok || len(as.Lhs) != 1 || len(as.Rhs) != 1 {
					return true
				}
				st, ok := unparen(as.Lhs[0]).(*ast.StarExpr)
				if !ok {
					return true
				}
				id, ok := unparen(st.X).(*ast.Ident)
				if !ok {
					return true
				}
				isUnk := false
				for _, d := range defs[objOf(info, id)] {
					if containsCall(info, d.rhs, "internal/impl.(*MessageInfo).mutableUnknownBytes") != nil {
						isUnk = true
					}
				}
				if !isUnk {
					return true
				}
				n2++
				good := false
				if call, ok := unparen(as.Rhs[0]).(*ast.CallExpr); ok && len(call.Args) >= 1 {
					first := exprStr(unparen(call.Args[0]))
					if first == exprStr(unparen(as.Lhs[0])) {
						good = true // append(*u, …) / protowire.AppendX(*u, …)
					}
				}
				R.Check(good, rule, fi.Key+" unknown store #"+itoa(n2), P.Pos(as), "appends to the message's own unknown bytes", "unknown-field storage is assigned from something other than an append to itself: it may alias the input buffer")
				return true
			})
		}
	}
	// (3) lazy buffer: SetBuffer(b) dominated by alias flag or by the copy of b
	if fi := c.need(rule, "internal/impl.(*MessageInfo).unmarshalPointerLazy"); fi != nil {
		info := fi.Info()
		g := fi.CFG()
		for i, call := range allCalls(info, fi.Decl.Body, "internal/protolazy.(*XXX_lazyUnmarshalInfo).SetBuffer") {
			arg := objOf(info, call.Args[0])
			ok := g.DominatedByCondOrNode(call, func(core ast.Expr, val bool) bool {
				cc, isCall := unparen(core).(*ast.CallExpr)
				return isCall && val && calleeKey(info, cc) == "internal/impl.unmarshalOptions.AliasBuffer"
			}, func(n ast.Node) bool {
				as, isAs := n.(*ast.AssignStmt)
				if !isAs || len(as.Lhs) != 1 || len(as.Rhs) != 1 || objOf(info, as.Lhs[0]) != arg {
					return false
				}
				cp, isCall := unparen(as.Rhs[0]).(*ast.CallExpr)
				if !isCall || len(cp.Args) != 2 || !cp.Ellipsis.IsValid() {
					return false
				}
				id, isID := cp.Fun.(*ast.Ident)
				if !isID || id.Name != "append" || objOf(info, cp.Args[1]) != arg {
					return false
				}
				cl, isCL := unparen(cp.Args[0]).(*ast.CompositeLit)
				return isCL && len(cl.Elts) == 0
			})
			R.Check(ok, rule, fi.Key+" SetBuffer #"+itoa(i+1), P.Pos(call), "buffer copied first unless aliasing was requested", "the lazy decoder retains the caller's buffer without copying it although aliasing was not requested")
		}
	}
	// (5) protodelim: peeked buffer used only as Unmarshal's argument
	if P.Pkg("encoding/protodelim") != nil {
		if fi := c.need(rule, "encoding/protodelim.UnmarshalOptions.UnmarshalFrom"); fi != nil {
			info := fi.Info()
			var bObj types.Object
			walk(fi.Decl.Body, func(n ast.Node) bool {
				if as, ok := n.(*ast.AssignStmt); ok && len(as.Rhs) == 1 {
					if _, ok := isCall(info, unparen(as.Rhs[0]), "bufio.(*Reader).Peek"); ok {
						bObj = objOf(info, as.Lhs[0])
					}
				}
				return true
			})
			if bObj == nil {
				R.Unk(rule, fi.Key+" peeked buffer", P.Pos(fi.Decl), "Peek call not found")
			} else {
				bad := ""
				var stack []ast.Node
				ast.Inspect(fi.Decl.Body, func(n ast.Node) bool {
					if n == nil {
						stack = stack[:len(stack)-1]
						return false
					}
					stack = append(stack, n)
					id, ok := n.(*ast.Ident)
					if !ok || info.Uses[id] != bObj || len(stack) < 2 {
						return true
					}
					switch par := stack[len(stack)-2].(type) {
					case *ast.CallExpr:
						k := calleeKey(info, par)
						if k != "proto.UnmarshalOptions.Unmarshal" && k != "io.ReadFull" {
							bad = P.Pos(id) + " passed to " + k
						}
					case *ast.BinaryExpr: // b == nil
					case *ast.AssignStmt:
						for _, r := range par.Rhs {
							if r == ast.Expr(id) {
								bad = P.Pos(id) + " assigned elsewhere"
							}
						}
					default:
						bad = P.Pos(id)
					}
					return true
				})
				R.Check(bad == "", rule, fi.Key+" peeked buffer", P.Pos(fi.Decl), "used only as Unmarshal's input", "the reader's internal buffer escapes at "+bad)
			}
		}
	}
}

func (c *Ctx) ruleAliasFlag(rule string) {
	R, P := c.R, c.P
	R.Rule(rule, "the UnmarshalAliasBuffer flag is introduced only (a) in unmarshalPointerLazy after the buffer was copied on that path and (b) in the package-level options used to decode from a message-owned lazy buffer; everything else only reads or masks it", 2)
	const flag = "runtime/protoiface.UnmarshalAliasBuffer"
	for _, fi := range P.AllFuncs() {
		if fi.Decl.Body == nil {
			continue
		}
		info := fi.Info()
		k := 0
		walkAll(fi.Decl.Body, func(n ast.Node) bool {
			as, ok := n.(*ast.AssignStmt)
			if !ok || as.Tok != token.OR_ASSIGN && as.Tok != token.ASSIGN {
				return true
			}
			mentions := false
			for _, r := range as.Rhs {
				walk(r, func(y ast.Node) bool {
					if id, ok := y.(*ast.Ident); ok {
						if o := info.Uses[id]; o != nil && qualObj(o) == flag {
							mentions = true
						}
					}
					return true
				})
			}
			if !mentions {
				return true
			}
			k++
			construct := fi.Key + " sets alias flag #" + itoa(k)
			if fi.Key != "internal/impl.(*MessageInfo).unmarshalPointerLazy" {
				R.Bad(rule, construct, P.Pos(as), "the alias flag is set outside the lazy decoder: nested decoders would retain slices of a buffer the message does not own")
				return true
			}
			g := fi.CFG()
			ok2 := g.DominatedByNode(as, func(x ast.Node) bool {
				a2, isAs := x.(*ast.AssignStmt)
				if !isAs || len(a2.Rhs) != 1 {
					return false
				}
				cp, isCall := unparen(a2.Rhs[0]).(*ast.CallExpr)
				if !isCall || !cp.Ellipsis.IsValid() || len(cp.Args) != 2 {
					return false
				}
				cl, isCL := unparen(cp.Args[0]).(*ast.CompositeLit)
				return isCL && len(cl.Elts) == 0 && exprStr(a2.Lhs[0]) == exprStr(cp.Args[1])
			})
			R.Check(ok2, rule, construct, P.Pos(as), "set after the buffer was copied on this path", "the alias flag is set on a path that did not copy the buffer first")
			return true
		})
	}
	// package-level uses: only lazyUnmarshalOptions may carry the flag
	if pk := P.Pkg("internal/impl"); pk != nil {
		info := pk.TypesInfo
		for _, f := range pk.Syntax {
			for _, d := range f.Decls {
				gd, ok := d.(*ast.GenDecl)
				if !ok || gd.Tok != token.VAR {
					continue
				}
				for _, sp := range gd.Specs {
					vs := sp.(*ast.ValueSpec)
					for i, v := range vs.Values {
						mentions := false
						ast.Inspect(v, func(y ast.Node) bool {
							if id, ok := y.(*ast.Ident); ok {
								if o := info.Uses[id]; o != nil && qualObj(o) == flag {
									mentions = true
								}
							}
							return true
						})
						if mentions {
							name := vs.Names[i].Name
							R.Check(name == "lazyUnmarshalOptions", rule, "internal/impl."+name, P.Pos(v), "options for decoding from the message-owned lazy buffer", "a package-level options value other than lazyUnmarshalOptions carries the alias flag")
						}
					}
				}
			}
		}
	}
}

// R-INPUT-NOT-MUTATED: a scanner that builds its output by appending to a
// slice of the input must clip that slice's capacity (three-index slice), or
// the append writes into the caller's buffer.
func (c *Ctx) ruleInputNotMutated(rule string, keys []string) {
	R, P := c.R, c.P
	R.Rule(rule, "in the string scanners that unescape into a slice taken from the input (`out := in[:i:i]`), every variable that is the target of `x = append(x, …)` and is initialised from a slice of the input is initialised with a three-index slice whose capacity equals its length, so appending reallocates instead of overwriting the caller's input", len(keys))
	for _, key := range keys {
		fi := c.need(rule, key)
		if fi == nil {
			continue
		}
		info := fi.Info()
		defs := localDefs(fi.Decl.Body, info)
		targets := map[types.Object]bool{}
		walkAll(fi.Decl.Body, func(n ast.Node) bool {
			if call, ok := n.(*ast.CallExpr); ok {
				if id, ok := call.Fun.(*ast.Ident); ok && id.Name == "append" && len(call.Args) >= 1 {
					if o := objOf(info, call.Args[0]); o != nil {
						targets[o] = true
					}
				}
			}
			return true
		})
		n := 0
		for o := range targets {
			if !isByteSlice(o.Type()) {
				continue
			}
			for _, d := range defs[o] {
				se, ok := unparen(d.rhs).(*ast.SliceExpr)
				if !ok {
					continue
				}
				// slice of a parameter-derived buffer?
				n++
				good := se.Slice3 && se.Max != nil && se.High != nil && exprStr(se.Max) == exprStr(se.High)
				R.Check(good, rule, key+" "+o.Name(), P.Pos(se), "capacity clipped (`"+exprStr(se)+"`)", "`"+o.Name()+"` is a slice of the input with spare capacity and is appended to: unescaping overwrites the caller's input buffer in place")
			}
		}
		if n == 0 {
			R.Unk(rule, key, P.Pos(fi.Decl), "no output slice initialised from the input found: scanner idiom not recognised")
		}
	}
}
