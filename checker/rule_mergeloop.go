package main

import (
	"go/ast"
	"go/token"
	"go/types"
	"sort"
	"strings"
)

// R-MERGE-LOOP: the per-field loop of the fast-path Merge/Clone
// (MessageInfo.mergePointer) is read as a decision procedure over the field
// state and evaluated for every assignment of its atoms:
//
//	hasMerge   the field has a merge function        tracked    presence-bitmap field
//	srcPresent source presence bit                    dstPresent destination presence bit
//	isLazy / isPointer                                srcNil / dstNil   slot pointer is nil
//
// Required in every state (under the invariant lazy ⇒ pointer ∧ tracked):
// the field is merged iff it has a merge function and is populated in the
// source — by its presence bit if tracked (a nil slot with the bit set is a
// lazy field not yet decoded, not an unset field), by a non-nil pointer
// otherwise; and when a lazy field is merged, a still-undecoded source is
// decoded first and a still-undecoded populated destination is decoded first
// (else the merged child shadows the destination's undecoded bytes).
type mergeLoopEval struct {
	info    *types.Info
	side    map[types.Object]string // local → "src" | "dst"
	atoms   map[string]bool
	seen    map[string]bool
	fail    string
	merged  bool
	srcDec  bool
	dstDec  bool
	stopped bool
}

func (e *mergeLoopEval) sideOf(x ast.Expr) string {
	x = unparen(x)
	switch v := x.(type) {
	case *ast.Ident:
		if s, ok := e.side[e.info.Uses[v]]; ok {
			return s
		}
		if v.Name == "src" || v.Name == "dst" {
			return v.Name
		}
	case *ast.CallExpr:
		if se, ok := v.Fun.(*ast.SelectorExpr); ok {
			return e.sideOf(se.X)
		}
	case *ast.SelectorExpr:
		return e.sideOf(v.X)
	}
	return ""
}

func (e *mergeLoopEval) atom(a string) bool {
	e.seen[a] = true
	return e.atoms[a]
}

func (e *mergeLoopEval) cond(x ast.Expr) bool {
	x = unparen(x)
	switch c := x.(type) {
	case *ast.UnaryExpr:
		if c.Op == token.NOT {
			return !e.cond(c.X)
		}
	case *ast.BinaryExpr:
		switch c.Op {
		case token.LAND:
			return e.cond(c.X) && e.cond(c.Y)
		case token.LOR:
			return e.cond(c.X) || e.cond(c.Y)
		case token.EQL, token.NEQ:
			l := exprStr(c.X)
			var v bool
			switch {
			case strings.HasSuffix(l, ".funcs.merge") && isNilIdent(e.info, c.Y):
				v = !e.atom("hasMerge") // == nil
			case strings.HasSuffix(l, ".presenceIndex"):
				v = !e.atom("tracked") // == noPresence
			default:
				e.fail = "unrecognised comparison " + exprStr(x)
				return false
			}
			if c.Op == token.NEQ {
				return !v
			}
			return v
		}
	case *ast.SelectorExpr:
		switch c.Sel.Name {
		case "isLazy":
			return e.atom("isLazy")
		case "isPointer":
			return e.atom("isPointer")
		}
	case *ast.CallExpr:
		se, ok := c.Fun.(*ast.SelectorExpr)
		if ok {
			switch se.Sel.Name {
			case "Present":
				if s := e.sideOf(se.X); s != "" {
					return e.atom(s + "Present")
				}
			case "IsNil":
				if s := e.sideOf(se.X); s != "" {
					return e.atom(s + "Nil")
				}
			}
		}
	}
	e.fail = "unrecognised condition " + exprStr(x)
	return false
}

func (e *mergeLoopEval) exec(stmts []ast.Stmt) {
	for _, st := range stmts {
		if e.stopped || e.fail != "" {
			return
		}
		switch s := st.(type) {
		case *ast.AssignStmt:
			// sfptr := src.Apply(f.offset)
			if len(s.Lhs) == 1 && len(s.Rhs) == 1 {
				if id, ok := s.Lhs[0].(*ast.Ident); ok {
					if sd := e.sideOf(s.Rhs[0]); sd != "" {
						if o := e.info.Defs[id]; o != nil {
							e.side[o] = sd
						}
					}
				}
			}
		case *ast.IfStmt:
			if s.Init != nil {
				e.exec([]ast.Stmt{s.Init})
			}
			if e.cond(s.Cond) {
				e.exec(s.Body.List)
			} else if s.Else != nil {
				switch el := s.Else.(type) {
				case *ast.BlockStmt:
					e.exec(el.List)
				case *ast.IfStmt:
					e.exec([]ast.Stmt{el})
				}
			}
		case *ast.BranchStmt:
			if s.Tok == token.CONTINUE {
				e.stopped = true
				return
			}
			e.fail = "branch " + s.Tok.String()
		case *ast.ExprStmt:
			call, ok := s.X.(*ast.CallExpr)
			if !ok {
				continue
			}
			fn := exprStr(call.Fun)
			switch {
			case strings.HasSuffix(fn, ".lazyUnmarshal") && len(call.Args) >= 1:
				switch e.sideOf(call.Args[0]) {
				case "src":
					e.srcDec = true
				case "dst":
					e.dstDec = true
				default:
					e.fail = "lazyUnmarshal of an unknown message"
				}
			case strings.HasSuffix(fn, ".funcs.merge"):
				e.merged = true
				// snapshot: decodes after the merge do not count
				if !e.srcDec {
					e.atoms["__srcDecBeforeMerge"] = false
				}
			}
		}
	}
}

func (c *Ctx) ruleMergeLoop(rule string) {
	R, P := c.R, c.P
	R.Rule(rule, "the per-field loop of MessageInfo.mergePointer, evaluated for every assignment of its atoms: a field is merged iff it has a merge function and is populated in the source (presence bit if tracked, non-nil pointer otherwise); a merged lazy field has an undecoded source and an undecoded populated destination decoded before the merge", 1)
	fi := c.need(rule, "internal/impl.(*MessageInfo).mergePointer")
	if fi == nil {
		return
	}
	info := fi.Info()
	var loop *ast.RangeStmt
	walk(fi.Decl.Body, func(n ast.Node) bool {
		if rs, ok := n.(*ast.RangeStmt); ok && loop == nil && strings.HasSuffix(exprStr(rs.X), "orderedCoderFields") {
			loop = rs
		}
		return true
	})
	if loop == nil {
		R.Unk(rule, fi.Key, P.Pos(fi.Decl), "field loop not found")
		return
	}
	// sides of the locals defined before the loop (presenceSrc, presenceDst)
	pre := map[types.Object]string{}
	pe := &mergeLoopEval{info: info, side: pre, atoms: map[string]bool{}, seen: map[string]bool{}}
	walk(fi.Decl.Body, func(n ast.Node) bool {
		if n == ast.Node(loop) {
			return false
		}
		if as, ok := n.(*ast.AssignStmt); ok && len(as.Lhs) == 1 && len(as.Rhs) == 1 {
			if id, ok := as.Lhs[0].(*ast.Ident); ok {
				if sd := pe.sideOf(as.Rhs[0]); sd != "" {
					o := info.Defs[id]
					if o == nil {
						o = info.Uses[id]
					}
					if o != nil {
						pre[o] = sd
					}
				}
			}
		}
		return true
	})
	names := []string{"hasMerge", "tracked", "srcPresent", "dstPresent", "isLazy", "isPointer", "srcNil", "dstNil"}
	bad, undec := "", ""
	checked := 0
	for m := 0; m < 1<<len(names) && bad == "" && undec == ""; m++ {
		as := map[string]bool{}
		for i, n := range names {
			as[n] = m&(1<<i) != 0
		}
		if as["isLazy"] && !(as["isPointer"] && as["tracked"]) {
			continue // invariant: lazy fields are pointer fields with a presence bit
		}
		side := map[types.Object]string{}
		for o, s := range pre {
			side[o] = s
		}
		e := &mergeLoopEval{info: info, side: side, atoms: as, seen: map[string]bool{}}
		e.exec(loop.Body.List)
		if e.fail != "" {
			undec = e.fail
			break
		}
		checked++
		want := as["hasMerge"] && ((as["tracked"] && as["srcPresent"]) || (!as["tracked"] && !(as["isPointer"] && as["srcNil"])))
		var on []string
		for _, n := range names {
			if as[n] {
				on = append(on, n)
			}
		}
		sort.Strings(on)
		st := "{" + strings.Join(on, ", ") + "}"
		switch {
		case e.merged != want && want:
			bad = "in state " + st + " the field is populated in the source but is not merged: Clone/Merge drop it (a nil slot with the presence bit set is a lazy field that was not decoded yet, not an unset field)"
		case e.merged != want:
			bad = "in state " + st + " the field is merged although it is not populated in the source (or has no merge function)"
		case e.merged && as["isLazy"] && as["srcNil"] && !e.srcDec:
			bad = "in state " + st + " a still-undecoded lazy source field is merged without being decoded first"
		case e.merged && as["isLazy"] && as["dstPresent"] && as["dstNil"] && !e.dstDec:
			bad = "in state " + st + " the destination holds the lazy field in undecoded form and is not decoded before the merge: the merged child shadows the undecoded bytes and the destination's previous content of the field is lost"
		}
	}
	construct := fi.Key + " per-field decisions"
	switch {
	case undec != "":
		R.Unk(rule, construct, P.Pos(loop), "outside the recognised statements: "+undec)
	case bad != "":
		R.Bad(rule, construct, P.Pos(loop), bad)
	default:
		R.OK(rule, construct, P.Pos(loop), itoa(checked)+" field states agree with the presence discipline")
	}
	R.Assumptions = append(R.Assumptions, rule+": a lazy field is a pointer field with a presence bit (as in R-MSG-LOOP-PARITY)")
}

// R-PRESENCE-WORDS: the presence bitmap is an array of uint32 words; bit num
// lives in word num/32 (toElem, PresentInCache). A scan over "all words"
// (AnyPresent) must therefore cover ceil(size/32) words for a bitmap of size
// bits: the word-count expression is evaluated for every size 0..4096.
func (c *Ctx) rulePresenceWords(rule string) {
	R, P := c.R, c.P
	R.Rule(rule, "presence.AnyPresent scans n words with n == ceil(size/32) for every bitmap size 0..4096 (bit num is stored in word num/32), so no populated field is overlooked and no word beyond the bitmap is read", 1)
	fi := c.need(rule, "internal/impl.presence.AnyPresent")
	if fi == nil {
		return
	}
	info := fi.Info()
	var sizeObj types.Object
	for _, f := range fi.Decl.Type.Params.List {
		for _, nm := range f.Names {
			sizeObj = info.Defs[nm]
		}
	}
	// loop bound
	var bound ast.Expr
	defs := localDefs(fi.Decl.Body, info)
	walk(fi.Decl.Body, func(n ast.Node) bool {
		if fs, ok := n.(*ast.ForStmt); ok && bound == nil {
			if be, ok := unparen(fs.Cond).(*ast.BinaryExpr); ok && be.Op == token.LSS {
				bound = be.Y
				if id, ok := unparen(be.Y).(*ast.Ident); ok {
					if ds := defs[info.Uses[id]]; len(ds) == 1 {
						bound = ds[0].rhs
					}
				}
			}
		}
		return true
	})
	if bound == nil || sizeObj == nil {
		R.Unk(rule, fi.Key, P.Pos(fi.Decl), "word loop `for j := 0; j < n; j++` not found")
		return
	}
	bad := ""
	for s := int64(0); s <= 4096 && bad == ""; s++ {
		v, ok := evalInt(info, bound, map[types.Object]int64{sizeObj: s})
		if !ok {
			R.Unk(rule, fi.Key+" word count", P.Pos(bound), "word-count expression "+exprStr(bound)+" cannot be evaluated")
			return
		}
		if want := (s + 31) / 32; v != want {
			bad = "for a bitmap of " + itoa64(s) + " bits the scan covers " + itoa64(v) + " words instead of " + itoa64(want)
		}
	}
	R.Check(bad == "", rule, fi.Key+" word count", P.Pos(bound), exprStr(bound)+" == ceil(size/32) for sizes 0..4096", bad+": fields whose presence bit lies in a word that is not scanned are overlooked — a populated message is taken for an empty one (its lazy buffer is then replaced by a merging Unmarshal)")
}
